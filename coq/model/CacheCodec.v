(* Model of eos/cache_handler/json_cache_handler.py (JsonCacheHandler).

   Implementation-shaped: the positional compress/decompress tuples, the
   keyword-argument constructors with their defaults, the step-by-step memory
   update (clears, fills that stop half-way when an element is bad, position of
   the fingerprint assignment) and the try/except/else of the loader.
   Everything that depends on the source text is a TABLE argument (record
   [tables], [load_shape]); the tables are regenerated from the repository by
   harness/tables_cache.py into gen/T_cache.v.

   Python values that can live in a cache file are JSON trees [J].  Object
   fields hold [J] values: the decompressors do not validate anything, so a
   wrong-shaped file produces objects with arbitrary JSON in their fields.
   IntEnum members are identified with their integer value and tuples with
   lists (that is what json.dumps does to them).

   Every partial Python operation (subscript, iteration, unpacking, hashing,
   int(), keyword binding) has an explicit [Raise] outcome. *)
From Coq Require Import ZArith QArith List String Ascii Bool.
Import ListNotations.
Local Open Scope string_scope.
Local Open Scope list_scope.

(* ------------------------------------------------------------------ *)
(* JSON trees = results of json.loads                                   *)

Inductive J : Type :=
| JNull
| JBool (b : bool)
| JInt (z : Z)
| JNum (q : Q)               (* finite float, exact value *)
| JInf (neg : bool)          (* Infinity / -Infinity *)
| JStr (s : string)
| JList (l : list J)
| JDict (d : list (string * J)).

Inductive exn : Type :=
| KeyError | TypeError | IndexError | ValueError | OverflowError
| AttributeError | EffectFetchError
| ReadError      (* anything raised by open/bz2/decode/json.loads *)
| Unmodelled.    (* table refers to something the model has no counterpart for *)

Inductive res (A : Type) : Type :=
| Ok (a : A)
| Raise (e : exn).
Arguments Ok {A}. Arguments Raise {A}.

Definition bind {A B} (x : res A) (f : A -> res B) : res B :=
  match x with Ok a => f a | Raise e => Raise e end.
Notation "x <- a ;; b" := (bind a (fun x => b))
  (at level 61, a at next level, right associativity).

Fixpoint mapM {A B} (f : A -> res B) (l : list A) : res (list B) :=
  match l with
  | [] => Ok []
  | x :: r => y <- f x ;; ys <- mapM f r ;; Ok (y :: ys)
  end.

Fixpoint foldM {A S} (f : S -> A -> res S) (s : S) (l : list A) : res S :=
  match l with
  | [] => Ok s
  | x :: r => s' <- f s x ;; foldM f s' r
  end.

(* ------------------------------------------------------------------ *)
(* Python primitives on J                                               *)

Definition chars (s : string) : list J :=
  map (fun c => JStr (String c EmptyString)) (list_ascii_of_string s).

(* for x in v *)
Definition py_iter (x : J) : res (list J) :=
  match x with
  | JList l => Ok l
  | JStr s => Ok (chars s)
  | JDict d => Ok (map (fun kv => JStr (fst kv)) d)
  | _ => Raise TypeError
  end.

(* v[i], i a non-negative literal *)
Definition py_index (x : J) (i : nat) : res J :=
  match x with
  | JList l => match nth_error l i with Some v => Ok v | None => Raise IndexError end
  | JStr s => match nth_error (chars s) i with Some v => Ok v | None => Raise IndexError end
  | JDict _ => Raise KeyError     (* keys of a parsed JSON object are strings *)
  | _ => Raise TypeError
  end.

Fixpoint assoc {V} (k : string) (d : list (string * V)) : option V :=
  match d with
  | [] => None
  | (k', v) :: r => if String.eqb k k' then Some v else assoc k r
  end.

(* v['key'] *)
Definition py_key (x : J) (k : string) : res J :=
  match x with
  | JDict d => match assoc k d with Some v => Ok v | None => Raise KeyError end
  | _ => Raise TypeError
  end.

(* a, b = v *)
Definition py_unpack2 (x : J) : res (J * J) :=
  l <- py_iter x ;;
  match l with [a; b] => Ok (a, b) | _ => Raise ValueError end.

Definition hashable (x : J) : bool :=
  match x with JList _ | JDict _ => false | _ => true end.

Definition key_num (x : J) : option Q :=
  match x with
  | JBool b => Some (if b then 1 else 0)%Q
  | JInt z => Some (inject_Z z)
  | JNum q => Some q
  | _ => None
  end.

(* == between hashable values (dict key identity): 1 == 1.0 == True *)
Definition pyeq (a b : J) : bool :=
  match key_num a, key_num b with
  | Some x, Some y => Qeq_bool x y
  | None, None =>
    match a, b with
    | JNull, JNull => true
    | JInf n, JInf m => Bool.eqb n m
    | JStr s, JStr t => String.eqb s t
    | _, _ => false
    end
  | _, _ => false
  end.

Fixpoint dict_get {V} (d : list (J * V)) (k : J) : option V :=
  match d with
  | [] => None
  | (k', v) :: r => if pyeq k' k then Some v else dict_get r k
  end.

Fixpoint dict_put {V} (d : list (J * V)) (k : J) (v : V) : list (J * V) :=
  match d with
  | [] => [(k, v)]
  | (k', v') :: r => if pyeq k' k then (k', v) :: r else (k', v') :: dict_put r k v
  end.

(* d[k] = v : unhashable key -> TypeError; existing key keeps its place *)
Definition dict_set {V} (d : list (J * V)) (k : J) (v : V) : res (list (J * V)) :=
  if hashable k then Ok (dict_put d k v) else Raise TypeError.

(* bool(v) *)
Definition truthy (x : J) : bool :=
  match x with
  | JNull => false
  | JBool b => b
  | JInt z => negb (Z.eqb z 0)
  | JNum q => negb (Qeq_bool q 0)
  | JInf _ => true
  | JStr s => negb (String.eqb s "")
  | JList l => match l with [] => false | _ => true end
  | JDict d => match d with [] => false | _ => true end
  end.

Fixpoint digits (s : string) (acc : Z) : option Z :=
  match s with
  | EmptyString => Some acc
  | String c r =>
    let n := nat_of_ascii c in
    if (48 <=? n)%nat && (n <=? 57)%nat
    then digits r (acc * 10 + Z.of_nat (n - 48)) else None
  end.

(* int('...') for the class [+-]?[0-9]+ (whitespace, underscores and
   non-ASCII digits, which Python also accepts, are outside the model) *)
Definition int_of_string (s : string) : option Z :=
  match s with
  | EmptyString => None
  | String c r =>
    if Ascii.eqb c "+"%char then
      match r with EmptyString => None | _ => digits r 0 end
    else if Ascii.eqb c "-"%char then
      match r with EmptyString => None | _ => option_map Z.opp (digits r 0) end
    else digits s 0
  end.

(* int(v) *)
Definition py_int (x : J) : res Z :=
  match x with
  | JBool b => Ok (if b then 1 else 0)%Z
  | JInt z => Ok z
  | JNum q => Ok (Z.quot (Qnum q) (Zpos (Qden q)))
  | JInf _ => Raise OverflowError
  | JStr s => match int_of_string s with Some z => Ok z | None => Raise ValueError end
  | _ => Raise TypeError
  end.

(* ------------------------------------------------------------------ *)
(* The five cached entities (fields = Python attribute values)          *)

Record modifier := mkMod {
  m_filter : J; m_domain : J; m_extra : J; m_attr : J;
  m_op : J; m_aggmode : J; m_aggkey : J; m_affector : J }.

Record effect := mkEffect {
  e_id : J; e_cat : J; e_off : bool; e_assist : bool;
  e_dur : J; e_dis : J; e_range : J; e_falloff : J; e_track : J;
  e_fuc : J; e_resist : J; e_status : J; e_mods : list modifier }.

Record attribute := mkAttr {
  a_id : J; a_max : J; a_default : J; a_hig : bool; a_stack : bool }.

Record typ := mkType {
  t_id : J; t_group : J; t_cat : J;
  t_attrs : list (J * J);                  (* {attr id: value} *)
  t_effects : list (J * effect);           (* {effect id: effect} *)
  t_default : option effect;
  t_abil : list (J * (J * J));             (* {ability id: AbilityData(cooldown, charges)} *)
  t_skills : list (J * J) }.               (* {skill type id: level} *)

Record buff := mkBuff {
  b_id : J; b_filter : J; b_extra : J; b_attr : J; b_op : J; b_aggmode : J }.

(* Python values that occur as constructor arguments / attribute values *)
Inductive pval : Type :=
| PJ (j : J)
| PMods (l : list modifier)
| PPairs (l : list (J * J))
| PAbils (l : list (J * (J * J)))
| PEffs (l : list effect)
| PEffDict (l : list (J * effect))
| POptEff (o : option effect)
| PEmptyTuple_
| PEmptyDict_.

(* ------------------------------------------------------------------ *)
(* Table vocabulary (what harness/tables_cache.py emits)                *)

Inductive cexpr : Type :=
| CAttr (n : string)     (* obj.n *)
| CItems (n : string)    (* tuple(obj.n.items()) *)
| CKeys (n : string)     (* tuple(obj.n.keys()) *)
| CSubId (n : string)    (* obj.n.id if obj.n is not None else None *)
| CSub (n : string).     (* tuple(modifier_compress(m) for m in obj.n) *)

Inductive dexpr : Type :=
| DIdx (i : nat)         (* data[i] *)
| DDictComp (i : nat)    (* {k: v for k, v in data[i]} *)
| DEffects (i : nat)     (* tuple(self.get_effect(x) for x in data[i]) *)
| DDefault (i : nat)     (* None if data[i] is None else self.get_effect(data[i]) *)
| DAbil (i : nat)        (* {k: AbilityData( *v ) for k, v in data[i]} *)
| DSub (i : nat).        (* tuple(modifier_decompress(x) for x in data[i]) *)

Inductive pdef : Type := PRequired | PNone | PTrue | PFalse | PEmptyTuple.
Inductive iconv : Type := IPlain | IBool | IEmptyIfNone | IById.

Inductive storage : Type := SType | SAttr | SEffect | SBuff.
Inductive step : Type :=
| Clear (s : storage)
| Fill (s : storage) (key : string)
| SetFp (key : string)
| ResetFp.
Inductive where_ : Type := InTry | InElse.
Inductive ckey : Type := KObjs (s : storage) (pos : nat) | KFingerprint.
Inductive ustep : Type := UPersist | UMemory.

Record ctor := mkCtor {
  c_params : list (string * pdef);
  c_init : list (string * string * iconv) }.

Record tables := mkTables {
  tb_type_c : list cexpr;  tb_type_d : list (string * dexpr);
  tb_attr_c : list cexpr;  tb_attr_d : list (string * dexpr);
  tb_eff_c : list cexpr;   tb_eff_d : list (string * dexpr);
  tb_mod_c : list cexpr;   tb_mod_d : list (string * dexpr);
  tb_buff_c : list cexpr;  tb_buff_d : list (string * dexpr);
  tb_steps : list step;
  tb_keys : list (string * ckey) }.

Record ctors := mkCtors {
  ct_type : ctor; ct_attr : ctor; ct_eff : ctor; ct_mod : ctor; ct_buff : ctor }.

Record load_shape := mkLoad {
  ls_where : where_;
  ls_handler : list step;
  ls_catch_all : bool }.

(* ------------------------------------------------------------------ *)
(* Attribute access by name (getattr) and object construction by name   *)

Definition jb (b : bool) : pval := PJ (JBool b).

Definition mod_fields (m : modifier) : list (string * pval) :=
  [("affectee_filter", PJ (m_filter m)); ("affectee_domain", PJ (m_domain m));
   ("affectee_filter_extra_arg", PJ (m_extra m)); ("affectee_attr_id", PJ (m_attr m));
   ("operator", PJ (m_op m)); ("aggregate_mode", PJ (m_aggmode m));
   ("aggregate_key", PJ (m_aggkey m)); ("affector_attr_id", PJ (m_affector m))].

Definition effect_fields (e : effect) : list (string * pval) :=
  [("id", PJ (e_id e)); ("category_id", PJ (e_cat e));
   ("is_offensive", jb (e_off e)); ("is_assistance", jb (e_assist e));
   ("duration_attr_id", PJ (e_dur e)); ("discharge_attr_id", PJ (e_dis e));
   ("range_attr_id", PJ (e_range e)); ("falloff_attr_id", PJ (e_falloff e));
   ("tracking_speed_attr_id", PJ (e_track e));
   ("fitting_usage_chance_attr_id", PJ (e_fuc e));
   ("resist_attr_id", PJ (e_resist e)); ("build_status", PJ (e_status e));
   ("modifiers", PMods (e_mods e))].

Definition attr_fields (a : attribute) : list (string * pval) :=
  [("id", PJ (a_id a)); ("max_attr_id", PJ (a_max a));
   ("default_value", PJ (a_default a));
   ("high_is_good", jb (a_hig a)); ("stackable", jb (a_stack a))].

Definition type_fields (t : typ) : list (string * pval) :=
  [("id", PJ (t_id t)); ("group_id", PJ (t_group t)); ("category_id", PJ (t_cat t));
   ("attrs", PPairs (t_attrs t)); ("effects", PEffDict (t_effects t));
   ("default_effect", POptEff (t_default t));
   ("abilities_data", PAbils (t_abil t)); ("required_skills", PPairs (t_skills t))].

Definition buff_fields (b : buff) : list (string * pval) :=
  [("buff_id", PJ (b_id b)); ("affectee_filter", PJ (b_filter b));
   ("affectee_filter_extra_arg", PJ (b_extra b)); ("affectee_attr_id", PJ (b_attr b));
   ("operator", PJ (b_op b)); ("aggregate_mode", PJ (b_aggmode b))].

(* obj.n : AttributeError when the object has no such attribute *)
Definition getattr (fs : list (string * pval)) (n : string) : res pval :=
  match assoc n fs with Some v => Ok v | None => Raise AttributeError end.

Definition as_J (v : pval) : res J :=
  match v with PJ j => Ok j | _ => Raise Unmodelled end.
Definition as_bool (v : pval) : res bool :=
  match v with PJ (JBool b) => Ok b | _ => Raise Unmodelled end.
Definition as_mods (v : pval) : res (list modifier) :=
  match v with PMods l => Ok l | PEmptyTuple_ => Ok [] | _ => Raise Unmodelled end.
Definition as_pairs (v : pval) : res (list (J * J)) :=
  match v with PPairs l => Ok l | PEmptyDict_ => Ok [] | _ => Raise Unmodelled end.
Definition as_abils (v : pval) : res (list (J * (J * J))) :=
  match v with PAbils l => Ok l | PEmptyDict_ => Ok [] | _ => Raise Unmodelled end.
Definition as_effdict (v : pval) : res (list (J * effect)) :=
  match v with PEffDict l => Ok l | _ => Raise Unmodelled end.
Definition as_opteff (v : pval) : res (option effect) :=
  match v with POptEff o => Ok o | PJ JNull => Ok None | _ => Raise Unmodelled end.

Definition fld {A} (fs : list (string * pval)) (n : string) (c : pval -> res A) : res A :=
  match assoc n fs with Some v => c v | None => Raise Unmodelled end.

Definition mod_of_fields (f : list (string * pval)) : res modifier :=
  x0 <- fld f "affectee_filter" as_J ;; x1 <- fld f "affectee_domain" as_J ;;
  x2 <- fld f "affectee_filter_extra_arg" as_J ;; x3 <- fld f "affectee_attr_id" as_J ;;
  x4 <- fld f "operator" as_J ;; x5 <- fld f "aggregate_mode" as_J ;;
  x6 <- fld f "aggregate_key" as_J ;; x7 <- fld f "affector_attr_id" as_J ;;
  Ok (mkMod x0 x1 x2 x3 x4 x5 x6 x7).

Definition effect_of_fields (f : list (string * pval)) : res effect :=
  x0 <- fld f "id" as_J ;; x1 <- fld f "category_id" as_J ;;
  x2 <- fld f "is_offensive" as_bool ;; x3 <- fld f "is_assistance" as_bool ;;
  x4 <- fld f "duration_attr_id" as_J ;; x5 <- fld f "discharge_attr_id" as_J ;;
  x6 <- fld f "range_attr_id" as_J ;; x7 <- fld f "falloff_attr_id" as_J ;;
  x8 <- fld f "tracking_speed_attr_id" as_J ;;
  x9 <- fld f "fitting_usage_chance_attr_id" as_J ;;
  x10 <- fld f "resist_attr_id" as_J ;; x11 <- fld f "build_status" as_J ;;
  x12 <- fld f "modifiers" as_mods ;;
  Ok (mkEffect x0 x1 x2 x3 x4 x5 x6 x7 x8 x9 x10 x11 x12).

Definition attr_of_fields (f : list (string * pval)) : res attribute :=
  x0 <- fld f "id" as_J ;; x1 <- fld f "max_attr_id" as_J ;;
  x2 <- fld f "default_value" as_J ;;
  x3 <- fld f "high_is_good" as_bool ;; x4 <- fld f "stackable" as_bool ;;
  Ok (mkAttr x0 x1 x2 x3 x4).

Definition type_of_fields (f : list (string * pval)) : res typ :=
  x0 <- fld f "id" as_J ;; x1 <- fld f "group_id" as_J ;; x2 <- fld f "category_id" as_J ;;
  x3 <- fld f "attrs" as_pairs ;; x4 <- fld f "effects" as_effdict ;;
  x5 <- fld f "default_effect" as_opteff ;;
  x6 <- fld f "abilities_data" as_abils ;; x7 <- fld f "required_skills" as_pairs ;;
  Ok (mkType x0 x1 x2 x3 x4 x5 x6 x7).

Definition buff_of_fields (f : list (string * pval)) : res buff :=
  x0 <- fld f "buff_id" as_J ;; x1 <- fld f "affectee_filter" as_J ;;
  x2 <- fld f "affectee_filter_extra_arg" as_J ;; x3 <- fld f "affectee_attr_id" as_J ;;
  x4 <- fld f "operator" as_J ;; x5 <- fld f "aggregate_mode" as_J ;;
  Ok (mkBuff x0 x1 x2 x3 x4 x5).

(* Class(k=v, ...): unknown keyword / missing required parameter -> TypeError *)
Definition bind_params (params : list (string * pdef)) (args : list (string * pval))
  : res (list (string * pval)) :=
  if forallb (fun a => existsb (String.eqb (fst a)) (map fst params)) args
  then mapM (fun p : string * pdef =>
               match assoc (fst p) args with
               | Some v => Ok (fst p, v)
               | None =>
                 match snd p with
                 | PRequired => Raise TypeError
                 | PNone => Ok (fst p, PJ JNull)
                 | PTrue => Ok (fst p, PJ (JBool true))
                 | PFalse => Ok (fst p, PJ (JBool false))
                 | PEmptyTuple => Ok (fst p, PEmptyTuple_)
                 end
               end) params
  else Raise TypeError.

Definition by_id (l : list effect) : res (list (J * effect)) :=
  foldM (fun d e => dict_set d (e_id e) e) [] l.

Definition conv_apply (c : iconv) (v : pval) : res pval :=
  match c with
  | IPlain => Ok v
  | IBool => match v with
             | PJ j => Ok (PJ (JBool (truthy j)))
             | _ => Raise Unmodelled
             end
  | IEmptyIfNone => match v with PJ JNull => Ok PEmptyDict_ | _ => Ok v end
  | IById => match v with
             | PEffs l => d <- by_id l ;; Ok (PEffDict d)
             | PEmptyTuple_ => Ok (PEffDict [])
             | _ => Raise Unmodelled
             end
  end.

(* the body of __init__: attribute <- conversion(parameter) *)
Definition run_init (c : ctor) (args : list (string * pval)) : res (list (string * pval)) :=
  bound <- bind_params (c_params c) args ;;
  mapM (fun a : string * string * iconv =>
          match assoc (snd (fst a)) bound with
          | Some v => v' <- conv_apply (snd a) v ;; Ok (fst (fst a), v')
          | None => Raise Unmodelled
          end) (c_init c).

(* ------------------------------------------------------------------ *)
(* compress (objects -> JSON)                                           *)

Definition pair_J (kv : J * J) : J := JList [fst kv; snd kv].
Definition abil_J (kv : J * (J * J)) : J :=
  JList [fst kv; JList [fst (snd kv); snd (snd kv)]].

Definition compress_with (sub : modifier -> res J) (fs : list (string * pval)) (c : cexpr)
  : res J :=
  match c with
  | CAttr n => v <- getattr fs n ;; as_J v
  | CItems n =>
    v <- getattr fs n ;;
    match v with
    | PPairs l => Ok (JList (map pair_J l))
    | PAbils l => Ok (JList (map abil_J l))
    | _ => Raise Unmodelled
    end
  | CKeys n =>
    v <- getattr fs n ;;
    match v with
    | PPairs l => Ok (JList (map fst l))
    | PAbils l => Ok (JList (map fst l))
    | PEffDict l => Ok (JList (map fst l))
    | _ => Raise Unmodelled
    end
  | CSubId n =>
    v <- getattr fs n ;;
    match v with
    | POptEff None => Ok JNull
    | POptEff (Some e) => Ok (e_id e)
    | _ => Raise Unmodelled
    end
  | CSub n =>
    v <- getattr fs n ;;
    match v with
    | PMods l => js <- mapM sub l ;; Ok (JList js)
    | _ => Raise Unmodelled
    end
  end.

Definition no_sub (_ : modifier) : res J := Raise Unmodelled.

Definition compress (sub : modifier -> res J) (tab : list cexpr) (fs : list (string * pval))
  : res J :=
  js <- mapM (compress_with sub fs) tab ;; Ok (JList js).

Section Codec.
  (* TypeFactory.make / EffectFactory.make = constructor followed by the
     registered customisation functions; those are total functions of the
     object (they overwrite modifiers / category, add an effect to a type) *)
  Variable cust_e : effect -> effect.
  Variable cust_t : typ -> typ.
  Variable tb : tables.
  Variable ct : ctors.

  Definition mod_compress (m : modifier) : res J :=
    compress no_sub (tb_mod_c tb) (mod_fields m).
  Definition effect_compress (e : effect) : res J :=
    compress mod_compress (tb_eff_c tb) (effect_fields e).
  Definition attr_compress (a : attribute) : res J :=
    compress no_sub (tb_attr_c tb) (attr_fields a).
  Definition type_compress (t : typ) : res J :=
    compress no_sub (tb_type_c tb) (type_fields t).
  Definition buff_compress (b : buff) : res J :=
    compress no_sub (tb_buff_c tb) (buff_fields b).

  (* ---------------------------------------------------------------- *)
  (* memory state of a handler                                          *)

  Record state := mkState {
    st_types : list (J * typ);
    st_attrs : list (J * attribute);
    st_effects : list (J * effect);
    st_buffs : list (J * list buff);     (* {buff id: set of templates}, sets by identity *)
    st_fp : J }.                         (* JNull = None *)

  Definition empty_state : state := mkState [] [] [] [] JNull.

  (* self.get_effect(x): int(x) [TypeError -> EffectFetchError], lookup
     [KeyError -> EffectFetchError]; other exceptions of int() propagate *)
  Definition get_effect (es : list (J * effect)) (x : J) : res effect :=
    match py_int x with
    | Raise TypeError => Raise EffectFetchError
    | Raise e => Raise e
    | Ok z => match dict_get es (JInt z) with
              | Some e => Ok e
              | None => Raise EffectFetchError
              end
    end.

  (* ---------------------------------------------------------------- *)
  (* decompress (JSON -> objects)                                       *)

  Definition decode_pairs (v : J) : res (list (J * J)) :=
    l <- py_iter v ;;
    foldM (fun d x => kv <- py_unpack2 x ;; dict_set d (fst kv) (snd kv)) [] l.

  (* AbilityData( *v ): v must be iterable with exactly two elements *)
  Definition ability_data (v : J) : res (J * J) :=
    l <- py_iter v ;;
    match l with [a; b] => Ok (a, b) | _ => Raise TypeError end.

  Definition decode_abils (v : J) : res (list (J * (J * J))) :=
    l <- py_iter v ;;
    foldM (fun d x => kv <- py_unpack2 x ;; ad <- ability_data (snd kv) ;;
                      dict_set d (fst kv) ad) [] l.

  Definition mod_decompress (data : J) : res modifier :=
    args <- mapM (fun a : string * dexpr =>
                    match snd a with
                    | DIdx i => v <- py_index data i ;; Ok (fst a, PJ v)
                    | _ => Raise Unmodelled
                    end) (tb_mod_d tb) ;;
    fs <- run_init (ct_mod ct) args ;;
    mod_of_fields fs.

  Definition eval_dexpr (es : list (J * effect)) (data : J) (d : dexpr) : res pval :=
    match d with
    | DIdx i => v <- py_index data i ;; Ok (PJ v)
    | DDictComp i => v <- py_index data i ;; l <- decode_pairs v ;; Ok (PPairs l)
    | DEffects i => v <- py_index data i ;; l <- py_iter v ;;
                    effs <- mapM (get_effect es) l ;; Ok (PEffs effs)
    | DDefault i => v <- py_index data i ;;
                    match v with
                    | JNull => Ok (POptEff None)
                    | _ => e <- get_effect es v ;; Ok (POptEff (Some e))
                    end
    | DAbil i => v <- py_index data i ;; l <- decode_abils v ;; Ok (PAbils l)
    | DSub i => v <- py_index data i ;; l <- py_iter v ;;
                ms <- mapM mod_decompress l ;; Ok (PMods ms)
    end.

  Definition eval_args (es : list (J * effect)) (data : J) (tab : list (string * dexpr))
    : res (list (string * pval)) :=
    mapM (fun a : string * dexpr => v <- eval_dexpr es data (snd a) ;; Ok (fst a, v)) tab.

  (* EffectFactory.make hashes effect_id (class lookup) before constructing *)
  Definition effect_decompress (data : J) : res effect :=
    args <- eval_args [] data (tb_eff_d tb) ;;
    _ <- match assoc "effect_id" args with
         | Some (PJ k) => if hashable k then Ok tt else Raise TypeError
         | Some _ => Raise Unmodelled
         | None => Raise TypeError
         end ;;
    fs <- run_init (ct_eff ct) args ;;
    e <- effect_of_fields fs ;;
    Ok (cust_e e).

  Definition attr_decompress (data : J) : res attribute :=
    args <- eval_args [] data (tb_attr_d tb) ;;
    fs <- run_init (ct_attr ct) args ;;
    attr_of_fields fs.

  Definition type_decompress (es : list (J * effect)) (data : J) : res typ :=
    args <- eval_args es data (tb_type_d tb) ;;
    fs <- run_init (ct_type ct) args ;;
    t <- type_of_fields fs ;;
    Ok (cust_t t).

  Definition buff_decompress (data : J) : res buff :=
    args <- eval_args [] data (tb_buff_d tb) ;;
    fs <- run_init (ct_buff ct) args ;;
    buff_of_fields fs.

  (* ---------------------------------------------------------------- *)
  (* __update_memory_cache, statement by statement                      *)

  Definition fill_one (s : storage) (st : state) (item : J) : res state :=
    match s with
    | SEffect =>
      e <- effect_decompress item ;;
      d <- dict_set (st_effects st) (e_id e) e ;;
      Ok (mkState (st_types st) (st_attrs st) d (st_buffs st) (st_fp st))
    | SType =>
      t <- type_decompress (st_effects st) item ;;
      d <- dict_set (st_types st) (t_id t) t ;;
      Ok (mkState d (st_attrs st) (st_effects st) (st_buffs st) (st_fp st))
    | SAttr =>
      a <- attr_decompress item ;;
      d <- dict_set (st_attrs st) (a_id a) a ;;
      Ok (mkState (st_types st) d (st_effects st) (st_buffs st) (st_fp st))
    | SBuff =>
      b <- buff_decompress item ;;
      (* setdefault(b.buff_id, set()).add(b) *)
      let old := match dict_get (st_buffs st) (b_id b) with Some l => l | None => [] end in
      d <- dict_set (st_buffs st) (b_id b) (old ++ [b]) ;;
      Ok (mkState (st_types st) (st_attrs st) (st_effects st) d (st_fp st))
    end.

  (* a loop that raises keeps what it stored so far *)
  Fixpoint fill_loop (s : storage) (st : state) (l : list J) : state * option exn :=
    match l with
    | [] => (st, None)
    | x :: r => match fill_one s st x with
                | Ok st' => fill_loop s st' r
                | Raise e => (st, Some e)
                end
    end.

  Definition clear (s : storage) (st : state) : state :=
    match s with
    | SType => mkState [] (st_attrs st) (st_effects st) (st_buffs st) (st_fp st)
    | SAttr => mkState (st_types st) [] (st_effects st) (st_buffs st) (st_fp st)
    | SEffect => mkState (st_types st) (st_attrs st) [] (st_buffs st) (st_fp st)
    | SBuff => mkState (st_types st) (st_attrs st) (st_effects st) [] (st_fp st)
    end.

  Definition set_fp (st : state) (v : J) : state :=
    mkState (st_types st) (st_attrs st) (st_effects st) (st_buffs st) v.

  Definition exec_step (data : J) (st : state) (s : step) : state * option exn :=
    match s with
    | Clear x => (clear x st, None)
    | ResetFp => (set_fp st JNull, None)
    | SetFp k => match py_key data k with
                 | Ok v => (set_fp st v, None)
                 | Raise e => (st, Some e)
                 end
    | Fill x k => match (v <- py_key data k ;; py_iter v) with
                  | Ok l => fill_loop x st l
                  | Raise e => (st, Some e)
                  end
    end.

  Fixpoint run_steps (data : J) (st : state) (l : list step) : state * option exn :=
    match l with
    | [] => (st, None)
    | s :: r => match exec_step data st s with
                | (st', None) => run_steps data st' r
                | (st', Some e) => (st', Some e)
                end
    end.

  Definition update_memory (st : state) (data : J) : state * option exn :=
    run_steps data st (tb_steps tb).

  (* ---------------------------------------------------------------- *)
  (* update_cache (writer)                                              *)

  Record objs := mkObjs {
    o_types : list typ; o_attrs : list attribute;
    o_effects : list effect; o_buffs : list buff }.

  Definition encode_key (o : objs) (fp : J) (k : ckey) : res J :=
    match k with
    | KFingerprint => Ok fp
    | KObjs SType 0 => js <- mapM type_compress (o_types o) ;; Ok (JList js)
    | KObjs SAttr 1 => js <- mapM attr_compress (o_attrs o) ;; Ok (JList js)
    | KObjs SEffect 2 => js <- mapM effect_compress (o_effects o) ;; Ok (JList js)
    | KObjs SBuff 3 => js <- mapM buff_compress (o_buffs o) ;; Ok (JList js)
    | _ => Raise Unmodelled   (* a collection compressed with another entity's codec *)
    end.

  (* cache_data = {'types': [...], ..., 'fingerprint': fp} *)
  Definition encode (o : objs) (fp : J) : res J :=
    kvs <- mapM (fun kk : string * ckey => v <- encode_key o fp (snd kk) ;; Ok (fst kk, v))
                (tb_keys tb) ;;
    Ok (JDict kvs).

  (* handler = memory state + the file (its parse result; None = no usable file) *)
  Record handler := mkHandler { h_mem : state; h_file : option J }.

  (* update_cache: build cache_data, persist it, then update the memory;
     json/bz2 are trusted to give back the tree that was written *)
  Definition update_cache (h : handler) (o : objs) (fp : J) : handler * option exn :=
    match encode o fp with
    | Raise e => (h, Some e)
    | Ok data =>
      let (st, r) := update_memory (h_mem h) data in
      (mkHandler st (Some data), r)
    end.

  (* ---------------------------------------------------------------- *)
  (* __init__ + __load_persistent_cache                                 *)

  Variable ld : load_shape.

  Definition run_handler (st : state) : state := fst (run_steps JNull st (ls_handler ld)).

  (* [p] is the result of open + bz2 + decode + json.loads:
     None = the file is absent (loader returns at once) or reading raised *)
  Definition construct (p : option J) : state * option exn :=
    match p with
    | None =>
      if ls_catch_all ld then (run_handler empty_state, None)
      else (empty_state, Some ReadError)
    | Some data =>
      match ls_where ld with
      | InElse => update_memory empty_state data
      | InTry =>
        match update_memory empty_state data with
        | (st, None) => (st, None)
        | (st, Some e) =>
          if ls_catch_all ld then (run_handler st, None) else (st, Some e)
        end
      end
    end.

  (* ---------------------------------------------------------------- *)
  (* Specification-side decode: what a complete load of [data] is,      *)
  (* written without steps and without a previous state                 *)

  Definition spec_fill (s : storage) (st : state) (data : J) (key : string) : res state :=
    v <- py_key data key ;; l <- py_iter v ;; foldM (fill_one s) st l.

  Definition decode (data : J) : res state :=
    s1 <- spec_fill SEffect empty_state data "effects" ;;
    s2 <- spec_fill SType s1 data "types" ;;
    s3 <- spec_fill SAttr s2 data "attrs" ;;
    s4 <- spec_fill SBuff s3 data "buff_templates" ;;
    fp <- py_key data "fingerprint" ;;
    Ok (set_fp s4 fp).

  (* getters of the handler (used by the correspondence) *)
  Definition fetch {V} (d : list (J * V)) (x : J) : res V :=
    match py_int x with
    | Raise TypeError => Raise KeyError
    | Raise e => Raise e
    | Ok z => match dict_get d (JInt z) with Some v => Ok v | None => Raise KeyError end
    end.
End Codec.
