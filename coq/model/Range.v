(* Model of eos/solar_system/solar_system.py get_ctc_range / get_sts_range.
   Executable part: exact rationals.  The implementation returns
   sqrt(radicand); the model returns the radicand and an exact description of
   the surface-to-surface decision, so that no square root is needed to run it.
   The real-valued meaning is in proofs/Range_p.v. *)
From Coq Require Import QArith Bool List.
Import ListNotations.

Record coord := mkCoord { cx : Q; cy : Q; cz : Q }.

Definition sqdist (a b : coord) : Q :=
  (cx a - cx b) * (cx a - cx b) + (cy a - cy b) * (cy a - cy b)
  + (cz a - cz b) * (cz a - cz b).

(* An in-space item as the range queries see it: coordinate, the solar system
   of the fit it is on (None: no fit, or fit in no solar system), and the
   radius read from the item type's attributes (0 when absent/unloaded). *)
Record ritem := mkRItem { pos : coord; where_ : option nat; radius : Q }.

Inductive outcome (A : Type) : Type :=
| Ok (a : A)
| Mismatch.
Arguments Ok {A}. Arguments Mismatch {A}.

Definition belongs (self : nat) (i : ritem) : bool :=
  match where_ i with Some s => Nat.eqb s self | None => false end.

(* get_ctc_range: radicand of the returned square root *)
Definition ctc_sq (self : nat) (i1 i2 : ritem) : outcome Q :=
  if belongs self i1 && belongs self i2
  then Ok (sqdist (pos i1) (pos i2)) else Mismatch.

(* get_sts_range = max(0, ctc - r1 - r2).  zero <-> ctc <= r1 + r2 *)
Record sts_res := mkSts { sts_zero : bool; sts_rsum : Q; sts_radicand : Q }.

Definition sts_is_zero (d rsum : Q) : bool :=
  Qle_bool 0 rsum && Qle_bool d (rsum * rsum).

Definition sts (self : nat) (i1 i2 : ritem) : outcome sts_res :=
  match ctc_sq self i1 i2 with
  | Mismatch => Mismatch
  | Ok d => let r := radius i1 + radius i2 in
            Ok (mkSts (sts_is_zero d r) r d)
  end.
