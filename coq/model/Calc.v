(* Engine model, part 2: the calculator's registers (eos/calculator/affection.py,
   projection.py) and attribute calculation (map.py, service.get_modifications). *)
From Coq Require Import ZArith QArith List Bool.
From EosV Require Import lib.AList gen.T_eos model.World.
Import ListNotations.
Open Scope Z_scope.

(* ------------------------------------------------------------------ *)
(* calc record updaters                                                *)

Definition c_set_affectees c v := mkCalc v (c_ae_dom c) (c_ae_domgrp c) (c_ae_domsrq c) (c_ae_ownsrq c) (c_ao_other c) (c_ao_await c) (c_ao_active c) (c_ao_dom c) (c_ao_domgrp c) (c_ao_domsrq c) (c_ao_ownsrq c) (c_projectors c) (c_carrier c) (c_carrierless c) (c_ptgts c) (c_tgtp c) (c_buffs c).
Definition c_set_other c v := mkCalc (c_affectees c) (c_ae_dom c) (c_ae_domgrp c) (c_ae_domsrq c) (c_ae_ownsrq c) v (c_ao_await c) (c_ao_active c) (c_ao_dom c) (c_ao_domgrp c) (c_ao_domsrq c) (c_ao_ownsrq c) (c_projectors c) (c_carrier c) (c_carrierless c) (c_ptgts c) (c_tgtp c) (c_buffs c).
Definition c_set_await c v := mkCalc (c_affectees c) (c_ae_dom c) (c_ae_domgrp c) (c_ae_domsrq c) (c_ae_ownsrq c) (c_ao_other c) v (c_ao_active c) (c_ao_dom c) (c_ao_domgrp c) (c_ao_domsrq c) (c_ao_ownsrq c) (c_projectors c) (c_carrier c) (c_carrierless c) (c_ptgts c) (c_tgtp c) (c_buffs c).
Definition c_set_active c v := mkCalc (c_affectees c) (c_ae_dom c) (c_ae_domgrp c) (c_ae_domsrq c) (c_ae_ownsrq c) (c_ao_other c) (c_ao_await c) v (c_ao_dom c) (c_ao_domgrp c) (c_ao_domsrq c) (c_ao_ownsrq c) (c_projectors c) (c_carrier c) (c_carrierless c) (c_ptgts c) (c_tgtp c) (c_buffs c).
Definition c_set_projectors c v := mkCalc (c_affectees c) (c_ae_dom c) (c_ae_domgrp c) (c_ae_domsrq c) (c_ae_ownsrq c) (c_ao_other c) (c_ao_await c) (c_ao_active c) (c_ao_dom c) (c_ao_domgrp c) (c_ao_domsrq c) (c_ao_ownsrq c) v (c_carrier c) (c_carrierless c) (c_ptgts c) (c_tgtp c) (c_buffs c).
Definition c_set_carrier c v := mkCalc (c_affectees c) (c_ae_dom c) (c_ae_domgrp c) (c_ae_domsrq c) (c_ae_ownsrq c) (c_ao_other c) (c_ao_await c) (c_ao_active c) (c_ao_dom c) (c_ao_domgrp c) (c_ao_domsrq c) (c_ao_ownsrq c) (c_projectors c) v (c_carrierless c) (c_ptgts c) (c_tgtp c) (c_buffs c).
Definition c_set_carrierless c v := mkCalc (c_affectees c) (c_ae_dom c) (c_ae_domgrp c) (c_ae_domsrq c) (c_ae_ownsrq c) (c_ao_other c) (c_ao_await c) (c_ao_active c) (c_ao_dom c) (c_ao_domgrp c) (c_ao_domsrq c) (c_ao_ownsrq c) (c_projectors c) (c_carrier c) v (c_ptgts c) (c_tgtp c) (c_buffs c).
Definition c_set_ptgts c v := mkCalc (c_affectees c) (c_ae_dom c) (c_ae_domgrp c) (c_ae_domsrq c) (c_ae_ownsrq c) (c_ao_other c) (c_ao_await c) (c_ao_active c) (c_ao_dom c) (c_ao_domgrp c) (c_ao_domsrq c) (c_ao_ownsrq c) (c_projectors c) (c_carrier c) (c_carrierless c) v (c_tgtp c) (c_buffs c).
Definition c_set_tgtp c v := mkCalc (c_affectees c) (c_ae_dom c) (c_ae_domgrp c) (c_ae_domsrq c) (c_ae_ownsrq c) (c_ao_other c) (c_ao_await c) (c_ao_active c) (c_ao_dom c) (c_ao_domgrp c) (c_ao_domsrq c) (c_ao_ownsrq c) (c_projectors c) (c_carrier c) (c_carrierless c) (c_ptgts c) v (c_buffs c).
Definition c_set_buffs c v := mkCalc (c_affectees c) (c_ae_dom c) (c_ae_domgrp c) (c_ae_domsrq c) (c_ae_ownsrq c) (c_ao_other c) (c_ao_await c) (c_ao_active c) (c_ao_dom c) (c_ao_domgrp c) (c_ao_domsrq c) (c_ao_ownsrq c) (c_projectors c) (c_carrier c) (c_carrierless c) (c_ptgts c) (c_tgtp c) v.

(* the four affectee storages and four filter affector storages, by index *)
Inductive stor := StDom | StDomGrp | StDomSrq | StOwnSrq.
Definition ae_get c s := match s with StDom => c_ae_dom c | StDomGrp => c_ae_domgrp c | StDomSrq => c_ae_domsrq c | StOwnSrq => c_ae_ownsrq c end.
Definition ae_set c s v :=
  match s with
  | StDom => mkCalc (c_affectees c) v (c_ae_domgrp c) (c_ae_domsrq c) (c_ae_ownsrq c) (c_ao_other c) (c_ao_await c) (c_ao_active c) (c_ao_dom c) (c_ao_domgrp c) (c_ao_domsrq c) (c_ao_ownsrq c) (c_projectors c) (c_carrier c) (c_carrierless c) (c_ptgts c) (c_tgtp c) (c_buffs c)
  | StDomGrp => mkCalc (c_affectees c) (c_ae_dom c) v (c_ae_domsrq c) (c_ae_ownsrq c) (c_ao_other c) (c_ao_await c) (c_ao_active c) (c_ao_dom c) (c_ao_domgrp c) (c_ao_domsrq c) (c_ao_ownsrq c) (c_projectors c) (c_carrier c) (c_carrierless c) (c_ptgts c) (c_tgtp c) (c_buffs c)
  | StDomSrq => mkCalc (c_affectees c) (c_ae_dom c) (c_ae_domgrp c) v (c_ae_ownsrq c) (c_ao_other c) (c_ao_await c) (c_ao_active c) (c_ao_dom c) (c_ao_domgrp c) (c_ao_domsrq c) (c_ao_ownsrq c) (c_projectors c) (c_carrier c) (c_carrierless c) (c_ptgts c) (c_tgtp c) (c_buffs c)
  | StOwnSrq => mkCalc (c_affectees c) (c_ae_dom c) (c_ae_domgrp c) (c_ae_domsrq c) v (c_ao_other c) (c_ao_await c) (c_ao_active c) (c_ao_dom c) (c_ao_domgrp c) (c_ao_domsrq c) (c_ao_ownsrq c) (c_projectors c) (c_carrier c) (c_carrierless c) (c_ptgts c) (c_tgtp c) (c_buffs c)
  end.
Definition ao_get c s := match s with StDom => c_ao_dom c | StDomGrp => c_ao_domgrp c | StDomSrq => c_ao_domsrq c | StOwnSrq => c_ao_ownsrq c end.
Definition ao_set c s v :=
  match s with
  | StDom => mkCalc (c_affectees c) (c_ae_dom c) (c_ae_domgrp c) (c_ae_domsrq c) (c_ae_ownsrq c) (c_ao_other c) (c_ao_await c) (c_ao_active c) v (c_ao_domgrp c) (c_ao_domsrq c) (c_ao_ownsrq c) (c_projectors c) (c_carrier c) (c_carrierless c) (c_ptgts c) (c_tgtp c) (c_buffs c)
  | StDomGrp => mkCalc (c_affectees c) (c_ae_dom c) (c_ae_domgrp c) (c_ae_domsrq c) (c_ae_ownsrq c) (c_ao_other c) (c_ao_await c) (c_ao_active c) (c_ao_dom c) v (c_ao_domsrq c) (c_ao_ownsrq c) (c_projectors c) (c_carrier c) (c_carrierless c) (c_ptgts c) (c_tgtp c) (c_buffs c)
  | StDomSrq => mkCalc (c_affectees c) (c_ae_dom c) (c_ae_domgrp c) (c_ae_domsrq c) (c_ae_ownsrq c) (c_ao_other c) (c_ao_await c) (c_ao_active c) (c_ao_dom c) (c_ao_domgrp c) v (c_ao_ownsrq c) (c_projectors c) (c_carrier c) (c_carrierless c) (c_ptgts c) (c_tgtp c) (c_buffs c)
  | StOwnSrq => mkCalc (c_affectees c) (c_ae_dom c) (c_ae_domgrp c) (c_ae_domsrq c) (c_ae_ownsrq c) (c_ao_other c) (c_ao_await c) (c_ao_active c) (c_ao_dom c) (c_ao_domgrp c) (c_ao_domsrq c) v (c_projectors c) (c_carrier c) (c_carrierless c) (c_ptgts c) (c_tgtp c) (c_buffs c)
  end.

(* the calculator an item/fit talks to: item._fit.solar_system._calculator *)
Definition calc_of (d : derived) (s : nat) : calc :=
  match al_get neqb (d_calcs d) s with Some c => c | None => empty_calc end.
Definition fit_calc (w : world) (d : derived) (f : nat) : option (nat * calc) :=
  match fit_solsys w f with
  | Some s => match get_ss w s with Some _ => Some (s, calc_of d s) | None => None end
  | None => None
  end.
Definition put_calc (d : derived) (s : nat) (c : calc) : derived :=
  d_set_calcs d (al_set neqb (d_calcs d) s c).

(* ------------------------------------------------------------------ *)
(* affection register: affectee side                                   *)

(* __get_affectee_storages(affectee_fit, affectee_item) *)
Definition affectee_storages (w : world) (fit : option nat) (it : item) : option (list (akey * stor)) :=
  match item_type w it with
  | None => None      (* _type is None: AttributeError *)
  | Some t =>
    let row := class_row_of (i_cls it) in
    Some (
      (match cr_domain row with
       | None => []
       | Some d =>
         [(KDom fit d, StDom)]
         ++ (match t_group t with Some g => [(KDomX fit d (Some g), StDomGrp)] | None => [] end)
         ++ map (fun sk => (KDomX fit d (Some (fst sk)), StDomSrq)) (t_skills t)
       end)
      ++ (if cr_owner_modifiable row
          then map (fun sk => (KOwnX fit (Some (fst sk)), StOwnSrq)) (t_skills t)
          else []))
  end.

Definition spec_domain (s : spec) : Z := m_domain (sp_mod s).

(* __activate_special_affector_specs *)
Definition activate_special (w : world) (c : calc) (fit : option nat) (i : nat) : calc :=
  let to_activate :=
      filter (fun s =>
                let d := spec_domain s in
                (Z.eqb d ModDomain_ship && is_ship w i)
                || (Z.eqb d ModDomain_character && is_character w i)
                || (Z.eqb d ModDomain_self && Nat.eqb i (sp_item s)))
             (ks_get akey_eqb (c_ao_await c) (KFit fit)) in
  let c := match to_activate with
           | [] => c
           | _ => c_set_active
                    (c_set_await c (ks_rm_set akey_eqb spec_eqb (c_ao_await c) (KFit fit) to_activate))
                    (ks_add_set akey_eqb spec_eqb (c_ao_active c) (KItem i) to_activate)
           end in
  let other :=
      flat_map (fun (kv : akey * list spec) =>
                  match fst kv with
                  | KItem a =>
                    match get_item w a with
                    | Some ai => if mem neqb (item_others ai) i then snd kv else []
                    | None => []
                    end
                  | _ => []
                  end) (c_ao_other c) in
  match other with
  | [] => c
  | _ => c_set_active c (ks_add_set akey_eqb spec_eqb (c_ao_active c) (KItem i) other)
  end.

(* __deactivate_special_affector_specs *)
Definition deactivate_special (c : calc) (fit : option nat) (i : nat) : calc :=
  if negb (ks_has akey_eqb (c_ao_active c) (KItem i)) then c
  else
    let awaitable :=
        filter (fun s => let d := spec_domain s in
                         Z.eqb d ModDomain_ship || Z.eqb d ModDomain_character || Z.eqb d ModDomain_self)
               (ks_get akey_eqb (c_ao_active c) (KItem i)) in
    let c := c_set_active c (ks_del akey_eqb (c_ao_active c) (KItem i)) in
    match awaitable with
    | [] => c
    | _ => c_set_await c (ks_add_set akey_eqb spec_eqb (c_ao_await c) (KFit fit) awaitable)
    end.

(* register_affectee_item / unregister_affectee_item; None = internal failure *)
Definition register_affectee (w : world) (c : calc) (i : nat) : option calc :=
  match get_item w i with
  | None => None
  | Some it =>
    let fit := item_fit w i in
    match affectee_storages w fit it with
    | None => None
    | Some sts =>
      let c := c_set_affectees c (set_add neqb (c_affectees c) i) in
      let c := fold_left (fun c (ks : akey * stor) =>
                            ae_set c (snd ks) (ks_add_entry akey_eqb neqb (ae_get c (snd ks)) (fst ks) i))
                         sts c in
      Some (activate_special w c fit i)
    end
  end.

Definition unregister_affectee (w : world) (c : calc) (i : nat) : option calc :=
  match get_item w i with
  | None => None
  | Some it =>
    if negb (mem neqb (c_affectees c) i) then None   (* set.remove: KeyError *)
    else
      let fit := item_fit w i in
      match affectee_storages w fit it with
      | None => None
      | Some sts =>
        let c := c_set_affectees c (set_rm neqb (c_affectees c) i) in
        let c := fold_left (fun c (ks : akey * stor) =>
                              ae_set c (snd ks) (ks_rm_entry akey_eqb neqb (ae_get c (snd ks)) (fst ks) i))
                           sts c in
        Some (deactivate_special c fit i)
      end
  end.

(* ------------------------------------------------------------------ *)
(* affection register: affector side                                   *)

Inductive atarget :=
| TOther (k : akey)   (* __affectors_item_other *)
| TAwait (k : akey)
| TActive (k : akey)
| TStor (s : stor) (k : akey).

Inductive areso := AOk (l : list atarget) | ALogged | AFail.
(* ALogged: UnexpectedDomainError / UnknownAffecteeFilterError, caught and logged *)

Definition skill_arg (w : world) (s : spec) : option Z :=
  match m_extra (sp_mod s) with
  | Some x => if Z.eqb x EosTypeId_current_self
              then match get_item w (sp_item s) with Some it => Some (i_tid it) | None => None end
              else Some x
  | None => None
  end.

(* __affector_storages_getters[filter](spec, domain, fits) *)
Definition filter_targets (w : world) (s : spec) (dom : Z) (fits : list (option nat)) : areso :=
  let f := m_filter (sp_mod s) in
  if Z.eqb f ModAffecteeFilter_domain then AOk (map (fun ft => TStor StDom (KDom ft dom)) fits)
  else if Z.eqb f ModAffecteeFilter_domain_group then
         AOk (map (fun ft => TStor StDomGrp (KDomX ft dom (m_extra (sp_mod s)))) fits)
  else if Z.eqb f ModAffecteeFilter_domain_skillrq then
         AOk (map (fun ft => TStor StDomSrq (KDomX ft dom (skill_arg w s))) fits)
  else if Z.eqb f ModAffecteeFilter_owner_skillrq then
         AOk (map (fun ft => TStor StOwnSrq (KOwnX ft (skill_arg w s))) fits)
  else ALogged.

(* __resolve_local_domain *)
Definition resolve_local_domain (w : world) (s : spec) : option Z :=
  let d := spec_domain s in
  if Z.eqb d ModDomain_self then
    if is_ship w (sp_item s) then Some ModDomain_ship
    else if is_character w (sp_item s) then Some ModDomain_character
    else None
  else if Z.eqb d ModDomain_character || Z.eqb d ModDomain_ship then Some d
  else None.

(* __get_local_affector_storages; AFail on a None dereference (item without fit) *)
Definition local_targets (w : world) (c : calc) (s : spec) : areso :=
  let i := sp_item s in
  let fit := item_fit w i in
  if Z.eqb (m_filter (sp_mod s)) ModAffecteeFilter_item then
    let d := spec_domain s in
    if Z.eqb d ModDomain_self then
      AOk [if mem neqb (c_affectees c) i then TActive (KItem i) else TAwait (KFit fit)]
    else if Z.eqb d ModDomain_character || Z.eqb d ModDomain_ship then
      match fit with
      | None => AFail
      | Some f =>
        match get_fit w f with
        | None => AFail
        | Some ft =>
          let tgt := if Z.eqb d ModDomain_ship then f_ship ft else f_character ft in
          match tgt with
          | Some t => AOk [if mem neqb (c_affectees c) t then TActive (KItem t) else TAwait (KFit fit)]
          | None => AOk [TAwait (KFit fit)]
          end
        end
      end
    else if Z.eqb d ModDomain_other then
      match get_item w i with
      | None => AFail
      | Some it =>
        AOk (TOther (KItem i)
             :: map (fun o => TActive (KItem o))
                    (filter (fun o => mem neqb (c_affectees c) o) (item_others it)))
      end
    else ALogged
  else
    if Z.eqb (m_filter (sp_mod s)) ModAffecteeFilter_domain
       || Z.eqb (m_filter (sp_mod s)) ModAffecteeFilter_domain_group
       || Z.eqb (m_filter (sp_mod s)) ModAffecteeFilter_domain_skillrq
       || Z.eqb (m_filter (sp_mod s)) ModAffecteeFilter_owner_skillrq
    then match resolve_local_domain w s with
         | Some d => filter_targets w s d [fit]
         | None => ALogged
         end
    else ALogged.

(* fits of the ships among the targets: {i._fit for i in tgt_items if isinstance(i, Ship)} *)
Definition tgt_ship_fits (w : world) (c : calc) (tgts : list (option nat)) : list (option nat) :=
  dedup onat_eqb
        (flat_map (fun t => match t with
                            | Some i => if is_ship w i && mem neqb (c_affectees c) i then [item_fit w i] else []
                            | None => [] end) tgts).

(* __get_projected_affector_storages *)
Definition projected_targets (w : world) (c : calc) (s : spec) (tgts : list (option nat)) : areso :=
  if Z.eqb (m_filter (sp_mod s)) ModAffecteeFilter_item then
    AOk (flat_map (fun t => match t with
                            | Some i => if mem neqb (c_affectees c) i then [TActive (KItem i)] else []
                            | None => [] end) tgts)
  else filter_targets w s ModDomain_ship (tgt_ship_fits w c tgts).

Definition add_spec (c : calc) (t : atarget) (s : spec) : calc :=
  match t with
  | TOther k => c_set_other c (ks_add_entry akey_eqb spec_eqb (c_ao_other c) k s)
  | TAwait k => c_set_await c (ks_add_entry akey_eqb spec_eqb (c_ao_await c) k s)
  | TActive k => c_set_active c (ks_add_entry akey_eqb spec_eqb (c_ao_active c) k s)
  | TStor st k => ao_set c st (ks_add_entry akey_eqb spec_eqb (ao_get c st) k s)
  end.
Definition rm_spec (c : calc) (t : atarget) (s : spec) : calc :=
  match t with
  | TOther k => c_set_other c (ks_rm_entry akey_eqb spec_eqb (c_ao_other c) k s)
  | TAwait k => c_set_await c (ks_rm_entry akey_eqb spec_eqb (c_ao_await c) k s)
  | TActive k => c_set_active c (ks_rm_entry akey_eqb spec_eqb (c_ao_active c) k s)
  | TStor st k => ao_set c st (ks_rm_entry akey_eqb spec_eqb (ao_get c st) k s)
  end.

(* register/unregister: None = internal failure *)
Definition apply_targets (c : calc) (r : areso) (s : spec) (add : bool) : option calc :=
  match r with
  | AOk l => Some (fold_left (fun c t => if add then add_spec c t s else rm_spec c t s) l c)
  | ALogged => Some c
  | AFail => None
  end.

(* get_local_affectee_items *)
Definition local_affectees (w : world) (c : calc) (s : spec) : option (list nat) :=
  let i := sp_item s in
  let fit := item_fit w i in
  if Z.eqb (m_filter (sp_mod s)) ModAffecteeFilter_item then
    let d := spec_domain s in
    if Z.eqb d ModDomain_self then Some [i]
    else if Z.eqb d ModDomain_character || Z.eqb d ModDomain_ship then
      match fit with
      | None => None
      | Some f =>
        match get_fit w f with
        | None => None
        | Some ft =>
          match (if Z.eqb d ModDomain_ship then f_ship ft else f_character ft) with
          | Some t => Some (if mem neqb (c_affectees c) t then [t] else [])
          | None => Some []
          end
        end
      end
    else if Z.eqb d ModDomain_other then
      match get_item w i with
      | None => None
      | Some it => Some (filter (fun o => mem neqb (c_affectees c) o) (item_others it))
      end
    else Some []
  else
    match resolve_local_domain w s with
    | None => Some []
    | Some d =>
      match filter_targets w s d [fit] with
      | AOk l => Some (dedup neqb (flat_map (fun t => match t with
                                                      | TStor st k => ks_get akey_eqb (ae_get c st) k
                                                      | _ => [] end) l))
      | _ => Some []
      end
    end.

(* get_projected_affectee_items *)
Definition projected_affectees (w : world) (c : calc) (s : spec) (tgts : list (option nat)) : list nat :=
  if Z.eqb (m_filter (sp_mod s)) ModAffecteeFilter_item then
    dedup neqb (flat_map (fun t => match t with
                                   | Some i => if mem neqb (c_affectees c) i then [i] else []
                                   | None => [] end) tgts)
  else
    match filter_targets w s ModDomain_ship (tgt_ship_fits w c tgts) with
    | AOk l => dedup neqb (flat_map (fun t => match t with
                                              | TStor st k => ks_get akey_eqb (ae_get c st) k
                                              | _ => [] end) l)
    | _ => []
    end.

(* get_affector_specs(affectee_item); None when _type is None is dereferenced *)
Definition affector_specs (w : world) (c : calc) (i : nat) : option (list spec) :=
  match get_item w i with
  | None => None
  | Some it =>
    let fit := item_fit w i in
    let row := class_row_of (i_cls it) in
    let active := ks_get akey_eqb (c_ao_active c) (KItem i) in
    let needs_type := match cr_domain row with Some _ => true | None => cr_owner_modifiable row end in
    match item_type w it, needs_type with
    | None, true => None
    | ot, _ =>
      let t_grp := match ot with Some t => t_group t | None => None end in
      let t_sk := match ot with Some t => t_skills t | None => [] end in
      let bydom :=
          match cr_domain row with
          | None => []
          | Some d =>
            ks_get akey_eqb (c_ao_dom c) (KDom fit d)
            ++ ks_get akey_eqb (c_ao_domgrp c) (KDomX fit d t_grp)
            ++ flat_map (fun sk => ks_get akey_eqb (c_ao_domsrq c) (KDomX fit d (Some (fst sk)))) t_sk
          end in
      let byown :=
          if cr_owner_modifiable row
          then flat_map (fun sk => ks_get akey_eqb (c_ao_ownsrq c) (KOwnX fit (Some (fst sk)))) t_sk
          else [] in
      Some (dedup spec_eqb (active ++ bydom ++ byown))
    end
  end.

(* ------------------------------------------------------------------ *)
(* projection register                                                 *)

Definition nproj_eqb := proj_eqb.

Definition register_projector (w : world) (c : calc) (p : proj) : option calc :=
  let c := c_set_projectors c (set_add proj_eqb (c_projectors c) p) in
  match solsys_carrier w (pj_item p) with
  | CarFail => None
  | CarOk (Some car) => Some (c_set_carrier c (ks_add_entry neqb proj_eqb (c_carrier c) car p))
  | CarOk None => Some (c_set_carrierless c (set_add proj_eqb (c_carrierless c) p))
  end.

Definition unregister_projector (w : world) (c : calc) (p : proj) : option calc :=
  let c := c_set_projectors c (set_rm proj_eqb (c_projectors c) p) in
  let c := c_set_carrier c (fold_left (fun s k => ks_rm_entry neqb proj_eqb s k p) (map fst (c_carrier c)) (c_carrier c)) in
  Some (c_set_carrierless c (set_rm proj_eqb (c_carrierless c) p)).

Definition apply_projector (c : calc) (p : proj) (tgts : list (option nat)) : calc :=
  let c := c_set_ptgts c (ks_add_set proj_eqb onat_eqb (c_ptgts c) p tgts) in
  fold_left (fun c t => c_set_tgtp c (ks_add_entry onat_eqb proj_eqb (c_tgtp c) t p)) tgts c.

(* tgt_items is copied first, so it does not matter whether the caller passed
   the register's own set object ([aliased] is kept in the message only) *)
Definition unapply_projector (c : calc) (p : proj) (tgts : list (option nat)) (aliased : bool) : calc :=
  let c := c_set_ptgts c (ks_rm_set proj_eqb onat_eqb (c_ptgts c) p tgts) in
  fold_left (fun c t => c_set_tgtp c (ks_rm_entry onat_eqb proj_eqb (c_tgtp c) t p)) tgts c.

(* register_solsys_item: carrierless projectors whose carrier is now this item *)
Definition register_solsys_item (w : world) (c : calc) (i : nat) : option calc :=
  let step (acc : option (list proj)) (p : proj) :=
      match acc with
      | None => None
      | Some l => match solsys_carrier w (pj_item p) with
                  | CarFail => None
                  | CarOk (Some car) => if Nat.eqb car i then Some (l ++ [p]) else Some l
                  | CarOk None => Some l
                  end
      end in
  match fold_left step (c_carrierless c) (Some []) with
  | None => None
  | Some [] => Some c
  | Some ps =>
    Some (c_set_carrier (c_set_carrierless c (set_diff proj_eqb (c_carrierless c) ps))
                        (ks_add_set neqb proj_eqb (c_carrier c) i ps))
  end.

Definition unregister_solsys_item (c : calc) (i : nat) : calc :=
  match ks_get neqb (c_carrier c) i with
  | [] => c
  | ps => c_set_carrier (c_set_carrierless c (set_union proj_eqb (c_carrierless c) ps))
                        (ks_rm_set neqb proj_eqb (c_carrier c) i ps)
  end.

(* ------------------------------------------------------------------ *)
(* attribute calculation                                               *)

Definition qeqb (a b : Q) : bool := Qeq_bool a b.
Definition Qmin' (a b : Q) : Q := if Qle_bool a b then a else b.
Definition Qmax' (a b : Q) : Q := if Qle_bool a b then b else a.

(* round(x, 2): nearest multiple of 1/100, ties to even *)
Definition round_half_even (x : Q) : Z :=
  let n := Qnum x in let d := Zpos (Qden x) in
  let fl := Z.div n d in
  let r2 := 2 * (n - fl * d) in
  if r2 <? d then fl else if d <? r2 then fl + 1
  else if Z.even fl then fl else fl + 1.
Definition round2 (x : Q) : Q := Qred (Qmake (round_half_even (x * 100)%Q) 100).

Local Open Scope Q_scope.

Definition normalize (e : nexpr) (v : Q) : option Q :=
  match e with
  | NId => Some v
  | NMinus1 => Some (v - 1)
  | NInvMinus1 => if qeqb v 0 then None else Some (1 / v - 1)
  | NNeg => Some (- v)
  | NPercent => Some (v / 100)
  end.

(* insertion sort on Q, descending or ascending *)
Fixpoint qinsert (le : Q -> Q -> bool) (x : Q) (l : list Q) : list Q :=
  match l with
  | [] => [x]
  | y :: r => if le x y then x :: l else y :: qinsert le x r
  end.
Definition qsort (le : Q -> Q -> bool) (l : list Q) : list Q := fold_right (qinsert le) [] l.

(* __penalize_values *)
Fixpoint chain_value (pen : list Q) (n : nat) (l : list Q) : Q :=
  match n, l, pen with
  | S n, v :: r, p :: pr => (1 + v * p) * chain_value pr n r
  | _, _, _ => 1
  end.
Definition penalize_values (pen : list Q) (vals : list Q) : Q :=
  let pos := qsort (fun a b => Qle_bool b a) (filter (fun v => Qle_bool 0 v) vals) in
  let neg := qsort Qle_bool (filter (fun v => negb (Qle_bool 0 v)) vals) in
  chain_value pen (S PENALTY_CUTOFF) pos * chain_value pen (S PENALTY_CUTOFF) neg - 1.

(* one gathered modification: operator, normalised*resist value, penalize?, mode, key *)
Record gmod := mkGmod { g_op : Z; g_val : Q; g_pen : bool; g_mode : Z; g_key : option Z }.

Definition stack_add (st : list (Z * list Q)) (op : Z) (v : Q) : list (Z * list Q) :=
  match al_get zeqb st op with
  | Some l => al_set zeqb st op (l ++ [v])
  | None => al_set zeqb st op [v]
  end.

Definition aggkey_eqb (a b : Z * option Z) : bool := Z.eqb (fst a) (fst b) && oz_eqb (snd a) (snd b).

Definition agg_add (st : list ((Z * option Z) * list (Q * bool))) (k : Z * option Z) (v : Q * bool) :=
  match al_get aggkey_eqb st k with
  | Some l => al_set aggkey_eqb st k (l ++ [v])
  | None => al_set aggkey_eqb st k [v]
  end.

(* min(v, key=(value, penalize)) / max(v, key=(value, not penalize)); first extremal wins *)
Definition key_lt (a b : Q * bool) : bool :=   (* tuple comparison a < b *)
  if Qle_bool (fst b) (fst a) then (if Qle_bool (fst a) (fst b) then (negb (snd a) && snd b) else false) else true.
Fixpoint pick_min (cur : Q * bool) (l : list (Q * bool)) : Q * bool :=
  match l with [] => cur | x :: r => pick_min (if key_lt x cur then x else cur) r end.
Definition flipk (x : Q * bool) : Q * bool := (fst x, negb (snd x)).
Fixpoint pick_max (cur : Q * bool) (l : list (Q * bool)) : Q * bool :=
  match l with [] => cur | x :: r => pick_max (if key_lt (flipk cur) (flipk x) then x else cur) r end.

Fixpoint zinsert (x : Z) (l : list Z) : list Z :=
  match l with [] => [x] | y :: r => if (x <=? y)%Z then x :: l else y :: zinsert x r end.
Definition zsort (l : list Z) : list Z := fold_right zinsert [] l.

Fixpoint qmaxl (x : Q) (l : list Q) : Q := match l with [] => x | y :: r => qmaxl (Qmax' x y) r end.
Fixpoint qminl (x : Q) (l : list Q) : Q := match l with [] => x | y :: r => qminl (Qmin' x y) r end.

(* the ordered fold of __calculate over the gathered modifications *)
Definition combine_mods (pen : list Q) (hig : bool) (base : Q) (mods : list gmod) : Q :=
  let stackm := filter (fun g => Z.eqb (g_mode g) ModAggregateMode_stack) mods in
  let stack0 := fold_left (fun st g => if g_pen g then st else stack_add st (g_op g) (g_val g)) stackm [] in
  let pen0 := fold_left (fun st g => if g_pen g then stack_add st (g_op g) (g_val g) else st) stackm [] in
  let aggs mode := fold_left (fun st g => if Z.eqb (g_mode g) mode
                                          then agg_add st (g_op g, g_key g) (g_val g, g_pen g) else st) mods [] in
  let use_agg (pick : Q * bool -> list (Q * bool) -> Q * bool)
              (acc : list (Z * list Q) * list (Z * list Q)) (kv : (Z * option Z) * list (Q * bool)) :=
      match snd kv with
      | [] => acc
      | x :: r => let (v, p) := pick x r in
                  if (p : bool) then (fst acc, stack_add (snd acc) (fst (fst kv)) v)
                  else (stack_add (fst acc) (fst (fst kv)) v, snd acc)
      end in
  let acc := fold_left (use_agg pick_min) (aggs ModAggregateMode_minimum) (stack0, pen0) in
  let acc := fold_left (use_agg pick_max) (aggs ModAggregateMode_maximum) acc in
  let stack := fold_left (fun st (kv : Z * list Q) => stack_add st (fst kv) (penalize_values pen (snd kv)))
                         (snd acc) (fst acc) in
  fold_left
    (fun value op =>
       match al_get zeqb stack op with
       | None | Some [] => value
       | Some (v :: vs) =>
         if mem zeqb ASSIGNMENT_OPERATORS op then (if hig then qmaxl v vs else qminl v vs)
         else if mem zeqb ADDITION_OPERATORS op then fold_left Qplus (v :: vs) value
         else if mem zeqb MULTIPLICATION_OPERATORS op then fold_left (fun a x => a * (1 + x)) (v :: vs) value
         else value
       end)
    (zsort (map fst stack)) base.

(* overrides: skill level behind AttrId.skill_level *)
Definition override_value (it : item) (a : Z) : option Q :=
  if icls_eqb (i_cls it) CSkill && Z.eqb a AttrId_skill_level then Some (inject_Z (i_level it)) else None.
Definition override_keys (it : item) : list Z :=
  if icls_eqb (i_cls it) CSkill then [AttrId_skill_level] else [].

Definition cache_put (d : derived) (i : nat) (a : Z) (v : Q) : derived :=
  let c := get_icache d i in put_icache d i (mkICache (al_set zeqb (ic_vals c) a v) (ic_caps c)).
Definition cap_set (d : derived) (i : nat) (capping capped : Z) : derived :=
  let c := get_icache d i in
  put_icache d i (mkICache (ic_vals c) (ks_add_entry zeqb zeqb (ic_caps c) capping capped)).

(* attrs[a] / attrs.get(a): None = KeyError / default. Mutual recursion of
   __getitem__, __calculate and get_modifications on explicit fuel. *)
Fixpoint read_attr (fuel : nat) (w : world) (d : derived) (i : nat) (a : Z) : derived * option Q :=
  match fuel with
  | O => (dfail d EOutOfFuel, None)
  | S fuel =>
    match get_item w i with
    | None => (dfail d EKeyAbsent, None)
    | Some it =>
      match override_value it a with
      | Some v => (d, Some v)
      | None =>
        match al_get zeqb (ic_vals (get_icache d i)) a with
        | Some v => (d, Some v)
        | None =>
          (* __calculate *)
          match item_fit w i with
          | None => (d, None)                     (* AttributeError -> AttrMetadataError *)
          | Some f =>
            match fit_universe w f, fit_calc w d f with
            | Some u, Some (_, c) =>
              match get_attr_meta u a with
              | None => (d, None)
              | Some meta =>
                match i_loaded it with
                | None => (d, None)               (* unloaded item: BaseValueError *)
                | Some _ =>
                match (match al_get zeqb (item_type_attrs w it) a with
                       | Some v => Some v | None => am_default meta end) with
                | None => (d, None)               (* BaseValueError *)
                | Some base =>
                  match affector_specs w c i with
                  | None => (dfail d ENoneDeref, None)
                  | Some specs =>
                    (* get_modifications *)
                    let gather (acc : derived * list gmod) (s : spec) : derived * list gmod :=
                        let (d, mods) := acc in
                        if negb (Z.eqb (m_tgt_attr (sp_mod s)) a) then (d, mods)
                        else
                          (* modifier.get_modification(affector_item): operator and value *)
                          let (d, omod) :=
                              if Z.eqb (m_py (sp_mod s)) 0 then
                                let (d, ov) := read_attr fuel w d (sp_item s) (m_src_attr (sp_mod s)) in
                                (d, match ov with Some v => Some (m_op (sp_mod s), v) | None => None end)
                              else if Z.eqb (m_py (sp_mod s)) 1 then
                                (* PropulsionModuleVelocityBoostModifier: 1 + speed_factor * thrust / ship mass / 100 *)
                                match (match item_fit w (sp_item s) with
                                       | Some pf => match get_fit w pf with Some ft => f_ship ft | None => None end
                                       | None => None end) with
                                | None => (d, None)
                                | Some ship =>
                                  let (d, om) := read_attr fuel w d ship AttrId_mass in
                                  match om with
                                  | None => (d, None)
                                  | Some mass =>
                                    let (d, osf) := read_attr fuel w d (sp_item s) AttrId_speed_factor in
                                    match osf with
                                    | None => (d, None)
                                    | Some sf =>
                                      let (d, oth) := read_attr fuel w d (sp_item s) AttrId_speed_boost_factor in
                                      match oth with
                                      | None => (d, None)
                                      | Some th =>
                                        if Qeq_bool mass 0 then (d, None)     (* logged, skipped *)
                                        else (d, Some (ModOperator_post_mul, Qred (1 + sf * th / mass / 100)))
                                      end
                                    end
                                  end
                                end
                              else if Z.eqb (m_py (sp_mod s)) 2 then
                                (* AncillaryRepAmountModifier: charged multiplier when nanite paste is loaded, else 1 *)
                                match get_item w (sp_item s) with
                                | None => (d, None)
                                | Some ai =>
                                  let paste := match i_charge ai with
                                               | Some c => match get_item w c with
                                                           | Some ci => Z.eqb (i_tid ci) TypeId_nanite_repair_paste
                                                           | None => false end
                                               | None => false end in
                                  if paste then
                                    let (d, ov) := read_attr fuel w d (sp_item s) AttrId_charged_armor_dmg_mult in
                                    (d, match ov with Some v => Some (ModOperator_post_mul_immune, v) | None => None end)
                                  else (d, Some (ModOperator_post_mul_immune, 1))
                                end
                              else (d, None) in
                          match omod with
                          | None => (d, mods)     (* ModificationCalculationError *)
                          | Some (mop, v) =>
                            let (d, resist) :=
                                match sp_resist s with
                                | None => (d, 1)
                                | Some ra =>
                                  match solsys_carrier w i with
                                  | CarFail => (dfail d ENoneDeref, 1)
                                  | CarOk None => (d, 1)
                                  | CarOk (Some car) =>
                                    let (d, orv) := read_attr fuel w d car ra in
                                    (d, match orv with Some r => r | None => 1 end)
                                  end
                                end in
                            match al_get zeqb NORMALIZATION_MAP mop with
                            | None => (d, mods)   (* unknown operator: logged, skipped *)
                            | Some ne =>
                              match normalize ne v with
                              | None => (dfail d EZeroDiv, mods)
                              | Some nv =>
                                match get_item w (sp_item s) with
                                | None => (dfail d EKeyAbsent, mods)
                                | Some ai =>
                                  match item_type w ai with
                                  | None => (dfail d ENoneDeref, mods)
                                  | Some at_ =>
                                    let immune := match t_category at_ with
                                                  | Some cat => mem zeqb PENALTY_IMMUNE_CATEGORY_IDS cat
                                                  | None => false end in
                                    let penal := negb (am_stackable meta) && negb immune
                                                 && mem zeqb PENALIZABLE_OPERATORS mop in
                                    (d, mods ++ [mkGmod mop (Qred (nv * resist)) penal
                                                        (m_aggmode (sp_mod s)) (m_aggkey (sp_mod s))])
                                  end
                                end
                              end
                            end
                          end in
                    let (d, mods) := fold_left gather specs (d, []) in
                    let value := Qred (combine_mods (d_pen d) (am_hig meta) base mods) in
                    let (d, value) :=
                        match am_max meta with
                        | None => (d, value)
                        | Some ma =>
                          let (d, omv) := read_attr fuel w d i ma in
                          match omv with
                          | None => (d, value)
                          | Some mv => (cap_set d i ma a, Qmin' value mv)
                          end
                        end in
                    let value := if mem zeqb LIMITED_PRECISION_ATTR_IDS a then round2 value else value in
                    (cache_put d i a value, Some value)
                  end
                end
                end
              end
            | _, _ => (d, None)
            end
          end
        end
      end
    end
  end.

(* attrs.keys() *)
Definition attr_keys (w : world) (d : derived) (i : nat) : list Z :=
  match get_item w i with
  | None => []
  | Some it => dedup zeqb (map fst (item_type_attrs w it) ++ map fst (ic_vals (get_icache d i)) ++ override_keys it)
  end.

(* attrs._force_recalc *)
Definition force_recalc (d : derived) (i : nat) (a : Z) : derived * bool :=
  let c := get_icache d i in
  if al_mem zeqb (ic_vals c) a
  then (put_icache d i (mkICache (al_del zeqb (ic_vals c) a) (ic_caps c)), true)
  else (d, false).

(* attrs._clear(): values and cap map *)
Definition clear_cache (d : derived) (i : nat) : derived := d_set_caches d (al_del neqb (d_caches d) i).
