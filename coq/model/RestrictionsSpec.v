(* C03 — the stateless reading of the restriction service.

   [spec_validate w val f skip] is a function of the CURRENT base world [w]
   and of the attribute values [val] only: for every register the tracked set
   is a comprehension over the items of the world ("loaded modules on the fit
   whose type volume exceeds 3500", "drones on the fit whose state is at least
   online", ...), never a history.  It shares no state with the registers of
   model/Restrictions.v; the per-restriction check of an offending item (the
   `Details:` clause: which numbers are compared and reported) is the same
   definition on both sides.

   [faithful] is the hypothesis on event traces under which the registers are
   exact: for every item, the on/off messages of a channel alternate, start
   with "on", carry unchanged static data (class, type) while the item is
   active, and end in the item's current status.  This is the message
   discipline of the container/state/load layer (DESIGN 5.1), proved
   separately for [Ops.md_op]. *)
From Coq Require Import ZArith QArith List Bool Arith.
From EosV Require Import lib.AList gen.T_eos model.World model.Status model.Calc model.Engine model.Ops
  model.Restrictions.
Import ListNotations.
Open Scope Z_scope.

(* "item x is currently on fit f" (follows the container chain) *)
Definition on_fit (w : world) (f x : nat) : bool :=
  match item_fit w x with Some f' => Nat.eqb f' f | None => false end.

(* the status a channel's messages announce, read off the current world *)
Definition chan_act (c : chan) (w : world) (f x : nat) : bool :=
  on_fit w f x &&
  match c with
  | ChLoaded => is_loaded w x
  | ChStLoaded s => is_loaded w x && match item_state w x with Some st => s <=? st | None => false end
  | ChSt s => match item_state w x with Some st => s <=? st | None => false end
  | ChEff e => match get_item w x with Some it => mem zeqb (i_running it) e | None => false end
  end.

Definition all_items (w : world) : list nat := nodup Nat.eq_dec (map fst (w_items w)).

(* the set register r of fit f has to hold: {(x, P x) | status of x on, P x defined} *)
Definition spec_entry (w : world) (f : nat) (r : rid) (x : nat) : list rentry :=
  if chan_act (rd_chan (desc r)) w f x
  then match chan_static (rd_chan (desc r)) w x with
       | Some s => match rd_P (desc r) s with Some p => [(x, p)] | None => [] end
       | None => []
       end
  else [].
Definition spec_reg (w : world) (f : nat) (r : rid) : list rentry :=
  flat_map (spec_entry w f r) (all_items w).

(* attribute values as a pure function: item -> attribute -> value *)
Definition oracle := nat -> Z -> option Q.
Definition pure_rd (val : oracle) (_ : unit) (x : nat) (a : Z) : unit * option Q := (tt, val x a).

Definition spec_validate (w : world) (val : oracle) (f : nat) (skip : list Z) : vres :=
  snd (validate_rules (pure_rd val) w (spec_reg w f) f skip tt).

(* ------------------------------------------------------------------ *)
(* faithful edit scripts                                               *)

Definition csig := (nat * sigk * option static)%type.
Definition msg_sig (c : chan) (w : world) (m : msg) : list csig :=
  match chan_msg c m with Some (x, k) => [(x, k, chan_static c w x)] | None => [] end.
Definition ev_sigs (c : chan) (f : nat) (ev : event) : list csig :=
  match ev with
  | EvPublish w f' msgs => if Nat.eqb f' f then flat_map (msg_sig c w) msgs else []
  | EvClear _ => []
  end.
Definition chan_sigs (c : chan) (f : nat) (evs : list event) : list csig := flat_map (ev_sigs c f) evs.

Definition item_sigs (x : nat) (l : list csig) : list (sigk * option static) :=
  flat_map (fun s : csig => if Nat.eqb (fst (fst s)) x then [(snd (fst s), snd s)] else []) l.

(* status of one item: None = off, Some s = on since an "on" message that saw static data s *)
Definition istatus := option (option static).

Fixpoint script_ok (st : istatus) (l : list (sigk * option static)) (final : istatus) : Prop :=
  match l with
  | [] => st = final
  | (KOn, s) :: r => st = None /\ script_ok (Some s) r final
  | (KOff, s) :: r => st = Some s /\ script_ok None r final
  end.

Definition cur_status (c : chan) (w : world) (f x : nat) : istatus :=
  if chan_act c w f x then Some (chan_static c w x) else None.

(* the trace [evs] is a faithful edit script of channel c for fit f ending in world w *)
Definition faithful (c : chan) (evs : list event) (w : world) (f : nat) : Prop :=
  forall x, script_ok None (item_sigs x (chan_sigs c f evs)) (cur_status c w f x).

Definition faithful_all (evs : list event) (w : world) (f : nat) : Prop :=
  forall r, faithful (rd_chan (desc r)) evs w f.

(* ------------------------------------------------------------------ *)
(* results up to the order of dict items                               *)

From Coq Require Import Permutation.
Definition oequiv {A} (a b : option (list A)) : Prop :=
  match a, b with
  | Some x, Some y => Permutation x y
  | None, None => True
  | _, _ => False
  end.

(* world consistency used by [reported_live] only: containers and the
   container back-pointers agree (C07's invariant) *)
Definition key_live (w : world) (f : nat) (k : option nat) : Prop :=
  exists i, k = Some i /\ on_fit w f i = true.
Record containers_owned (w : world) (f : nat) : Prop := mkOwned {
  own_items : forall ft x, get_fit w f = Some ft -> In x (fit_items w ft true) -> on_fit w f x = true;
  own_racks : forall ft k x, get_fit w f = Some ft -> In (Some x) (fit_rack ft k) -> on_fit w f x = true;
  own_sets : forall ft k x, get_fit w f = Some ft -> In x (fit_setc ft k) -> on_fit w f x = true;
  own_charge : forall x c, on_fit w f x = true -> w_charge w x = Some c -> on_fit w f c = true }.

Definition restrict_types (skip : list Z) (l : list ventry) : list ventry :=
  filter (fun e : ventry => negb (mem zeqb skip (snd (fst e)))) l.
