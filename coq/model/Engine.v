(* Engine model, part 3: message composition (pubsub/message/helper.py),
   load/unload (item/mixin/base.py), the calculator's handlers
   (calculator/service.py) and publication with nested deliveries. *)
From Coq Require Import ZArith QArith List Bool.
From EosV Require Import lib.AList gen.T_eos model.World model.Status model.Calc.
Import ListNotations.
Open Scope Z_scope.

(* ------------------------------------------------------------------ *)
(* MsgHelper                                                           *)

Definition states_upto (s : Z) : list Z := filter (fun x => x <=? s) State_members.
Definition states_between (lo hi : Z) : list Z :=   (* lo < s <= hi *)
  filter (fun x => (lo <? x) && (x <=? hi)) State_members.

(* _get_effects_tgts: only SingleTargetableMixin items have it *)
Definition effects_tgts (w : world) (it : item) (effs : list Z) : option (list (Z * list (option nat))) :=
  if negb (cr_targetable (class_row_of (i_cls it))) then Some []
  else match i_target it with
       | None => Some []
       | Some t =>
         fold_right (fun e acc =>
                       match acc, item_effect w it e with
                       | Some l, Some ef =>
                         if Z.eqb (e_cat ef) EffectCategoryId_target then Some ((e, [Some t]) :: l) else Some l
                       | _, _ => None
                       end) (Some []) effs
       end.

(* get_effects_status_update_msgs: updates _running_effect_ids while composing *)
Definition effects_update (w : world) (i : nat) : world * list msg :=
  match get_item w i with
  | None => (fail w EKeyAbsent, [])
  | Some it =>
    match item_state w i with
    | None => (fail w ENoneState, [])
    | Some st =>
      let effs := item_effects w it in
      let default := match item_type w it with Some t => t_default t | None => None end in
      match resolve_effects st it effs default None with
      | None => (fail w EKeyAbsent, [])
      | Some statuses =>
        let new_running := map fst (filter (fun p => snd p) statuses) in
        let start := set_diff zeqb new_running (i_running it) in
        let stop := set_diff zeqb (i_running it) new_running in
        let (w, msgs1) :=
            match start with
            | [] => (w, [])
            | _ =>
              let it' := it_set_running it (i_running it ++ start) in
              let w := put_item w i it' in
              match effects_tgts w it' start with
              | None => (fail w EKeyAbsent, [])
              | Some tg => (w, MEffectsStarted i start :: map (fun p => MEffectApplied i (fst p) (snd p)) tg)
              end
            end in
        match stop with
        | [] => (w, msgs1)
        | _ =>
          match get_item w i with
          | None => (fail w EKeyAbsent, msgs1)
          | Some it2 =>
            match effects_tgts w it2 stop with
            | None => (fail w EKeyAbsent, msgs1)
            | Some tg =>
              let w := put_item w i (it_set_running it2 (set_diff zeqb (i_running it2) stop)) in
              (w, msgs1 ++ map (fun p => MEffectUnapplied i (fst p) (snd p) false) tg ++ [MEffectsStopped i stop])
            end
          end
        end
      end
    end
  end.

Definition item_added_msgs (w : world) (i : nat) : world * list msg :=
  match item_state w i with
  | None => (fail w ENoneState, [])
  | Some st => (w, [MItemAdded i; MStatesActivated i (states_upto st)])
  end.

Definition item_removed_msgs (w : world) (i : nat) : world * list msg :=
  match item_state w i with
  | None => (fail w ENoneState, [])
  | Some st => (w, [MStatesDeactivated i (states_upto st); MItemRemoved i])
  end.

Definition item_loaded_msgs (w : world) (i : nat) : world * list msg :=
  match item_state w i with
  | None => (fail w ENoneState, [])
  | Some st =>
    let (w, m) := effects_update w i in
    (w, [MItemLoaded i; MStatesActivatedLoaded i (states_upto st)] ++ m)
  end.

Definition item_unloaded_msgs (w : world) (i : nat) : world * list msg :=
  match get_item w i with
  | None => (fail w EKeyAbsent, [])
  | Some it =>
    let (w, m1) :=
        match i_running it with
        | [] => (w, [])
        | run =>
          match effects_tgts w it run with
          | None => (fail w EKeyAbsent, [])
          | Some tg =>
            (put_item w i (it_set_running it []),
             map (fun p => MEffectUnapplied i (fst p) (snd p) false) tg ++ [MEffectsStopped i run])
          end
        end in
    match item_state w i with
    | None => (fail w ENoneState, m1)
    | Some st => (w, m1 ++ [MStatesDeactivatedLoaded i (states_upto st); MItemUnloaded i])
    end
  end.

Definition is_loaded (w : world) (i : nat) : bool :=
  match get_item w i with
  | Some it => match i_loaded it with Some _ => true | None => false end
  | None => false
  end.

Definition state_update_msgs (w : world) (i : nat) (old new : Z) : world * list msg :=
  let ld := is_loaded w i in
  let m :=
      if old <? new then
        let sts := states_between old new in
        MStatesActivated i sts :: (if ld then [MStatesActivatedLoaded i sts] else [])
      else
        let sts := states_between new old in
        (if ld then [MStatesDeactivatedLoaded i sts] else []) ++ [MStatesDeactivated i sts] in
  if ld then let (w, m2) := effects_update w i in (w, m ++ m2) else (w, m).

(* ------------------------------------------------------------------ *)
(* calculator handlers                                                 *)

Definition changes := list (nat * list Z).
Definition ch_add (ch : changes) (i : nat) (a : Z) : changes :=
  match al_get neqb ch i with
  | Some l => al_set neqb ch i (set_add zeqb l a)
  | None => al_set neqb ch i [a]
  end.

Definition force_all (d : derived) (ch : changes) (items : list nat) (a : Z) : derived * changes :=
  fold_left (fun (acc : derived * changes) i =>
               let (d, ch) := acc in
               let (d, b) := force_recalc d i a in
               (d, if b then ch_add ch i a else ch)) items (d, ch).

Definition force_all_attrs (d : derived) (ch : changes) (i : nat) (attrs : list Z) : derived * changes :=
  fold_left (fun (acc : derived * changes) a =>
               let (d, ch) := acc in
               let (d, b) := force_recalc d i a in
               (d, if b then ch_add ch i a else ch)) attrs (d, ch).

Definition item_src (w : world) (i : nat) : option nat :=
  match get_item w i with Some it => i_loaded it | None => None end.

(* __generate_local_affector_specs / projected_modifiers part / projectors *)
Definition mods_indexed (e : effect) : list (nat * modifier) := combine (seq 0 (length (e_mods e))) (e_mods e).

Definition gen_specs (w : world) (i : nat) (effs : list Z) (projected : bool) : option (list spec) :=
  match get_item w i with
  | None => None
  | Some it =>
    match i_loaded it with
    | None => match effs with [] => Some [] | _ => None end   (* {}[effect_id]: KeyError *)
    | Some src =>
      fold_right (fun e acc =>
                    match acc, item_effect w it e with
                    | Some l, Some ef =>
                      Some (map (fun p => mkSpec i e src (fst p) (snd p) (e_resist_attr ef))
                                (filter (fun p => Bool.eqb (Z.eqb (m_domain (snd p)) ModDomain_target) projected)
                                        (mods_indexed ef)) ++ l)
                    | _, _ => None
                    end) (Some []) effs
    end
  end.

Definition gen_projectors (w : world) (i : nat) (effs : list Z) : option (list proj) :=
  match get_item w i with
  | None => None
  | Some it =>
    match i_loaded it with
    | None => match effs with [] => Some [] | _ => None end
    | Some src =>
      fold_right (fun e acc =>
                    match acc, item_effect w it e with
                    | Some l, Some ef =>
                      if Z.eqb (e_cat ef) EffectCategoryId_target || e_buff ef
                      then Some (mkProj i e src :: l) else Some l
                    | _, _ => None
                    end) (Some []) effs
    end
  end.

(* __generate_projected_affectors: buff specs of the projector + projected modifiers *)
Definition gen_projected (w : world) (c : calc) (i : nat) (effs : list Z) : option (list spec) :=
  match gen_specs w i effs true, item_src w i with
  | Some l, Some src =>
    Some (dedup spec_eqb (flat_map (fun e => ks_get proj_eqb (c_buffs c) (mkProj i e src)) effs ++ l))
  | Some l, None => Some l
  | None, _ => None
  end.

Definition with_calc (d : derived) (s : nat) (g : calc -> option calc) : derived :=
  match g (calc_of d s) with
  | Some c => put_calc d s c
  | None => dfail d ENoneDeref
  end.

(* split attr changes into regular / masked (override callbacks) per fit, in order *)
Definition split_changes (w : world) (ch : changes) : option (list (nat * (changes * changes))) :=
  fold_left (fun acc (p : nat * list Z) =>
               match acc with
               | None => None
               | Some l =>
                 match get_item w (fst p), item_fit w (fst p) with
                 | Some it, Some f =>
                   let ov := override_keys it in
                   let reg := set_diff zeqb (snd p) ov in
                   let msk := set_inter zeqb (snd p) ov in
                   let (r0, m0) := match al_get neqb l f with Some x => x | None => ([], []) end in
                   let r1 := match reg with [] => r0 | _ => r0 ++ [(fst p, reg)] end in
                   let m1 := match msk with [] => m0 | _ => m0 ++ [(fst p, msk)] end in
                   match reg, msk with
                   | [], [] => Some l
                   | _, _ => Some (al_set neqb l f (r1, m1))
                   end
                 | _, _ => None
                 end
               end) ch (Some []).

Definition fit_fleet (w : world) (f : nat) : option nat :=
  match get_fit w f with Some ft => f_fleet ft | None => None end.
Definition fit_ship (w : world) (f : nat) : option nat :=
  match get_fit w f with Some ft => f_ship ft | None => None end.

Definition pysub_eqb (a b : nat * spec) : bool := Nat.eqb (fst a) (fst b) && spec_eqb (snd a) (snd b).

Definition item_is_loaded (w : world) (i : nat) : bool :=
  match get_item w i with
  | Some it => match i_loaded it with Some _ => true | None => false end
  | None => false
  end.

(* ships of msg.fit and of the fits of the solar system in the same fleet *)
Definition buff_tgt_ships (w : world) (s : nat) (f : nat) (fleet : option nat) : list (option nat) :=
  match get_ss w s with
  | None => []
  | Some x =>
    flat_map (fun tf =>
                if Nat.eqb tf f || (match fleet with
                                    | Some fl => onat_eqb (fit_fleet w tf) (Some fl)
                                    | None => false end)
                then match fit_ship w tf with
                     | Some sh => if item_is_loaded w sh then [Some sh] else []
                     | None => [] end
                else []) (ss_fits x)
  end.

Definition q_to_z (q : Q) : option Z :=
  let r := Qred q in if Pos.eqb (Qden r) 1 then Some (Qnum r) else None.

Definition proj_is_buff (w : world) (pr : proj) : bool :=
  match get_src w (pj_src pr) with
  | Some u => match get_effect u (pj_eff pr) with Some ef => e_buff ef | None => false end
  | None => false
  end.

(* warfare-buff projectors among [projs] whose item's fit satisfies [sel],
   grouped by that fit in first-seen order; None: projector item without fit *)
Definition buff_groups (w : world) (c : calc) (projs : list proj) (sel : nat -> bool) : option (list (nat * list proj)) :=
  fold_left (fun acc pr =>
               match acc with
               | None => None
               | Some g =>
                 if negb (ks_has proj_eqb (c_buffs c) pr) then Some g
                 else match item_fit w (pj_item pr) with
                      | None => None
                      | Some pf =>
                        if sel pf then
                          Some (match al_get neqb g pf with
                                | Some l => al_set neqb g pf (l ++ [pr])
                                | None => al_set neqb g pf [pr] end)
                        else Some g
                      end
               end) projs (Some []).

Section Publish.
  (* everything below recurses through nested publication on explicit fuel *)

  (* build the warfare-buff specs of one running buff effect and return the
     effect applications it causes (service.py, two copies of the same loop) *)
  Definition build_buffs (fuel : nat) (w : world) (d : derived) (s f : nat) (fleet : option nat) (i : nat) (e : Z)
    : derived * list (proj * list (option nat)) :=
    match item_src w i with
    | None => (dfail d EKeyAbsent, [])
    | Some src =>
      let p := mkProj i e src in
      fold_left
        (fun (acc : derived * list (proj * list (option nat))) (ba : Z * Z) =>
           let (d, apps) := acc in
           let (d, ov) := read_attr fuel w d i (fst ba) in
           match ov with
           | None => (d, apps)
           | Some bq =>
             match get_ss w s with
             | None => (dfail d EKeyAbsent, apps)
             | Some x =>
               match ss_source x with
               | None => (dfail d ENoneDeref, apps)
               | Some cs =>
                 match get_src w cs with
                 | None => (dfail d EKeyAbsent, apps)
                 | Some u =>
                   match (match q_to_z bq with Some bid => al_get zeqb (u_buffs u) bid | None => None end) with
                   | None | Some [] => (d, apps)
                   | Some tpls =>
                     let bkey := q_to_z bq in
                     let d :=
                         fold_left
                           (fun d (t : buff_template) =>
                              let mid := d_next d in
                              let d := d_set_next d (S mid) in
                              let m := mkMod (b_filter t) (b_extra t) ModDomain_target (b_tgt_attr t)
                                             (b_op t) (b_aggmode t) bkey (snd ba) 0 in
                              let ef_res := match get_item w i with
                                            | Some it => match item_effect w it e with
                                                         | Some ef => e_resist_attr ef | None => None end
                                            | None => None end in
                              with_calc d s (fun c => Some (c_set_buffs c (ks_add_entry proj_eqb spec_eqb (c_buffs c) p
                                                                                      (mkSpec i e src mid m ef_res)))))
                           tpls d in
                     (d, apps ++ [(p, buff_tgt_ships w s f fleet)])
                   end
                 end
               end
             end
           end) WARFARE_BUFF_ATTRS (d, [])
    end.

  Definition is_buff_effect (w : world) (i : nat) (e : Z) : option bool :=
    match get_item w i with
    | Some it => match item_effect w it e with Some ef => Some (e_buff ef) | None => None end
    | None => None
    end.

  Fixpoint publish (fuel : nat) (w : world) (d : derived) (f : nat) (msgs : list msg) {struct fuel} : derived :=
    match fuel with
    | O => match msgs with [] => d | _ => dfail d EOutOfFuel end
    | S fuel =>
      let publish_changes (d : derived) (ch : changes) : derived :=
          match ch with
          | [] => d
          | _ =>
            match split_changes w ch with
            | None => dfail d ENoneDeref
            | Some per_fit =>
              fold_left (fun d (p : nat * (changes * changes)) =>
                           let (r, m) := snd p in
                           publish fuel w d (fst p)
                                   ((match r with [] => [] | _ => [MAttrsChanged r] end)
                                    ++ (match m with [] => [] | _ => [MAttrsChangedMasked m] end)))
                        per_fit d
            end
          end in
      (* __revise_tgt_projections *)
      let revise_tgt (d : derived) (s : nat) (i : nat) (loaded : bool) : derived :=
          let (d, ch) :=
              fold_left
                (fun (acc : derived * changes) pr =>
                   let (d, ch) := acc in
                   match gen_projected w (calc_of d s) (pj_item pr) [pj_eff pr] with
                   | None => (dfail d EKeyAbsent, ch)
                   | Some specs =>
                     fold_left
                       (fun (acc : derived * changes) sp =>
                          let (d, ch) := acc in
                          let d := if loaded
                                   then with_calc d s (fun c => apply_targets c (projected_targets w c sp [Some i]) sp true)
                                   else d in
                          let (d, ch) := force_all d ch (projected_affectees w (calc_of d s) sp [Some i])
                                                   (m_tgt_attr (sp_mod sp)) in
                          let d := if loaded then d
                                   else with_calc d s (fun c => apply_targets c (projected_targets w c sp [Some i]) sp false) in
                          (d, ch)) specs (d, ch)
                   end) (ks_get onat_eqb (c_tgtp (calc_of d s)) (Some i)) (d, []) in
          publish_changes d ch in
      let handle (d : derived) (s : nat) (m : msg) : derived :=
          match m with
          | MItemLoaded i =>
            let d := with_calc d s (fun c => register_affectee w c i) in
            let d := match get_item w i with
                     | Some it => if cr_solsys (class_row_of (i_cls it))
                                  then with_calc d s (fun c => register_solsys_item w c i) else d
                     | None => d
                     end in
            let d := revise_tgt d s i true in
            if is_ship w i then
              let my_fleet := fit_fleet w f in
              match buff_groups w (calc_of d s) (c_projectors (calc_of d s))
                                (fun pf => Nat.eqb pf f
                                           || (match my_fleet with
                                               | Some fl => onat_eqb (fit_fleet w pf) (Some fl)
                                               | None => false end)) with
              | None => dfail d ENoneDeref
              | Some g =>
                fold_left (fun d (p : nat * list proj) =>
                             publish fuel w d (fst p)
                                     (map (fun pr => MEffectApplied (pj_item pr) (pj_eff pr) [Some i]) (snd p))) g d
              end
            else d
          | MItemUnloaded i =>
            let d :=
                if is_ship w i then
                  match buff_groups w (calc_of d s) (ks_get onat_eqb (c_tgtp (calc_of d s)) (Some i)) (fun _ => true) with
                  | None => dfail d ENoneDeref
                  | Some g =>
                    fold_left (fun d (p : nat * list proj) =>
                                 publish fuel w d (fst p)
                                         (map (fun pr => MEffectUnapplied (pj_item pr) (pj_eff pr) [Some i] false) (snd p)))
                              g d
                  end
                else d in
            let d := revise_tgt d s i false in
            let d := with_calc d s (fun c => unregister_affectee w c i) in
            match get_item w i with
            | Some it => if cr_solsys (class_row_of (i_cls it))
                         then with_calc d s (fun c => Some (unregister_solsys_item c i)) else d
            | None => d
            end
          | MEffectsStarted i effs =>
            match gen_specs w i effs false, gen_projectors w i effs with
            | Some specs, Some projs =>
              (* __subscribe_python_affector_spec *)
              let d := d_set_pysubs d (fold_left (fun l sp => if Z.eqb (m_py (sp_mod sp)) 0 then l
                                                              else set_add pysub_eqb l (s, sp)) specs (d_pysubs d)) in
              let (d, ch) :=
                  fold_left (fun (acc : derived * changes) sp =>
                               let (d, ch) := acc in
                               let d := with_calc d s (fun c => apply_targets c (local_targets w c sp) sp true) in
                               match local_affectees w (calc_of d s) sp with
                               | None => (dfail d ENoneDeref, ch)
                               | Some items => force_all d ch items (m_tgt_attr (sp_mod sp))
                               end) specs (d, []) in
              let d := fold_left (fun d p => with_calc d s (fun c => register_projector w c p)) projs d in
              let fleet := fit_fleet w f in
              let (d, apps) :=
                  fold_left (fun (acc : derived * list (proj * list (option nat))) e =>
                               let (d, apps) := acc in
                               match is_buff_effect w i e with
                               | Some true => let (d, a) := build_buffs fuel w d s f fleet i e in (d, apps ++ a)
                               | Some false => (d, apps)
                               | None => (dfail d EKeyAbsent, apps)
                               end) effs (d, []) in
              let d := publish_changes d ch in
              match apps with
              | [] => d
              | _ => publish fuel w d f (map (fun a => MEffectApplied (pj_item (fst a)) (pj_eff (fst a)) (snd a)) apps)
              end
            | _, _ => dfail d EKeyAbsent
            end
          | MEffectsStopped i effs =>
            match gen_projectors w i effs with
            | None => dfail d EKeyAbsent
            | Some projs =>
              let c0 := calc_of d s in
              let unapps := map (fun p => (p, ks_get proj_eqb (c_ptgts c0) p))
                                (filter (fun p => ks_has proj_eqb (c_buffs c0) p) projs) in
              let d := match unapps with
                       | [] => d
                       | _ =>
                         let d := publish fuel w d f
                                          (map (fun a => MEffectUnapplied (pj_item (fst a)) (pj_eff (fst a)) (snd a)
                                                                          (ks_has proj_eqb (c_ptgts c0) (fst a)))
                                               unapps) in
                         fold_left (fun d a => with_calc d s (fun c =>
                                      if ks_has proj_eqb (c_buffs c) (fst a)
                                      then Some (c_set_buffs c (ks_del proj_eqb (c_buffs c) (fst a)))
                                      else None)) unapps d
                       end in
              match gen_specs w i effs false with
              | None => dfail d EKeyAbsent
              | Some specs =>
                let (d, ch) :=
                    fold_left (fun (acc : derived * changes) sp =>
                                 let (d, ch) := acc in
                                 match local_affectees w (calc_of d s) sp with
                                 | None => (dfail d ENoneDeref, ch)
                                 | Some items =>
                                   let (d, ch) := force_all d ch items (m_tgt_attr (sp_mod sp)) in
                                   (with_calc d s (fun c => apply_targets c (local_targets w c sp) sp false), ch)
                                 end) specs (d, []) in
                (* __unsubscribe_python_affector_spec *)
                let d := d_set_pysubs d (fold_left (fun l sp => if Z.eqb (m_py (sp_mod sp)) 0 then l
                                                                else set_rm pysub_eqb l (s, sp)) specs (d_pysubs d)) in
                let d := fold_left (fun d p => with_calc d s (fun c => unregister_projector w c p)) projs d in
                publish_changes d ch
              end
            end
          | MEffectApplied i e tgts =>
            match gen_projected w (calc_of d s) i [e], gen_projectors w i [e] with
            | Some specs, Some projs =>
              let (d, ch) :=
                  fold_left (fun (acc : derived * changes) sp =>
                               let (d, ch) := acc in
                               let d := with_calc d s (fun c => apply_targets c (projected_targets w c sp tgts) sp true) in
                               force_all d ch (projected_affectees w (calc_of d s) sp tgts) (m_tgt_attr (sp_mod sp)))
                            specs (d, []) in
              let d := fold_left (fun d p => with_calc d s (fun c => Some (apply_projector c p tgts))) projs d in
              publish_changes d ch
            | _, _ => dfail d EKeyAbsent
            end
          | MEffectUnapplied i e tgts aliased =>
            match gen_projected w (calc_of d s) i [e], gen_projectors w i [e] with
            | Some specs, Some projs =>
              let (d, ch) :=
                  fold_left (fun (acc : derived * changes) sp =>
                               let (d, ch) := acc in
                               let (d, ch) := force_all d ch (projected_affectees w (calc_of d s) sp tgts)
                                                        (m_tgt_attr (sp_mod sp)) in
                               (with_calc d s (fun c => apply_targets c (projected_targets w c sp tgts) sp false), ch))
                            specs (d, []) in
              let d := fold_left (fun d p => with_calc d s (fun c => Some (unapply_projector c p tgts aliased))) projs d in
              publish_changes d ch
            | _, _ => dfail d EKeyAbsent
            end
          | MAttrsChanged changed =>
            (* _revise_regular_attr_dependents *)
            let buff_attr_touched (attrs : list Z) := existsb (fun ba => mem zeqb attrs (fst ba)) WARFARE_BUFF_ATTRS in
            let c0 := calc_of d s in
            let unapps :=
                flat_map (fun (p : nat * list Z) =>
                            match get_item w (fst p), item_src w (fst p) with
                            | Some it, Some src =>
                              flat_map (fun ee =>
                                          let pr := mkProj (fst p) (fst ee) src in
                                          if ks_has proj_eqb (c_buffs c0) pr && buff_attr_touched (snd p)
                                          then [(pr, ks_get proj_eqb (c_ptgts c0) pr)] else [])
                                       (item_effects w it)
                            | _, _ => []
                            end) changed in
            let d := publish fuel w d f (map (fun a => MEffectUnapplied (pj_item (fst a)) (pj_eff (fst a)) (snd a)
                                                                      (ks_has proj_eqb (c_ptgts c0) (fst a))) unapps) in
            let (d, ch) :=
                fold_left
                  (fun (acc : derived * changes) (p : nat * list Z) =>
                     let (d, ch) := acc in
                     let i := fst p in
                     let attrs := snd p in
                     match get_item w i with
                     | None => (dfail d EKeyAbsent, ch)
                     | Some it =>
                       (* capped attributes *)
                       let (d, ch) :=
                           fold_left (fun (acc : derived * changes) a =>
                                        let (d, ch) := acc in
                                        force_all_attrs d ch i (ks_get zeqb (ic_caps (get_icache d i)) a)) attrs (d, ch) in
                       (* local dogma dependents *)
                       let (d, ch) :=
                           match gen_specs w i (i_running it) false with
                           | None => (dfail d EKeyAbsent, ch)
                           | Some specs =>
                             fold_left (fun (acc : derived * changes) sp =>
                                          let (d, ch) := acc in
                                          if mem zeqb attrs (m_src_attr (sp_mod sp)) then
                                            match local_affectees w (calc_of d s) sp with
                                            | None => (dfail d ENoneDeref, ch)
                                            | Some items => force_all d ch items (m_tgt_attr (sp_mod sp))
                                            end
                                          else (d, ch)) specs (d, ch)
                           end in
                       (* projected dependents over current targets *)
                       let (d, ch) :=
                           match gen_projectors w i (i_running it) with
                           | None => (dfail d EKeyAbsent, ch)
                           | Some projs =>
                             fold_left (fun (acc : derived * changes) pr =>
                                          let (d, ch) := acc in
                                          match ks_get proj_eqb (c_ptgts (calc_of d s)) pr with
                                          | [] => (d, ch)
                                          | tgts =>
                                            match gen_projected w (calc_of d s) i [pj_eff pr] with
                                            | None => (dfail d EKeyAbsent, ch)
                                            | Some specs =>
                                              fold_left (fun (acc : derived * changes) sp =>
                                                           let (d, ch) := acc in
                                                           if mem zeqb attrs (m_src_attr (sp_mod sp))
                                                           then force_all d ch (projected_affectees w (calc_of d s) sp tgts)
                                                                          (m_tgt_attr (sp_mod sp))
                                                           else (d, ch)) specs (d, ch)
                                            end
                                          end) projs (d, ch)
                           end in
                       (* resist dependents: projectors targeting this item *)
                       fold_left (fun (acc : derived * changes) pr =>
                                    let (d, ch) := acc in
                                    let res := match get_src w (pj_src pr) with
                                               | Some u => match get_effect u (pj_eff pr) with
                                                           | Some ef => e_resist_attr ef | None => None end
                                               | None => None end in
                                    match res with
                                    | None => (d, ch)
                                    | Some ra =>
                                      if negb (mem zeqb attrs ra) then (d, ch)
                                      else
                                        let tgts := ks_get proj_eqb (c_ptgts (calc_of d s)) pr in
                                        match gen_projected w (calc_of d s) (pj_item pr) [pj_eff pr] with
                                        | None => (dfail d EKeyAbsent, ch)
                                        | Some specs =>
                                          fold_left (fun (acc : derived * changes) sp =>
                                                       let (d, ch) := acc in
                                                       force_all d ch (projected_affectees w (calc_of d s) sp tgts)
                                                                 (m_tgt_attr (sp_mod sp))) specs (d, ch)
                                        end
                                    end) (ks_get onat_eqb (c_tgtp (calc_of d s)) (Some i)) (d, ch)
                     end) changed (d, []) in
            let d := fold_left (fun d a => with_calc d s (fun c =>
                                  if ks_has proj_eqb (c_buffs c) (fst a)
                                  then Some (c_set_buffs c (ks_del proj_eqb (c_buffs c) (fst a)))
                                  else None)) unapps d in
            let d := publish_changes d ch in
            let (d, apps) :=
                fold_left
                  (fun (acc : derived * list (proj * list (option nat))) (p : nat * list Z) =>
                     let (d, apps) := acc in
                     if negb (buff_attr_touched (snd p)) then (d, apps)
                     else
                       match get_item w (fst p), item_fit w (fst p) with
                       | Some it, Some ifit =>
                         fold_left (fun (acc : derived * list (proj * list (option nat))) e =>
                                      let (d, apps) := acc in
                                      match is_buff_effect w (fst p) e with
                                      | Some true =>
                                        let (d, a) := build_buffs fuel w d s f (fit_fleet w ifit) (fst p) e in (d, apps ++ a)
                                      | Some false => (d, apps)
                                      | None => (dfail d EKeyAbsent, apps)
                                      end) (i_running it) (d, apps)
                       | _, _ => (dfail d ENoneDeref, apps)
                       end) changed (d, []) in
            let d := publish_changes d ch in
            match apps with
            | [] => d
            | _ => publish fuel w d f (map (fun a => MEffectApplied (pj_item (fst a)) (pj_eff (fst a)) (snd a)) apps)
            end
          | MFleetFitAdded | MFleetFitRemoved =>
            let added := match m with MFleetFitAdded => true | _ => false end in
            let c0 := calc_of d s in
            let msg_ship := fit_ship w f in
            let msg_fleet := fit_fleet w f in
            (* {projector_fit: [(projector, tgts)]} in insertion order *)
            let groups : option (list (nat * list (proj * list (option nat)))) :=
                fold_left
                  (fun acc pr =>
                     match acc with
                     | None => None
                     | Some g =>
                       let isb := ks_has proj_eqb (c_buffs c0) pr in
                       if negb isb then Some g
                       else
                         match item_fit w (pj_item pr) with
                         | None => None
                         | Some pf =>
                           let add g x := match al_get neqb g pf with
                                          | Some l => al_set neqb g pf (l ++ [x])
                                          | None => al_set neqb g pf [x] end in
                           let g := match msg_ship with
                                    | Some sh => if onat_eqb (fit_fleet w pf) msg_fleet && negb (Nat.eqb pf f)
                                                    && item_is_loaded w sh
                                                then add g (pr, [Some sh]) else g
                                    | None => g end in
                           let g := if Nat.eqb pf f then
                                      match msg_fleet with
                                      | None => g
                                      | Some fl =>
                                        fold_left (fun g of_ => if Nat.eqb of_ f then g
                                                                else match fit_ship w of_ with
                                                                     | Some sh =>
                                                                       if item_is_loaded w sh
                                                                          && onat_eqb (fit_solsys w of_) (Some s)
                                                                       then add g (pr, [Some sh]) else g
                                                                     | None => g end)
                                                  (match al_get neqb (w_fleets w) fl with Some l => l | None => [] end) g
                                      end
                                    else g in
                           Some g
                         end
                     end) (c_projectors c0) (Some []) in
            match groups with
            | None => dfail d ENoneDeref
            | Some g =>
              fold_left (fun d (p : nat * list (proj * list (option nat))) =>
                           publish fuel w d (fst p)
                                   (map (fun a => if added
                                                  then MEffectApplied (pj_item (fst a)) (pj_eff (fst a)) (snd a)
                                                  else MEffectUnapplied (pj_item (fst a)) (pj_eff (fst a)) (snd a) false)
                                        (snd p))) g d
            end
          | _ => d
          end in
      (* _revise_python_attr_dependents: every delivered message is shown to the subscribed python specs *)
      let revise_py (d : derived) (s : nat) (m : msg) : derived :=
          let subs := flat_map (fun (p : nat * spec) => if Nat.eqb (fst p) s then [snd p] else []) (d_pysubs d) in
          match subs with
          | [] => d
          | _ =>
            let changed_has (ch : changes) (x : nat) (attrs : list Z) : bool :=
                existsb (fun (p : nat * list Z) => Nat.eqb (fst p) x && existsb (fun a => mem zeqb (snd p) a) attrs) ch in
            let wants (sp : spec) : bool :=
                match m with
                | MItemAdded x | MItemRemoved x =>
                  Z.eqb (m_py (sp_mod sp)) 2 &&
                  match get_item w (sp_item sp) with
                  | Some ai => onat_eqb (i_charge ai) (Some x) &&
                               match get_item w x with
                               | Some xi => Z.eqb (i_tid xi) TypeId_nanite_repair_paste
                               | None => false end
                  | None => false
                  end
                | MAttrsChanged ch =>
                  if Z.eqb (m_py (sp_mod sp)) 1 then
                    (match (match item_fit w (sp_item sp) with
                            | Some pf => match get_fit w pf with Some ft => f_ship ft | None => None end
                            | None => None end) with
                     | Some sh => changed_has ch sh [AttrId_mass]
                     | None => false end)
                    || changed_has ch (sp_item sp) [AttrId_speed_factor; AttrId_speed_boost_factor]
                  else if Z.eqb (m_py (sp_mod sp)) 2 then changed_has ch (sp_item sp) [AttrId_charged_armor_dmg_mult]
                  else false
                | _ => false
                end in
            let (d, ch) :=
                fold_left (fun (acc : derived * changes) sp =>
                             let (d, ch) := acc in
                             if wants sp then
                               match local_affectees w (calc_of d s) sp with
                               | None => (dfail d ENoneDeref, ch)
                               | Some items => force_all d ch items (m_tgt_attr (sp_mod sp))
                               end
                             else (d, ch)) subs (d, []) in
            publish_changes d ch
          end in
      fold_left (fun d m =>
                   let d := d_set_trace d ((f, m) :: d_trace d) in
                   match fit_solsys w f with
                   | Some s => revise_py (handle d s m) s m
                   | None => d
                   end) msgs d
    end.
End Publish.
