(* Booster side effects and fighter-squad abilities (eos/item/booster.py,
   fighter_squad.py): user-facing switches built on effect run modes. *)
From Coq Require Import ZArith QArith List Bool.
From EosV Require Import lib.AList gen.T_eos model.World model.Status model.Calc model.Ops.
Import ListNotations.
Open Scope Z_scope.

Definition side_effect_mode (status : bool) : Z :=
  if status then EffectMode_state_compliance else EffectMode_full_compliance.
Definition ability_mode (is_default status : bool) : Z :=
  if is_default then (if status then EffectMode_full_compliance else EffectMode_force_stop)
  else (if status then EffectMode_state_compliance else EffectMode_full_compliance).

(* Booster.__side_effect_chances: offline-category effects with a chance value.
   None: effect._state raised (category without state mapping) *)
Definition side_effect_chances (w : world) (d : derived) (i : nat) : derived * option (list (Z * Q)) :=
  match get_item w i with
  | None => (d, Some [])
  | Some it =>
    fold_left
      (fun (acc : derived * option (list (Z * Q))) (ee : Z * effect) =>
         match acc with
         | (d, None) => (d, None)
         | (d, Some l) =>
           match effect_state (snd ee) with
           | None => (d, None)
           | Some es =>
             if negb (es =? State_offline) then (d, Some l)
             else match e_chance_attr (snd ee) with
                  | None => (d, Some l)
                  | Some ca =>
                    let (d, ov) := read_attr PF w d i ca in
                    match ov with Some c => (d, Some (l ++ [(fst ee, c)])) | None => (d, Some l) end
                  end
           end
         end) (item_effects w it) (d, Some [])
  end.

(* Booster.side_effects: (effect id, chance, status) *)
Definition side_effects (w : world) (d : derived) (i : nat) : derived * option (list (Z * Q * bool)) :=
  match side_effect_chances w d i, get_item w i with
  | (d, Some ch), Some it =>
    let default := match item_type w it with Some t => t_default t | None => None end in
    match resolve_effects State_offline it (item_effects w it) default (Some (map fst ch)) with
    | None => (d, None)
    | Some sts =>
      (d, Some (map (fun ec => (fst ec, snd ec,
                                match al_get zeqb sts (fst ec) with Some b => b | None => false end)) ch))
    end
  | (d, _), _ => (d, None)
  end.

(* FighterSquad.abilities, given the ability ids of the item's type *)
Definition abilities (w : world) (abil : list Z) (i : nat) : option (list (Z * bool)) :=
  match get_item w i with
  | None => Some []
  | Some it =>
    match i_loaded it with
    | None => Some []
    | Some _ =>
      let effs := item_effects w it in
      let default := match item_type w it with Some t => t_default t | None => None end in
      fold_left
        (fun acc aid =>
           match acc with
           | None => None
           | Some l =>
             match al_get zeqb FIGHTER_ABILITY_MAP aid with
             | None => None                      (* fighter_ability_map[ability_id]: KeyError *)
             | Some eid =>
               match al_get zeqb effs eid with
               | None => Some l
               | Some ef =>
                 match effect_state ef with
                 | None => None
                 | Some es =>
                   if negb (es =? State_active) then Some l
                   else match resolve_effects State_active it effs default (Some [eid]) with
                        | Some sts => match al_get zeqb sts eid with
                                      | Some b => Some (l ++ [(aid, b)])
                                      | None => None end
                        | None => None
                        end
                 end
               end
             end
           end) abil (Some [])
    end
  end.

(* the mode set_ability_status asks for; None: fighter_ability_map KeyError *)
Definition ability_set_mode (w : world) (i : nat) (aid : Z) (status : bool) : option (Z * Z) :=
  match al_get zeqb FIGHTER_ABILITY_MAP aid, get_item w i with
  | Some eid, Some it =>
    let default := match item_type w it with Some t => t_default t | None => None end in
    let is_default := match default with Some de => de =? eid | None => false end in
    Some (eid, ability_mode is_default status)
  | _, _ => None
  end.
