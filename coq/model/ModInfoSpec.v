(* C19 — declarative specification of the modifier-info conversion.

   It carries its own constants (the documented mapping) and does not mention
   the generated tables nor any function of the model; proofs/ModInfo_p.v
   shows that the tables generated from the source equal these constants and
   that the model's build refines [spec_convert] / [spec_status]. *)
From Coq Require Import ZArith QArith Bool String List.
From EosV Require Import model.ModInfoTypes.
Import ListNotations.
Local Open Scope Z_scope.
Local Open Scope string_scope.

(* ---- the documented maps ------------------------------------------------ *)
(* ModAffecteeFilter: item 1, domain 2, domain_group 3, domain_skillrq 4,
   owner_skillrq 5.  ModDomain: self 1, character 2, ship 3, target 4, other 5.
   ModOperator: pre_assign 1, pre_mul 2, pre_div 3, mod_add 4, mod_sub 5,
   post_mul 6, post_mul_immune 7, post_div 8, post_percent 9, post_assign 10.
   ModAggregateMode: stack 1.  EffectBuildStatus: error 2, success_partial 3,
   success 4. *)

(* func -> (filter, key of the filter's extra argument, key of the affectee
   attribute id, key of the affector attribute id, aggregate mode) *)
Definition spec_handlers : list (string * (Z * option string * string * string * Z)) :=
  [ ("ItemModifier", (1, None, "modifiedAttributeID", "modifyingAttributeID", 1))
  ; ("LocationModifier", (2, None, "modifiedAttributeID", "modifyingAttributeID", 1))
  ; ("LocationGroupModifier", (3, Some "groupID", "modifiedAttributeID", "modifyingAttributeID", 1))
  ; ("LocationRequiredSkillModifier", (4, Some "skillTypeID", "modifiedAttributeID", "modifyingAttributeID", 1))
  ; ("OwnerRequiredSkillModifier", (5, Some "skillTypeID", "modifiedAttributeID", "modifyingAttributeID", 1)) ].

(* 'domain' value (None: the JSON null) -> ModDomain *)
Definition spec_domains : list (option string * Z) :=
  [ (None, 1); (Some "itemID", 1); (Some "charID", 2); (Some "shipID", 3)
  ; (Some "targetID", 4); (Some "otherID", 5) ].

(* 'operation' code -> ModOperator *)
Definition spec_operators : list (Z * Z) :=
  [ (-1, 1); (0, 2); (1, 3); (2, 4); (3, 5); (4, 6); (5, 8); (6, 9); (7, 10) ].

(* filter -> domains a modifier with this filter may have *)
Definition spec_supported : list (Z * list Z) :=
  [ (1, [1; 2; 3; 4; 5]); (2, [1; 2; 3; 4]); (3, [1; 2; 3; 4])
  ; (4, [1; 2; 3; 4]); (5, [2]) ].

Definition spec_success : Z := 4.
Definition spec_success_partial : Z := 3.
Definition spec_error : Z := 2.

(* ---- which JSON values denote what --------------------------------------- *)
(* an id: an integer, a bool (an int in Python), a float with integral value,
   or a decimal integer literal *)
Inductive denotes_int : value -> Z -> Prop :=
| DI_int : forall z, denotes_int (VInt z) z
| DI_bool : forall b, denotes_int (VBool b) (Z.b2z b)
| DI_float : forall q z, (q == inject_Z z)%Q -> denotes_int (VFloat q) z
| DI_str : forall s z, int_of_str s = Some z -> denotes_int (VStr s) z.

(* an operation code: as above but strings are not numbers *)
Inductive denotes_code : value -> Z -> Prop :=
| DC_int : forall z, denotes_code (VInt z) z
| DC_bool : forall b, denotes_code (VBool b) (Z.b2z b)
| DC_float : forall q z, (q == inject_Z z)%Q -> denotes_code (VFloat q) z.

Inductive denotes_domain : value -> option string -> Prop :=
| DD_none : denotes_domain VNone None
| DD_str : forall s, denotes_domain (VStr s) (Some s).

Definition id_at (e : entry) (k : string) (z : Z) : Prop :=
  exists v, field e k = Some v /\ denotes_int v z.

(* ---- well-formed entry -> its modifier ----------------------------------- *)
Record wellformed (e : entry) (m : modifier) : Prop := mkWF {
  wf_func : exists f ek ak sk,
      field e "func" = Some (VStr f) /\
      In (f, (m_filter m, ek, ak, sk, m_aggr_mode m)) spec_handlers /\
      match ek with
      | None => m_extra m = None
      | Some k => exists z, id_at e k z /\ m_extra m = Some z
      end /\
      id_at e ak (m_attr m) /\ id_at e sk (m_affector m);
  wf_domain : exists v dk,
      field e "domain" = Some v /\ denotes_domain v dk /\
      In (dk, m_domain m) spec_domains;
  wf_operator : exists v c,
      field e "operation" = Some v /\ denotes_code v c /\
      In (c, m_operator m) spec_operators;
  wf_aggr_key : m_aggr_key m = None;
  wf_supported : exists doms,
      In (m_filter m, doms) spec_supported /\ In (m_domain m) doms
}.

Definition malformed (e : entry) : Prop := forall m, ~ wellformed e m.

(* ---- the whole list -------------------------------------------------------- *)
(* spec_convert infos mods bad: mods are the modifiers of the well-formed
   entries, in order; bad counts the others *)
Inductive spec_convert : list entry -> list modifier -> nat -> Prop :=
| SC_nil : spec_convert [] [] O
| SC_good : forall e m r ms bad,
    wellformed e m -> spec_convert r ms bad -> spec_convert (e :: r) (m :: ms) bad
| SC_bad : forall e r ms bad,
    malformed e -> spec_convert r ms bad -> spec_convert (e :: r) ms (S bad).

Definition spec_status (n_mods bad : nat) : Z :=
  match bad, n_mods with
  | O, _ => spec_success
  | S _, S _ => spec_success_partial
  | S _, O => spec_error
  end.
