(* Engine model, part 4: load/unload, containers (item_container/*.py), item
   setters, fleets, solar systems, source switching, and [step]. *)
From Coq Require Import ZArith QArith List Bool.
From EosV Require Import lib.AList gen.T_eos model.World model.Status model.Calc model.Engine.
Import ListNotations.
Open Scope Z_scope.

Inductive exn := XType | XValue | XKey | XIndex | XSlotTaken | XUnknownSource | XInternal (e : ierr).

(* int(x) for a float: truncation towards zero *)
Definition q_trunc (q : Q) : Z := Z.quot (Qnum q) (Zpos (Qden q)).

Definition PF : nat := 200%nat.   (* fuel for nested publication and calculation *)

(* The message-discipline layer (containers, setters, load/unload) never reads
   what the services derive; it only emits publications, each with the base
   world at that moment, and cache clears. The derived state replays them. *)
Inductive event :=
| EvPublish (w : world) (f : nat) (msgs : list msg)
| EvClear (i : nat).                 (* attrs._clear() in _unload *)

Definition st := (world * list event)%type.
Definition emit (s : st) (f : nat) (msgs : list msg) : st :=
  match msgs with
  | [] => s
  | _ => (fst s, snd s ++ [EvPublish (fst s) f msgs])
  end.
Definition emit_always (s : st) (f : nat) (msgs : list msg) : st :=
  (fst s, snd s ++ [EvPublish (fst s) f msgs]).
Definition lift (s : st) (g : world -> world) : st := (g (fst s), snd s).
Definition with_msgs (s : st) (f : nat) (g : world -> world * list msg) : st :=
  let (w, m) := g (fst s) in emit_always (w, snd s) f m.

(* ------------------------------------------------------------------ *)
(* _load / _unload / _handle_item_addition / _handle_item_removal       *)

Fixpoint load (fuel : nat) (s : st) (i : nat) {struct fuel} : st :=
  match fuel with
  | O => lift s (fun w => fail w EOutOfFuel)
  | S fuel =>
    let w := fst s in
    match get_item w i, item_fit w i with
    | Some it, Some f =>
      match fit_source_id w f with
      | None => s
      | Some src =>
        match (match get_src w src with Some u => get_type u (i_tid it) | None => None end) with
        | None => s                                   (* TypeFetchError *)
        | Some t =>
          let s := lift s (fun w => put_item w i (it_set_loaded it (Some src))) in
          let s := with_msgs s f (fun w => item_loaded_msgs w i) in
          (* autocharges *)
          match get_item (fst s) i with
          | None => lift s (fun w => fail w EKeyAbsent)
          | Some it =>
            fold_left
              (fun s (ee : Z * effect) =>
                 match e_autocharge_attr (snd ee) with
                 | None => s
                 | Some aa =>
                   match al_get zeqb (t_attrs t) aa with
                   | None => s
                   | Some q =>
                     let a := w_next (fst s) in
                     let s := lift s (fun w =>
                                let w := set_next w (S a) in
                                let w := put_item w a (new_item CAutocharge (q_trunc q) State_offline 0) in
                                upd_item w i (fun it => it_set_autos it (al_set zeqb (i_autos it) (fst ee) a))) in
                     add_item fuel s a (PAuto i)
                   end
                 end) (item_effects (fst s) it) s
          end
        end
      end
    | Some _, None => s
    | None, _ => lift s (fun w => fail w EKeyAbsent)
    end
  end

(* _handle_item_addition after the already-assigned test *)
with add_item (fuel : nat) (s : st) (i : nat) (p : place) {struct fuel} : st :=
  match fuel with
  | O => lift s (fun w => fail w EOutOfFuel)
  | S fuel =>
    let s := lift s (fun w => upd_item w i (fun it => it_set_cont it (Some p))) in
    match item_fit (fst s) i with
    | None => s
    | Some f =>
      let one s sub :=
          let s := with_msgs s f (fun w => item_added_msgs w sub) in
          load fuel s sub in
      let s := one s i in
      match get_item (fst s) i with
      | Some it => fold_left one (child_items it true) s
      | None => lift s (fun w => fail w EKeyAbsent)
      end
    end
  end.

Fixpoint unload (fuel : nat) (s : st) (i : nat) {struct fuel} : st :=
  match fuel with
  | O => lift s (fun w => fail w EOutOfFuel)
  | S fuel =>
    match get_item (fst s) i with
    | None => lift s (fun w => fail w EKeyAbsent)
    | Some it =>
      let s := match item_fit (fst s) i, i_loaded it with
               | Some f, Some _ => with_msgs s f (fun w => item_unloaded_msgs w i)
               | _, _ => s
               end in
      let s := (fst s, snd s ++ [EvClear i]) in
      let s := match get_item (fst s) i with
               | Some it =>
                 let s := fold_left (fun s (ea : Z * nat) => remove_item fuel s (snd ea)) (i_autos it) s in
                 lift s (fun w => upd_item w i (fun it => it_set_autos it []))
               | None => lift s (fun w => fail w EKeyAbsent)
               end in
      lift s (fun w => upd_item w i (fun it => it_set_loaded it None))
    end
  end

(* _handle_item_removal *)
with remove_item (fuel : nat) (s : st) (i : nat) {struct fuel} : st :=
  match fuel with
  | O => lift s (fun w => fail w EOutOfFuel)
  | S fuel =>
    let fit := item_fit (fst s) i in
    let one s sub :=
        let s := unload fuel s sub in
        match fit with
        | Some f => with_msgs s f (fun w => item_removed_msgs w sub)
        | None => s
        end in
    let s := one s i in
    let s := match get_item (fst s) i with
             | Some it => fold_left one (child_items it true) s
             | None => lift s (fun w => fail w EKeyAbsent)
             end in
    lift s (fun w => upd_item w i (fun it => it_set_cont it None))
  end.

Definition has_container (w : world) (i : nat) : bool :=
  match get_item w i with
  | Some it => match i_cont it with Some _ => true | None => false end
  | None => false
  end.

(* ------------------------------------------------------------------ *)
(* class checks                                                        *)

Definition slot_accepts (k : slotk) (c : icls) : bool :=
  match k, c with
  | SlShip, CShip | SlCharacter, CCharacter | SlStance, CStance | SlBeacon, CBeacon => true
  | _, _ => false
  end.
Definition set_accepts (k : setk) (c : icls) : bool :=
  match k, c with
  | SeSkills, CSkill | SeImplants, CImplant | SeBoosters, CBooster
  | SeSubsystems, CSubsystem | SeRigs, CRig | SeDrones, CDrone | SeFighters, CFighter => true
  | _, _ => false
  end.
Definition rack_accepts (k : rackk) (c : icls) : bool :=
  match k, c with
  | RHigh, CModHigh | RMid, CModMid | RLow, CModLow => true
  | _, _ => false
  end.
Definition cls_of (w : world) (i : nat) : option icls :=
  match get_item w i with Some it => Some (i_cls it) | None => None end.

(* ------------------------------------------------------------------ *)
(* Python list indexing and the pure list part of ItemList              *)

Definition norm_index (len : nat) (idx : Z) : option nat :=
  let i := if idx <? 0 then idx + Z.of_nat len else idx in
  if (0 <=? i) && (i <? Z.of_nat len) then Some (Z.to_nat i) else None.
Definition insert_pos (len : nat) (idx : Z) : nat :=
  let i := if idx <? 0 then idx + Z.of_nat len else idx in
  if i <? 0 then 0%nat else if Z.of_nat len <? i then len else Z.to_nat i.

Definition rack := list (option nat).
Fixpoint cleanup_rev (l : rack) : rack :=   (* on the reversed list *)
  match l with None :: r => cleanup_rev r | _ => l end.
Definition cleanup (l : rack) : rack := rev (cleanup_rev (rev l)).
Definition allocate (l : rack) (idx : Z) : rack :=     (* _allocate(index) *)
  l ++ repeat None (Z.to_nat (Z.max (idx - Z.of_nat (length l) + 1) 0)).
Definition is_hole (x : option nat) : bool := match x with None => true | Some _ => false end.

(* list after list.insert(index, value) preceded by _allocate(index - 1) *)
Definition ins_list (l : rack) (idx : Z) (v : option nat) : rack :=
  let l1 := allocate l (idx - 1) in list_ins l1 (insert_pos (length l1) idx) v.
(* where equip puts the item: first hole, else the end *)
Definition equip_list (l : rack) (i : nat) : rack * nat :=
  match find_index is_hole l with
  | Some n => (list_set l n (Some i), n)
  | None => (l ++ [Some i], length l)
  end.

Definition get_rack (w : world) (f : nat) (k : rackk) : rack :=
  match get_fit w f with Some ft => fit_rack ft k | None => [] end.
Definition put_rack (w : world) (f : nat) (k : rackk) (l : rack) : world :=
  upd_fit w f (fun ft => fit_set_rack ft k l).

Definition F : nat := 12%nat.   (* fuel for load/unload nesting (items, charges, autocharges) *)

(* operation results *)
Inductive res :=
| ROk
| RVal (v : Q)
| RNone                      (* attrs.get -> None *)
| RKeys (l : list Z)
| REffects (l : list (Z * bool))
| RExn (x : exn).

Definition set_rack (s : st) (f : nat) (k : rackk) (l : rack) : st := lift s (fun w => put_rack w f k l).

(* ItemList methods *)
Definition rack_append (s : st) (f : nat) (k : rackk) (i : nat) : st * res :=
  let w := fst s in
  match cls_of w i with
  | None => (s, RExn XType)
  | Some c =>
    if negb (rack_accepts k c) then (s, RExn XType)
    else if has_container w i then (s, RExn XValue)   (* list.append; raise; del list[-1] *)
    else (add_item F (set_rack s f k (get_rack w f k ++ [Some i])) i (PRack f k), ROk)
  end.

Definition rack_insert (s : st) (f : nat) (k : rackk) (idx : Z) (v : option nat) : st * res :=
  let w := fst s in
  let l := get_rack w f k in
  let ok := match v with
            | None => true
            | Some i => match cls_of w i with Some c => rack_accepts k c | None => false end
            end in
  if negb ok then (s, RExn XType)
  else
    let l2 := ins_list l idx v in
    match v with
    | None => (set_rack s f k (cleanup l2), ROk)
    | Some i =>
      if has_container w i then
        (* roll-back: del self.__list[position] (the slot just inserted), then _cleanup *)
        (set_rack s f k (cleanup (allocate l (idx - 1))), RExn XValue)
      else (add_item F (set_rack s f k l2) i (PRack f k), ROk)
    end.

Definition rack_place (s : st) (f : nat) (k : rackk) (idx : Z) (i : nat) : st * res :=
  let w := fst s in
  match cls_of w i with
  | None => (s, RExn XType)
  | Some c =>
    if negb (rack_accepts k c) then (s, RExn XType)
    else
      let l := get_rack w f k in
      let proceed (l1 : rack) :=
          match norm_index (length l1) idx with
          | None => (s, RExn XIndex)                (* list[index] = item: IndexError *)
          | Some n =>
            if has_container w i
            then (set_rack s f k (cleanup (list_set l1 n None)), RExn XValue)
            else (add_item F (set_rack s f k (list_set l1 n (Some i))) i (PRack f k), ROk)
          end in
      match norm_index (length l) idx with
      | Some n =>
        match nth_error l n with
        | Some (Some _) => (s, RExn XSlotTaken)
        | _ => proceed l
        end
      | None => proceed (allocate l idx)
      end
  end.

Definition rack_equip (s : st) (f : nat) (k : rackk) (i : nat) : st * res :=
  let w := fst s in
  match cls_of w i with
  | None => (s, RExn XType)
  | Some c =>
    if negb (rack_accepts k c) then (s, RExn XType)
    else
      let (l1, n) := equip_list (get_rack w f k) i in
      if has_container w i
      then (set_rack s f k (cleanup (list_set l1 n None)), RExn XValue)
      else (add_item F (set_rack s f k l1) i (PRack f k), ROk)
  end.

(* remove / free by value (item or None) or by integer index *)
Inductive rarg := RItem (v : option nat) | RIndex (idx : Z).

Definition rack_locate (l : rack) (a : rarg) : (nat * option nat) + exn :=
  match a with
  | RIndex idx => match norm_index (length l) idx with
                  | Some n => match nth_error l n with Some v => inl (n, v) | None => inr XIndex end
                  | None => inr XIndex
                  end
  | RItem v => match find_index (fun x => onat_eqb x v) l with
               | Some n => inl (n, v)
               | None => inr XValue
               end
  end.

Definition rack_remove (s : st) (f : nat) (k : rackk) (a : rarg) : st * res :=
  match rack_locate (get_rack (fst s) f k) a with
  | inr x => (s, RExn x)
  | inl (n, v) =>
    let s := match v with Some i => remove_item F s i | None => s end in
    (set_rack s f k (cleanup (list_del (get_rack (fst s) f k) n)), ROk)
  end.

Definition rack_free (s : st) (f : nat) (k : rackk) (a : rarg) : st * res :=
  match rack_locate (get_rack (fst s) f k) a with
  | inr x => (s, RExn x)
  | inl (n, None) => (s, ROk)
  | inl (n, Some i) =>
    let s := remove_item F s i in
    (set_rack s f k (cleanup (list_set (get_rack (fst s) f k) n None)), ROk)
  end.

Definition rack_clear (s : st) (f : nat) (k : rackk) : st * res :=
  let s := fold_left (fun s v => match v with Some i => remove_item F s i | None => s end)
                     (get_rack (fst s) f k) s in
  (set_rack s f k [], ROk).

(* ItemSet / TypeUniqueItemSet *)
Definition get_setc (w : world) (f : nat) (k : setk) : list nat :=
  match get_fit w f with Some ft => fit_setc ft k | None => [] end.
Definition put_setc (w : world) (f : nat) (k : setk) (l : list nat) : world :=
  upd_fit w f (fun ft => fit_set_setc ft k l).
Definition get_skillmap (w : world) (f : nat) : list (Z * nat) :=
  match get_fit w f with Some ft => f_skillmap ft | None => [] end.
Definition put_skillmap (w : world) (f : nat) (m : list (Z * nat)) : world :=
  upd_fit w f (fun ft => fit_set_skillmap ft m).

Definition itemset_add (s : st) (f : nat) (k : setk) (i : nat) : st * res :=
  let w := fst s in
  match cls_of w i with
  | None => (s, RExn XType)
  | Some c =>
    if negb (set_accepts k c) then (s, RExn XType)
    else
      let was_present := mem neqb (get_setc w f k) i in
      let s1 := lift s (fun w => put_setc w f k (set_add neqb (get_setc w f k) i)) in
      if has_container w i
      then ((if was_present then s1
             else lift s1 (fun w => put_setc w f k (set_rm neqb (get_setc w f k) i))), RExn XValue)
      else (add_item F s1 i (PSet f k), ROk)
  end.

Definition set_add_op (s : st) (f : nat) (k : setk) (i : nat) : st * res :=
  match k with
  | SeSkills =>
    match get_item (fst s) i with
    | None => (s, RExn XType)
    | Some it =>
      if negb (set_accepts k (i_cls it)) then (s, RExn XType)
      else if al_mem zeqb (get_skillmap (fst s) f) (i_tid it) then (s, RExn XValue)
      else
        let s := lift s (fun w => put_skillmap w f (al_set zeqb (get_skillmap w f) (i_tid it) i)) in
        let (s, r) := itemset_add s f k i in
        match r with
        | RExn _ => (lift s (fun w => put_skillmap w f (al_del zeqb (get_skillmap w f) (i_tid it))), r)
        | _ => (s, r)
        end
    end
  | _ => itemset_add s f k i
  end.

Definition set_remove_op (s : st) (f : nat) (k : setk) (i : nat) : st * res :=
  if negb (mem neqb (get_setc (fst s) f k) i) then (s, RExn XKey)
  else
    let s := remove_item F s i in
    let s := lift s (fun w => put_setc w f k (set_rm neqb (get_setc w f k) i)) in
    match k, get_item (fst s) i with
    | SeSkills, Some it => (lift s (fun w => put_skillmap w f (al_del zeqb (get_skillmap w f) (i_tid it))), ROk)
    | _, _ => (s, ROk)
    end.

Definition set_clear_op (s : st) (f : nat) (k : setk) : st * res :=
  let s := fold_left (fun s i => remove_item F s i) (get_setc (fst s) f k) s in
  let s := lift s (fun w => put_setc w f k []) in
  match k with SeSkills => (lift s (fun w => put_skillmap w f []), ROk) | _ => (s, ROk) end.

Definition skill_del_op (s : st) (f : nat) (tid : Z) : st * res :=
  match al_get zeqb (get_skillmap (fst s) f) tid with
  | None => (s, RExn XKey)
  | Some i => set_remove_op s f SeSkills i
  end.

(* ItemDescriptor.__set__ *)
Definition descriptor_set (s : st) (old : option nat) (new : option nat) (accepts : icls -> bool)
           (p : place) (store : world -> option nat -> world) : st * res :=
  let ok := match new with
            | None => true
            | Some i => match cls_of (fst s) i with Some c => accepts c | None => false end
            end in
  if negb ok then (s, RExn XType)
  else
    let s := match old with Some o => remove_item F s o | None => s end in
    let s := lift s (fun w => store w new) in
    match new with
    | None => (s, ROk)
    | Some i =>
      if has_container (fst s) i then
        let s := lift s (fun w => store w old) in
        let s := match old with Some o => add_item F s o p | None => s end in
        (s, RExn XValue)
      else (add_item F s i p, ROk)
    end.

Definition slot_set_op (s : st) (f : nat) (k : slotk) (new : option nat) : st * res :=
  let old := match get_fit (fst s) f with Some ft => fit_slot ft k | None => None end in
  descriptor_set s old new (slot_accepts k) (PSlot f k)
                 (fun w v => upd_fit w f (fun ft => fit_set_slot ft k v)).

Definition charge_set_op (s : st) (m : nat) (new : option nat) : st * res :=
  match get_item (fst s) m with
  | None => (s, RExn XType)
  | Some it =>
    descriptor_set s (i_charge it) new (fun c => icls_eqb c CCharge) (PCharge m)
                   (fun w v => upd_item w m (fun it => it_set_charge it v))
  end.

(* ------------------------------------------------------------------ *)
(* item setters                                                        *)

Definition is_container_state (w : world) (i : nat) : bool :=
  match get_item w i with
  | Some it => match cr_state (class_row_of (i_cls it)) with StContainer => true | _ => false end
  | None => false
  end.

(* the items whose state is the state of the item being switched: its state-inheriting children, and their
   children in turn (the setter's work list: a child's own children are appended when the child is handled) *)
Fixpoint state_desc (n : nat) (w : world) (queue : list nat) : list nat :=
  match n, queue with
  | S n, ch :: rest =>
    if is_container_state w ch
    then ch :: state_desc n w (rest ++ match get_item w ch with Some cit => child_items cit false | None => [] end)
    else state_desc n w rest
  | _, _ => []
  end.

Definition state_set_op (s : st) (i : nat) (new : Z) : st * res :=
  match get_item (fst s) i with
  | None => (lift s (fun w => fail w EKeyAbsent), ROk)
  | Some it =>
    let old := i_state it in
    if old =? new then (s, ROk)
    else
      let s := lift s (fun w => put_item w i (it_set_state it new)) in
      match item_fit (fst s) i with
      | None => (s, ROk)
      | Some f =>
        (with_msgs s f (fun w =>
           let (w, msgs) := state_update_msgs w i old new in
           fold_left (fun (acc : world * list msg) ch =>
                        let (w, ms) := acc in
                        if is_container_state w ch
                        then let (w, m2) := state_update_msgs w ch old new in (w, ms ++ m2)
                        else (w, ms)) (state_desc (length (child_items it false) + S (length (w_items w))) w (child_items it false)) (w, msgs)), ROk)
      end
  end.

Definition target_set_op (s : st) (i : nat) (new : option nat) : st * res :=
  match get_item (fst s) i with
  | None => (lift s (fun w => fail w EKeyAbsent), ROk)
  | Some it =>
    let old := i_target it in
    if onat_eqb old new then (s, ROk)
    else
      match item_fit (fst s) i with
      | None => (lift s (fun w => put_item w i (it_set_target it new)), ROk)
      | Some f =>
        let projectable :=
            fold_right (fun e acc =>
                          match acc, item_effect (fst s) it e with
                          | Some l, Some ef => if Z.eqb (e_cat ef) EffectCategoryId_target then Some (e :: l) else Some l
                          | _, _ => None
                          end) (Some []) (i_running it) in
        match projectable with
        | None => (lift s (fun w => fail w EKeyAbsent), ROk)
        | Some pe =>
          let s := match old with
                   | Some o => emit_always s f (map (fun e => MEffectUnapplied i e [Some o] false) pe)
                   | None => s end in
          let s := lift s (fun w => upd_item w i (fun it => it_set_target it new)) in
          let s := match new with
                   | Some n => emit_always s f (map (fun e => MEffectApplied i e [Some n]) pe)
                   | None => s end in
          (s, ROk)
        end
      end
  end.

Definition mode_set_op (s : st) (i : nat) (eid : Z) (mode : Z) : st * res :=
  match get_item (fst s) i with
  | None => (lift s (fun w => fail w EKeyAbsent), ROk)
  | Some it =>
    let modes := if mode =? EffectMode_full_compliance
                 then al_del zeqb (i_modes it) eid
                 else al_set zeqb (i_modes it) eid mode in
    let s := lift s (fun w => put_item w i (it_set_modes it modes)) in
    match item_fit (fst s) i with
    | None => (s, ROk)
    | Some f => (with_msgs s f (fun w => effects_update w i), ROk)
    end
  end.

Definition level_set_op (s : st) (i : nat) (lvl : Z) : st * res :=
  match get_item (fst s) i with
  | None => (lift s (fun w => fail w EKeyAbsent), ROk)
  | Some it =>
    if i_level it =? lvl then (s, ROk)
    else
      let s := lift s (fun w => put_item w i (it_set_level it lvl)) in
      match item_fit (fst s) i with
      | None => (s, ROk)
      | Some f => (emit_always s f [MAttrsChanged [(i, [AttrId_skill_level])]], ROk)
      end
  end.

(* ------------------------------------------------------------------ *)
(* fleets, solar systems, sources                                      *)

Definition fleet_fits (w : world) (fl : nat) : list nat :=
  match al_get neqb (w_fleets w) fl with Some l => l | None => [] end.

Definition fleet_add_op (s : st) (fl f : nat) : st * res :=
  match fit_fleet (fst s) f with
  | Some _ => (s, RExn XValue)
  | None =>
    let s := lift s (fun w =>
               let w := set_fleets w (al_set neqb (w_fleets w) fl (set_add neqb (fleet_fits w fl) f)) in
               upd_fit w f (fun ft => fit_set_fleet ft (Some fl))) in
    (emit_always s f [MFleetFitAdded], ROk)
  end.

Definition fleet_remove_one (s : st) (fl f : nat) : st :=
  let s := emit_always s f [MFleetFitRemoved] in
  lift s (fun w =>
    let w := set_fleets w (al_set neqb (w_fleets w) fl (set_rm neqb (fleet_fits w fl) f)) in
    upd_fit w f (fun ft => fit_set_fleet ft None)).

Definition fleet_remove_op (s : st) (fl f : nat) : st * res :=
  if negb (mem neqb (fleet_fits (fst s) fl) f) then (s, RExn XKey)
  else (fleet_remove_one s fl f, ROk).

Definition fleet_clear_op (s : st) (fl : nat) : st * res :=
  (fold_left (fun s f => fleet_remove_one s fl f) (fleet_fits (fst s) fl) s, ROk).

Definition load_fit_items (s : st) (f : nat) : st :=
  match get_fit (fst s) f with
  | Some ft => fold_left (fun s i => load F s i) (fit_items (fst s) ft true) s
  | None => lift s (fun w => fail w EKeyAbsent)
  end.
(* the generator re-reads containers lazily; unloading changes no container
   except autocharges, which are skipped *)
Definition unload_fit_items (s : st) (f : nat) : st :=
  match get_fit (fst s) f with
  | Some ft => fold_left (fun s i => unload F s i) (fit_items (fst s) ft true) s
  | None => lift s (fun w => fail w EKeyAbsent)
  end.

Definition ss_fit_list (w : world) (x : nat) : list nat :=
  match get_ss w x with Some y => ss_fits y | None => [] end.
Definition ss_set_fits (w : world) (x : nat) (l : list nat) : world :=
  match get_ss w x with
  | Some y => put_ss w x (mkSolsys (ss_source y) l)
  | None => fail w EKeyAbsent
  end.

Definition solsys_add_op (s : st) (x f : nat) : st * res :=
  match fit_solsys (fst s) f with
  | Some _ => (s, RExn XValue)
  | None =>
    let s := lift s (fun w =>
               let w := ss_set_fits w x (set_add neqb (ss_fit_list w x) f) in
               upd_fit w f (fun ft => fit_set_solsys ft (Some x))) in
    (load_fit_items s f, ROk)
  end.

Definition solsys_remove_one (s : st) (x f : nat) : st :=
  let s := unload_fit_items s f in
  lift s (fun w =>
    let w := ss_set_fits w x (set_rm neqb (ss_fit_list w x) f) in
    upd_fit w f (fun ft => fit_set_solsys ft None)).

Definition solsys_remove_op (s : st) (x f : nat) : st * res :=
  if negb (mem neqb (ss_fit_list (fst s) x) f) then (s, RExn XKey)
  else (solsys_remove_one s x f, ROk).

Definition solsys_clear_op (s : st) (x : nat) : st * res :=
  (fold_left (fun s f => solsys_remove_one s x f) (ss_fit_list (fst s) x) s, ROk).

Definition source_set_op (s : st) (x : nat) (new : option nat) : st * res :=
  match get_ss (fst s) x with
  | None => (lift s (fun w => fail w EKeyAbsent), ROk)
  | Some y =>
    if onat_eqb (ss_source y) new then (s, ROk)
    else if match new with Some sid => negb (match get_src (fst s) sid with Some _ => true | None => false end)
                         | None => false end
    then (s, RExn XUnknownSource)     (* an alias SourceManager does not know: raised before anything is touched *)
    else
      let s := match ss_source y with
               | Some _ => fold_left unload_fit_items (ss_fits y) s
               | None => s end in
      let s := lift s (fun w => match get_ss w x with
                                | Some y => put_ss w x (mkSolsys new (ss_fits y))
                                | None => fail w EKeyAbsent end) in
      let s := match new with
               | Some _ => fold_left load_fit_items (ss_fit_list (fst s) x) s
               | None => s end in
      (s, ROk)
  end.

(* ------------------------------------------------------------------ *)
(* operations                                                          *)

Inductive op :=
| ODefSource (src : nat) (u : universe)
| ONewItem (i : nat) (c : icls) (tid : Z) (st : Z) (lvl : Z)
| ONewFit (f : nat) (chr : nat)
| ONewSolsys (s : nat)
| OSlot (f : nat) (k : slotk) (v : option nat)
| OSetAdd (f : nat) (k : setk) (i : nat)
| OSetRemove (f : nat) (k : setk) (i : nat)
| OSetClear (f : nat) (k : setk)
| OSkillDel (f : nat) (tid : Z)
| ORackAppend (f : nat) (k : rackk) (i : nat)
| ORackInsert (f : nat) (k : rackk) (idx : Z) (v : option nat)
| ORackPlace (f : nat) (k : rackk) (idx : Z) (i : nat)
| ORackEquip (f : nat) (k : rackk) (i : nat)
| ORackRemove (f : nat) (k : rackk) (a : rarg)
| ORackFree (f : nat) (k : rackk) (a : rarg)
| ORackClear (f : nat) (k : rackk)
| OCharge (m : nat) (c : option nat)
| OState (i : nat) (st : Z)
| OTarget (i : nat) (t : option nat)
| OMode (i : nat) (e : Z) (m : Z)
| OLevel (i : nat) (l : Z)
| OFleetAdd (fl f : nat) | OFleetRemove (fl f : nat) | OFleetClear (fl : nat)
| OSolsysAdd (s f : nat) | OSolsysRemove (s f : nat) | OSolsysClear (s : nat)
| OSource (s : nat) (src : option nat)
| ORead (i : nat) (a : Z)        (* attrs[a] *)
| OGet (i : nat) (a : Z)         (* attrs.get(a) *)
| OKeys (i : nat)
| OEffects (i : nat).

Definition is_read (o : op) : bool :=
  match o with ORead _ _ | OGet _ _ | OKeys _ | OEffects _ => true | _ => false end.

(* the message-discipline layer: base world -> base world, result, publications *)
Definition md_op (w : world) (o : op) : st * res :=
  let s : st := (w, []) in
  match o with
  | ODefSource src u => (lift s (fun w => set_srcs w (al_set neqb (w_srcs w) src u)), ROk)
  | ONewItem i c tid st lvl => (lift s (fun w => put_item w i (new_item c tid st lvl)), ROk)
  | ONewFit f chr =>
    let s := lift s (fun w =>
               put_item (put_fit w f empty_fit) chr
                        (new_item CCharacter TypeId_character_static State_offline 0)) in
    slot_set_op s f SlCharacter (Some chr)
  | ONewSolsys x => (lift s (fun w => put_ss w x (mkSolsys None [])), ROk)
  | OSlot f k v => slot_set_op s f k v
  | OSetAdd f k i => set_add_op s f k i
  | OSetRemove f k i => set_remove_op s f k i
  | OSetClear f k => set_clear_op s f k
  | OSkillDel f tid => skill_del_op s f tid
  | ORackAppend f k i => rack_append s f k i
  | ORackInsert f k idx v => rack_insert s f k idx v
  | ORackPlace f k idx i => rack_place s f k idx i
  | ORackEquip f k i => rack_equip s f k i
  | ORackRemove f k a => rack_remove s f k a
  | ORackFree f k a => rack_free s f k a
  | ORackClear f k => rack_clear s f k
  | OCharge m c => charge_set_op s m c
  | OState i x => state_set_op s i x
  | OTarget i t => target_set_op s i t
  | OMode i e m => mode_set_op s i e m
  | OLevel i l => level_set_op s i l
  | OFleetAdd fl f => fleet_add_op s fl f
  | OFleetRemove fl f => fleet_remove_op s fl f
  | OFleetClear fl => fleet_clear_op s fl
  | OSolsysAdd x f => solsys_add_op s x f
  | OSolsysRemove x f => solsys_remove_op s x f
  | OSolsysClear x => solsys_clear_op s x
  | OSource x src => source_set_op s x src
  | ORead _ _ | OGet _ _ | OKeys _ | OEffects _ => (s, ROk)
  end.

(* the services replay the publications *)
Definition apply_event (d : derived) (ev : event) : derived :=
  match ev with
  | EvPublish w f msgs => publish PF w d f msgs
  | EvClear i => clear_cache d i
  end.
Definition apply_events (d : derived) (evs : list event) : derived := fold_left apply_event evs d.

Record sys := mkSys { s_w : world; s_d : derived }.

Definition read_op (w : world) (d : derived) (o : op) : derived * res :=
  match o with
  | ORead i a =>
    let (d, v) := read_attr PF w d i a in
    (d, match v with Some q => RVal q | None => RExn XKey end)
  | OGet i a =>
    let (d, v) := read_attr PF w d i a in
    (d, match v with Some q => RVal q | None => RNone end)
  | OKeys i => (d, RKeys (attr_keys w d i))
  | OEffects i =>
    match get_item w i with
    | Some it => (d, REffects (map (fun ee => (fst ee, mem zeqb (i_running it) (fst ee))) (item_effects w it)))
    | None => (d, REffects [])
    end
  | _ => (d, ROk)
  end.

(* one public call: new system state, result, and the publications it made *)
Definition step_ev (x : sys) (o : op) : sys * res * list event :=
  let w := clear_err (s_w x) in
  let d := d_clear (s_d x) in
  let '(w', d', r, evs) :=
      if is_read o then let (d', r) := read_op w d o in (w, d', r, [])
      else let '((w', evs), r) := md_op w o in (w', apply_events d evs, r, evs) in
  (mkSys w' d',
   match w_err w', d_err d' with
   | Some e, _ => RExn (XInternal e)
   | None, Some e => RExn (XInternal e)
   | None, None => r
   end, evs).

Definition step (x : sys) (o : op) : sys * res := fst (step_ev x o).

Definition run (x : sys) (ops : list op) : sys := fold_left (fun x o => fst (step x o)) ops x.
Definition init_sys (pen : list Q) : sys := mkSys empty_world (empty_derived pen).
