(* Engine model, part 4: load/unload, containers (item_container/*.py), item
   setters, fleets, solar systems, source switching, and [step]. *)
From Coq Require Import ZArith QArith List Bool.
From EosV Require Import lib.AList gen.T_eos model.World model.Status model.Calc model.Engine.
Import ListNotations.
Open Scope Z_scope.

Inductive exn := XType | XValue | XKey | XIndex | XSlotTaken | XInternal (e : ierr).

(* int(x) for a float: truncation towards zero *)
Definition q_trunc (q : Q) : Z := Z.quot (Qnum q) (Zpos (Qden q)).

Definition PF : nat := 200%nat.   (* fuel for nested publication and calculation *)

(* ------------------------------------------------------------------ *)
(* _load / _unload / _handle_item_addition / _handle_item_removal       *)

Fixpoint load (fuel : nat) (w : world) (i : nat) {struct fuel} : world :=
  match fuel with
  | O => fail w EOutOfFuel
  | S fuel =>
    match get_item w i, item_fit w i with
    | Some it, Some f =>
      match fit_source_id w f with
      | None => w
      | Some src =>
        match (match get_src w src with Some u => get_type u (i_tid it) | None => None end) with
        | None => w                                   (* TypeFetchError *)
        | Some t =>
          let w := put_item w i (it_set_loaded it (Some src)) in
          let (w, msgs) := item_loaded_msgs w i in
          let w := publish PF w f msgs in
          (* autocharges *)
          match get_item w i with
          | None => fail w EKeyAbsent
          | Some it =>
            fold_left
              (fun w (ee : Z * effect) =>
                 match e_autocharge_attr (snd ee) with
                 | None => w
                 | Some aa =>
                   match al_get zeqb (t_attrs t) aa with
                   | None => w
                   | Some q =>
                     let a := w_next w in
                     let w := set_next w (S a) in
                     let w := put_item w a (new_item CAutocharge (q_trunc q) State_offline 0) in
                     let w := upd_item w i (fun it => it_set_autos it (al_set zeqb (i_autos it) (fst ee) a)) in
                     add_item fuel w a (PAuto i)
                   end
                 end) (item_effects w it) w
          end
        end
      end
    | Some _, None => w
    | None, _ => fail w EKeyAbsent
    end
  end

(* _handle_item_addition after the already-assigned test *)
with add_item (fuel : nat) (w : world) (i : nat) (p : place) {struct fuel} : world :=
  match fuel with
  | O => fail w EOutOfFuel
  | S fuel =>
    let w := upd_item w i (fun it => it_set_cont it (Some p)) in
    match item_fit w i with
    | None => w
    | Some f =>
      let one w sub :=
          let (w, msgs) := item_added_msgs w sub in
          let w := publish PF w f msgs in
          load fuel w sub in
      let w := one w i in
      match get_item w i with
      | Some it => fold_left one (child_items it true) w
      | None => fail w EKeyAbsent
      end
    end
  end.

Fixpoint unload (fuel : nat) (w : world) (i : nat) {struct fuel} : world :=
  match fuel with
  | O => fail w EOutOfFuel
  | S fuel =>
    match get_item w i with
    | None => fail w EKeyAbsent
    | Some it =>
      let w := match item_fit w i, i_loaded it with
               | Some f, Some _ =>
                 let (w, msgs) := item_unloaded_msgs w i in publish PF w f msgs
               | _, _ => w
               end in
      let w := upd_item w i (fun it => it_set_capmap (it_set_cache it []) []) in
      let w := match get_item w i with
               | Some it =>
                 let w := fold_left (fun w (ea : Z * nat) => remove_item fuel w (snd ea)) (i_autos it) w in
                 upd_item w i (fun it => it_set_autos it [])
               | None => fail w EKeyAbsent
               end in
      upd_item w i (fun it => it_set_loaded it None)
    end
  end

(* _handle_item_removal *)
with remove_item (fuel : nat) (w : world) (i : nat) {struct fuel} : world :=
  match fuel with
  | O => fail w EOutOfFuel
  | S fuel =>
    let fit := item_fit w i in
    let one w sub :=
        let w := unload fuel w sub in
        match fit with
        | Some f => let (w, msgs) := item_removed_msgs w sub in publish PF w f msgs
        | None => w
        end in
    let w := one w i in
    let w := match get_item w i with
             | Some it => fold_left one (child_items it true) w
             | None => fail w EKeyAbsent
             end in
    upd_item w i (fun it => it_set_cont it None)
  end.

Definition has_container (w : world) (i : nat) : bool :=
  match get_item w i with
  | Some it => match i_cont it with Some _ => true | None => false end
  | None => false
  end.

(* ------------------------------------------------------------------ *)
(* class checks                                                        *)

Definition slot_accepts (k : slotk) (c : icls) : bool :=
  match k, c with
  | SlShip, CShip | SlCharacter, CCharacter | SlStance, CStance | SlBeacon, CBeacon => true
  | _, _ => false
  end.
Definition set_accepts (k : setk) (c : icls) : bool :=
  match k, c with
  | SeSkills, CSkill | SeImplants, CImplant | SeBoosters, CBooster
  | SeSubsystems, CSubsystem | SeRigs, CRig | SeDrones, CDrone | SeFighters, CFighter => true
  | _, _ => false
  end.
Definition rack_accepts (k : rackk) (c : icls) : bool :=
  match k, c with
  | RHigh, CModHigh | RMid, CModMid | RLow, CModLow => true
  | _, _ => false
  end.
Definition cls_of (w : world) (i : nat) : option icls :=
  match get_item w i with Some it => Some (i_cls it) | None => None end.

(* ------------------------------------------------------------------ *)
(* Python list indexing                                                *)

Definition norm_index (len : nat) (idx : Z) : option nat :=
  let i := if idx <? 0 then idx + Z.of_nat len else idx in
  if (0 <=? i) && (i <? Z.of_nat len) then Some (Z.to_nat i) else None.
Definition insert_pos (len : nat) (idx : Z) : nat :=
  let i := if idx <? 0 then idx + Z.of_nat len else idx in
  if i <? 0 then 0%nat else if Z.of_nat len <? i then len else Z.to_nat i.

Definition rack := list (option nat).
Fixpoint cleanup_rev (l : rack) : rack :=   (* on the reversed list *)
  match l with None :: r => cleanup_rev r | _ => l end.
Definition cleanup (l : rack) : rack := rev (cleanup_rev (rev l)).
Definition allocate (l : rack) (idx : Z) : rack :=     (* _allocate(index) *)
  l ++ repeat None (Z.to_nat (Z.max (idx - Z.of_nat (length l) + 1) 0)).
Definition onat_is (a : option nat) (b : option nat) : bool := onat_eqb a b.

Definition get_rack (w : world) (f : nat) (k : rackk) : rack :=
  match get_fit w f with Some ft => fit_rack ft k | None => [] end.
Definition put_rack (w : world) (f : nat) (k : rackk) (l : rack) : world :=
  upd_fit w f (fun ft => fit_set_rack ft k l).

Definition F : nat := 12%nat.   (* fuel for load/unload nesting (items, charges, autocharges) *)

(* operation results *)
Inductive res :=
| ROk
| RVal (v : Q)
| RNone                      (* attrs.get -> None *)
| RKeys (l : list Z)
| REffects (l : list (Z * bool))
| RExn (x : exn).

(* ItemList methods *)
Definition rack_append (w : world) (f : nat) (k : rackk) (i : nat) : world * res :=
  match cls_of w i with
  | None => (w, RExn XType)
  | Some c =>
    if negb (rack_accepts k c) then (w, RExn XType)
    else if has_container w i then (w, RExn XValue)   (* list.append; raise; del list[-1] *)
    else
      let w := put_rack w f k (get_rack w f k ++ [Some i]) in
      (add_item F w i (PRack f k), ROk)
  end.

Definition rack_insert (w : world) (f : nat) (k : rackk) (idx : Z) (v : option nat) : world * res :=
  let l := get_rack w f k in
  let ok := match v with
            | None => true
            | Some i => match cls_of w i with Some c => rack_accepts k c | None => false end
            end in
  if negb ok then (w, RExn XType)
  else
    let l1 := allocate l (idx - 1) in
    let l2 := list_ins l1 (insert_pos (length l1) idx) v in
    match v with
    | None => (put_rack w f k (cleanup l2), ROk)
    | Some i =>
      if has_container w i then
        (* roll-back: del self.__list[index] with the caller's index, then _cleanup *)
        match norm_index (length l2) idx with
        | Some n => (put_rack w f k (cleanup (list_del l2 n)), RExn XValue)
        | None => (put_rack w f k l2, RExn XIndex)   (* IndexError raised inside the except block *)
        end
      else
        let w := put_rack w f k l2 in
        (add_item F w i (PRack f k), ROk)
    end.

Definition rack_place (w : world) (f : nat) (k : rackk) (idx : Z) (i : nat) : world * res :=
  match cls_of w i with
  | None => (w, RExn XType)
  | Some c =>
    if negb (rack_accepts k c) then (w, RExn XType)
    else
      let l := get_rack w f k in
      let proceed (l1 : rack) :=
          match norm_index (length l1) idx with
          | None => (w, RExn XIndex)                (* list[index] = item: IndexError, nothing changed but padding *)
          | Some n =>
            if has_container w i
            then (put_rack w f k (cleanup (list_set l1 n None)), RExn XValue)
            else let w := put_rack w f k (list_set l1 n (Some i)) in
                 (add_item F w i (PRack f k), ROk)
          end in
      match norm_index (length l) idx with
      | Some n =>
        match nth_error l n with
        | Some (Some _) => (w, RExn XSlotTaken)
        | _ => proceed l
        end
      | None =>
        let l1 := allocate l idx in
        match norm_index (length l1) idx with
        | None => (put_rack w f k l1, RExn XIndex)
        | Some _ => proceed l1
        end
      end
  end.

Definition rack_equip (w : world) (f : nat) (k : rackk) (i : nat) : world * res :=
  match cls_of w i with
  | None => (w, RExn XType)
  | Some c =>
    if negb (rack_accepts k c) then (w, RExn XType)
    else
      let l := get_rack w f k in
      let (l1, n) := match find_index (fun x => match x with None => true | Some _ => false end) l with
                     | Some n => (list_set l n (Some i), n)
                     | None => (l ++ [Some i], length l)
                     end in
      if has_container w i
      then (put_rack w f k (cleanup (list_set l1 n None)), RExn XValue)
      else let w := put_rack w f k l1 in (add_item F w i (PRack f k), ROk)
  end.

(* remove / free by value (item or None) or by integer index *)
Inductive rarg := RItem (v : option nat) | RIndex (idx : Z).

Definition rack_locate (l : rack) (a : rarg) : option (nat * option nat) + exn :=
  match a with
  | RIndex idx => match norm_index (length l) idx with
                  | Some n => match nth_error l n with Some v => inl (Some (n, v)) | None => inr XIndex end
                  | None => inr XIndex
                  end
  | RItem v => match find_index (fun x => onat_is x v) l with
               | Some n => inl (Some (n, v))
               | None => inr XValue
               end
  end.

Definition rack_remove (w : world) (f : nat) (k : rackk) (a : rarg) : world * res :=
  let l := get_rack w f k in
  match rack_locate l a with
  | inr x => (w, RExn x)
  | inl None => (w, ROk)
  | inl (Some (n, v)) =>
    let w := match v with Some i => remove_item F w i | None => w end in
    (put_rack w f k (cleanup (list_del (get_rack w f k) n)), ROk)
  end.

Definition rack_free (w : world) (f : nat) (k : rackk) (a : rarg) : world * res :=
  let l := get_rack w f k in
  match rack_locate l a with
  | inr x => (w, RExn x)
  | inl None => (w, ROk)
  | inl (Some (n, None)) => (w, ROk)
  | inl (Some (n, Some i)) =>
    let w := remove_item F w i in
    (put_rack w f k (cleanup (list_set (get_rack w f k) n None)), ROk)
  end.

Definition rack_clear (w : world) (f : nat) (k : rackk) : world * res :=
  let w := fold_left (fun w v => match v with Some i => remove_item F w i | None => w end) (get_rack w f k) w in
  (put_rack w f k [], ROk).

(* ItemSet / TypeUniqueItemSet *)
Definition get_setc (w : world) (f : nat) (k : setk) : list nat :=
  match get_fit w f with Some ft => fit_setc ft k | None => [] end.
Definition put_setc (w : world) (f : nat) (k : setk) (l : list nat) : world :=
  upd_fit w f (fun ft => fit_set_setc ft k l).
Definition get_skillmap (w : world) (f : nat) : list (Z * nat) :=
  match get_fit w f with Some ft => f_skillmap ft | None => [] end.
Definition put_skillmap (w : world) (f : nat) (m : list (Z * nat)) : world :=
  upd_fit w f (fun ft => fit_set_skillmap ft m).

Definition itemset_add (w : world) (f : nat) (k : setk) (i : nat) : world * res :=
  match cls_of w i with
  | None => (w, RExn XType)
  | Some c =>
    if negb (set_accepts k c) then (w, RExn XType)
    else
      let w := put_setc w f k (set_add neqb (get_setc w f k) i) in
      if has_container w i
      then (put_setc w f k (set_rm neqb (get_setc w f k) i), RExn XValue)   (* set.remove(item) *)
      else (add_item F w i (PSet f k), ROk)
  end.

Definition set_add_op (w : world) (f : nat) (k : setk) (i : nat) : world * res :=
  match k with
  | SeSkills =>
    match get_item w i with
    | None => (w, RExn XType)
    | Some it =>
      if negb (set_accepts k (i_cls it)) then (w, RExn XType)
      else if al_mem zeqb (get_skillmap w f) (i_tid it) then (w, RExn XValue)
      else
        let w := put_skillmap w f (al_set zeqb (get_skillmap w f) (i_tid it) i) in
        let (w, r) := itemset_add w f k i in
        match r with
        | RExn _ => (put_skillmap w f (al_del zeqb (get_skillmap w f) (i_tid it)), r)
        | _ => (w, r)
        end
    end
  | _ => itemset_add w f k i
  end.

Definition set_remove_op (w : world) (f : nat) (k : setk) (i : nat) : world * res :=
  if negb (mem neqb (get_setc w f k) i) then (w, RExn XKey)
  else
    let w := remove_item F w i in
    let w := put_setc w f k (set_rm neqb (get_setc w f k) i) in
    match k, get_item w i with
    | SeSkills, Some it => (put_skillmap w f (al_del zeqb (get_skillmap w f) (i_tid it)), ROk)
    | _, _ => (w, ROk)
    end.

Definition set_clear_op (w : world) (f : nat) (k : setk) : world * res :=
  let w := fold_left (fun w i => remove_item F w i) (get_setc w f k) w in
  let w := put_setc w f k [] in
  match k with SeSkills => (put_skillmap w f [], ROk) | _ => (w, ROk) end.

Definition skill_del_op (w : world) (f : nat) (tid : Z) : world * res :=
  match al_get zeqb (get_skillmap w f) tid with
  | None => (w, RExn XKey)
  | Some i => set_remove_op w f SeSkills i
  end.

(* ItemDescriptor.__set__ *)
Definition descriptor_set (w : world) (old : option nat) (new : option nat) (accepts : icls -> bool)
           (p : place) (store : world -> option nat -> world) : world * res :=
  let ok := match new with
            | None => true
            | Some i => match cls_of w i with Some c => accepts c | None => false end
            end in
  if negb ok then (w, RExn XType)
  else
    let w := match old with Some o => remove_item F w o | None => w end in
    let w := store w new in
    match new with
    | None => (w, ROk)
    | Some i =>
      if has_container w i then
        let w := store w old in
        let w := match old with Some o => add_item F w o p | None => w end in
        (w, RExn XValue)
      else (add_item F w i p, ROk)
    end.

Definition slot_set_op (w : world) (f : nat) (k : slotk) (new : option nat) : world * res :=
  let old := match get_fit w f with Some ft => fit_slot ft k | None => None end in
  descriptor_set w old new (slot_accepts k) (PSlot f k)
                 (fun w v => upd_fit w f (fun ft => fit_set_slot ft k v)).

Definition charge_set_op (w : world) (m : nat) (new : option nat) : world * res :=
  match get_item w m with
  | None => (w, RExn XType)
  | Some it =>
    descriptor_set w (i_charge it) new (fun c => icls_eqb c CCharge) (PCharge m)
                   (fun w v => upd_item w m (fun it => it_set_charge it v))
  end.

(* ------------------------------------------------------------------ *)
(* item setters                                                        *)

Definition is_container_state (w : world) (i : nat) : bool :=
  match get_item w i with
  | Some it => match cr_state (class_row_of (i_cls it)) with StContainer => true | _ => false end
  | None => false
  end.

Definition state_set_op (w : world) (i : nat) (new : Z) : world * res :=
  match get_item w i with
  | None => (fail w EKeyAbsent, ROk)
  | Some it =>
    let old := i_state it in
    if old =? new then (w, ROk)
    else
      let w := put_item w i (it_set_state it new) in
      match item_fit w i with
      | None => (w, ROk)
      | Some f =>
        let (w, msgs) := state_update_msgs w i old new in
        let (w, msgs) :=
            fold_left (fun (acc : world * list msg) ch =>
                         let (w, ms) := acc in
                         if is_container_state w ch
                         then let (w, m2) := state_update_msgs w ch old new in (w, ms ++ m2)
                         else (w, ms)) (child_items it false) (w, msgs) in
        (publish PF w f msgs, ROk)
      end
  end.

Definition target_set_op (w : world) (i : nat) (new : option nat) : world * res :=
  match get_item w i with
  | None => (fail w EKeyAbsent, ROk)
  | Some it =>
    let old := i_target it in
    if onat_eqb old new then (w, ROk)
    else
      match item_fit w i with
      | None => (put_item w i (it_set_target it new), ROk)
      | Some f =>
        let projectable :=
            fold_right (fun e acc =>
                          match acc, item_effect w it e with
                          | Some l, Some ef => if Z.eqb (e_cat ef) EffectCategoryId_target then Some (e :: l) else Some l
                          | _, _ => None
                          end) (Some []) (i_running it) in
        match projectable with
        | None => (fail w EKeyAbsent, ROk)
        | Some pe =>
          let w := match old with
                   | Some o => publish PF w f (map (fun e => MEffectUnapplied i e [Some o] false) pe)
                   | None => w end in
          let w := upd_item w i (fun it => it_set_target it new) in
          let w := match new with
                   | Some n => publish PF w f (map (fun e => MEffectApplied i e [Some n]) pe)
                   | None => w end in
          (w, ROk)
        end
      end
  end.

Definition mode_set_op (w : world) (i : nat) (eid : Z) (mode : Z) : world * res :=
  match get_item w i with
  | None => (fail w EKeyAbsent, ROk)
  | Some it =>
    let modes := if mode =? EffectMode_full_compliance
                 then al_del zeqb (i_modes it) eid
                 else al_set zeqb (i_modes it) eid mode in
    let w := put_item w i (it_set_modes it modes) in
    match item_fit w i with
    | None => (w, ROk)
    | Some f =>
      let (w, msgs) := effects_update w i in
      (publish PF w f msgs, ROk)
    end
  end.

Definition level_set_op (w : world) (i : nat) (lvl : Z) : world * res :=
  match get_item w i with
  | None => (fail w EKeyAbsent, ROk)
  | Some it =>
    if i_level it =? lvl then (w, ROk)
    else
      let w := put_item w i (it_set_level it lvl) in
      match item_fit w i with
      | None => (w, ROk)
      | Some f => (publish PF w f [MAttrsChanged [(i, [AttrId_skill_level])]], ROk)
      end
  end.

(* ------------------------------------------------------------------ *)
(* fleets, solar systems, sources                                      *)

Definition fleet_fits (w : world) (fl : nat) : list nat :=
  match al_get neqb (w_fleets w) fl with Some l => l | None => [] end.

Definition fleet_add_op (w : world) (fl f : nat) : world * res :=
  match fit_fleet w f with
  | Some _ => (w, RExn XValue)
  | None =>
    let w := set_fleets w (al_set neqb (w_fleets w) fl (set_add neqb (fleet_fits w fl) f)) in
    let w := upd_fit w f (fun ft => fit_set_fleet ft (Some fl)) in
    (publish PF w f [MFleetFitAdded], ROk)
  end.

Definition fleet_remove_one (w : world) (fl f : nat) : world :=
  let w := publish PF w f [MFleetFitRemoved] in
  let w := set_fleets w (al_set neqb (w_fleets w) fl (set_rm neqb (fleet_fits w fl) f)) in
  upd_fit w f (fun ft => fit_set_fleet ft None).

Definition fleet_remove_op (w : world) (fl f : nat) : world * res :=
  if negb (mem neqb (fleet_fits w fl) f) then (w, RExn XKey)
  else (fleet_remove_one w fl f, ROk).

Definition fleet_clear_op (w : world) (fl : nat) : world * res :=
  (fold_left (fun w f => fleet_remove_one w fl f) (fleet_fits w fl) w, ROk).

Definition load_fit_items (w : world) (f : nat) : world :=
  match get_fit w f with
  | Some ft => fold_left (fun w i => load F w i) (fit_items w ft true) w
  | None => fail w EKeyAbsent
  end.
(* the generator re-reads containers lazily; unloading changes no container
   except autocharges, which are skipped *)
Definition unload_fit_items (w : world) (f : nat) : world :=
  match get_fit w f with
  | Some ft => fold_left (fun w i => unload F w i) (fit_items w ft true) w
  | None => fail w EKeyAbsent
  end.

Definition ss_fit_list (w : world) (s : nat) : list nat :=
  match get_ss w s with Some x => ss_fits x | None => [] end.
Definition ss_set_fits (w : world) (s : nat) (l : list nat) : world :=
  match get_ss w s with
  | Some x => put_ss w s (mkSolsys (ss_source x) l (ss_calc x))
  | None => fail w EKeyAbsent
  end.

Definition solsys_add_op (w : world) (s f : nat) : world * res :=
  match fit_solsys w f with
  | Some _ => (w, RExn XValue)
  | None =>
    let w := ss_set_fits w s (set_add neqb (ss_fit_list w s) f) in
    let w := upd_fit w f (fun ft => fit_set_solsys ft (Some s)) in
    (load_fit_items w f, ROk)
  end.

Definition solsys_remove_one (w : world) (s f : nat) : world :=
  let w := unload_fit_items w f in
  let w := ss_set_fits w s (set_rm neqb (ss_fit_list w s) f) in
  upd_fit w f (fun ft => fit_set_solsys ft None).

Definition solsys_remove_op (w : world) (s f : nat) : world * res :=
  if negb (mem neqb (ss_fit_list w s) f) then (w, RExn XKey)
  else (solsys_remove_one w s f, ROk).

Definition solsys_clear_op (w : world) (s : nat) : world * res :=
  (fold_left (fun w f => solsys_remove_one w s f) (ss_fit_list w s) w, ROk).

Definition source_set_op (w : world) (s : nat) (new : option nat) : world * res :=
  match get_ss w s with
  | None => (fail w EKeyAbsent, ROk)
  | Some x =>
    if onat_eqb (ss_source x) new then (w, ROk)
    else
      let w := match ss_source x with
               | Some _ => fold_left unload_fit_items (ss_fits x) w
               | None => w end in
      let w := match get_ss w s with
               | Some x => put_ss w s (mkSolsys new (ss_fits x) (ss_calc x))
               | None => fail w EKeyAbsent end in
      let w := match new with
               | Some _ => fold_left load_fit_items (ss_fit_list w s) w
               | None => w end in
      (w, ROk)
  end.

(* ------------------------------------------------------------------ *)
(* operations                                                          *)

Inductive op :=
| ODefSource (src : nat) (u : universe)
| ONewItem (i : nat) (c : icls) (tid : Z) (st : Z) (lvl : Z)
| ONewFit (f : nat) (chr : nat)
| ONewSolsys (s : nat)
| OSlot (f : nat) (k : slotk) (v : option nat)
| OSetAdd (f : nat) (k : setk) (i : nat)
| OSetRemove (f : nat) (k : setk) (i : nat)
| OSetClear (f : nat) (k : setk)
| OSkillDel (f : nat) (tid : Z)
| ORackAppend (f : nat) (k : rackk) (i : nat)
| ORackInsert (f : nat) (k : rackk) (idx : Z) (v : option nat)
| ORackPlace (f : nat) (k : rackk) (idx : Z) (i : nat)
| ORackEquip (f : nat) (k : rackk) (i : nat)
| ORackRemove (f : nat) (k : rackk) (a : rarg)
| ORackFree (f : nat) (k : rackk) (a : rarg)
| ORackClear (f : nat) (k : rackk)
| OCharge (m : nat) (c : option nat)
| OState (i : nat) (st : Z)
| OTarget (i : nat) (t : option nat)
| OMode (i : nat) (e : Z) (m : Z)
| OLevel (i : nat) (l : Z)
| OFleetAdd (fl f : nat) | OFleetRemove (fl f : nat) | OFleetClear (fl : nat)
| OSolsysAdd (s f : nat) | OSolsysRemove (s f : nat) | OSolsysClear (s : nat)
| OSource (s : nat) (src : option nat)
| ORead (i : nat) (a : Z)        (* attrs[a] *)
| OGet (i : nat) (a : Z)         (* attrs.get(a) *)
| OKeys (i : nat)
| OEffects (i : nat).

Definition do_op (w : world) (o : op) : world * res :=
  match o with
  | ODefSource src u => (set_srcs w (al_set neqb (w_srcs w) src u), ROk)
  | ONewItem i c tid st lvl => (put_item w i (new_item c tid st lvl), ROk)
  | ONewFit f chr =>
    let w := put_fit w f empty_fit in
    let w := put_item w chr (new_item CCharacter TypeId_character_static State_offline 0) in
    slot_set_op w f SlCharacter (Some chr)
  | ONewSolsys s => (put_ss w s (mkSolsys None [] empty_calc), ROk)
  | OSlot f k v => slot_set_op w f k v
  | OSetAdd f k i => set_add_op w f k i
  | OSetRemove f k i => set_remove_op w f k i
  | OSetClear f k => set_clear_op w f k
  | OSkillDel f tid => skill_del_op w f tid
  | ORackAppend f k i => rack_append w f k i
  | ORackInsert f k idx v => rack_insert w f k idx v
  | ORackPlace f k idx i => rack_place w f k idx i
  | ORackEquip f k i => rack_equip w f k i
  | ORackRemove f k a => rack_remove w f k a
  | ORackFree f k a => rack_free w f k a
  | ORackClear f k => rack_clear w f k
  | OCharge m c => charge_set_op w m c
  | OState i st => state_set_op w i st
  | OTarget i t => target_set_op w i t
  | OMode i e m => mode_set_op w i e m
  | OLevel i l => level_set_op w i l
  | OFleetAdd fl f => fleet_add_op w fl f
  | OFleetRemove fl f => fleet_remove_op w fl f
  | OFleetClear fl => fleet_clear_op w fl
  | OSolsysAdd s f => solsys_add_op w s f
  | OSolsysRemove s f => solsys_remove_op w s f
  | OSolsysClear s => solsys_clear_op w s
  | OSource s src => source_set_op w s src
  | ORead i a =>
    let (w, v) := read_attr PF w i a in
    (w, match v with Some q => RVal q | None => RExn XKey end)
  | OGet i a =>
    let (w, v) := read_attr PF w i a in
    (w, match v with Some q => RVal q | None => RNone end)
  | OKeys i => (w, RKeys (attr_keys w i))
  | OEffects i =>
    match get_item w i with
    | Some it => (w, REffects (map (fun ee => (fst ee, mem zeqb (i_running it) (fst ee))) (item_effects w it)))
    | None => (w, REffects [])
    end
  end.

Definition step (w : world) (o : op) : world * res :=
  let w := set_trace (clear_err w) [] in
  let (w, r) := do_op w o in
  match w_err w with
  | Some e => (w, RExn (XInternal e))
  | None => (w, r)
  end.

Definition run (w : world) (ops : list op) : world := fold_left (fun w o => fst (step w o)) ops w.
