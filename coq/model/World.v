(* Engine model, part 1: data universe, items, fits, solar systems, registers.
   Implementation-shaped: the same fields eos keeps, as association lists.
   Identities: items/fits/solar systems/fleets/sources are [nat] ids. *)
From Coq Require Import ZArith QArith List Bool.
From EosV Require Import lib.AList gen.T_eos.
Import ListNotations.
Open Scope Z_scope.

(* ------------------------------------------------------------------ *)
(* data universe (one per source)                                      *)

Record attr_meta := mkAttr {
  am_default : option Q; am_hig : bool; am_stackable : bool; am_max : option Z }.

(* m_py: 0 = dogma modifier; otherwise a python modifier (eve_obj/custom), whose
   operator / value are computed from the world instead of read from m_src_attr:
   1 = PropulsionModuleVelocityBoostModifier, 2 = AncillaryRepAmountModifier *)
Record modifier := mkMod {
  m_filter : Z; m_extra : option Z; m_domain : Z; m_tgt_attr : Z;
  m_op : Z; m_aggmode : Z; m_aggkey : option Z; m_src_attr : Z; m_py : Z }.

Record effect := mkEffect {
  e_cat : Z;                       (* EffectCategoryId code *)
  e_chance_attr : option Z;        (* fitting_usage_chance_attr_id *)
  e_resist_attr : option Z;
  e_mods : list modifier;
  e_buff : bool;                   (* instance of WarfareBuffEffect *)
  e_autocharge_attr : option Z     (* effect class defines autocharges from this type attr *)
}.

Record itype := mkType {
  t_group : option Z; t_category : option Z;
  t_attrs : list (Z * Q);
  t_effects : list Z;              (* effect ids, dict order *)
  t_default : option Z;
  t_skills : list (Z * Z)          (* required skill type id -> level *)
}.

Record buff_template := mkBuff {
  b_filter : Z; b_extra : option Z; b_tgt_attr : Z; b_op : Z; b_aggmode : Z }.

Record universe := mkUniverse {
  u_attrs : list (Z * attr_meta);
  u_effects : list (Z * effect);
  u_types : list (Z * itype);
  u_buffs : list (Z * list buff_template) }.

Definition zeqb := Z.eqb.
Definition neqb := Nat.eqb.

Definition get_attr_meta (u : universe) (a : Z) := al_get zeqb (u_attrs u) a.
Definition get_effect (u : universe) (e : Z) := al_get zeqb (u_effects u) e.
Definition get_type (u : universe) (t : Z) := al_get zeqb (u_types u) t.

(* ------------------------------------------------------------------ *)
(* items                                                               *)

Inductive icls :=
| CShip | CCharacter | CStance | CBeacon | CSkill | CImplant | CBooster
| CSubsystem | CModHigh | CModMid | CModLow | CRig | CDrone | CFighter
| CCharge | CAutocharge.

Definition icls_eqb (a b : icls) : bool :=
  match a, b with
  | CShip, CShip | CCharacter, CCharacter | CStance, CStance | CBeacon, CBeacon
  | CSkill, CSkill | CImplant, CImplant | CBooster, CBooster
  | CSubsystem, CSubsystem | CModHigh, CModHigh | CModMid, CModMid
  | CModLow, CModLow | CRig, CRig | CDrone, CDrone | CFighter, CFighter
  | CCharge, CCharge | CAutocharge, CAutocharge => true
  | _, _ => false
  end.

Definition class_row_of (c : icls) : class_row :=
  match c with
  | CShip => ItemClass_Ship | CCharacter => ItemClass_Character
  | CStance => ItemClass_Stance | CBeacon => ItemClass_EffectBeacon
  | CSkill => ItemClass_Skill | CImplant => ItemClass_Implant
  | CBooster => ItemClass_Booster | CSubsystem => ItemClass_Subsystem
  | CModHigh | CModMid | CModLow => ItemClass_Module
  | CRig => ItemClass_Rig | CDrone => ItemClass_Drone
  | CFighter => ItemClass_FighterSquad
  | CCharge | CAutocharge => ItemClass_BaseCharge
  end.

Inductive slotk := SlShip | SlCharacter | SlStance | SlBeacon.
Inductive setk := SeSkills | SeImplants | SeBoosters | SeSubsystems | SeRigs | SeDrones | SeFighters.
Inductive rackk := RHigh | RMid | RLow.

Definition slotk_eqb a b := match a, b with
  | SlShip, SlShip | SlCharacter, SlCharacter | SlStance, SlStance | SlBeacon, SlBeacon => true
  | _, _ => false end.
Definition setk_eqb a b := match a, b with
  | SeSkills, SeSkills | SeImplants, SeImplants | SeBoosters, SeBoosters
  | SeSubsystems, SeSubsystems | SeRigs, SeRigs | SeDrones, SeDrones
  | SeFighters, SeFighters => true | _, _ => false end.
Definition rackk_eqb a b := match a, b with
  | RHigh, RHigh | RMid, RMid | RLow, RLow => true | _, _ => false end.

(* item._container *)
Inductive place :=
| PSlot (f : nat) (k : slotk)      (* container = the fit *)
| PSet (f : nat) (k : setk)
| PRack (f : nat) (k : rackk)
| PCharge (parent : nat)           (* module.charge: container = the module *)
| PAuto (parent : nat).            (* autocharge: container_override = parent item *)

Record item := mkItem {
  i_cls : icls;
  i_tid : Z;
  i_state : Z;                     (* own state (unused for charges) *)
  i_cont : option place;
  i_loaded : option nat;           (* source id the _type object came from *)
  i_running : list Z;              (* _running_effect_ids *)
  i_modes : list (Z * Z);          (* effect mode overrides *)
  i_target : option nat;
  i_charge : option nat;
  i_autos : list (Z * nat);        (* effect id -> autocharge item *)
  i_level : Z                      (* skills: level behind the skill_level override *)
}.

Definition new_item (c : icls) (tid : Z) (st : Z) (lvl : Z) : item :=
  mkItem c tid st None None [] [] None None [] lvl.

(* ------------------------------------------------------------------ *)
(* fits, fleets, solar systems                                         *)

Record fit := mkFit {
  f_ship : option nat; f_character : option nat; f_stance : option nat; f_beacon : option nat;
  f_skills : list nat; f_skillmap : list (Z * nat);
  f_implants : list nat; f_boosters : list nat; f_subsystems : list nat;
  f_rigs : list nat; f_drones : list nat; f_fighters : list nat;
  f_high : list (option nat); f_mid : list (option nat); f_low : list (option nat);
  f_solsys : option nat; f_fleet : option nat }.

Definition empty_fit : fit :=
  mkFit None None None None [] [] [] [] [] [] [] [] [] [] [] None None.

(* affector spec: (item, effect object, modifier object) *)
Record spec := mkSpec {
  sp_item : nat; sp_eff : Z; sp_src : nat; sp_mid : nat;
  sp_mod : modifier; sp_resist : option Z }.

Definition spec_eqb (a b : spec) : bool :=
  Nat.eqb (sp_item a) (sp_item b) && Z.eqb (sp_eff a) (sp_eff b)
  && Nat.eqb (sp_src a) (sp_src b) && Nat.eqb (sp_mid a) (sp_mid b).

(* projector: (item, effect object) *)
Record proj := mkProj { pj_item : nat; pj_eff : Z; pj_src : nat }.
Definition proj_eqb (a b : proj) : bool :=
  Nat.eqb (pj_item a) (pj_item b) && Z.eqb (pj_eff a) (pj_eff b) && Nat.eqb (pj_src a) (pj_src b).

(* register keys *)
Inductive akey :=
| KItem (i : nat)
| KFit (f : option nat)
| KDom (f : option nat) (d : Z)
| KDomX (f : option nat) (d : Z) (x : option Z)   (* group or skill *)
| KOwnX (f : option nat) (x : option Z).

Definition onat_eqb (a b : option nat) : bool :=
  match a, b with Some x, Some y => Nat.eqb x y | None, None => true | _, _ => false end.
Definition oz_eqb (a b : option Z) : bool :=
  match a, b with Some x, Some y => Z.eqb x y | None, None => true | _, _ => false end.

Definition akey_eqb (a b : akey) : bool :=
  match a, b with
  | KItem x, KItem y => Nat.eqb x y
  | KFit x, KFit y => onat_eqb x y
  | KDom f d, KDom f' d' => onat_eqb f f' && Z.eqb d d'
  | KDomX f d x, KDomX f' d' x' => onat_eqb f f' && Z.eqb d d' && oz_eqb x x'
  | KOwnX f x, KOwnX f' x' => onat_eqb f f' && oz_eqb x x'
  | _, _ => false
  end.

Record calc := mkCalc {
  c_affectees : list nat;
  c_ae_dom : list (akey * list nat);
  c_ae_domgrp : list (akey * list nat);
  c_ae_domsrq : list (akey * list nat);
  c_ae_ownsrq : list (akey * list nat);
  c_ao_other : list (akey * list spec);
  c_ao_await : list (akey * list spec);
  c_ao_active : list (akey * list spec);
  c_ao_dom : list (akey * list spec);
  c_ao_domgrp : list (akey * list spec);
  c_ao_domsrq : list (akey * list spec);
  c_ao_ownsrq : list (akey * list spec);
  c_projectors : list proj;
  c_carrier : list (nat * list proj);
  c_carrierless : list proj;
  c_ptgts : list (proj * list (option nat));
  c_tgtp : list (option nat * list proj);
  c_buffs : list (proj * list spec) }.

Definition empty_calc : calc :=
  mkCalc [] [] [] [] [] [] [] [] [] [] [] [] [] [] [] [] [] [].

Record solsys := mkSolsys { ss_source : option nat; ss_fits : list nat }.

(* messages (eos/pubsub/message/*.py) *)
Inductive msg :=
| MItemAdded (i : nat)
| MItemRemoved (i : nat)
| MStatesActivated (i : nat) (sts : list Z)
| MStatesDeactivated (i : nat) (sts : list Z)
| MItemLoaded (i : nat)
| MItemUnloaded (i : nat)
| MStatesActivatedLoaded (i : nat) (sts : list Z)
| MStatesDeactivatedLoaded (i : nat) (sts : list Z)
| MEffectsStarted (i : nat) (effs : list Z)
| MEffectsStopped (i : nat) (effs : list Z)
| MEffectApplied (i : nat) (e : Z) (tgts : list (option nat))
| MEffectUnapplied (i : nat) (e : Z) (tgts : list (option nat)) (aliased : bool)
| MAttrsChanged (ch : list (nat * list Z))
| MAttrsChangedMasked (ch : list (nat * list Z))
| MFleetFitAdded
| MFleetFitRemoved
| MDefaultDmgChanged
| MRahDmgChanged.

Inductive ierr :=
| ENoneDeref        (* attribute access on None (AttributeError) *)
| EKeyAbsent        (* dict[k] / set.remove(k) on an absent key inside engine code *)
| EOutOfFuel        (* RecursionError *)
| EZeroDiv
| ENoneState.       (* comparison with a None state (TypeError inside engine) *)

Record world := mkWorld {
  w_srcs : list (nat * universe);
  w_items : list (nat * item);
  w_fits : list (nat * fit);
  w_ss : list (nat * solsys);
  w_fleets : list (nat * list nat);
  w_next : nat;                    (* fresh ids for autocharges *)
  w_err : option ierr }.

(* what the services derive and maintain: per-item value caches and cap maps
   (MutableAttrMap), the calculator registers of each solar system *)
Record icache := mkICache { ic_vals : list (Z * Q); ic_caps : list (Z * list Z) }.
Record derived := mkDerived {
  d_caches : list (nat * icache);
  d_calcs : list (nat * calc);
  d_next : nat;                    (* fresh ids for warfare-buff modifiers *)
  d_pen : list Q;                  (* PENALTY_BASE ** (pos ** 2), pos = 0.. *)
  d_err : option ierr;
  d_trace : list (nat * msg);      (* messages delivered during the current step, newest first *)
  d_pysubs : list (nat * spec) }.  (* per solar system: affector specs with python modifiers that are
                                      subscribed to their revision messages (__subscribed_affectors) *)

Definition empty_world : world := mkWorld [] [] [] [] [] 1000%nat None.
Definition empty_derived (pen : list Q) : derived := mkDerived [] [] 1000%nat pen None [] [].

(* ------------------------------------------------------------------ *)
(* accessors / updaters                                                *)

Definition get_item (w : world) (i : nat) : option item := al_get neqb (w_items w) i.
Definition get_fit (w : world) (f : nat) : option fit := al_get neqb (w_fits w) f.
Definition get_ss (w : world) (s : nat) : option solsys := al_get neqb (w_ss w) s.
Definition get_src (w : world) (s : nat) : option universe := al_get neqb (w_srcs w) s.

Definition set_items (w : world) l := mkWorld (w_srcs w) l (w_fits w) (w_ss w) (w_fleets w) (w_next w) (w_err w).
Definition set_fits (w : world) l := mkWorld (w_srcs w) (w_items w) l (w_ss w) (w_fleets w) (w_next w) (w_err w).
Definition set_sss (w : world) l := mkWorld (w_srcs w) (w_items w) (w_fits w) l (w_fleets w) (w_next w) (w_err w).
Definition set_fleets (w : world) l := mkWorld (w_srcs w) (w_items w) (w_fits w) (w_ss w) l (w_next w) (w_err w).
Definition set_next (w : world) n := mkWorld (w_srcs w) (w_items w) (w_fits w) (w_ss w) (w_fleets w) n (w_err w).
Definition set_srcs (w : world) l := mkWorld l (w_items w) (w_fits w) (w_ss w) (w_fleets w) (w_next w) (w_err w).
Definition fail (w : world) (e : ierr) : world :=
  match w_err w with
  | Some _ => w
  | None => mkWorld (w_srcs w) (w_items w) (w_fits w) (w_ss w) (w_fleets w) (w_next w) (Some e)
  end.
Definition clear_err (w : world) : world :=
  mkWorld (w_srcs w) (w_items w) (w_fits w) (w_ss w) (w_fleets w) (w_next w) None.

Definition dfail (d : derived) (e : ierr) : derived :=
  match d_err d with
  | Some _ => d
  | None => mkDerived (d_caches d) (d_calcs d) (d_next d) (d_pen d) (Some e) (d_trace d) (d_pysubs d)
  end.
Definition d_set_caches (d : derived) v := mkDerived v (d_calcs d) (d_next d) (d_pen d) (d_err d) (d_trace d) (d_pysubs d).
Definition d_set_calcs (d : derived) v := mkDerived (d_caches d) v (d_next d) (d_pen d) (d_err d) (d_trace d) (d_pysubs d).
Definition d_set_next (d : derived) v := mkDerived (d_caches d) (d_calcs d) v (d_pen d) (d_err d) (d_trace d) (d_pysubs d).
Definition d_set_trace (d : derived) v := mkDerived (d_caches d) (d_calcs d) (d_next d) (d_pen d) (d_err d) v (d_pysubs d).
Definition d_set_pysubs (d : derived) v := mkDerived (d_caches d) (d_calcs d) (d_next d) (d_pen d) (d_err d) (d_trace d) v.
Definition d_clear (d : derived) := mkDerived (d_caches d) (d_calcs d) (d_next d) (d_pen d) None [] (d_pysubs d).
Definition empty_icache : icache := mkICache [] [].
Definition get_icache (d : derived) (i : nat) : icache :=
  match al_get neqb (d_caches d) i with Some c => c | None => empty_icache end.
Definition put_icache (d : derived) (i : nat) (c : icache) : derived :=
  match ic_vals c, ic_caps c with
  | [], [] => d_set_caches d (al_del neqb (d_caches d) i)
  | _, _ => d_set_caches d (al_set neqb (d_caches d) i c)
  end.

Definition put_item (w : world) (i : nat) (it : item) : world :=
  set_items w (al_set neqb (w_items w) i it).
Definition put_fit (w : world) (f : nat) (ft : fit) : world :=
  set_fits w (al_set neqb (w_fits w) f ft).
Definition put_ss (w : world) (s : nat) (x : solsys) : world :=
  set_sss w (al_set neqb (w_ss w) s x).

Definition upd_item (w : world) (i : nat) (g : item -> item) : world :=
  match get_item w i with Some it => put_item w i (g it) | None => fail w EKeyAbsent end.
Definition upd_fit (w : world) (f : nat) (g : fit -> fit) : world :=
  match get_fit w f with Some ft => put_fit w f (g ft) | None => fail w EKeyAbsent end.

(* item field setters *)
Definition it_set_cont (it : item) c := mkItem (i_cls it) (i_tid it) (i_state it) c (i_loaded it) (i_running it) (i_modes it) (i_target it) (i_charge it) (i_autos it) (i_level it).
Definition it_set_state (it : item) s := mkItem (i_cls it) (i_tid it) s (i_cont it) (i_loaded it) (i_running it) (i_modes it) (i_target it) (i_charge it) (i_autos it) (i_level it).
Definition it_set_loaded (it : item) l := mkItem (i_cls it) (i_tid it) (i_state it) (i_cont it) l (i_running it) (i_modes it) (i_target it) (i_charge it) (i_autos it) (i_level it).
Definition it_set_running (it : item) r := mkItem (i_cls it) (i_tid it) (i_state it) (i_cont it) (i_loaded it) r (i_modes it) (i_target it) (i_charge it) (i_autos it) (i_level it).
Definition it_set_modes (it : item) m := mkItem (i_cls it) (i_tid it) (i_state it) (i_cont it) (i_loaded it) (i_running it) m (i_target it) (i_charge it) (i_autos it) (i_level it).
Definition it_set_target (it : item) t := mkItem (i_cls it) (i_tid it) (i_state it) (i_cont it) (i_loaded it) (i_running it) (i_modes it) t (i_charge it) (i_autos it) (i_level it).
Definition it_set_charge (it : item) c := mkItem (i_cls it) (i_tid it) (i_state it) (i_cont it) (i_loaded it) (i_running it) (i_modes it) (i_target it) c (i_autos it) (i_level it).
Definition it_set_autos (it : item) a := mkItem (i_cls it) (i_tid it) (i_state it) (i_cont it) (i_loaded it) (i_running it) (i_modes it) (i_target it) (i_charge it) a (i_level it).
Definition it_set_level (it : item) l := mkItem (i_cls it) (i_tid it) (i_state it) (i_cont it) (i_loaded it) (i_running it) (i_modes it) (i_target it) (i_charge it) (i_autos it) l.

(* fit field access by kind *)
Definition fit_slot (ft : fit) (k : slotk) : option nat :=
  match k with SlShip => f_ship ft | SlCharacter => f_character ft
             | SlStance => f_stance ft | SlBeacon => f_beacon ft end.
Definition fit_set_slot (ft : fit) (k : slotk) (v : option nat) : fit :=
  match k with
  | SlShip => mkFit v (f_character ft) (f_stance ft) (f_beacon ft) (f_skills ft) (f_skillmap ft) (f_implants ft) (f_boosters ft) (f_subsystems ft) (f_rigs ft) (f_drones ft) (f_fighters ft) (f_high ft) (f_mid ft) (f_low ft) (f_solsys ft) (f_fleet ft)
  | SlCharacter => mkFit (f_ship ft) v (f_stance ft) (f_beacon ft) (f_skills ft) (f_skillmap ft) (f_implants ft) (f_boosters ft) (f_subsystems ft) (f_rigs ft) (f_drones ft) (f_fighters ft) (f_high ft) (f_mid ft) (f_low ft) (f_solsys ft) (f_fleet ft)
  | SlStance => mkFit (f_ship ft) (f_character ft) v (f_beacon ft) (f_skills ft) (f_skillmap ft) (f_implants ft) (f_boosters ft) (f_subsystems ft) (f_rigs ft) (f_drones ft) (f_fighters ft) (f_high ft) (f_mid ft) (f_low ft) (f_solsys ft) (f_fleet ft)
  | SlBeacon => mkFit (f_ship ft) (f_character ft) (f_stance ft) v (f_skills ft) (f_skillmap ft) (f_implants ft) (f_boosters ft) (f_subsystems ft) (f_rigs ft) (f_drones ft) (f_fighters ft) (f_high ft) (f_mid ft) (f_low ft) (f_solsys ft) (f_fleet ft)
  end.
Definition fit_setc (ft : fit) (k : setk) : list nat :=
  match k with SeSkills => f_skills ft | SeImplants => f_implants ft
             | SeBoosters => f_boosters ft | SeSubsystems => f_subsystems ft
             | SeRigs => f_rigs ft | SeDrones => f_drones ft | SeFighters => f_fighters ft end.
Definition fit_set_setc (ft : fit) (k : setk) (v : list nat) : fit :=
  match k with
  | SeSkills => mkFit (f_ship ft) (f_character ft) (f_stance ft) (f_beacon ft) v (f_skillmap ft) (f_implants ft) (f_boosters ft) (f_subsystems ft) (f_rigs ft) (f_drones ft) (f_fighters ft) (f_high ft) (f_mid ft) (f_low ft) (f_solsys ft) (f_fleet ft)
  | SeImplants => mkFit (f_ship ft) (f_character ft) (f_stance ft) (f_beacon ft) (f_skills ft) (f_skillmap ft) v (f_boosters ft) (f_subsystems ft) (f_rigs ft) (f_drones ft) (f_fighters ft) (f_high ft) (f_mid ft) (f_low ft) (f_solsys ft) (f_fleet ft)
  | SeBoosters => mkFit (f_ship ft) (f_character ft) (f_stance ft) (f_beacon ft) (f_skills ft) (f_skillmap ft) (f_implants ft) v (f_subsystems ft) (f_rigs ft) (f_drones ft) (f_fighters ft) (f_high ft) (f_mid ft) (f_low ft) (f_solsys ft) (f_fleet ft)
  | SeSubsystems => mkFit (f_ship ft) (f_character ft) (f_stance ft) (f_beacon ft) (f_skills ft) (f_skillmap ft) (f_implants ft) (f_boosters ft) v (f_rigs ft) (f_drones ft) (f_fighters ft) (f_high ft) (f_mid ft) (f_low ft) (f_solsys ft) (f_fleet ft)
  | SeRigs => mkFit (f_ship ft) (f_character ft) (f_stance ft) (f_beacon ft) (f_skills ft) (f_skillmap ft) (f_implants ft) (f_boosters ft) (f_subsystems ft) v (f_drones ft) (f_fighters ft) (f_high ft) (f_mid ft) (f_low ft) (f_solsys ft) (f_fleet ft)
  | SeDrones => mkFit (f_ship ft) (f_character ft) (f_stance ft) (f_beacon ft) (f_skills ft) (f_skillmap ft) (f_implants ft) (f_boosters ft) (f_subsystems ft) (f_rigs ft) v (f_fighters ft) (f_high ft) (f_mid ft) (f_low ft) (f_solsys ft) (f_fleet ft)
  | SeFighters => mkFit (f_ship ft) (f_character ft) (f_stance ft) (f_beacon ft) (f_skills ft) (f_skillmap ft) (f_implants ft) (f_boosters ft) (f_subsystems ft) (f_rigs ft) (f_drones ft) v (f_high ft) (f_mid ft) (f_low ft) (f_solsys ft) (f_fleet ft)
  end.
Definition fit_set_skillmap (ft : fit) (v : list (Z * nat)) : fit :=
  mkFit (f_ship ft) (f_character ft) (f_stance ft) (f_beacon ft) (f_skills ft) v (f_implants ft) (f_boosters ft) (f_subsystems ft) (f_rigs ft) (f_drones ft) (f_fighters ft) (f_high ft) (f_mid ft) (f_low ft) (f_solsys ft) (f_fleet ft).
Definition fit_rack (ft : fit) (k : rackk) : list (option nat) :=
  match k with RHigh => f_high ft | RMid => f_mid ft | RLow => f_low ft end.
Definition fit_set_rack (ft : fit) (k : rackk) (v : list (option nat)) : fit :=
  match k with
  | RHigh => mkFit (f_ship ft) (f_character ft) (f_stance ft) (f_beacon ft) (f_skills ft) (f_skillmap ft) (f_implants ft) (f_boosters ft) (f_subsystems ft) (f_rigs ft) (f_drones ft) (f_fighters ft) v (f_mid ft) (f_low ft) (f_solsys ft) (f_fleet ft)
  | RMid => mkFit (f_ship ft) (f_character ft) (f_stance ft) (f_beacon ft) (f_skills ft) (f_skillmap ft) (f_implants ft) (f_boosters ft) (f_subsystems ft) (f_rigs ft) (f_drones ft) (f_fighters ft) (f_high ft) v (f_low ft) (f_solsys ft) (f_fleet ft)
  | RLow => mkFit (f_ship ft) (f_character ft) (f_stance ft) (f_beacon ft) (f_skills ft) (f_skillmap ft) (f_implants ft) (f_boosters ft) (f_subsystems ft) (f_rigs ft) (f_drones ft) (f_fighters ft) (f_high ft) (f_mid ft) v (f_solsys ft) (f_fleet ft)
  end.
Definition fit_set_solsys (ft : fit) (v : option nat) : fit :=
  mkFit (f_ship ft) (f_character ft) (f_stance ft) (f_beacon ft) (f_skills ft) (f_skillmap ft) (f_implants ft) (f_boosters ft) (f_subsystems ft) (f_rigs ft) (f_drones ft) (f_fighters ft) (f_high ft) (f_mid ft) (f_low ft) v (f_fleet ft).
Definition fit_set_fleet (ft : fit) (v : option nat) : fit :=
  mkFit (f_ship ft) (f_character ft) (f_stance ft) (f_beacon ft) (f_skills ft) (f_skillmap ft) (f_implants ft) (f_boosters ft) (f_subsystems ft) (f_rigs ft) (f_drones ft) (f_fighters ft) (f_high ft) (f_mid ft) (f_low ft) (f_solsys ft) v.

(* ------------------------------------------------------------------ *)
(* derived relations                                                   *)

(* item._fit : container._fit, following item containers *)
Fixpoint item_fit_n (n : nat) (w : world) (i : nat) : option nat :=
  match n with
  | O => None
  | S n =>
    match get_item w i with
    | None => None
    | Some it =>
      match i_cont it with
      | None => None
      | Some (PSlot f _) | Some (PSet f _) | Some (PRack f _) => Some f
      | Some (PCharge p) | Some (PAuto p) => item_fit_n n w p
      end
    end
  end.
Definition item_fit (w : world) (i : nat) : option nat := item_fit_n 4 w i.

Definition fit_solsys (w : world) (f : nat) : option nat :=
  match get_fit w f with Some ft => f_solsys ft | None => None end.

(* fit.solar_system.source, as a universe *)
Definition fit_source_id (w : world) (f : nat) : option nat :=
  match fit_solsys w f with
  | Some s => match get_ss w s with Some x => ss_source x | None => None end
  | None => None
  end.
Definition fit_universe (w : world) (f : nat) : option universe :=
  match fit_source_id w f with Some s => get_src w s | None => None end.

(* item._type *)
Definition item_type (w : world) (it : item) : option itype :=
  match i_loaded it with
  | Some s => match get_src w s with Some u => get_type u (i_tid it) | None => None end
  | None => None
  end.
Definition item_universe (w : world) (it : item) : option universe :=
  match i_loaded it with Some s => get_src w s | None => None end.

(* item._type_effects as (id, effect) in dict order *)
Definition item_effects (w : world) (it : item) : list (Z * effect) :=
  match item_type w it, item_universe w it with
  | Some t, Some u =>
    flat_map (fun e => match get_effect u e with Some ef => [(e, ef)] | None => [] end)
             (t_effects t)
  | _, _ => []
  end.
Definition item_effect (w : world) (it : item) (e : Z) : option effect :=
  al_get zeqb (item_effects w it) e.
Definition item_type_attrs (w : world) (it : item) : list (Z * Q) :=
  match item_type w it with Some t => t_attrs t | None => [] end.

(* item.state: own state, or the container item's state for charges *)
Fixpoint item_state_n (n : nat) (w : world) (i : nat) : option Z :=
  match n with
  | O => None
  | S n =>
    match get_item w i with
    | None => None
    | Some it =>
      match cr_state (class_row_of (i_cls it)) with
      | StContainer =>
        match i_cont it with
        | Some (PCharge p) | Some (PAuto p) => item_state_n n w p
        | _ => None
        end
      | _ => Some (i_state it)
      end
    end
  end.
Definition item_state (w : world) (i : nat) : option Z := item_state_n 4 w i.

(* child items: autocharges then charge (MRO order: BaseItemMixin's
   autocharges come after Module's charge: Module._child_item_iter yields the
   charge first, then super()'s autocharges) *)
Definition child_items (it : item) (skip_auto : bool) : list nat :=
  (match i_charge it with Some c => [c] | None => [] end)
  ++ (if skip_auto then [] else map snd (i_autos it)).

(* item._others: container if it is an item, plus child items *)
Definition item_others (it : item) : list nat :=
  (match i_cont it with Some (PCharge p) | Some (PAuto p) => [p] | _ => [] end)
  ++ child_items it false.

(* item._solsys_carrier; None deref when the class asks self._fit.ship with no fit *)
Inductive carrier_res := CarOk (c : option nat) | CarFail.
Fixpoint solsys_carrier_n (n : nat) (w : world) (i : nat) : carrier_res :=
  match n with
  | O => CarOk None
  | S n =>
    match get_item w i with
    | None => CarOk None
    | Some it =>
      match cr_carrier (class_row_of (i_cls it)) with
      | CarNone => CarOk None
      | CarSelf => CarOk (Some i)
      | CarFitShip =>
        match item_fit w i with
        | Some f => match get_fit w f with Some ft => CarOk (f_ship ft) | None => CarFail end
        | None => CarFail
        end
      | CarContainer =>
        match i_cont it with
        | Some (PCharge p) | Some (PAuto p) => solsys_carrier_n n w p
        | _ => CarOk None
        end
      end
    end
  end.
Definition solsys_carrier (w : world) (i : nat) : carrier_res := solsys_carrier_n 4 w i.

Definition is_ship (w : world) (i : nat) : bool :=
  match get_item w i with Some it => icls_eqb (i_cls it) CShip | None => false end.
Definition is_character (w : world) (i : nat) : bool :=
  match get_item w i with Some it => icls_eqb (i_cls it) CCharacter | None => false end.

(* fit._item_iter(skip_autoitems) *)
Definition opt_list {A} (o : option A) : list A := match o with Some x => [x] | None => [] end.
Definition rack_items (l : list (option nat)) : list nat := flat_map opt_list l.
Definition fit_top_items (ft : fit) : list nat :=
  opt_list (f_character ft) ++ opt_list (f_ship ft) ++ opt_list (f_stance ft) ++ opt_list (f_beacon ft)
  ++ f_skills ft ++ f_implants ft ++ f_boosters ft ++ f_subsystems ft
  ++ rack_items (f_high ft) ++ rack_items (f_mid ft) ++ rack_items (f_low ft)
  ++ f_rigs ft ++ f_drones ft ++ f_fighters ft.
Definition fit_items (w : world) (ft : fit) (skip_auto : bool) : list nat :=
  flat_map (fun i => i :: match get_item w i with
                          | Some it => child_items it skip_auto
                          | None => [] end) (fit_top_items ft).
