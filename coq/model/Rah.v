(* Model of eos/sim/reactive_armor_hardener.py (ReactiveArmorHardenerSimulator),
   eos/util/round.py (sig_round) and the stacking formula of
   eos/calculator/map.py as far as the simulator reads ship armor resonances.

   Executable, exact rationals (Q).  Implementation-shaped: same tick iterator,
   same accumulation of received damage, same donor/recipient shift, same loop
   detection on rounded states, same averaging.  Every operation that is
   partial in the Python is an explicit error outcome; the simulation loop runs
   on explicit fuel (the tick limit).  Definitions only; proofs are in
   proofs/Rah_p.v. *)
From Coq Require Import QArith ZArith Bool List.
Import ListNotations.
Local Open Scope Q_scope.

(* ------------------------------------------------------------------------- *)
(* outcomes                                                                   *)
(* ------------------------------------------------------------------------- *)

Inductive err :=
| EMinEmpty        (* min() over an empty sequence: ValueError *)
| EMaxEmpty        (* max() over an empty sequence: ValueError *)
| EDivZero         (* ZeroDivisionError *)
| ELogZero         (* math.log10(0): ValueError *)
| EKeyProfile      (* attr_profile_map[attr_id]: KeyError *)
| EKeyShip         (* ship.attrs[attr_id]: KeyError *)
| EKeyShift        (* item.attrs[resist_shift_amount]: KeyError *)
| ENoneDuration.   (* effect.get_duration() returned None: TypeError *)

Inductive outcome (A : Type) : Type :=
| Ok (a : A)
| Err (e : err).
Arguments Ok {A}. Arguments Err {A}.

Definition bind {A B} (o : outcome A) (f : A -> outcome B) : outcome B :=
  match o with Ok a => f a | Err e => Err e end.
Notation "x <- o ;; k" := (bind o (fun x => k))
  (at level 61, o at next level, right associativity).

Fixpoint mapM {A B} (f : A -> outcome B) (l : list A) : outcome (list B) :=
  match l with
  | [] => Ok []
  | a :: t => b <- f a ;; r <- mapM f t ;; Ok (b :: r)
  end.

(* ------------------------------------------------------------------------- *)
(* resonance attributes, damage profile                                       *)
(* ------------------------------------------------------------------------- *)

(* res_attr_ids, in the order of the tuple in the source *)
Inductive rattr := Em | Expl | Kin | Therm.
Definition res_order : list rattr := [Em; Expl; Kin; Therm].

Definition rattr_eqb (a b : rattr) : bool :=
  match a, b with
  | Em, Em | Expl, Expl | Kin, Kin | Therm, Therm => true
  | _, _ => false
  end.

(* numeric attribute ids (AttrId.armor_*_dmg_resonance), for the table tie *)
Definition rattr_id (a : rattr) : Z :=
  match a with Em => 267 | Expl => 268 | Kin => 269 | Therm => 270 end%Z.

(* DmgProfile fields *)
Inductive pfield := PEm | PThermal | PKinetic | PExplosive.
Record profile := mkProfile { p_em : Q; p_thermal : Q; p_kinetic : Q; p_explosive : Q }.
Definition pget (p : profile) (f : pfield) : Q :=
  match f with
  | PEm => p_em p | PThermal => p_thermal p
  | PKinetic => p_kinetic p | PExplosive => p_explosive p
  end.

(* attr_profile_map *)
Definition attr_profile_map : list (rattr * pfield) :=
  [(Em, PEm); (Therm, PThermal); (Kin, PKinetic); (Expl, PExplosive)].

Fixpoint lookup {B} (a : rattr) (l : list (rattr * B)) : option B :=
  match l with
  | [] => None
  | (k, v) :: t => if rattr_eqb a k then Some v else lookup a t
  end.

(* a value per resonance attribute ({attr_id: value} with all four keys) *)
Record R4 := mk4 { r_em : Q; r_expl : Q; r_kin : Q; r_therm : Q }.
Definition get4 (r : R4) (a : rattr) : Q :=
  match a with Em => r_em r | Expl => r_expl r | Kin => r_kin r | Therm => r_therm r end.
Definition build4 (f : rattr -> Q) : R4 := mk4 (f Em) (f Expl) (f Kin) (f Therm).
Definition build4M (f : rattr -> outcome Q) : outcome R4 :=
  a <- f Em ;; b <- f Expl ;; c <- f Kin ;; d <- f Therm ;; Ok (mk4 a b c d).
Definition zero4 : R4 := mk4 0 0 0 0.
Definition sum4 (r : R4) : Q := r_em r + r_expl r + r_kin r + r_therm r.
Definition add4 (u v : R4) : R4 := build4 (fun a => Qred (get4 u a + get4 v a)).

(* dict.update with a {attr: value} association list *)
Definition update4 (cur : R4) (al : list (rattr * Q)) : R4 :=
  build4 (fun a => match lookup a al with Some v => v | None => get4 cur a end).

(* ------------------------------------------------------------------------- *)
(* eos/util/round.py                                                          *)
(* ------------------------------------------------------------------------- *)

(* largest e >= 0 with 10^e * d <= n, for n >= d > 0 (p = 10^e on entry) *)
Fixpoint ilog_up (fuel : nat) (n d p e : Z) : Z :=
  match fuel with
  | O => e
  | S f => if (10 * p * d <=? n)%Z then ilog_up f n d (10 * p) (e + 1) else e
  end.

(* smallest k >= 1 with d <= n * 10^k, for 0 < n < d (p = 10^k on entry) *)
Fixpoint ilog_down (fuel : nat) (n d p k : Z) : Z :=
  match fuel with
  | O => k
  | S f => if (d <=? n * p)%Z then k else ilog_down f n d (10 * p) (k + 1)
  end.

Definition zsize (n : Z) : nat :=
  match n with Zpos p => Pos.size_nat p | _ => O end.

(* math.floor(math.log10(abs(x))) for x <> 0, on the exact value *)
Definition floor_log10 (x : Q) : Z :=
  let n := Z.abs (Qnum x) in
  let d := Zpos (Qden x) in
  if (d <=? n)%Z then ilog_up (zsize n) n d 1 0
  else (- ilog_down (zsize d) n d 10 1)%Z.

(* round half to even of n/d *)
Definition round_half_even (x : Q) : Z :=
  let n := Qnum x in
  let d := Zpos (Qden x) in
  let f := (n / d)%Z in
  let r := (n mod d)%Z in
  match (2 * r ?= d)%Z with
  | Lt => f
  | Gt => (f + 1)%Z
  | Eq => if Z.even f then f else (f + 1)%Z
  end.

(* round(x, ndigits) *)
Definition py_round (x : Q) (nd : Z) : Q :=
  if (0 <=? nd)%Z then
    let m := Z.to_pos (10 ^ nd) in
    Qred (Qmake (round_half_even (x * inject_Z (Zpos m))) m)
  else
    let m := Z.to_pos (10 ^ (- nd)) in
    inject_Z (round_half_even (x * Qmake 1 m) * Zpos m).

(* the argument is put in lowest terms first, so that the result depends on
   the value only (a float has one representation) *)
Definition sig_round (x : Q) (sig_digits : Z) : outcome Q :=
  let x := Qred x in
  if Qeq_bool x 0 then Err ELogZero
  else Ok (py_round x (- floor_log10 x - 1 + sig_digits)).

(* ------------------------------------------------------------------------- *)
(* small helpers                                                              *)
(* ------------------------------------------------------------------------- *)

Definition qmin (a b : Q) : Q := if Qle_bool a b then a else b.

Fixpoint qmin_list (l : list Q) : outcome Q :=
  match l with
  | [] => Err EMinEmpty
  | [a] => Ok a
  | a :: t => m <- qmin_list t ;; Ok (qmin a m)
  end.

Definition qsum (l : list Q) : Q := fold_left Qplus l 0.

Definition qdiv_checked (a b : Q) : outcome Q :=
  if Qeq_bool b 0 then Err EDivZero else Ok (a / b).

(* math.ceil *)
Definition qceil (x : Q) : Z := (- ((- Qnum x) / Zpos (Qden x)))%Z.

(* sorted(l, key=...) : stable insertion sort *)
Fixpoint insert_by (key : rattr -> Q) (x : rattr) (l : list rattr) : list rattr :=
  match l with
  | [] => [x]
  | y :: t => if Qle_bool (key x) (key y) then x :: l else y :: insert_by key x t
  end.
Definition sort_by (key : rattr -> Q) (l : list rattr) : list rattr :=
  fold_right (insert_by key) [] l.

(* ------------------------------------------------------------------------- *)
(* __get_next_resos                                                           *)
(* ------------------------------------------------------------------------- *)

Definition donor_count (dmg : R4) : nat :=
  Nat.max 2 (length (filter (fun a => Qeq_bool (get4 dmg a) 0) res_order)).

Definition next_resos_al (cur dmg : R4) (shift : Q) : outcome (list (rattr * Q)) :=
  let donors := donor_count dmg in
  let recipients := (4 - donors)%nat in
  let sorted := sort_by (get4 dmg) res_order in
  let dl := firstn donors sorted in
  let rl := skipn donors sorted in
  let donated := qsum (map (fun a => qmin (1 - get4 cur a) shift) dl) in
  let dnew := map (fun a => (a, Qred (get4 cur a + qmin (1 - get4 cur a) shift))) dl in
  rnew <- mapM (fun a =>
                  sh <- qdiv_checked donated (inject_Z (Z.of_nat recipients)) ;;
                  Ok (a, Qred (get4 cur a - sh))) rl ;;
  Ok (dnew ++ rnew).

(* the resonances after `self.__data[item].update(new_resos)` *)
Definition next_resos (cur dmg : R4) (shift : Q) : outcome R4 :=
  al <- next_resos_al cur dmg shift ;; Ok (update4 cur al).

(* ------------------------------------------------------------------------- *)
(* simulator state                                                            *)
(* ------------------------------------------------------------------------- *)

(* what the simulator reads from one running hardener:
   h_resos  unsimulated resonances (attrs._get_without_overrides)
   h_shift  attrs[resist_shift_amount] (percent), None: attribute unavailable
   h_dur    effect.get_duration(item) (seconds), None: no cycle time *)
Record hardener := mkH { h_resos : R4; h_shift : option Q; h_dur : option Q }.

(* per hardener: time in the current cycle, current resonances, damage received
   during the current cycle *)
Record hstate := mkHS { s_h : hardener; s_cyc : Q; s_resos : R4; s_acc : R4 }.

(* RahState; t_dmg/t_cycled are ghosts (damage the shift of this tick was
   decided on; whether the hardener finished a cycle in this tick) and take no
   part in comparisons *)
Record rah_state := mkRS { t_cyc : Q; t_resos : R4; t_rounded : R4;
                           t_dmg : R4; t_cycled : bool }.
Definition tick_state := list rah_state.

Definition eq4b (u v : R4) : bool :=
  forallb (fun a => Qeq_bool (get4 u a) (get4 v a)) res_order.

Definition rah_state_eqb (x y : rah_state) : bool :=
  Qeq_bool (t_cyc x) (t_cyc y) && eq4b (t_rounded x) (t_rounded y).

Fixpoint tick_state_eqb (x y : tick_state) : bool :=
  match x, y with
  | [], [] => true
  | a :: x', b :: y' => rah_state_eqb a b && tick_state_eqb x' y'
  | _, _ => false
  end.

(* tick_history.index(tick_state) when tick_state in ticks_seen *)
Fixpoint find_index (ts : tick_state) (hist : list tick_state) : option nat :=
  match hist with
  | [] => None
  | h :: t => if tick_state_eqb h ts then Some O
              else match find_index ts t with Some i => Some (S i) | None => None end
  end.

Definition dur_of (h : hardener) : outcome Q :=
  match h_dur h with Some d => Ok d | None => Err ENoneDuration end.
Definition shift_of (h : hardener) : outcome Q :=
  match h_shift h with Some s => Ok s | None => Err EKeyShift end.

(* how the returned resonances were obtained (ghost output) *)
Inductive sim_how :=
| NoShip                         (* no loaded ship: unsimulated values *)
| LoopAt (i : nat)               (* loop found; averaged over history[i:] *)
| History (ignored : nat).       (* tick limit reached; averaged over history[ignored:] *)

Record sim_out := mkOut { so_resos : list R4; so_hist : list tick_state; so_how : sim_how }.

Section Sim.
  (* ship.attrs[attr] while the running hardeners expose the given current
     resonances (in the simulator's hardener order); None: KeyError *)
  Variable ship_fn : list R4 -> rattr -> option Q.
  Variable sig_digits : Z.

  Definition round4 (r : R4) : outcome R4 :=
    build4M (fun a => sig_round (get4 r a) sig_digits).

  (* one step of __sim_tick_iter after the first yield:
     time passed, and per hardener (finished its cycle?, new time in cycle) *)
  Definition advance (st : list hstate) : outcome (Q * list (bool * Q)) :=
    rems <- mapM (fun s => d <- dur_of (s_h s) ;; Ok (d - s_cyc s)) st ;;
    tp <- qmin_list rems ;;
    fl <- mapM (fun s =>
                  d <- dur_of (s_h s) ;;
                  x <- sig_round (s_cyc s + tp) sig_digits ;;
                  y <- sig_round d sig_digits ;;
                  Ok (if Qeq_bool x y then (true, 0) else (false, Qred (s_cyc s + tp)))) st ;;
    Ok (tp, fl).

  (* ship.attrs[attr] for the four attributes under the current resonances.
     The Python reads them once per hardener and attribute; the calculator
     caches the value, so the reads of one tick return the same number.  (With
     an absent attribute the KeyError is raised here rather than after the
     profile lookup of the first hardener: both end in the same fallback.) *)
  Definition ship_values (cur : list R4) : outcome R4 :=
    build4M (fun a => match ship_fn cur a with Some s => Ok s | None => Err EKeyShip end).

  (* damage received during this tick, added to the cycle's damage *)
  Definition add_dmg (prof : profile) (shipv : R4) (tp : Q) (acc : R4) : outcome R4 :=
    build4M (fun a =>
      f <- match lookup a attr_profile_map with Some f => Ok f | None => Err EKeyProfile end ;;
      Ok (Qred (get4 acc a + pget prof f * get4 shipv a * tp))).

  (* body of the `for tick_data in ...` loop up to the recording of the state.
     The Python runs three loops over the hardeners (add the damage of the
     tick; shift those that finished a cycle; record the states).  Once the
     ship values of the tick are fixed the hardeners do not influence each
     other within a tick, so the model handles one hardener at a time: same
     values; only the order in which two different errors would surface
     differs, and every error ends in the same fallback. *)
  Definition tick_item (prof : profile) (shipv : R4) (tp : Q)
             (sf : hstate * (bool * Q)) : outcome (hstate * rah_state) :=
    let (s, f) := sf in
    let (cycled, cyc') := f in
    acc <- add_dmg prof shipv tp (s_acc s) ;;
    s' <- (if cycled then
             sh <- shift_of (s_h s) ;;
             nr <- next_resos (s_resos s) acc (sh / 100) ;;
             Ok (mkHS (s_h s) cyc' nr zero4)
           else Ok (mkHS (s_h s) cyc' (s_resos s) acc)) ;;
    rr <- round4 (s_resos s') ;;
    Ok (s', mkRS cyc' (s_resos s') rr acc cycled).

  Definition tick_body (prof : profile) (tp : Q) (fl : list (bool * Q))
             (st : list hstate) : outcome (list hstate * tick_state) :=
    shipv <- match st with [] => Ok zero4 | _ => ship_values (map s_resos st) end ;;
    r <- mapM (tick_item prof shipv tp) (combine st fl) ;;
    Ok (map fst r, map snd r).

  (* __get_avg_resos: per hardener, sum and count of the resonances of the
     states in which its cycle is just starting *)
  Definition avg_accum (a : list (R4 * nat)) (ts : tick_state) : list (R4 * nat) :=
    map (fun x : (R4 * nat) * rah_state =>
           let (sn, rs) := x in
           if Qeq_bool (t_cyc rs) 0 then (add4 (fst sn) (t_resos rs), S (snd sn)) else sn)
        (combine a ts).

  Definition avg_resos (n : nat) (states : list tick_state) : list (R4 * nat) :=
    fold_left avg_accum states (repeat (zero4, O) n).

  (* `for item, resos in avg_resos.items(): self.__data[item] = resos` *)
  Definition apply_avg (avg : list (R4 * nat)) (st : list hstate) : list R4 :=
    map (fun x : (R4 * nat) * hstate =>
           let (sn, s) := x in
           match snd sn with
           | O => s_resos s
           | S _ => build4 (fun a => Qred (get4 (fst sn) a / inject_Z (Z.of_nat (snd sn))))
           end)
        (combine avg st).

  (* __estimate_initial_adaptation_ticks *)
  Definition exhaustion_cycles (h : hardener) : outcome Z :=
    sh <- shift_of h ;;
    l <- mapM (fun a => q <- qdiv_checked (1 - get4 (h_resos h) a) (sh / 100) ;;
                        Ok (qceil q)) res_order ;;
    match l with
    | [] => Err EMaxEmpty
    | x :: t => Ok (fold_left Z.max t x)
    end.

  (* max(data, key=...): index, key and exhaustion cycles of the first maximal *)
  Fixpoint argmax_first (l : list (Q * Z)) (i : nat) (best : nat * (Q * Z))
    : nat * (Q * Z) :=
    match l with
    | [] => best
    | x :: t => argmax_first t (S i)
                  (if Qle_bool (fst x) (fst (snd best)) then best else (i, x))
    end.

  Fixpoint count_ticks (states : list tick_state) (j : nat) (slowest_cycles : Z)
           (cycle_count : Z) (tick_count : nat) : nat :=
    match states with
    | [] => tick_count
    | ts :: rest =>
      let cc := match nth_error ts j with
                | Some rs => if Qeq_bool (t_cyc rs) 0 then (cycle_count + 1)%Z else cycle_count
                | None => cycle_count
                end in
      if (slowest_cycles <=? cc)%Z then tick_count
      else count_ticks rest j slowest_cycles cc (S tick_count)
    end.

  Definition estimate_adaptation (st : list hstate) (hist : list tick_state) : outcome nat :=
    keyed <- mapM (fun s => e <- exhaustion_cycles (s_h s) ;;
                            d <- dur_of (s_h s) ;;
                            Ok (inject_Z e * d, e)) st ;;
    match keyed with
    | [] => Err EMaxEmpty
    | x :: t =>
      let (j, ke) := argmax_first t 1%nat (O, x) in
      let slowest_cycles := qceil (inject_Z (snd ke) * (3 # 2)) in
      if (slowest_cycles =? 0)%Z then Ok O
      else Ok (count_ticks (skipn 1 hist) j slowest_cycles 0%Z 1%nat)
    end.

  (* the `else:` of the for loop *)
  Definition finish_history (st : list hstate) (hist : list tick_state) : outcome sim_out :=
    est <- estimate_adaptation st hist ;;
    let k := Nat.min est (Nat.div (length hist) 2) in
    Ok (mkOut (apply_avg (avg_resos (length st) (skipn k hist)) st) hist (History k)).

  (* the for loop over __sim_tick_iter(MAX_SIMULATION_TICKS); fuel = ticks left *)
  Fixpoint sim_loop (fuel : nat) (first : bool) (prof : profile)
           (st : list hstate) (hist : list tick_state) : outcome sim_out :=
    match fuel with
    | O => finish_history st hist
    | S f =>
      adv <- (if first then Ok (0, map (fun _ : hstate => (false, 0)) st) else advance st) ;;
      r <- tick_body prof (fst adv) (snd adv) st ;;
      let (st', ts) := r in
      match find_index ts hist with
      | Some i =>
        Ok (mkOut (apply_avg (avg_resos (length st') (skipn i hist)) st') hist (LoopAt i))
      | None => sim_loop f false prof st' (hist ++ [ts])
      end
    end.

  Definition init_state (hs : list hardener) : list hstate :=
    map (fun h => mkHS h 0 (h_resos h) zero4) hs.

  (* _run_simulation: hs are the running hardeners in the simulator's order *)
  Definition run_sim (max_ticks : nat) (ship_loaded : bool) (prof : profile)
             (hs : list hardener) : outcome sim_out :=
    if ship_loaded then sim_loop max_ticks true prof (init_state hs) []
    else Ok (mkOut (map h_resos hs) [] NoShip).

  (* get_reso's try/except: (resonances per running hardener, warning logged) *)
  Definition rah_results (max_ticks : nat) (ship_loaded : bool) (prof : profile)
             (hs : list hardener) : list R4 * bool :=
    match run_sim max_ticks ship_loaded prof hs with
    | Ok o => (so_resos o, false)
    | Err _ => (map h_resos hs, true)
    end.

  (* what item.attrs[armor_*_dmg_resonance] exposes for every hardener module
     of the fit: (running?, hardener) in the simulator's order for the running
     ones; a hardener that is not running has no override *)
  Fixpoint expose (all : list (bool * hardener)) (res : list R4) : list R4 :=
    match all with
    | [] => []
    | (true, h) :: t => match res with
                        | r :: res' => r :: expose t res'
                        | [] => h_resos h :: expose t []
                        end
    | (false, h) :: t => h_resos h :: expose t res
    end.

  Definition rah_read (max_ticks : nat) (ship_loaded : bool) (prof : profile)
             (all : list (bool * hardener)) : list R4 * bool :=
    let running := map snd (filter fst all) in
    match running with
    | [] => (expose all [], false)     (* no override installed: get_reso is never called *)
    | _ => let (res, logged) := rah_results max_ticks ship_loaded prof running in
           (expose all res, logged)
    end.
End Sim.

(* fit.rah_incoming_dmg if set, else fit.default_incoming_dmg *)
Definition effective_profile (default : profile) (rah : option profile) : profile :=
  match rah with Some p => p | None => default end.

(* ------------------------------------------------------------------------- *)
(* the calculator's value of a ship armor resonance whose only modifiers are  *)
(* the hardeners' (pre_mul, stacking penalised): MutableAttrMap.__calculate   *)
(* and __penalize_values, with the penalty factors PENALTY_BASE ** (pos ** 2) *)
(* given as a list (positions beyond the list are ignored, as `pos > 10`)     *)
(* ------------------------------------------------------------------------- *)

Fixpoint qinsert (le : Q -> Q -> bool) (x : Q) (l : list Q) : list Q :=
  match l with
  | [] => [x]
  | y :: t => if le x y then x :: l else y :: qinsert le x t
  end.
Definition qsort (le : Q -> Q -> bool) (l : list Q) : list Q := fold_right (qinsert le) [] l.

Definition chain_value (pens : list Q) (chain : list Q) : Q :=
  fold_left (fun acc mp => acc * (1 + fst mp * snd mp)) (combine chain pens) 1.

Definition penalize (pens : list Q) (mods : list Q) : Q :=
  let pos := qsort (fun a b => Qle_bool b a) (filter (fun m => Qle_bool 0 m) mods) in
  let neg := qsort Qle_bool (filter (fun m => negb (Qle_bool 0 m)) mods) in
  1 * chain_value pens pos * chain_value pens neg - 1.

Definition calc_ship (pens : list Q) (base : rattr -> option Q)
           (cur : list R4) (a : rattr) : option Q :=
  match base a with
  | None => None
  | Some b =>
    match cur with
    | [] => Some b
    | _ => Some (Qred (b * (1 + penalize pens (map (fun r => get4 r a - 1) cur))))
    end
  end.
