(* The dogma modification rules, stated declaratively over the CURRENT base
   world only: no register, no cache, no message. [spec_value] is the value an
   attribute has "from scratch"; C01 says the incrementally maintained value
   equals it after every history, C02 says it is what the rules prescribe. *)
From Coq Require Import ZArith QArith List Bool.
From EosV Require Import lib.AList gen.T_eos model.World model.Status model.Calc.
Import ListNotations.
Open Scope Z_scope.

(* an affector candidate: item j, one of its running effects, one modifier of it
   (for warfare buffs: a modifier made from a buff template) *)
Record cand := mkCand { ca_item : nat; ca_eff : Z; ca_mod : modifier; ca_resist : option Z;
                        ca_buff_targets : option (list nat) }.   (* Some ships: fleet boost *)

Definition loaded (w : world) (i : nat) : bool :=
  match get_item w i with Some it => match i_loaded it with Some _ => true | None => false end | None => false end.

Definition item_solsys (w : world) (i : nat) : option nat :=
  match item_fit w i with Some f => fit_solsys w f | None => None end.

Definition same_solsys (w : world) (i j : nat) : bool :=
  match item_solsys w i, item_solsys w j with
  | Some a, Some b => Nat.eqb a b
  | _, _ => false
  end.

Definition type_of (w : world) (i : nat) : option itype :=
  match get_item w i with Some it => item_type w it | None => None end.

Definition has_group (w : world) (i : nat) (g : option Z) : bool :=
  match type_of w i, g with
  | Some t, Some x => match t_group t with Some y => Z.eqb x y | None => false end
  | _, _ => false
  end.

Definition requires_skill (w : world) (i : nat) (sk : option Z) : bool :=
  match type_of w i, sk with
  | Some t, Some x => al_mem zeqb (t_skills t) x
  | _, _ => false
  end.

Definition item_domain (w : world) (i : nat) : option Z :=
  match get_item w i with Some it => cr_domain (class_row_of (i_cls it)) | None => None end.
Definition owner_modifiable (w : world) (i : nat) : bool :=
  match get_item w i with Some it => cr_owner_modifiable (class_row_of (i_cls it)) | None => false end.

Definition skill_of (w : world) (c : cand) : option Z :=
  match m_extra (ca_mod c) with
  | Some x => if Z.eqb x EosTypeId_current_self
              then match get_item w (ca_item c) with Some it => Some (i_tid it) | None => None end
              else Some x
  | None => None
  end.

(* does a location/owner filter with resolved domain [dom] select item i on fit f? *)
Definition filter_selects (w : world) (c : cand) (dom : Z) (f : nat) (i : nat) : bool :=
  let m := ca_mod c in
  onat_eqb (item_fit w i) (Some f) &&
  (if Z.eqb (m_filter m) ModAffecteeFilter_domain then oz_eqb (item_domain w i) (Some dom)
   else if Z.eqb (m_filter m) ModAffecteeFilter_domain_group
        then oz_eqb (item_domain w i) (Some dom) && has_group w i (m_extra m)
   else if Z.eqb (m_filter m) ModAffecteeFilter_domain_skillrq
        then oz_eqb (item_domain w i) (Some dom) && requires_skill w i (skill_of w c)
   else if Z.eqb (m_filter m) ModAffecteeFilter_owner_skillrq
        then owner_modifiable w i && requires_skill w i (skill_of w c)
   else false).

Definition fit_ship_of (w : world) (f : nat) : option nat :=
  match get_fit w f with Some ft => f_ship ft | None => None end.

(* the affectee-selection rule: does candidate c modify item i ? *)
Definition selects (w : world) (c : cand) (i : nat) : bool :=
  let j := ca_item c in
  let m := ca_mod c in
  loaded w i && loaded w j &&
  match ca_buff_targets c with
  | Some ships =>
    (* fleet boost: the ships given, and items aboard them *)
    existsb (fun t =>
               loaded w t && same_solsys w t j &&
               (if Z.eqb (m_filter m) ModAffecteeFilter_item then Nat.eqb i t
                else match item_fit w t with
                     | Some f => is_ship w t && filter_selects w c ModDomain_ship f i
                     | None => false end)) ships
  | None =>
    if Z.eqb (m_domain m) ModDomain_target then
      (* projected onto the current target of a targetable item *)
      match get_item w j with
      | None => false
      | Some jt =>
        match i_target jt, item_effect w jt (ca_eff c) with
        | Some t, Some ef =>
          Z.eqb (e_cat ef) EffectCategoryId_target && cr_targetable (class_row_of (i_cls jt))
          && loaded w t && same_solsys w t j &&
          (if Z.eqb (m_filter m) ModAffecteeFilter_item then Nat.eqb i t
           else match item_fit w t with
                | Some f => is_ship w t && filter_selects w c ModDomain_ship f i
                | None => false end)
        | _, _ => false
        end
      end
    else
      (* local *)
      match item_fit w j with
      | None => false
      | Some f =>
        if Z.eqb (m_filter m) ModAffecteeFilter_item then
          if Z.eqb (m_domain m) ModDomain_self then Nat.eqb i j
          else if Z.eqb (m_domain m) ModDomain_character
               then onat_eqb (match get_fit w f with Some ft => f_character ft | None => None end) (Some i)
          else if Z.eqb (m_domain m) ModDomain_ship
               then onat_eqb (fit_ship_of w f) (Some i)
          else if Z.eqb (m_domain m) ModDomain_other
               then match get_item w j with Some jt => mem neqb (item_others jt) i | None => false end
          else false
        else
          match (if Z.eqb (m_domain m) ModDomain_self
                 then (if is_ship w j then Some ModDomain_ship
                       else if is_character w j then Some ModDomain_character else None)
                 else if Z.eqb (m_domain m) ModDomain_character || Z.eqb (m_domain m) ModDomain_ship
                      then Some (m_domain m) else None) with
          | Some dom => filter_selects w c dom f i
          | None => false
          end
      end
  end.

(* ------------------------------------------------------------------ *)
(* candidates: every running effect of every item in the solar system   *)

Definition solsys_items (w : world) (s : nat) : list nat :=
  match get_ss w s with
  | Some x => flat_map (fun f => match get_fit w f with
                                 | Some ft => fit_items w ft false
                                 | None => [] end) (ss_fits x)
  | None => []
  end.

(* one gathered modification, as in Calc *)
Definition spec_combine := combine_mods.
Definition q_int (q : Q) : option Z :=
  let r := Qred q in if Pos.eqb (Qden r) 1 then Some (Qnum r) else None.

Section Value.
  Variable pen : list Q.

  (* the ships a fleet boost of item j reaches: own fit's ship and the ships of
     the fits of the same fleet in the same solar system *)
  Definition boost_ships (w : world) (j : nat) : list nat :=
    match item_fit w j, item_solsys w j with
    | Some f, Some s =>
      match get_ss w s with
      | Some x =>
        flat_map (fun tf =>
                    let same_fleet := match get_fit w f, get_fit w tf with
                                      | Some a, Some b => match f_fleet a with
                                                          | Some fl => onat_eqb (f_fleet b) (Some fl)
                                                          | None => false end
                                      | _, _ => false end in
                    if Nat.eqb tf f || same_fleet
                    then match fit_ship_of w tf with Some sh => [sh] | None => [] end
                    else []) (ss_fits x)
      | None => []
      end
    | _, _ => []
    end.

  (* memo table: values already determined, keyed by (item, attribute) *)
  Definition memo := list ((nat * Z) * option Q).
  Definition mkey_eqb (x y : nat * Z) : bool := Nat.eqb (fst x) (fst y) && Z.eqb (snd x) (snd y).

  Fixpoint spec_val (fuel : nat) (w : world) (mm : memo) (i : nat) (a : Z) {struct fuel} : memo * option Q :=
    match fuel with
    | O => (mm, None)
    | S fuel =>
      match al_get mkey_eqb mm (i, a) with
      | Some v => (mm, v)
      | None =>
      let ret (mm : memo) (v : option Q) := (al_set mkey_eqb mm (i, a) v, v) in
      match get_item w i with
      | None => ret mm None
      | Some it =>
        match override_value it a with
        | Some v => ret mm (Some v)
        | None =>
          match item_fit w i, i_loaded it with
          | Some f, Some _ =>
            match fit_universe w f, fit_solsys w f with
            | Some u, Some s =>
              match get_attr_meta u a with
              | None => ret mm None
              | Some meta =>
                match (match al_get zeqb (item_type_attrs w it) a with
                       | Some v => Some v | None => am_default meta end) with
                | None => ret mm None
                | Some base =>
                  (* candidates of one item j targeting attribute a *)
                  let cands_of (acc : memo * list cand) (j : nat) : memo * list cand :=
                      match get_item w j with
                      | None => acc
                      | Some jt =>
                        fold_left
                          (fun (acc : memo * list cand) e =>
                             match item_effect w jt e with
                             | None => acc
                             | Some ef =>
                               let (mm, l) := acc in
                               let l := l ++ filter (fun c => Z.eqb (m_tgt_attr (ca_mod c)) a)
                                                    (map (fun m => mkCand j e m (e_resist_attr ef) None) (e_mods ef)) in
                               if e_buff ef then
                                 fold_left
                                   (fun (acc : memo * list cand) (ba : Z * Z) =>
                                      let (mm, l) := acc in
                                      let (mm, obq) := spec_val fuel w mm j (fst ba) in
                                      match obq with
                                      | None => (mm, l)
                                      | Some bq =>
                                        match q_int bq with
                                        | None => (mm, l)
                                        | Some bid =>
                                          (mm, l ++ filter (fun c => Z.eqb (m_tgt_attr (ca_mod c)) a)
                                                 (map (fun (t : buff_template) =>
                                                         mkCand j e (mkMod (b_filter t) (b_extra t) ModDomain_target
                                                                           (b_tgt_attr t) (b_op t) (b_aggmode t)
                                                                           (Some bid) (snd ba) 0)
                                                                (e_resist_attr ef) (Some (boost_ships w j)))
                                                      (match al_get zeqb (u_buffs u) bid with Some x => x | None => [] end)))
                                        end
                                      end) WARFARE_BUFF_ATTRS (mm, l)
                               else (mm, l)
                             end) (i_running jt) acc
                      end in
                  let (mm, cands) := fold_left cands_of (solsys_items w s) (mm, []) in
                  let (mm, mods) :=
                      fold_left
                        (fun (acc : memo * list gmod) c =>
                           let (mm, mods) := acc in
                           if negb (selects w c i) then (mm, mods)
                           else
                             (* operator and value of the modification: read from the source attribute (dogma)
                                or computed (python modifiers of eve_obj/custom) *)
                             let (mm, omod) :=
                                 if Z.eqb (m_py (ca_mod c)) 0 then
                                   let (mm, ov) := spec_val fuel w mm (ca_item c) (m_src_attr (ca_mod c)) in
                                   (mm, match ov with Some v => Some (m_op (ca_mod c), v) | None => None end)
                                 else if Z.eqb (m_py (ca_mod c)) 1 then
                                   match (match item_fit w (ca_item c) with
                                          | Some pf => match get_fit w pf with Some ft => f_ship ft | None => None end
                                          | None => None end) with
                                   | None => (mm, None)
                                   | Some ship =>
                                     let (mm, om) := spec_val fuel w mm ship AttrId_mass in
                                     let (mm, osf) := spec_val fuel w mm (ca_item c) AttrId_speed_factor in
                                     let (mm, oth) := spec_val fuel w mm (ca_item c) AttrId_speed_boost_factor in
                                     match om, osf, oth with
                                     | Some mass, Some sf, Some th =>
                                       if Qeq_bool mass 0 then (mm, None)
                                       else (mm, Some (ModOperator_post_mul, Qred (1 + sf * th / mass / 100)%Q))
                                     | _, _, _ => (mm, None)
                                     end
                                   end
                                 else if Z.eqb (m_py (ca_mod c)) 2 then
                                   match get_item w (ca_item c) with
                                   | None => (mm, None)
                                   | Some ai =>
                                     let paste := match i_charge ai with
                                                  | Some ch => match get_item w ch with
                                                               | Some ci => Z.eqb (i_tid ci) TypeId_nanite_repair_paste
                                                               | None => false end
                                                  | None => false end in
                                     if paste then
                                       let (mm, ov) := spec_val fuel w mm (ca_item c) AttrId_charged_armor_dmg_mult in
                                       (mm, match ov with Some v => Some (ModOperator_post_mul_immune, v) | None => None end)
                                     else (mm, Some (ModOperator_post_mul_immune, 1%Q))
                                   end
                                 else (mm, None) in
                             match omod with
                             | None => (mm, mods)
                             | Some (mop, v) =>
                               let (mm, resist) :=
                                   match ca_resist c with
                                   | None => (mm, 1%Q)
                                   | Some ra =>
                                     match solsys_carrier w i with
                                     | CarOk (Some car) =>
                                       let (mm, orv) := spec_val fuel w mm car ra in
                                       (mm, match orv with Some r => r | None => 1%Q end)
                                     | _ => (mm, 1%Q)
                                     end
                                   end in
                               match al_get zeqb NORMALIZATION_MAP mop with
                               | None => (mm, mods)
                               | Some ne =>
                                 match normalize ne v with
                                 | None => (mm, mods)
                                 | Some nv =>
                                   let immune := match type_of w (ca_item c) with
                                                 | Some t => match t_category t with
                                                             | Some cat => mem zeqb PENALTY_IMMUNE_CATEGORY_IDS cat
                                                             | None => false end
                                                 | None => false end in
                                   let penal := negb (am_stackable meta) && negb immune
                                                && mem zeqb PENALIZABLE_OPERATORS mop in
                                   (mm, mods ++ [mkGmod mop (Qred (nv * resist)%Q) penal
                                                        (m_aggmode (ca_mod c)) (m_aggkey (ca_mod c))])
                                 end
                               end
                             end) cands (mm, []) in
                  let value := Qred (spec_combine pen (am_hig meta) base mods) in
                  let (mm, value) :=
                      match am_max meta with
                      | None => (mm, value)
                      | Some ma => let (mm, omv) := spec_val fuel w mm i ma in
                                   (mm, match omv with Some mv => Qmin' value mv | None => value end)
                      end in
                  ret mm (Some (if mem zeqb LIMITED_PRECISION_ATTR_IDS a then round2 value else value))
                end
              end
            | _, _ => ret mm None
            end
          | _, _ => ret mm None
          end
        end
      end
      end
    end.

  Definition spec_value (fuel : nat) (w : world) (i : nat) (a : Z) : option Q := snd (spec_val fuel w [] i a).
End Value.
