(* C04 model: eos/stats/** (StatService and its 14 registers), tanking.py,
   effect_stats/dmg_dealer.py, the damage-dealer and repair effect classes,
   Effect.get_cycle_parameters and cycle.py.

   Registers are folds over the publications of the engine's message
   discipline layer ([Ops.event]); they never publish and change nothing else.
   Every statistic is a function of (base world, attribute reader, registers);
   the attribute reader [av i a] stands for [item.attrs.get(a)].

   Per-effect data the engine's [effect] record lacks:
     - the effect class (EffectFactory._class_id_map): generated table
       T_stats.EFFECT_CLASS, keyed by effect id;
     - duration_attr_id: an explicit extra table [dur] passed by the driver. *)
From Coq Require Import ZArith QArith List Bool.
From EosV Require Import lib.AList gen.T_eos gen.T_stats model.World model.Status model.Calc model.Engine model.Ops.
Import ListNotations.
Open Scope Z_scope.
Open Scope Q_scope.

(* ------------------------------------------------------------------ *)
(* results with exceptions                                             *)

Inductive sexn := SXValue | SXKey | SXZeroDiv | SXAttr | SXType | SXUnsupported.

(* [Ex l]: the call raises; when several members of an aggregated set raise,
   Python's set order decides which one surfaces, so all candidates are kept *)
Inductive R (A : Type) := Ok (a : A) | Ex (l : list sexn).
Arguments Ok {A} a.
Arguments Ex {A} l.

Definition rbind {A B} (r : R A) (f : A -> R B) : R B :=
  match r with Ok a => f a | Ex l => Ex l end.
Definition rmap {A B} (f : A -> B) (r : R A) : R B :=
  match r with Ok a => Ok (f a) | Ex l => Ex l end.

Fixpoint rmap_all {X A} (f : X -> R A) (l : list X) : R (list A) :=
  match l with
  | [] => Ok []
  | x :: r =>
    match f x, rmap_all f r with
    | Ok a, Ok b => Ok (a :: b)
    | Ok _, Ex e => Ex e
    | Ex e, Ok _ => Ex e
    | Ex e1, Ex e2 => Ex (e1 ++ e2)
    end
  end.

(* ------------------------------------------------------------------ *)
(* stats containers (eos/stats_container)                               *)

Record prof := mkProf { p_em : Q; p_th : Q; p_ki : Q; p_ex : Q }.   (* DmgTypes *)
Record hp3 := mkHp { h_hull : Q; h_armor : Q; h_shield : Q }.       (* TankingLayers of numbers *)
Record res3 := mkRes3 { r_hull : prof; r_armor : prof; r_shield : prof }.

Definition qle (a b : Q) : bool := Qle_bool a b.
Definition qlt (a b : Q) : bool := negb (Qle_bool b a).
Definition qzero (a : Q) : bool := Qeq_bool a 0.

Definition prof0 : prof := mkProf 0 0 0 0.
Definition prof_add (a b : prof) : prof :=
  mkProf (p_em a + p_em b) (p_th a + p_th b) (p_ki a + p_ki b) (p_ex a + p_ex b).
Definition prof_scale (k : Q) (a : prof) : prof :=
  mkProf (p_em a * k) (p_th a * k) (p_ki a * k) (p_ex a * k).
Definition prof_total (a : prof) : Q := p_em a + p_th a + p_ki a + p_ex a.
Definition prof_sum (l : list prof) : prof := fold_left prof_add l prof0.
Definition prof_red (a : prof) : prof := mkProf (Qred (p_em a)) (Qred (p_th a)) (Qred (p_ki a)) (Qred (p_ex a)).

(* DmgStats.__init__: multiply, then the non-negativity test *)
Definition mk_dmg (em th ki ex : Q) (mult : option Q) : R prof :=
  let p := mkProf em th ki ex in
  let p := match mult with Some m => prof_scale m p | None => p end in
  if qle 0 (p_em p) && qle 0 (p_th p) && qle 0 (p_ki p) && qle 0 (p_ex p)
  then Ok (prof_red p) else Ex [SXValue].

(* ResistProfile.__init__ *)
Definition in01 (x : Q) : bool := qle 0 x && qle x 1.
Definition mk_resists (em th ki ex : Q) : R prof :=
  if in01 em && in01 th && in01 ki && in01 ex then Ok (mkProf em th ki ex) else Ex [SXValue].

(* DmgProfile.__init__ *)
Definition valid_dmg_profile (p : prof) : bool :=
  qle 0 (p_em p) && qle 0 (p_th p) && qle 0 (p_ki p) && qle 0 (p_ex p) && qlt 0 (prof_total p).

(* ItemHP.__init__ *)
Definition mk_hp (h a s : Q) : R hp3 :=
  if qle 0 h && qle 0 a && qle 0 s then Ok (mkHp (Qred h) (Qred a) (Qred s)) else Ex [SXValue].

(* DmgStats._combine *)
Definition apply_resists (s : prof) (r : prof) : prof :=
  mkProf (p_em s * (1 - p_em r)) (p_th s * (1 - p_th r)) (p_ki s * (1 - p_ki r)) (p_ex s * (1 - p_ex r)).
Definition combine (l : list prof) (tgt : option prof) : R prof :=
  let s := prof_sum l in
  let s := match tgt with Some r => apply_resists s r | None => s end in
  mk_dmg (p_em s) (p_th s) (p_ki s) (p_ex s) None.

(* ------------------------------------------------------------------ *)
(* cycles (eve_obj/effect/cycle.py, Effect.get_cycle_parameters)        *)

Inductive cyc := CyNone | CyFin (n : Z) | CyInf.   (* get_cycles_until_reload: None / number / math.inf *)

(* CycleInfo(active, inactive, quantity) / the only CycleSequence shape the
   code builds: (CycleInfo(a, i1, early), CycleInfo(a, i2, 1)) repeated
   [quantity] times. A quantity of None is math.inf. *)
Inductive cparams :=
| CInfo (act inact : Q) (n : option Z)
| CSeq (act inact_early : Q) (early : Z) (inact_final : Q) (n : option Z).

Definition average_time (c : cparams) : Q :=
  match c with
  | CInfo a i _ => a + i
  | CSeq a i1 early i2 _ =>
    (((a + i1) * inject_Z early) + ((a + i2) * 1)) / (inject_Z early + 1)
  end.

Definition cycle_params (cy : cyc) (act forced : Q) (rt : option Q) (reload : bool) : option cparams :=
  match cy with
  | CyNone => None
  | CyInf => Some (CInfo act forced None)
  | CyFin n =>
    if (n <=? 0)%Z then None
    else
      match rt with
      | None =>
        if (n - 1 =? 0)%Z then Some (CInfo act 0 (Some 1%Z))
        else if qzero forced then Some (CInfo act 0 (Some n))
        else Some (CSeq act forced (n - 1)%Z 0 (Some 1%Z))
      | Some r =>
        if negb reload || qle r forced then Some (CInfo act forced None)
        else if (n - 1 =? 0)%Z then Some (CInfo act r None)
        else Some (CSeq act forced (n - 1)%Z r None)
      end
  end.

(* util/float.py float_to_int: int(round(value, 7)) *)
Definition float_to_int (v : Q) : Z := Z.quot (round_half_even (v * 10000000)) 10000000%Z.

Definition is_module (c : icls) : bool :=
  match c with CModHigh | CModMid | CModLow => true | _ => false end.

Definition oq0 (o : option Q) : Q := match o with Some v => v | None => 0 end.
Definition ms (o : option Q) : option Q := match o with Some v => Some (v / 1000) | None => None end.

Section Item.
  Variable av : nat -> Z -> option Q.      (* item.attrs.get(attr) *)
  Variable w : world.
  Variable dur : list (Z * option Z).       (* effect id -> duration_attr_id *)

  Definition eclass_of (e : Z) : option eclass := al_get zeqb EFFECT_CLASS e.
  Definition ekind_of (e : Z) : option ekind :=
    match eclass_of e with Some c => Some (class_kind c) | None => None end.
  Definition is_kind (k : ekind) (e : Z) : bool :=
    match ekind_of e with Some k' => ekind_eqb k k' | None => false end.

  Definition has_type_attr (it : item) (a : Z) : bool := al_mem zeqb (item_type_attrs w it) a.

  (* Module.charge_quantity; other classes have no charge (getattr(item, 'charge_quantity', None)) *)
  Definition charge_quantity (i : nat) (it : item) : R (option Z) :=
    if negb (is_module (i_cls it)) then Ok None
    else
      match i_charge it with
      | None => Ok None
      | Some c =>
        let cap := av i AttrId_capacity in
        let vol := av c AttrId_volume in
        match cap, vol with
        | Some cap, Some vol => if qzero vol then Ex [SXZeroDiv] else Ok (Some (float_to_int (cap / vol)))
        | _, _ => Ok None
        end
      end.

  (* helper_func.get_cycles_until_reload_generic *)
  Definition cycles_generic (i : nat) (it : item) (dflt : cyc) : R cyc :=
    rbind (charge_quantity i it) (fun cq =>
      match cq with
      | None => Ok dflt
      | Some n =>
        match av i AttrId_charge_rate with
        | None => Ok dflt
        | Some r =>
          if qzero r then Ok dflt
          else
            let ri := q_trunc r in
            if (ri =? 0)%Z then Ex [SXZeroDiv]
            else let c := (n / ri)%Z in if (c =? 0)%Z then Ok dflt else Ok (CyFin c)
        end
      end).

  (* helper_func.get_cycles_until_reload_crystal *)
  Definition cycles_crystal (i : nat) (it : item) : R cyc :=
    rbind (charge_quantity i it) (fun cq =>
      match cq with
      | None => Ok CyNone
      | Some n =>
        if (n =? 0)%Z then Ok CyNone
        else
          match i_charge it with
          | None => Ex [SXAttr]
          | Some c =>
            match av c AttrId_crystals_get_damaged with
            | None => Ok CyInf
            | Some g =>
              if qzero g then Ok CyInf
              else
                match av c AttrId_hp with
                | None => Ok CyNone
                | Some hp =>
                  match av c AttrId_crystal_volatility_chance with
                  | None => Ok CyNone
                  | Some chance =>
                    match av c AttrId_crystal_volatility_dmg with
                    | None => Ok CyNone
                    | Some dmg =>
                      if qle hp 0 then Ok CyNone
                      else if qle chance 0 || qle dmg 0 then Ok CyInf
                      else
                        let cycles := (float_to_int (hp / dmg / chance) * n)%Z in
                        if (cycles =? 0)%Z then Ok CyNone else Ok (CyFin cycles)
                    end
                  end
                end
            end
          end
      end).

  Definition dmg_attr_ids : list Z := [AttrId_em_dmg; AttrId_therm_dmg; AttrId_kin_dmg; AttrId_expl_dmg].
  Definition has_dmg_attrs (i : nat) : bool :=
    match get_item w i with
    | Some it => existsb (has_type_attr it) dmg_attr_ids
    | None => false
    end.

  (* Effect.get_charge for the effect classes that define autocharges
     (TargetAttack: type attribute ammo_loaded) and for the others *)
  Definition regular_charge (it : item) : option nat :=
    if is_module (i_cls it) then i_charge it else None.
  Definition ta_charge (e : Z) (it : item) : option nat :=
    if has_type_attr it AttrId_ammo_loaded then al_get zeqb (i_autos it) e else regular_charge it.

  (* TargetAttack._get_base_dmg_item *)
  Definition ta_base (e : Z) (i : nat) (it : item) : option nat :=
    match ta_charge e it with
    | Some c => if has_dmg_attrs c then Some c
                else if has_dmg_attrs i then Some i else None
    | None => if has_dmg_attrs i then Some i else None
    end.

  (* TargetAttack.get_cycles_until_reload *)
  Definition ta_cycles (e : Z) (i : nat) (it : item) : R cyc :=
    match ta_base e i it with
    | None => Ok CyNone
    | Some b =>
      match regular_charge it with
      | Some c => if Nat.eqb c b then cycles_crystal i it else Ok CyInf
      | None => Ok CyInf
      end
    end.

  Definition cycles_until_reload (c : eclass) (e : Z) (i : nat) (it : item) : R cyc :=
    match class_cycles c with
    | CmInf => Ok CyInf
    | CmGeneric => cycles_generic i it CyNone
    | CmGenericInf => cycles_generic i it CyInf
    | CmCrystal => ta_cycles e i it
    | CmUnsupported => Ex [SXUnsupported]
    end.

  (* the item whose em/therm/kin/expl attributes are the base damage *)
  Definition volley_of (src : nat) (mult : option Q) : R prof :=
    let em := oq0 (av src AttrId_em_dmg) in
    let th := oq0 (av src AttrId_therm_dmg) in
    let ki := oq0 (av src AttrId_kin_dmg) in
    let ex := oq0 (av src AttrId_expl_dmg) in
    mk_dmg em th ki ex mult.

  Definition cyc_falsy (c : cyc) : bool :=
    match c with CyNone => true | CyFin n => (n =? 0)%Z | CyInf => false end.

  (* TurretDmgEffect.get_volley *)
  Definition turret_volley (c : eclass) (e : Z) (i : nat) (it : item) (base : option nat) : R prof :=
    rbind (cycles_until_reload c e i it) (fun cy =>
      if cyc_falsy cy then Ok prof0
      else match base with
           | None => Ok prof0
           | Some b =>
             (* DmgStats(em, therm, kin, expl, mult): multiplies, then validates *)
             let em := oq0 (av b AttrId_em_dmg) in
             let th := oq0 (av b AttrId_therm_dmg) in
             let ki := oq0 (av b AttrId_kin_dmg) in
             let ex := oq0 (av b AttrId_expl_dmg) in
             mk_dmg em th ki ex (av i AttrId_dmg_mult)
           end).

  Definition missile_effect_ids : list Z :=
    [EffectId_missile_launching; EffectId_fof_missile_launching; EffectId_bomb_launching].

  (* <class>.get_volley *)
  Definition effect_volley (c : eclass) (e : Z) (i : nat) (it : item) : R prof :=
    match class_volley c with
    | VmTurretTA => turret_volley c e i it (ta_base e i it)
    | VmTurretCharge => turret_volley c e i it (regular_charge it)
    | VmTurretSpool =>
      rbind (turret_volley c e i it (regular_charge it)) (fun v =>
        match av i AttrId_dmg_mult_bonus_max with
        | None => Ok v
        | Some s => mk_dmg (p_em v) (p_th v) (p_ki v) (p_ex v) (Some (1 + s))
        end)
    | VmMissile =>
      rbind (cycles_until_reload c e i it) (fun cy =>
        if cyc_falsy cy then Ok prof0
        else
          match regular_charge it with
          | None => Ex [SXAttr]
          | Some ch =>
            match get_item w ch with
            | None => Ex [SXAttr]
            | Some cit =>
              match (match item_type w cit with Some t => t_default t | None => None end) with
              | None => Ok prof0
              | Some de =>
                if mem zeqb (i_running cit) de && mem zeqb missile_effect_ids de
                then volley_of ch None else Ok prof0
              end
            end
          end)
    | VmSelf => volley_of i None
    | VmUnsupported | VmNone => Ex [SXUnsupported]
    end.

  Definition effect_duration (e : Z) (i : nat) : option Q :=
    match al_get zeqb dur e with
    | Some (Some a) => ms (av i a)
    | _ => None
    end.

  (* Effect.get_cycle_parameters *)
  Definition effect_cycle_params (c : eclass) (e : Z) (i : nat) (it : item) (reload : bool) : R (option cparams) :=
    rbind (cycles_until_reload c e i it) (fun cy =>
      match cy with
      | CyNone => Ok None
      | _ =>
        if (match cy with CyFin n => (n <=? 0)%Z | _ => false end) then Ok None
        else
          let act := oq0 (effect_duration e i) in
          let forced := oq0 (ms (av i AttrId_module_reactivation_delay)) in
          let rt := if is_module (i_cls it) then ms (av i AttrId_reload_time) else None in
          Ok (cycle_params cy act forced rt reload)
      end).

  Definition inv_avg (cp : cparams) : R Q :=
    let t := average_time cp in if qzero t then Ex [SXZeroDiv] else Ok (/ t).

  (* DmgDealerEffect.get_dps *)
  Definition effect_dps (c : eclass) (e : Z) (i : nat) (it : item) (reload : bool) : R prof :=
    rbind (effect_cycle_params c e i it reload) (fun ocp =>
      match ocp with
      | None => Ok prof0
      | Some cp =>
        rbind (effect_volley c e i it) (fun v =>
          rbind (inv_avg cp) (fun k => mk_dmg (p_em v) (p_th v) (p_ki v) (p_ex v) (Some k)))
      end).

  (* DmgDealerMixin.__dd_effect_iter: running damage dealers in type-effect
     (dict) order. No modelled class sets suppress_dds. *)
  Definition dd_effects (it : item) : list (Z * eclass) :=
    flat_map (fun ee : Z * effect =>
                match eclass_of (fst ee) with
                | Some c => if ekind_eqb (class_kind c) KDmgDealer && mem zeqb (i_running it) (fst ee)
                            then [(fst ee, c)] else []
                | None => []
                end) (item_effects w it).

  (* item.get_volley(tgt_resists) / item.get_dps(reload, tgt_resists) *)
  Definition item_volley (i : nat) (tgt : option prof) : R prof :=
    match get_item w i with
    | None => Ex [SXAttr]
    | Some it =>
      rbind (rmap_all (fun ec : Z * eclass => effect_volley (snd ec) (fst ec) i it) (dd_effects it))
            (fun l => combine l tgt)
    end.
  Definition item_dps (i : nat) (reload : bool) (tgt : option prof) : R prof :=
    match get_item w i with
    | None => Ex [SXAttr]
    | Some it =>
      rbind (rmap_all (fun ec : Z * eclass => effect_dps (snd ec) (fst ec) i it reload) (dd_effects it))
            (fun l => combine l tgt)
    end.

  (* BaseRepairEffect.get_rps *)
  Definition rep_amount (c : eclass) (i : nat) : R Q :=
    match class_rep c with
    | RmArmor => Ok (oq0 (av i AttrId_armor_dmg_amount))
    | RmShield => Ok (oq0 (av i AttrId_shield_bonus))
    | RmArmorSpool =>
      let amount := oq0 (av i AttrId_armor_dmg_amount) in
      Ok (match av i AttrId_repair_mult_bonus_max with
          | Some s => amount * (1 + s)
          | None => amount * 1
          end)
    | RmNone => Ex [SXUnsupported]
    end.
  Definition effect_rps (e : Z) (i : nat) (reload : bool) : R Q :=
    match eclass_of e, get_item w i with
    | Some c, Some it =>
      rbind (effect_cycle_params c e i it reload) (fun ocp =>
        match ocp with
        | None => Ok 0
        | Some cp =>
          rbind (rep_amount c i) (fun amount =>
            let t := average_time cp in
            if qzero t then Ex [SXZeroDiv] else Ok (amount / t))
        end)
    | _, _ => Ex [SXAttr]
    end.

  (* ---------------------------------------------------------------- *)
  (* tanking.py                                                        *)

  Definition item_hp (i : nat) : R hp3 :=
    let hull := oq0 (av i AttrId_hp) in
    let armor := oq0 (av i AttrId_armor_hp) in
    let shield := oq0 (av i AttrId_shield_capacity) in
    mk_hp hull armor shield.

  Definition resist_by (i : nat) (a : Z) : Q :=
    1 - (match av i a with Some v => v | None => 1 end).

  Definition item_resists (i : nat) : R res3 :=
    rbind (mk_resists (resist_by i AttrId_em_dmg_resonance) (resist_by i AttrId_therm_dmg_resonance)
                      (resist_by i AttrId_kin_dmg_resonance) (resist_by i AttrId_expl_dmg_resonance))
      (fun hull =>
    rbind (mk_resists (resist_by i AttrId_armor_em_dmg_resonance) (resist_by i AttrId_armor_therm_dmg_resonance)
                      (resist_by i AttrId_armor_kin_dmg_resonance) (resist_by i AttrId_armor_expl_dmg_resonance))
      (fun armor =>
    rbind (mk_resists (resist_by i AttrId_shield_em_dmg_resonance) (resist_by i AttrId_shield_therm_dmg_resonance)
                      (resist_by i AttrId_shield_kin_dmg_resonance) (resist_by i AttrId_shield_expl_dmg_resonance))
      (fun shield => Ok (mkRes3 hull armor shield)))).
End Item.

(* _get_tanking_efficiency *)
Definition dealt (p : prof) : Q := p_em p + p_th p + p_ki p + p_ex p.
Definition absorbed (p r : prof) : Q :=
  p_em p * p_em r + p_th p * p_th r + p_ki p * p_ki r + p_ex p * p_ex r.
Definition received (p r : prof) : Q := dealt p - absorbed p r.
Definition tanking_efficiency (p r : prof) : R Q :=
  if qzero (received p r) then Ex [SXZeroDiv] else Ok (dealt p / received p r).

(* __get_layer_ehp *)
Definition layer_ehp (hp : Q) (r p : prof) : R Q :=
  if qzero hp then Ok hp else rmap (fun m => hp * m) (tanking_efficiency p r).

Definition qmin4 (a b c d : Q) : Q := Qmin' (Qmin' (Qmin' a b) c) d.
(* __get_layer_worst_case_ehp *)
Definition layer_wc_ehp (hp : Q) (r : prof) : R Q :=
  if qzero hp then Ok hp
  else let m := qmin4 (p_em r) (p_th r) (p_ki r) (p_ex r) in
       if qzero (1 - m) then Ex [SXZeroDiv] else Ok (hp / (1 - m)).

Definition ehp_of (h : hp3) (r : res3) (p : prof) : R hp3 :=
  rbind (layer_ehp (h_hull h) (r_hull r) p) (fun hu =>
  rbind (layer_ehp (h_armor h) (r_armor r) p) (fun ar =>
  rbind (layer_ehp (h_shield h) (r_shield r) p) (fun sh => mk_hp hu ar sh))).
Definition wc_ehp_of (h : hp3) (r : res3) : R hp3 :=
  rbind (layer_wc_ehp (h_hull h) (r_hull r)) (fun hu =>
  rbind (layer_wc_ehp (h_armor h) (r_armor r)) (fun ar =>
  rbind (layer_wc_ehp (h_shield h) (r_shield r)) (fun sh => mk_hp hu ar sh))).

(* item.get_ehp(dmg_profile): [p] is the profile after the default lookup;
   None = no profile anywhere -> ItemHP(0, 0, 0). The code evaluates self.hp
   and self.resists per layer (hull first). *)
Definition item_ehp (av : nat -> Z -> option Q) (i : nat) (p : option prof) : R hp3 :=
  match p with
  | None => mk_hp 0 0 0
  | Some p =>
    rbind (item_hp av i) (fun h => rbind (item_resists av i) (fun r => ehp_of h r p))
  end.
Definition item_wc_ehp (av : nat -> Z -> option Q) (i : nat) : R hp3 :=
  rbind (item_hp av i) (fun h => rbind (item_resists av i) (fun r => wc_ehp_of h r)).

(* ------------------------------------------------------------------ *)
(* the 14 registers as folds over messages                             *)

Record fregs := mkFregs {
  g_dd : list (nat * Z);          (* DmgDealerRegister: KeyedStorage {item: {effect}} as a set of pairs *)
  g_arep : list (nat * Z);        (* ArmorRepairerRegister.__local_repairers *)
  g_srep : list (nat * Z);
  g_simple : list (regid * list nat);   (* the 11 item-set registers *)
  g_err : bool                    (* a handler raised (set.remove / dict[...] on an absent key) *)
}.

Definition pair_eqb (a b : nat * Z) : bool := Nat.eqb (fst a) (fst b) && Z.eqb (snd a) (snd b).
Definition empty_fregs : fregs := mkFregs [] [] [] [] false.

Definition g_get (g : fregs) (r : regid) : list nat :=
  match al_get regid_eqb (g_simple g) r with Some l => l | None => [] end.
Definition g_put (g : fregs) (r : regid) (l : list nat) : fregs :=
  mkFregs (g_dd g) (g_arep g) (g_srep g) (al_set regid_eqb (g_simple g) r l) (g_err g).

Definition msg_kind (m : msg) : option mkind :=
  match m with
  | MEffectsStarted _ _ => Some MkEffectsStarted
  | MEffectsStopped _ _ => Some MkEffectsStopped
  | MStatesActivated _ _ => Some MkStatesActivated
  | MStatesDeactivated _ _ => Some MkStatesDeactivated
  | MStatesActivatedLoaded _ _ => Some MkStatesActivatedLoaded
  | MStatesDeactivatedLoaded _ _ => Some MkStatesDeactivatedLoaded
  | MItemLoaded _ => Some MkItemLoaded
  | MItemUnloaded _ => Some MkItemUnloaded
  | _ => None
  end.
Definition msg_item (m : msg) : option nat :=
  match m with
  | MEffectsStarted i _ | MEffectsStopped i _ | MStatesActivated i _ | MStatesDeactivated i _
  | MStatesActivatedLoaded i _ | MStatesDeactivatedLoaded i _ | MItemLoaded i | MItemUnloaded i => Some i
  | _ => None
  end.
Definition msg_ids (m : msg) : list Z :=    (* msg.effect_ids / msg.states *)
  match m with
  | MEffectsStarted _ l | MEffectsStopped _ l | MStatesActivated _ l | MStatesDeactivated _ l
  | MStatesActivatedLoaded _ l | MStatesDeactivatedLoaded _ l => l
  | _ => []
  end.

Definition cls_test (t : clstest) (c : icls) : bool :=
  match t with
  | AnyClass => true
  | IsDrone => icls_eqb c CDrone
  | IsFighterSquad => icls_eqb c CFighter
  end.

(* one condition of a handler's `if` *)
Definition cond_holds (w : world) (it : item) (m : msg) (c : cond) : bool :=
  match c with
  | CondClass t => cls_test t (i_cls it)
  | CondIdIn x => mem zeqb (msg_ids m) x
  | CondTypeAttrIn a => al_mem zeqb (item_type_attrs w it) a
  | CondTypeAttrTruthy a =>
    match al_get zeqb (item_type_attrs w it) a with Some v => negb (qzero v) | None => false end
  end.

(* an item-set register: insert on [rd_on] when all conditions hold, discard on
   [rd_off] when all of its conditions hold *)
Definition simple_step (w : world) (d : regdesc) (m : msg) (s : list nat) : list nat :=
  match msg_kind m, msg_item m with
  | Some k, Some i =>
    match get_item w i with
    | None => s
    | Some it =>
      if mkind_eqb k (rd_on d) then
        if forallb (cond_holds w it m) (rd_on_conds d) then set_add neqb s i else s
      else if mkind_eqb k (rd_off d) then
        if forallb (cond_holds w it m) (rd_off_conds d) then set_rm neqb s i else s
      else s
    end
  | _, _ => s
  end.

(* an (item, effect) register keyed on the effect class *)
Definition pairs_step (w : world) (d : pairdesc) (m : msg) (s : list (nat * Z)) : list (nat * Z) * bool :=
  match msg_kind m, msg_item m with
  | Some k, Some i =>
    match get_item w i with
    | None => (s, false)
    | Some it =>
      let go (add : bool) :=
          fold_left (fun (acc : list (nat * Z) * bool) e =>
                       let (s, err) := acc in
                       match item_effect w it e with
                       | None => (s, true)                         (* item_effects[effect_id]: KeyError *)
                       | Some _ =>
                         if existsb (fun kd => match al_get zeqb EFFECT_CLASS e with
                                               | Some c => ekind_eqb (class_kind c) kd
                                               | None => false end) (pd_kinds d)
                         then if add then (set_add pair_eqb s (i, e), err)
                              else if pd_strict d && negb (mem pair_eqb s (i, e))
                                   then (s, true)                  (* set.remove: KeyError *)
                                   else (set_rm pair_eqb s (i, e), err)
                         else (s, err)
                       end) (msg_ids m) (s, false) in
      if mkind_eqb k (pd_on d) then go true
      else if mkind_eqb k (pd_off d) then go false
      else (s, false)
    end
  | _, _ => (s, false)
  end.

(* fit._publish(msg) as seen by the StatService of that fit *)
Definition reg_msg (w : world) (m : msg) (g : fregs) : fregs :=
  let '(dd, e1) := pairs_step w DD_DESC m (g_dd g) in
  let '(ar, e2) := pairs_step w AREP_DESC m (g_arep g) in
  let '(sr, e3) := pairs_step w SREP_DESC m (g_srep g) in
  let simple := map (fun rd : regid * regdesc => (fst rd, simple_step w (snd rd) m (g_get g (fst rd)))) SIMPLE_REGS in
  mkFregs dd ar sr simple (g_err g || e1 || e2 || e3).

Definition regs := list (nat * fregs).
Definition regs_get (rg : regs) (f : nat) : fregs :=
  match al_get neqb rg f with Some g => g | None => empty_fregs end.

Definition regs_apply_event (rg : regs) (ev : event) : regs :=
  match ev with
  | EvPublish w f msgs => al_set neqb rg f (fold_left (fun g m => reg_msg w m g) msgs (regs_get rg f))
  | EvClear _ => rg
  end.
Definition regs_apply_events (rg : regs) (evs : list event) : regs := fold_left regs_apply_event evs rg.

(* ------------------------------------------------------------------ *)
(* StatService                                                         *)

Inductive ifilter :=
| FAll                 (* item_filter=None *)
| FTurret | FMissile | FDrone | FSentry       (* eos.item_filter *)
| FTid (t : Z)         (* lambda item: item._type_id == t *)
| FNot (f : ifilter).

Fixpoint filter_holds (w : world) (flt : ifilter) (i : nat) : bool :=
  match flt with
  | FAll => true
  | FNot f => negb (filter_holds w f i)
  | FTurret => match get_item w i with Some it => mem zeqb (i_running it) EffectId_turret_fitted | None => false end
  | FMissile => match get_item w i with Some it => mem zeqb (i_running it) EffectId_launcher_fitted | None => false end
  | FDrone => match get_item w i with Some it => icls_eqb (i_cls it) CDrone | None => false end
  | FSentry =>
    match get_item w i with
    | Some it => icls_eqb (i_cls it) CDrone
                 && match item_type w it with
                    | Some t => al_mem zeqb (t_skills t) TypeId_sentry_drone_interfacing
                    | None => false end
    | None => false
    end
  | FTid t => match get_item w i with Some it => Z.eqb (i_tid it) t | None => false end
  end.

Inductive dparg := DDefault | DNone | DProf (p : prof).

Inductive rkind := RkCpu | RkPowergrid | RkCalibration | RkDronebay | RkDroneBandwidth.
Inductive skind := SkTurret | SkLauncher | SkLaunchedDrones | SkFighterSupport | SkFighterLight | SkFighterHeavy.
Inductive ckind := CkHigh | CkMid | CkLow | CkRig | CkSubsystem | CkFighters.

Definition rk_id (k : rkind) : regid :=
  match k with RkCpu => RegCpu | RkPowergrid => RegPowergrid | RkCalibration => RegCalibration
             | RkDronebay => RegDronebayVolume | RkDroneBandwidth => RegDroneBandwidth end.
Definition sk_id (k : skind) : regid :=
  match k with SkTurret => RegTurretSlot | SkLauncher => RegLauncherSlot | SkLaunchedDrones => RegLaunchedDrone
             | SkFighterSupport => RegFighterSquadSupport | SkFighterLight => RegFighterSquadLight
             | SkFighterHeavy => RegFighterSquadHeavy end.

Inductive sread :=
| SResUsed (f : nat) (k : rkind) | SResOutput (f : nat) (k : rkind)
| SSlotUsed (f : nat) (k : skind) | SSlotTotal (f : nat) (k : skind)
| SContSlots (f : nat) (k : ckind)
| SFitHp (f : nat) | SFitResists (f : nat) | SFitEhp (f : nat) (p : option prof) | SFitWcEhp (f : nat)
| SFitVolley (f : nat) (flt : ifilter) (tgt : option prof)
| SFitDps (f : nat) (flt : ifilter) (reload : bool) (tgt : option prof)
| SFitArmorRps (f : nat) (p : dparg) (reload : bool)
| SFitShieldRps (f : nat) (p : dparg) (reload : bool)
| SItemHp (i : nat) | SItemResists (i : nat) | SItemEhp (i : nat) (p : option prof) | SItemWcEhp (i : nat)
| SItemVolley (i : nat) (tgt : option prof) | SItemDps (i : nat) (reload : bool) (tgt : option prof).

Inductive sval :=
| VNum (q : Q) | VInt (z : Z) | VSlots (used total : Z) | VDmg (p : prof) | VHp (h : hp3) | VRes (r : res3).

(* sum(item.attrs[a] for item in users): KeyError when a value is missing *)
Definition sum_attr (av : nat -> Z -> option Q) (a : Z) (users : list nat) : R Q :=
  rmap (fun l => fold_left Qplus l 0)
       (rmap_all (fun i => match av i a with Some v => Ok v | None => Ex [SXKey] end) users).

(* try: <holder>.attrs[a] except (AttributeError, KeyError): 0 *)
Definition holder_attr (av : nat -> Z -> option Q) (holder : option nat) (a : Z) : Q :=
  match holder with
  | Some h => match av h a with Some v => v | None => 0 end
  | None => 0
  end.

Definition fit_holder (ft : fit) (h : holder) : option nat :=
  match h with HShip => f_ship ft | HCharacter => f_character ft end.

Definition len_z {A} (l : list A) : Z := Z.of_nat (length l).

Definition cont_len (ft : fit) (k : ckind) : Z :=
  match k with
  | CkHigh => len_z (f_high ft) | CkMid => len_z (f_mid ft) | CkLow => len_z (f_low ft)
  | CkRig => len_z (f_rigs ft) | CkSubsystem => len_z (f_subsystems ft) | CkFighters => len_z (f_fighters ft)
  end.
Definition cont_attr (k : ckind) : Z :=
  match k with
  | CkHigh => SLOT_ATTR_high | CkMid => SLOT_ATTR_mid | CkLow => SLOT_ATTR_low
  | CkRig => SLOT_ATTR_rig | CkSubsystem => SLOT_ATTR_subsystem | CkFighters => SLOT_ATTR_fighter
  end.

Definition dedup_items (l : list (nat * Z)) : list nat := dedup neqb (map fst l).

(* DmgDealerRegister.get_volley / get_dps *)
Definition fit_dmg (w : world) (g : fregs) (flt : ifilter) (per_item : nat -> R prof) : R prof :=
  rbind (rmap_all per_item (filter (filter_holds w flt) (dedup_items (g_dd g))))
        (fun l => combine l None).

(* Armor/ShieldRepairerRegister.get_rps(fit.ship, dmg_profile, reload) *)
Definition fit_rps (av : nat -> Z -> option Q) (w : world) (d : derived) (dur : list (Z * option Z))
           (f : nat) (ft : fit) (locals : list (nat * Z)) (remote : option ekind) (layer : res3 -> prof)
           (p : option prof) (reload : bool) : R Q :=
  (* no ship: nothing is repaired (the register returns 0 before looking at anything) *)
  match f_ship ft with
  | None => Ok 0
  | Some sh =>
    let ship := Some sh in
    (* local repairers whose _solsys_carrier is the ship *)
    let mine := filter (fun ie : nat * Z =>
                          match solsys_carrier w (fst ie) with
                          | CarOk c => onat_eqb c ship
                          | CarFail => true
                          end) locals in
    let local_one (ie : nat * Z) : R Q :=
        match solsys_carrier w (fst ie) with
        | CarFail => Ex [SXAttr]
        | CarOk _ => effect_rps av w dur (snd ie) (fst ie) reload
        end in
    rbind (rmap_all local_one mine) (fun ls =>
      (* projected remote repairers; a fit outside any solar system has none *)
      let projs := match fit_calc w d f with
                   | None => []
                   | Some (_, c) =>
                     filter (fun pr => match remote with Some k => is_kind k (pj_eff pr) | None => false end)
                            (ks_get onat_eqb (c_tgtp c) ship)
                   end in
      rbind (rmap_all (fun pr => effect_rps av w dur (pj_eff pr) (pj_item pr) reload) projs) (fun rs =>
        let rps := fold_left Qplus (ls ++ rs) 0 in
        match p with
        | None => Ok rps
        | Some p =>
          rbind (item_resists av sh) (fun r =>
            rmap (fun m => rps * m) (tanking_efficiency p (layer r)))
        end))
  end.

(* BufferTankingMixin: Ship, Drone, FighterSquad; EffectStatsMixin: Module, Drone, FighterSquad *)
Definition has_tanking (c : icls) : bool := match c with CShip | CDrone | CFighter => true | _ => false end.
Definition has_effect_stats (c : icls) : bool :=
  match c with CModHigh | CModMid | CModLow | CDrone | CFighter => true | _ => false end.

Definition default_profile : prof := mkProf 25 25 25 25.
Definition dprofs := list (nat * prof).           (* fit.default_incoming_dmg *)
Definition fit_default_dmg (dp : dprofs) (f : nat) : prof :=
  match al_get neqb dp f with Some p => p | None => default_profile end.

Definition resolve_dparg (dp : dprofs) (f : nat) (a : dparg) : option prof :=
  match a with DDefault => Some (fit_default_dmg dp f) | DNone => None | DProf p => Some p end.

Definition stat_read (av : nat -> Z -> option Q) (w : world) (d : derived) (dur : list (Z * option Z))
           (rg : regs) (dp : dprofs) (r : sread) : R sval :=
  let with_fit (f : nat) (k : fit -> fregs -> R sval) : R sval :=
      match get_fit w f with Some ft => k ft (regs_get rg f) | None => Ex [SXAttr] end in
  (* the getter exists only on classes with the mixin: AttributeError otherwise *)
  let with_cls (i : nat) (p : icls -> bool) (k : R sval) : R sval :=
      match get_item w i with
      | Some it => if p (i_cls it) then k else Ex [SXAttr]
      | None => Ex [SXAttr]
      end in
  match r with
  | SResUsed f k =>
    with_fit f (fun ft g =>
      match al_get regid_eqb SIMPLE_REGS (rk_id k) with
      | None => Ex [SXUnsupported]
      | Some rd =>
        match rd_use_attr rd with
        | None => Ex [SXUnsupported]
        | Some ua =>
          rmap (fun v => VNum (Qred (if rd_rounded rd then round2 (Qred v) else v)))
               (sum_attr av ua (g_get g (rk_id k)))
        end
      end)
  | SResOutput f k =>
    with_fit f (fun ft g =>
      match al_get regid_eqb SIMPLE_REGS (rk_id k) with
      | None => Ex [SXUnsupported]
      | Some rd => Ok (VNum (holder_attr av (fit_holder ft (rd_holder rd)) (rd_out_attr rd)))
      end)
  | SSlotUsed f k => with_fit f (fun ft g => Ok (VInt (len_z (g_get g (sk_id k)))))
  | SSlotTotal f k =>
    with_fit f (fun ft g =>
      match al_get regid_eqb SIMPLE_REGS (sk_id k) with
      | None => Ex [SXUnsupported]
      | Some rd => Ok (VInt (q_trunc (holder_attr av (fit_holder ft (rd_holder rd)) (rd_out_attr rd))))
      end)
  | SContSlots f k =>
    with_fit f (fun ft g => Ok (VSlots (cont_len ft k) (q_trunc (holder_attr av (f_ship ft) (cont_attr k)))))
  | SFitHp f =>
    with_fit f (fun ft g => match f_ship ft with
                            | Some sh => rmap VHp (item_hp av sh)
                            | None => rmap VHp (mk_hp 0 0 0) end)
  | SFitResists f =>
    with_fit f (fun ft g => match f_ship ft with
                            | Some sh => rmap VRes (item_resists av sh)
                            | None => Ok (VRes (mkRes3 prof0 prof0 prof0)) end)
  | SFitEhp f p =>
    with_fit f (fun ft g =>
      match f_ship ft with
      | Some sh => rmap VHp (item_ehp av sh (Some (match p with Some p => p | None => fit_default_dmg dp f end)))
      | None => rmap VHp (mk_hp 0 0 0)
      end)
  | SFitWcEhp f =>
    with_fit f (fun ft g => match f_ship ft with
                            | Some sh => rmap VHp (item_wc_ehp av sh)
                            | None => rmap VHp (mk_hp 0 0 0) end)
  | SFitVolley f flt tgt =>
    with_fit f (fun ft g => rmap VDmg (fit_dmg w g flt (fun i => item_volley av w i tgt)))
  | SFitDps f flt reload tgt =>
    with_fit f (fun ft g => rmap VDmg (fit_dmg w g flt (fun i => item_dps av w dur i reload tgt)))
  | SFitArmorRps f p reload =>
    with_fit f (fun ft g =>
      rmap (fun v => VNum (Qred v))
           (fit_rps av w d dur f ft (g_arep g) (pd_remote AREP_DESC) r_armor (resolve_dparg dp f p) reload))
  | SFitShieldRps f p reload =>
    with_fit f (fun ft g =>
      rmap (fun v => VNum (Qred v))
           (fit_rps av w d dur f ft (g_srep g) (pd_remote SREP_DESC) r_shield (resolve_dparg dp f p) reload))
  | SItemHp i => with_cls i has_tanking (rmap VHp (item_hp av i))
  | SItemResists i => with_cls i has_tanking (rmap VRes (item_resists av i))
  | SItemEhp i p =>
    with_cls i has_tanking
      (match p with
       | Some p => rmap VHp (item_ehp av i (Some p))
       | None =>
         match item_fit w i with
         | Some f => rmap VHp (item_ehp av i (Some (fit_default_dmg dp f)))
         | None => rmap VHp (mk_hp 0 0 0)         (* no fit: the profile is specified nowhere *)
         end
       end)
  | SItemWcEhp i => with_cls i has_tanking (rmap VHp (item_wc_ehp av i))
  | SItemVolley i tgt => with_cls i has_effect_stats (rmap VDmg (item_volley av w i tgt))
  | SItemDps i reload tgt => with_cls i has_effect_stats (rmap VDmg (item_dps av w dur i reload tgt))
  end.

(* ------------------------------------------------------------------ *)
(* the engine step extended with the registers                          *)

Record xsys := mkXsys { x_sys : sys; x_regs : regs; x_dp : dprofs }.

Inductive xop :=
| XEngine (o : op)
| XSetDefaultDmg (f : nat) (p : prof)   (* fit.default_incoming_dmg = DmgProfile(...) ; the message it
                                            publishes has no subscriber in the modelled fragment *)
| XStat (r : sread).

Inductive xres := XR (r : res) | XS (r : R sval).

(* attrs.get on the current system state; caching across the reads of one
   statistic is done by the driver (see ocaml/stats_driver.ml) *)
Definition snapshot_reader (x : sys) : nat -> Z -> option Q :=
  fun i a => snd (read_attr PF (s_w x) (s_d x) i a).

Definition xstep (dur : list (Z * option Z)) (x : xsys) (o : xop) : xsys * xres :=
  match o with
  | XEngine o =>
    let '(s', r, evs) := step_ev (x_sys x) o in
    let rg := regs_apply_events (x_regs x) evs in
    (mkXsys s' rg (x_dp x), XR r)
  | XSetDefaultDmg f p =>
    if valid_dmg_profile p then (mkXsys (x_sys x) (x_regs x) (al_set neqb (x_dp x) f p), XR ROk)
    else (x, XR (RExn XValue))
  | XStat r =>
    (x, XS (stat_read (snapshot_reader (x_sys x)) (s_w (x_sys x)) (s_d (x_sys x)) dur (x_regs x) (x_dp x) r))
  end.

Definition init_xsys (pen : list Q) : xsys := mkXsys (init_sys pen) [] [].
