(* C19 — executable, implementation-shaped model of

     ModBuilder().build(effect_row)            eve_obj_builder/mod_builder/builder.py
       ModInfoconverter.convert(mod_infos)     .../converter/mod_info.py
       DogmaModifier._valid                    eve_obj/modifier/{base,dogma}.py

   at the level of the decoded 'modifierInfo' value (a list of JSON values).
   Every table the code consults (handler map, per-handler keys, domain and
   operator maps, validator domain lists, enum members, the except clauses, the
   exit conditions and statuses of build) comes from gen/T_modinfo.v, which is
   regenerated from the source on every run.

   Python operations that can raise return [res]; which exceptions each `try`
   swallows is decided by the generated except-clause lists, so "the build is
   never aborted" is a theorem (proofs/ModInfo_p.v), not a modelling choice. *)
From Coq Require Import ZArith QArith Bool String List.
From EosV Require Import model.ModInfoTypes gen.T_modinfo.
Import ListNotations.
Local Open Scope Z_scope.

(* ---- exceptions ------------------------------------------------------- *)
Inductive exn : Type := KeyError | TypeError | ValueError | OverflowError.

Inductive res (A : Type) : Type :=
| Ok (a : A)
| Raise (e : exn).
Arguments Ok {A}. Arguments Raise {A}.

Definition bind {A B : Type} (r : res A) (f : A -> res B) : res B :=
  match r with Ok a => f a | Raise e => Raise e end.

(* the exception's class and its bases, by name *)
Definition exn_bases (e : exn) : list string :=
  match e with
  | KeyError => ["KeyError"; "LookupError"; "Exception"; "BaseException"]
  | TypeError => ["TypeError"; "Exception"; "BaseException"]
  | ValueError => ["ValueError"; "Exception"; "BaseException"]
  | OverflowError => ["OverflowError"; "ArithmeticError"; "Exception"; "BaseException"]
  end%string.

(* `except (C1, C2, ...)` catches e *)
Definition caught (clause : list string) (e : exn) : bool :=
  existsb (fun c => existsb (String.eqb c) (exn_bases e)) clause.

(* ---- dict / int() semantics -------------------------------------------- *)
(* mod_info[k] *)
Definition getitem (e : entry) (k : string) : res value :=
  match e with
  | ENotDict => Raise TypeError          (* str / int / None / list [k] *)
  | EDict kvs =>
    match assoc k kvs with Some v => Ok v | None => Raise KeyError end
  end.

(* keys of the literal dicts in the source *)
Inductive pykey : Type := KNone | KStr (s : string) | KInt (z : Z).

(* Python `key == v` (hash equality is implied for these types):
   a bool is an int, a float equals the int it is numerically equal to *)
Definition key_matches (k : pykey) (v : value) : bool :=
  match k, v with
  | KNone, VNone => true
  | KStr a, VStr b => String.eqb a b
  | KInt z, VInt y => Z.eqb z y
  | KInt z, VBool b => Z.eqb z (Z.b2z b)
  | KInt z, VFloat q => Qeq_bool q (inject_Z z)
  | _, _ => false
  end.

Fixpoint dict_find {A : Type} (m : list (pykey * A)) (v : value) : option A :=
  match m with
  | [] => None
  | (k, a) :: r => if key_matches k v then Some a else dict_find r v
  end.

(* m[v] *)
Definition dict_get {A : Type} (m : list (pykey * A)) (v : value) : res A :=
  match v with
  | VUnhashable => Raise TypeError
  | _ => match dict_find m v with Some a => Ok a | None => Raise KeyError end
  end.

(* int(v) *)
Definition py_int (v : value) : res Z :=
  match v with
  | VInt z => Ok z
  | VBool b => Ok (Z.b2z b)
  | VFloat q => Ok (Z.quot (Qnum q) (Zpos (Qden q)))     (* truncation *)
  | VNaN => Raise ValueError
  | VInf => Raise OverflowError
  | VStr s => match int_of_str s with Some z => Ok z | None => Raise ValueError end
  | VNone => Raise TypeError
  | VUnhashable => Raise TypeError
  end.

(* isinstance(v, numbers.Real) *)
Definition is_real (v : value) : bool :=
  match v with
  | VInt _ | VBool _ | VFloat _ | VNaN | VInf => true
  | _ => false
  end.

(* v == z for a Real v *)
Definition real_eq_int (v : value) (z : Z) : bool :=
  match v with
  | VInt y => Z.eqb y z
  | VBool b => Z.eqb (Z.b2z b) z
  | VFloat q => Qeq_bool q (inject_Z z)
  | _ => false
  end.

(* ModInfoconverter._get_int(mod_info, key)   [int_strict]
   or the bare  int(mod_info[key])            [otherwise] *)
Definition get_int (e : entry) (k : string) : res Z :=
  bind (getitem e k) (fun v =>
  bind (py_int v) (fun r =>
    if int_strict && is_real v && negb (real_eq_int v r)
    then Raise ValueError else Ok r)).

(* ---- the tables as Python dicts ---------------------------------------- *)
Record hdesc : Type := mkH {
  h_filter : Z; h_extra : option string; h_attr : string;
  h_affector : string; h_aggr : Z }.

Definition mk_hdesc (t : Z * option string * string * string * Z) : hdesc :=
  let '(f, x, a, s, g) := t in mkH f x a s g.

Definition handler_dict : list (pykey * hdesc) :=
  map (fun p => (KStr (fst p), mk_hdesc (snd p))) handler_map.

Definition domain_dict : list (pykey * Z) :=
  map (fun p => (match fst p with None => KNone | Some s => KStr s end, snd p))
      domain_map.

Definition operator_dict : list (pykey * Z) :=
  map (fun p => (KInt (fst p), snd p)) operator_map.

(* _get_domain / _get_operator *)
Definition get_domain (e : entry) : res Z :=
  bind (getitem e domain_key) (dict_get domain_dict).

Definition get_operator (e : entry) : res Z :=
  bind (getitem e operation_key) (dict_get operator_dict).

(* one _handle_*_mod: keyword arguments are evaluated in source order; every
   exception raised here is an Exception and is counted by the caller *)
Definition run_handler (h : hdesc) (e : entry) : res modifier :=
  bind (get_domain e) (fun d =>
  bind (match h_extra h with
        | None => Ok None
        | Some k => bind (get_int e k) (fun z => Ok (Some z))
        end) (fun x =>
  bind (get_int e (h_attr h)) (fun a =>
  bind (get_operator e) (fun o =>
  bind (get_int e (h_affector h)) (fun s =>
  Ok (mkMod (h_filter h) x d a o (h_aggr h) None s)))))).

(* ---- ModInfoconverter.convert ------------------------------------------ *)
Inductive step : Type :=
| SMod (m : modifier)       (* mods.append(mod) *)
| SFail                     (* fails += 1 *)
| SEscape (x : exn).        (* exception leaves convert() *)

Definition convert_one (e : entry) : step :=
  match getitem e func_key with
  | Raise x => if caught catch_func x then SFail else SEscape x
  | Ok f =>
    match dict_get handler_dict f with
    | Raise x => if caught catch_lookup x then SFail else SEscape x
    | Ok h =>
      match run_handler h e with
      | Raise x => if caught catch_handler x then SFail else SEscape x
      | Ok m => SMod m
      end
    end
  end.

Inductive outcome (A : Type) : Type :=
| Done (a : A)
| Escaped (x : exn).
Arguments Done {A}. Arguments Escaped {A}.

Fixpoint convert (infos : list entry) : outcome (list modifier * nat) :=
  match infos with
  | [] => Done ([], O)
  | e :: r =>
    match convert_one e with
    | SEscape x => Escaped x
    | SFail =>
      match convert r with
      | Done (ms, f) => Done (ms, S f)
      | Escaped x => Escaped x
      end
    | SMod m =>
      match convert r with
      | Done (ms, f) => Done (m :: ms, f)
      | Escaped x => Escaped x
      end
    end
  end.

(* ---- validation --------------------------------------------------------- *)
Definition enum_values (m : list (string * Z)) : list Z := map snd m.
Definition memZ (z : Z) (l : list Z) : bool := existsb (Z.eqb z) l.

Fixpoint assocZ {A : Type} (k : Z) (l : list (Z * A)) : option A :=
  match l with
  | [] => None
  | (k', a) :: r => if Z.eqb k k' then Some a else assocZ k r
  end.

Definition is_some {A : Type} (o : option A) : bool :=
  match o with Some _ => true | None => false end.

(* BaseModifier.__validate_common; the id fields hold results of int(), so the
   isinstance(..., Integral) conjuncts are true *)
Definition validate_common (m : modifier) : bool :=
  memZ (m_filter m) (enum_values ModAffecteeFilter_members)
  && memZ (m_domain m) (enum_values ModDomain_members)
  && true.

(* BaseModifier._validate_base *)
Definition validate_base (m : modifier) : bool :=
  match assocZ (m_filter m) validators with
  | None => false
  | Some (integral, doms) =>
    validate_common m
    && ((if integral then is_some (m_extra m) else negb (is_some (m_extra m)))
        && memZ (m_domain m) doms)
  end.

(* DogmaModifier._valid *)
Definition valid (m : modifier) : bool :=
  validate_base m
  && memZ (m_operator m) (enum_values ModOperator_members)
  && memZ (m_aggr_mode m) (enum_values ModAggregateMode_members)
  && (if Z.eqb (m_aggr_mode m) ModAggregateMode_stack
      then negb (is_some (m_aggr_key m)) else is_some (m_aggr_key m))
  && true.

(* ModBuilder.__get_valid_mods *)
Fixpoint get_valid_mods (mods : list modifier) : list modifier * nat :=
  match mods with
  | [] => ([], O)
  | m :: r =>
    let '(vm, vf) := get_valid_mods r in
    if valid m then (m :: vm, vf) else (vm, S vf)
  end.

(* ---- ModBuilder.build ---------------------------------------------------- *)
Inductive built : Type :=
| Built (mods : list modifier) (status : Z)
| BuildEscaped (x : exn).

Definition build (infos : list entry) : built :=
  match infos with
  | [] => Built [] status_no_info                      (* `if mod_info:` is false *)
  | _ =>
    match convert infos with
    | Escaped x => BuildEscaped x
    | Done (mods, fails) =>
      let '(vm, vf) := get_valid_mods mods in
      if cond_all_ok fails vf (length vm)
      then Built (if returns_mods_all_ok then vm else []) status_all_ok
      else if cond_some_valid fails vf (length vm)
      then Built (if returns_mods_some_valid then vm else []) status_some_valid
      else Built (if returns_mods_none_valid then vm else []) status_none_valid
    end
  end.
