(* C03 — restriction service (eos/restriction/service.py), the 34 restriction
   classes it registers (restriction/*.py, slot_quantity/*.py) and the eleven
   stat registers they read (stats/register/resource, stats/register/slot;
   stats/service.py slot counters).

   Registers subscribe to messages on their fit, never publish and never
   change anything else, so each one is a fold over the engine's publications
   ([Ops.event]).  Every Python container of a register (set, dict keyed by
   item, KeyedStorage {key: {items}}) is kept as the list of its
   (item, payload) entries with the container's own add/remove discipline
   ([rkind]).  Attribute values are read through an abstract reader
   [rd : D -> item -> attr -> D * option Q] (instantiated with
   [Calc.read_attr] for execution).  Implementation-shaped: the model follows
   the handlers and validate() bodies, not the documentation. *)
From Coq Require Import ZArith QArith List Bool.
From EosV Require Import lib.AList gen.T_eos model.World model.Status model.Calc model.Engine model.Ops.
Import ListNotations.
Open Scope Z_scope.

(* ------------------------------------------------------------------ *)
(* what a handler may look at: the item's class and its type object    *)

Definition static := (icls * option itype)%type.
Definition istatic (w : world) (x : nat) : option static :=
  match get_item w x with Some it => Some (i_cls it, item_type w it) | None => None end.

Definition s_attrs (s : static) : list (Z * Q) :=
  match snd s with Some t => t_attrs t | None => [] end.          (* item._type_attrs *)
Definition s_attr (s : static) (a : Z) : option Q := al_get zeqb (s_attrs s) a.
Definition s_has (s : static) (a : Z) : bool := al_mem zeqb (s_attrs s) a.
Definition s_group (s : static) : option Z :=
  match snd s with Some t => t_group t | None => None end.
Definition s_skills (s : static) : list (Z * Z) :=
  match snd s with Some t => t_skills t | None => [] end.

Definition is_module (c : icls) : bool :=
  match c with CModHigh | CModMid | CModLow => true | _ => false end.
Definition is_charge_cls (c : icls) : bool :=
  match c with CCharge | CAutocharge => true | _ => false end.
Definition q_truthy (q : Q) : bool := negb (Qeq_bool q 0).
Definition q_struct_eqb (a b : Q) : bool := Z.eqb (Qnum a) (Qnum b) && Pos.eqb (Qden a) (Qden b).

(* set() of the attribute values that exist, in attribute order *)
Definition attr_values (s : static) (ids : list Z) : list Q :=
  dedup qeqb (flat_map (fun a => opt_list (s_attr s a)) ids).

(* ------------------------------------------------------------------ *)
(* constants of the restriction modules (tied to the source by the
   obligations over gen/T_restr.v in proofs/Restrictions_p.v)          *)

Definition MAX_SUBCAP_VOLUME : Q := 3500 # 1.
Definition CHARGE_GROUP_ATTRS : list Z :=
  [AttrId_charge_group_1; AttrId_charge_group_2; AttrId_charge_group_3; AttrId_charge_group_4; AttrId_charge_group_5].
Definition DRONE_GROUP_ATTRS : list Z := [AttrId_allowed_drone_group_1; AttrId_allowed_drone_group_2].
Definition SHIP_TYPE_ATTRS : list Z :=
  [AttrId_can_fit_ship_type_1; AttrId_can_fit_ship_type_2; AttrId_can_fit_ship_type_3; AttrId_can_fit_ship_type_4;
   AttrId_can_fit_ship_type_5; AttrId_can_fit_ship_type_6; AttrId_can_fit_ship_type_7; AttrId_can_fit_ship_type_8;
   AttrId_can_fit_ship_type_9; AttrId_can_fit_ship_type_10; AttrId_fits_to_shiptype].
Definition SHIP_GROUP_ATTRS : list Z :=
  [AttrId_can_fit_ship_group_1; AttrId_can_fit_ship_group_2; AttrId_can_fit_ship_group_3; AttrId_can_fit_ship_group_4;
   AttrId_can_fit_ship_group_5; AttrId_can_fit_ship_group_6; AttrId_can_fit_ship_group_7; AttrId_can_fit_ship_group_8;
   AttrId_can_fit_ship_group_9; AttrId_can_fit_ship_group_10; AttrId_can_fit_ship_group_11; AttrId_can_fit_ship_group_12;
   AttrId_can_fit_ship_group_13; AttrId_can_fit_ship_group_14; AttrId_can_fit_ship_group_15; AttrId_can_fit_ship_group_16;
   AttrId_can_fit_ship_group_17; AttrId_can_fit_ship_group_18; AttrId_can_fit_ship_group_19; AttrId_can_fit_ship_group_20].

(* ------------------------------------------------------------------ *)
(* message channels: the (on, off) message pairs registers subscribe to *)

Inductive chan :=
| ChLoaded                 (* ItemLoaded / ItemUnloaded *)
| ChStLoaded (s : Z)       (* StatesActivatedLoaded / StatesDeactivatedLoaded with s in msg.states *)
| ChSt (s : Z)             (* StatesActivated / StatesDeactivated with s in msg.states *)
| ChEff (e : Z).           (* EffectsStarted / EffectsStopped with e in msg.effect_ids *)

Inductive sigk := KOn | KOff.

Definition chan_msg (c : chan) (m : msg) : option (nat * sigk) :=
  match c, m with
  | ChLoaded, MItemLoaded x => Some (x, KOn)
  | ChLoaded, MItemUnloaded x => Some (x, KOff)
  | ChStLoaded s, MStatesActivatedLoaded x sts => if mem zeqb sts s then Some (x, KOn) else None
  | ChStLoaded s, MStatesDeactivatedLoaded x sts => if mem zeqb sts s then Some (x, KOff) else None
  | ChSt s, MStatesActivated x sts => if mem zeqb sts s then Some (x, KOn) else None
  | ChSt s, MStatesDeactivated x sts => if mem zeqb sts s then Some (x, KOff) else None
  | ChEff e, MEffectsStarted x effs => if mem zeqb effs e then Some (x, KOn) else None
  | ChEff e, MEffectsStopped x effs => if mem zeqb effs e then Some (x, KOff) else None
  | _, _ => None
  end.

(* handlers of the non-loaded state channel can only rely on the class *)
Definition chan_static (c : chan) (w : world) (x : nat) : option static :=
  match c with
  | ChSt _ => match istatic w x with Some s => Some (fst s, None) | None => None end
  | _ => istatic w x
  end.

(* ------------------------------------------------------------------ *)
(* register entries and the three container disciplines                *)

Inductive payload :=
| PUnit
| PGroups (l : list Q)               (* charge_group: tuple(allowed_group_ids) *)
| PStg (tl gl : list Q)              (* ship_type_group: AllowedData *)
| PIndex (q : Q)                     (* slot_index: key of the KeyedStorage *)
| PGroup (g : Z).                    (* max_group: key of the KeyedStorage *)

Definition payload_eqb (a b : payload) : bool :=
  match a, b with
  | PUnit, PUnit => true
  | PIndex x, PIndex y => q_struct_eqb x y
  | PGroup x, PGroup y => Z.eqb x y
  | _, _ => false                    (* dict values are never compared *)
  end.

Definition rentry := (nat * payload)%type.
Definition rentry_eqb (a b : rentry) : bool := Nat.eqb (fst a) (fst b) && payload_eqb (snd a) (snd b).

Inductive rkind := RSet | RDict | RKeyed.
Inductive offact := OffNone | OffAll | OffKey (p : payload).

Record rdesc := mkRd {
  rd_chan : chan;
  rd_kind : rkind;
  rd_P : static -> option payload;   (* on-handler: insert with this payload, or ignore *)
  rd_off : static -> offact }.       (* off-handler *)

Definition reg_on (k : rkind) (r : list rentry) (x : nat) (p : payload) : list rentry :=
  match k with
  | RDict => filter (fun e => negb (Nat.eqb (fst e) x)) r ++ [(x, p)]       (* d[item] = value *)
  | _ => if existsb (rentry_eqb (x, p)) r then r else r ++ [(x, p)]         (* set.add / add_data_entry *)
  end.
Definition reg_off (r : list rentry) (x : nat) (a : offact) : list rentry :=
  match a with
  | OffNone => r
  | OffAll => filter (fun e => negb (Nat.eqb (fst e) x)) r                  (* set.discard / del d[item] *)
  | OffKey p => filter (fun e => negb (rentry_eqb (x, p) e)) r              (* rm_data_entry(key, item) *)
  end.

Definition reg_step (d : rdesc) (w : world) (m : msg) (r : list rentry) : list rentry :=
  match chan_msg (rd_chan d) m with
  | Some (x, KOn) =>
    match chan_static (rd_chan d) w x with
    | Some s => match rd_P d s with Some p => reg_on (rd_kind d) r x p | None => r end
    | None => r
    end
  | Some (x, KOff) =>
    match chan_static (rd_chan d) w x with
    | Some s => reg_off r x (rd_off d s)
    | None => r
    end
  | None => r
  end.

(* ------------------------------------------------------------------ *)
(* the registers                                                       *)

Inductive mgk := MgFitted | MgOnline | MgActive.
Inductive idxk := IxSubsystem | IxImplant | IxBooster.
Inductive fsk := FsSupport | FsLight | FsHeavy.

Inductive rid :=
(* restriction registers *)
| RCapital | RChGroup | RChSize | RChVol | RDroneGrp
| RMgAll (k : mgk)       (* MaxGroup*: __group_item_map *)
| RMgRes (k : mgk)       (* MaxGroup*: __restricted_items *)
| RRigSize | RStg | RSkillRq
| RIdx (k : idxk)        (* *IndexRestrictionRegister: __index_item_map *)
| RState
(* stat registers read by the resource / slot restrictions *)
| SCpu | SPower | SCalib | SDroneBay | SBandwidth
| STurret | SLauncher | SLaunched
| SFs (k : fsk).

Definition all_rids : list rid :=
  [RCapital; RChGroup; RChSize; RChVol; RDroneGrp;
   RMgAll MgFitted; RMgAll MgOnline; RMgAll MgActive;
   RMgRes MgFitted; RMgRes MgOnline; RMgRes MgActive;
   RRigSize; RStg; RSkillRq; RIdx IxSubsystem; RIdx IxImplant; RIdx IxBooster; RState;
   SCpu; SPower; SCalib; SDroneBay; SBandwidth; STurret; SLauncher; SLaunched;
   SFs FsSupport; SFs FsLight; SFs FsHeavy].

Definition rid_num (r : rid) : nat :=
  match r with
  | RCapital => 0 | RChGroup => 1 | RChSize => 2 | RChVol => 3 | RDroneGrp => 4
  | RMgAll MgFitted => 5 | RMgAll MgOnline => 6 | RMgAll MgActive => 7
  | RMgRes MgFitted => 8 | RMgRes MgOnline => 9 | RMgRes MgActive => 10
  | RRigSize => 11 | RStg => 12 | RSkillRq => 13
  | RIdx IxSubsystem => 14 | RIdx IxImplant => 15 | RIdx IxBooster => 16 | RState => 17
  | SCpu => 18 | SPower => 19 | SCalib => 20 | SDroneBay => 21 | SBandwidth => 22
  | STurret => 23 | SLauncher => 24 | SLaunched => 25
  | SFs FsSupport => 26 | SFs FsLight => 27 | SFs FsHeavy => 28
  end%nat.

Definition mg_chan (k : mgk) : chan :=
  match k with MgFitted => ChLoaded | MgOnline => ChStLoaded State_online | MgActive => ChStLoaded State_active end.
Definition mg_attr (k : mgk) : Z :=
  match k with MgFitted => AttrId_max_group_fitted | MgOnline => AttrId_max_group_online
             | MgActive => AttrId_max_group_active end.
Definition mg_type (k : mgk) : Z :=
  match k with MgFitted => Restriction_max_group_fitted | MgOnline => Restriction_max_group_online
             | MgActive => Restriction_max_group_active end.
Definition idx_cls (k : idxk) : icls :=
  match k with IxSubsystem => CSubsystem | IxImplant => CImplant | IxBooster => CBooster end.
Definition idx_attr (k : idxk) : Z :=
  match k with IxSubsystem => AttrId_subsystem_slot | IxImplant => AttrId_implantness
             | IxBooster => AttrId_boosterness end.
Definition idx_type (k : idxk) : Z :=
  match k with IxSubsystem => Restriction_subsystem_index | IxImplant => Restriction_implant_index
             | IxBooster => Restriction_booster_index end.
Definition fs_attr (k : fsk) : Z :=
  match k with FsSupport => AttrId_fighter_squadron_is_support | FsLight => AttrId_fighter_squadron_is_light
             | FsHeavy => AttrId_fighter_squadron_is_heavy end.
Definition fs_ship_attr (k : fsk) : Z :=
  match k with FsSupport => AttrId_fighter_support_slots | FsLight => AttrId_fighter_light_slots
             | FsHeavy => AttrId_fighter_heavy_slots end.
Definition fs_type (k : fsk) : Z :=
  match k with FsSupport => Restriction_fighter_squad_support | FsLight => Restriction_fighter_squad_light
             | FsHeavy => Restriction_fighter_squad_heavy end.

Definition unit_if (b : bool) : option payload := if b then Some PUnit else None.
Definition off_all (_ : static) : offact := OffAll.
Definition off_if (c : static -> bool) (s : static) : offact := if c s then OffAll else OffNone.
Definition is_cls (c : icls) (s : static) : bool := icls_eqb (fst s) c.

Definition desc (r : rid) : rdesc :=
  match r with
  | RCapital =>
    mkRd ChLoaded RSet
         (fun s => if is_module (fst s)
                   then match s_attr s AttrId_volume with
                        | Some v => unit_if (negb (Qle_bool v MAX_SUBCAP_VOLUME))
                        | None => None end
                   else None) off_all
  | RChGroup =>
    mkRd ChLoaded RDict
         (fun s => if is_module (fst s)          (* hasattr(item, 'charge') *)
                   then match attr_values s CHARGE_GROUP_ATTRS with
                        | [] => None | l => Some (PGroups l) end
                   else None) off_all
  | RChSize => mkRd ChLoaded RSet (fun s => unit_if (is_module (fst s) && s_has s AttrId_charge_size)) off_all
  | RChVol => mkRd ChLoaded RSet (fun s => unit_if (is_module (fst s))) off_all
  | RDroneGrp => mkRd ChLoaded RSet (fun s => unit_if (is_cls CDrone s)) off_all
  | RMgAll k =>
    mkRd (mg_chan k) RKeyed
         (fun s => if is_module (fst s)
                   then match s_group s with Some g => Some (PGroup g) | None => None end
                   else None)
         (fun s => match s_group s with Some g => OffKey (PGroup g) | None => OffNone end)
  | RMgRes k =>
    mkRd (mg_chan k) RSet
         (fun s => unit_if (is_module (fst s)
                            && (match s_group s with Some _ => true | None => false end)
                            && s_has s (mg_attr k))) off_all
  | RRigSize => mkRd (ChEff EffectId_rig_slot) RSet (fun s => unit_if (s_has s AttrId_rig_size)) off_all
  | RStg =>
    mkRd ChLoaded RDict
         (fun s => if is_module (fst s)
                   then match attr_values s SHIP_TYPE_ATTRS, attr_values s SHIP_GROUP_ATTRS with
                        | [], [] => None
                        | tl, gl => Some (PStg tl gl) end
                   else None) off_all
  | RSkillRq =>
    mkRd ChLoaded RSet
         (fun s => unit_if ((match s_skills s with [] => false | _ => true end) && negb (is_cls CRig s))) off_all
  | RIdx k =>
    mkRd ChLoaded RKeyed
         (fun s => if is_cls (idx_cls k) s
                   then match s_attr s (idx_attr k) with Some v => Some (PIndex (Qred v)) | None => None end
                   else None)
         (fun s => if is_cls (idx_cls k) s
                   then match s_attr s (idx_attr k) with Some v => OffKey (PIndex (Qred v)) | None => OffNone end
                   else OffNone)
  | RState => mkRd (ChStLoaded State_online) RSet (fun s => unit_if (negb (is_charge_cls (fst s)))) off_all
  | SCpu => mkRd (ChEff EffectId_online) RSet (fun s => unit_if (s_has s AttrId_cpu)) off_all
  | SPower => mkRd (ChEff EffectId_online) RSet (fun s => unit_if (s_has s AttrId_power)) off_all
  | SCalib => mkRd (ChEff EffectId_rig_slot) RSet (fun s => unit_if (s_has s AttrId_upgrade_cost)) off_all
  | SDroneBay =>
    mkRd ChLoaded RSet (fun s => unit_if (is_cls CDrone s && s_has s AttrId_volume)) (off_if (is_cls CDrone))
  | SBandwidth =>
    mkRd (ChStLoaded State_online) RSet
         (fun s => unit_if (is_cls CDrone s && s_has s AttrId_drone_bandwidth_used)) (off_if (is_cls CDrone))
  | STurret => mkRd (ChEff EffectId_turret_fitted) RSet (fun _ => Some PUnit) off_all
  | SLauncher => mkRd (ChEff EffectId_launcher_fitted) RSet (fun _ => Some PUnit) off_all
  | SLaunched => mkRd (ChSt State_online) RSet (fun s => unit_if (is_cls CDrone s)) (off_if (is_cls CDrone))
  | SFs k =>
    mkRd ChLoaded RSet
         (fun s => unit_if (is_cls CFighter s
                            && match s_attr s (fs_attr k) with Some v => q_truthy v | None => false end)) off_all
  end.

(* registers of one fit / of all fits *)
Definition fregs := list (nat * list rentry).
Definition fr_get (g : fregs) (r : rid) : list rentry :=
  match al_get Nat.eqb g (rid_num r) with Some l => l | None => [] end.
Definition fr_step (w : world) (m : msg) (g : fregs) : fregs :=
  map (fun r => (rid_num r, reg_step (desc r) w m (fr_get g r))) all_rids.

Definition rregs := list (nat * fregs).
Definition rr_get (rr : rregs) (f : nat) : fregs :=
  match al_get neqb rr f with Some g => g | None => [] end.

(* one message delivered on fit f; [w] is the base world at that moment *)
Definition restr_msg (w : world) (f : nat) (m : msg) (rr : rregs) : rregs :=
  al_set neqb rr f (fr_step w m (rr_get rr f)).
Definition restr_event (rr : rregs) (ev : event) : rregs :=
  match ev with
  | EvPublish w f msgs => fold_left (fun rr m => restr_msg w f m rr) msgs rr
  | EvClear _ => rr
  end.
Definition restr_events (rr : rregs) (evs : list event) : rregs := fold_left restr_event evs rr.

Definition xsys := (sys * rregs)%type.
Definition xstep (x : xsys) (o : op) : xsys * res :=
  let '(x', r, evs) := step_ev (fst x) o in ((x', restr_events (snd x) evs), r).
Definition xinit (pen : list Q) : xsys := (init_sys pen, []).

(* ------------------------------------------------------------------ *)
(* ValidationError.data                                                *)

Inductive errdata :=
| EResource (total_use output item_use : Q)
| ESlotQty (used total : Z)
| ECapital (item_volume max_subcap_volume : Q)
| EChargeGroup (group : option Z) (allowed : list Q)
| EChargeSize (size : option Q) (allowed : Q)
| EChargeVolume (volume max_allowed : Q)
| EDroneGroup (group : option Z) (allowed : list Q)
| EItemClass (cls : icls) (allowed : list icls)
| ELoadedItem
| EMaxGroup (group : option Z) (quantity : Z) (max_allowed : Q)
| ERigSize (size allowed : Q)
| EShipTypeGroup (ship_type ship_group : option Z) (allowed_types allowed_groups : list Q)
| ESkillRq (l : list (Z * option Z * Z))     (* (skill type, level or None, required level) *)
| ESlotIndex (slot_index : Q)
| EState (state : Z) (allowed : list Z).

(* what one restriction raises: {item: error data}; key None = an empty rack slot.
   None: an exception other than RestrictionValidationError left validate() *)
Definition rentry_err := (option nat * errdata)%type.
Definition rres := option (list rentry_err).
(* ValidationError.data: the service files each entry under restriction.type *)
Definition ventry := (option nat * Z * errdata)%type.
Definition vres := option (list ventry).

Definition collect {A B} (g : A -> option (list B)) (l : list A) : option (list B) :=
  fold_right (fun a acc => match g a, acc with
                           | Some x, Some y => Some (x ++ y)
                           | _, _ => None end) (Some []) l.

Definition sum_opt (l : list (option Q)) : option Q :=
  fold_right (fun v acc => match v, acc with Some x, Some y => Some (x + y)%Q | _, _ => None end) (Some 0%Q) l.

Definition zlen {A} (l : list A) : Z := Z.of_nat (length l).
Definition zleq (a : Z) (q : Q) : bool := Qle_bool (inject_Z a) q.

(* current-world lookups used by validate() bodies *)
Definition w_static (w : world) (x : nat) : option static := istatic w x.
Definition w_loaded (w : world) (x : nat) : bool := is_loaded w x.
Definition w_type (w : world) (x : nat) : option itype :=
  match get_item w x with Some it => item_type w it | None => None end.
Definition w_tattr (w : world) (x : nat) (a : Z) : option Q :=
  match w_type w x with Some t => al_get zeqb (t_attrs t) a | None => None end.     (* _type_attrs.get *)
Definition w_charge (w : world) (x : nat) : option nat :=
  match get_item w x with Some it => i_charge it | None => None end.
Definition w_tid (w : world) (x : nat) : option Z :=
  match get_item w x with Some it => Some (i_tid it) | None => None end.
Definition w_ship (w : world) (f : nat) : option nat :=
  match get_fit w f with Some ft => f_ship ft | None => None end.
Definition w_character (w : world) (f : nat) : option nat :=
  match get_fit w f with Some ft => f_character ft | None => None end.

(* item._type.max_state; None: effect._state raised KeyError *)
Definition max_state (w : world) (x : nat) : option Z :=
  match get_item w x with
  | None => None
  | Some it =>
    fold_left (fun acc (ee : Z * effect) =>
                 match acc, effect_state (snd ee) with
                 | Some m, Some s => Some (Z.max m s)
                 | _, _ => None end) (item_effects w it) (Some State_offline)
  end.

(* container[max(total, 0):] — the slots beyond those the ship provides
   (counted in Z: slot totals are arbitrary modified attribute values) *)
Fixpoint slice_from {A} (l : list A) (t : Z) : list A :=
  match l with
  | [] => []
  | x :: r => if t <=? 0 then l else slice_from r (t - 1)
  end.

(* ItemClassRestriction.CLASS_VALIDATORS *)
Definition VALIDATED_CLASSES : list icls :=
  [CBooster; CCharacter; CCharge; CDrone; CBeacon; CFighter; CImplant; CModHigh; CModMid; CModLow;
   CRig; CShip; CSkill; CStance; CSubsystem].
Definition class_validator (c : icls) (t : itype) (effs : list Z) : bool :=
  let cat x := oz_eqb (t_category t) (Some x) in
  let grp x := oz_eqb (t_group t) (Some x) in
  let attr a := al_mem zeqb (t_attrs t) a in
  let eff e := mem zeqb effs e in
  match c with
  | CBooster => cat TypeCategoryId_implant && attr AttrId_boosterness
  | CCharacter => grp TypeGroupId_character
  | CCharge => cat TypeCategoryId_charge
  | CDrone => cat TypeCategoryId_drone
  | CBeacon => grp TypeGroupId_effect_beacon
  | CFighter => cat TypeCategoryId_fighter
                && (attr AttrId_fighter_squadron_is_heavy || attr AttrId_fighter_squadron_is_light
                    || attr AttrId_fighter_squadron_is_support)
  | CImplant => cat TypeCategoryId_implant && attr AttrId_implantness
  | CModHigh => cat TypeCategoryId_module && eff EffectId_hi_power
  | CModMid => cat TypeCategoryId_module && eff EffectId_med_power
  | CModLow => cat TypeCategoryId_module && eff EffectId_lo_power
  | CRig => cat TypeCategoryId_module && eff EffectId_rig_slot
  | CShip => cat TypeCategoryId_ship
  | CSkill => cat TypeCategoryId_skill
  | CStance => grp TypeGroupId_ship_modifier
  | CSubsystem => cat TypeCategoryId_subsystem && eff EffectId_subsystem
  | CAutocharge => false              (* no validator: KeyError branch *)
  end.

(* ------------------------------------------------------------------ *)
(* validate() bodies over an abstract attribute reader                 *)

Section Rules.
  Context {D : Type}.
  Variable rd : D -> nat -> Z -> D * option Q.      (* item.attrs[a]; None = KeyError *)

  Definition M (A : Type) : Type := D -> D * A.
  Definition ret {A} (a : A) : M A := fun d => (d, a).
  Definition bind {A B} (m : M A) (k : A -> M B) : M B := fun d => let (d', a) := m d in k a d'.
  Fixpoint mapM {A B} (g : A -> M B) (l : list A) : M (list B) :=
    match l with
    | [] => ret []
    | a :: r => bind (g a) (fun b => bind (mapM g r) (fun bs => ret (b :: bs)))
    end.
  Definition rdm (x : nat) (a : Z) : M (option Q) := fun d => rd d x a.

  Variable w : world.
  Variable tr : rid -> list rentry.     (* the registers of the fit *)
  Variable f : nat.

  Definition items_of (r : rid) : list nat := map fst (tr r).

  (* try: holder.attrs[a] except (AttributeError, KeyError) *)
  Definition holder_attr (h : option nat) (a : Z) : M (option Q) :=
    match h with Some s => rdm s a | None => ret None end.
  Definition or0 (v : option Q) : Q := match v with Some q => q | None => 0%Q end.
  Definition slot_total (v : option Q) : Z := match v with Some q => q_trunc q | None => 0 end.

  (* ---- resource restrictions (resource.py over stats/register/resource) ---- *)
  Definition resource_result (round : bool) (uses : list (nat * option Q)) (out : option Q) : rres :=
    match sum_opt (map snd uses) with
    | None => None
    | Some s =>
      let total := if round then round2 (Qred s) else Qred s in
      let output := or0 out in
      if Qle_bool total output then Some []
      else collect (fun xu : nat * option Q =>
                      match snd xu with
                      | None => None
                      | Some u => if Qle_bool u 0 then Some []
                                  else Some [(Some (fst xu), EResource total output u)]
                      end) uses
    end.
  Definition v_resource (reg : rid) (use_attr out_attr : Z) (round : bool) : M rres :=
    bind (mapM (fun x => bind (rdm x use_attr) (fun v => ret (x, v))) (items_of reg)) (fun uses =>
    bind (holder_attr (w_ship w f) out_attr) (fun out =>
    ret (resource_result round uses out))).

  (* ---- slot quantity restrictions ---- *)
  Definition slot_entries (used total : Z) (keys : list (option nat)) : rres :=
    if used >? total then Some (map (fun k => (k, ESlotQty used total)) keys) else Some [].
  (* stats_assisted.py *)
  Definition v_stat_slot (reg : rid) (holder : option nat) (attr : Z) : M rres :=
    bind (holder_attr holder attr) (fun v =>
    ret (slot_entries (zlen (tr reg)) (slot_total v) (map (fun x => Some x) (items_of reg)))).
  (* ordered.py (repaired: empty slots are skipped, a negative total counts as 0) *)
  Definition rack_of (k : rackk) : list (option nat) :=
    match get_fit w f with Some ft => fit_rack ft k | None => [] end.
  Definition v_ordered (k : rackk) (attr : Z) : M rres :=
    bind (holder_attr (w_ship w f) attr) (fun v =>
    let total := slot_total v in
    ret (slot_entries (zlen (rack_of k)) total
                      (filter (fun o => match o with Some _ => true | None => false end)
                              (slice_from (rack_of k) total)))).
  (* unordered.py *)
  Definition set_of (k : setk) : list nat :=
    match get_fit w f with Some ft => fit_setc ft k | None => [] end.
  Definition v_unordered (k : setk) (attr : Z) : M rres :=
    bind (holder_attr (w_ship w f) attr) (fun v =>
    ret (slot_entries (zlen (set_of k)) (slot_total v) (map (fun x => Some x) (set_of k)))).

  (* ---- register-backed restrictions ---- *)
  Definition v_capital : rres :=
    let capital_ship :=
        match w_ship w f with
        | Some s => match w_tattr w s AttrId_is_capital_size with Some v => q_truthy v | None => false end
        | None => false end in
    if capital_ship then Some []
    else collect (fun x => match w_tattr w x AttrId_volume with
                           | Some v => Some [(Some x, ECapital v MAX_SUBCAP_VOLUME)]
                           | None => None end) (items_of RCapital).

  Definition type_group (x : nat) : option (option Z) :=      (* item._type.group_id; None: _type is None *)
    match w_type w x with Some t => Some (t_group t) | None => None end.
  Definition group_in (g : option Z) (l : list Q) : bool :=
    match g with Some z => existsb (fun q => Qeq_bool (inject_Z z) q) l | None => false end.

  Definition v_charge_group : rres :=
    collect (fun e : rentry =>
               match snd e, w_charge w (fst e) with
               | PGroups allowed, Some c =>
                 if negb (w_loaded w c) then Some []
                 else match type_group c with
                      | None => None
                      | Some g => if group_in g allowed then Some []
                                  else Some [(Some c, EChargeGroup g allowed)]
                      end
               | _, _ => Some []
               end) (tr RChGroup).

  Definition oq_eqb (a b : option Q) : bool :=
    match a, b with Some x, Some y => Qeq_bool x y | None, None => true | _, _ => false end.
  Definition v_charge_size : rres :=
    collect (fun x =>
               match w_charge w x with
               | None => Some []
               | Some c =>
                 if negb (w_loaded w c) then Some []
                 else match w_tattr w x AttrId_charge_size with
                      | None => None
                      | Some csize =>
                        let size := w_tattr w c AttrId_charge_size in
                        if oq_eqb (Some csize) size then Some []
                        else Some [(Some c, EChargeSize size csize)]
                      end
               end) (items_of RChSize).

  Definition v_charge_volume : rres :=
    collect (fun x =>
               match w_charge w x with
               | None => Some []
               | Some c =>
                 let vol := or0 (w_tattr w c AttrId_volume) in
                 let cap := or0 (w_tattr w x AttrId_capacity) in
                 if Qle_bool vol cap then Some []
                 else Some [(Some c, EChargeVolume vol cap)]
               end) (items_of RChVol).

  Definition v_drone_group : rres :=
    match w_ship w f with
    | None => Some []
    | Some s =>
      match w_static w s with
      | None => Some []
      | Some ss =>
        match attr_values ss DRONE_GROUP_ATTRS with
        | [] => Some []
        | allowed =>
          collect (fun x => match type_group x with
                            | None => None
                            | Some g => if group_in g allowed then Some []
                                        else Some [(Some x, EDroneGroup g allowed)]
                            end) (items_of RDroneGrp)
        end
      end
    end.

  Definition v_max_group (k : mgk) : M rres :=
    bind (mapM (fun x => bind (rdm x (mg_attr k)) (fun v => ret (x, v))) (items_of (RMgRes k))) (fun vals =>
    ret (collect (fun xv : nat * option Q =>
                    match type_group (fst xv), snd xv with
                    | Some g, Some mx =>
                      let qty := zlen (filter (fun e : rentry =>
                                                 match g, snd e with
                                                 | Some gz, PGroup g' => Z.eqb gz g'
                                                 | _, _ => false end) (tr (RMgAll k))) in
                      if zleq qty mx then Some []
                      else Some [(Some (fst xv), EMaxGroup g qty mx)]
                    | _, _ => None
                    end) vals)).

  Definition v_rig_size : rres :=
    match w_ship w f with
    | None => Some []
    | Some s =>
      match w_tattr w s AttrId_rig_size with
      | None => Some []
      | Some allowed =>
        collect (fun x => match w_tattr w x AttrId_rig_size with
                          | None => None
                          | Some sz => if Qeq_bool sz allowed then Some []
                                       else Some [(Some x, ERigSize sz allowed)]
                          end) (items_of RRigSize)
      end
    end.

  Definition z_in (z : option Z) (l : list Q) : bool := group_in z l.
  Definition v_ship_type_group : rres :=
    (* try: ship._type_id, ship._type.group_id except AttributeError: both None *)
    let '(stid, sgrp) :=
        match w_ship w f with
        | Some s => match w_tid w s, w_type w s with
                    | Some tid, Some t => (Some tid, t_group t)
                    | _, _ => (None, None) end
        | None => (None, None) end in
    collect (fun e : rentry =>
               match snd e with
               | PStg tl gl =>
                 if z_in stid tl || z_in sgrp gl then Some []
                 else Some [(Some (fst e), EShipTypeGroup stid sgrp tl gl)]
               | _ => Some []
               end) (tr RStg).

  Definition skill_level (tid : Z) : option Z :=
    match get_fit w f with
    | None => None
    | Some ft =>
      match al_get zeqb (f_skillmap ft) tid with
      | None => None
      | Some sk => if w_loaded w sk
                   then match get_item w sk with Some it => Some (i_level it) | None => None end
                   else None
      end
    end.
  Definition v_skill_requirement : rres :=
    collect (fun x =>
               match w_type w x with
               | None => None
               | Some t =>
                 let errs := flat_map (fun rq : Z * Z =>
                                         let lvl := skill_level (fst rq) in
                                         match lvl with
                                         | Some l => if l <? snd rq then [(fst rq, lvl, snd rq)] else []
                                         | None => [(fst rq, lvl, snd rq)]
                                         end) (t_skills t) in
                 match errs with
                 | [] => Some []
                 | _ => Some [(Some x, ESkillRq errs)]
                 end
               end) (items_of RSkillRq).

  Definition v_slot_index (k : idxk) : rres :=
    collect (fun e : rentry =>
               match snd e with
               | PIndex q =>
                 let n := length (filter (fun e' : rentry => payload_eqb (PIndex q) (snd e')) (tr (RIdx k))) in
                 if Nat.ltb 1 n then Some [(Some (fst e), ESlotIndex q)] else Some []
               | _ => Some []
               end) (tr (RIdx k)).

  Definition v_state : rres :=
    collect (fun x =>
               match item_state w x, max_state w x with
               | Some st, Some mx =>
                 if mx <? st
                 then Some [(Some x, EState st (filter (fun s => s <=? mx) State_members))]
                 else Some []
               | _, _ => None
               end) (items_of RState).

  (* ---- container-backed restrictions ---- *)
  Definition fit_item_list (skip_auto : bool) : list nat :=
    match get_fit w f with Some ft => fit_items w ft skip_auto | None => [] end.

  Definition v_loaded_item : rres :=
    Some (flat_map (fun x => if w_loaded w x then [] else [(Some x, ELoadedItem)])
                   (fit_item_list true)).

  Definition v_item_class : rres :=
    Some (flat_map (fun x =>
                      match get_item w x with
                      | None => []
                      | Some it =>
                        match item_type w it with
                        | None => []                      (* _loaded_item_iter *)
                        | Some t =>
                          let effs := map fst (item_effects w it) in
                          if class_validator (i_cls it) t effs then []
                          else [(Some x,
                                 EItemClass (i_cls it) (filter (fun c => class_validator c t effs) VALIDATED_CLASSES))]
                        end
                      end) (fit_item_list true)).

  (* ---- the service: every registered restriction with its type ---- *)
  Definition restrictions : list (Z * M rres) :=
    [ (Restriction_booster_index, ret (v_slot_index IxBooster));
      (Restriction_calibration, v_resource SCalib AttrId_upgrade_cost AttrId_upgrade_capacity false);
      (Restriction_capital_item, ret v_capital);
      (Restriction_charge_group, ret v_charge_group);
      (Restriction_charge_size, ret v_charge_size);
      (Restriction_charge_volume, ret v_charge_volume);
      (Restriction_cpu, v_resource SCpu AttrId_cpu AttrId_cpu_output true);
      (Restriction_drone_bandwidth,
       v_resource SBandwidth AttrId_drone_bandwidth_used AttrId_drone_bandwidth false);
      (Restriction_dronebay_volume,
       v_resource SDroneBay AttrId_volume AttrId_drone_capacity false);
      (Restriction_drone_group, ret v_drone_group);
      (Restriction_fighter_squad_heavy,
       v_stat_slot (SFs FsHeavy) (w_ship w f) (fs_ship_attr FsHeavy));
      (Restriction_fighter_squad_light,
       v_stat_slot (SFs FsLight) (w_ship w f) (fs_ship_attr FsLight));
      (Restriction_fighter_squad, v_unordered SeFighters AttrId_fighter_tubes);
      (Restriction_fighter_squad_support,
       v_stat_slot (SFs FsSupport) (w_ship w f) (fs_ship_attr FsSupport));
      (Restriction_high_slot, v_ordered RHigh AttrId_hi_slots);
      (Restriction_implant_index, ret (v_slot_index IxImplant));
      (Restriction_item_class, ret v_item_class);
      (Restriction_launched_drone,
       v_stat_slot SLaunched (w_character w f) AttrId_max_active_drones);
      (Restriction_launcher_slot,
       v_stat_slot SLauncher (w_ship w f) AttrId_launcher_slots_left);
      (Restriction_loaded_item, ret v_loaded_item);
      (Restriction_low_slot, v_ordered RLow AttrId_low_slots);
      (Restriction_max_group_active, v_max_group MgActive);
      (Restriction_max_group_fitted, v_max_group MgFitted);
      (Restriction_max_group_online, v_max_group MgOnline);
      (Restriction_mid_slot, v_ordered RMid AttrId_med_slots);
      (Restriction_powergrid, v_resource SPower AttrId_power AttrId_power_output true);
      (Restriction_rig_size, ret v_rig_size);
      (Restriction_rig_slot, v_unordered SeRigs AttrId_rig_slots);
      (Restriction_ship_type_group, ret v_ship_type_group);
      (Restriction_skill_requirement, ret v_skill_requirement);
      (Restriction_state, ret v_state);
      (Restriction_subsystem_index, ret (v_slot_index IxSubsystem));
      (Restriction_subsystem_slot, v_unordered SeSubsystems AttrId_max_subsystems);
      (Restriction_turret_slot,
       v_stat_slot STurret (w_ship w f) AttrId_turret_slots_left) ].

  Definition vres_app (a b : vres) : vres :=
    match a, b with Some x, Some y => Some (x ++ y) | _, _ => None end.

  (* RestrictionService.validate(skip_checks) *)
  Definition tag (t : Z) (a : rres) : vres :=
    match a with Some l => Some (map (fun ke : rentry_err => (fst ke, t, snd ke)) l) | None => None end.
  Definition run_restrictions (skip : list Z) (l : list (Z * M rres)) : M vres :=
    fold_right (fun (p : Z * M rres) (acc : M vres) =>
                  if mem zeqb skip (fst p) then acc
                  else bind (snd p) (fun a => bind acc (fun b => ret (vres_app (tag (fst p) a) b))))
               (ret (Some [])) l.
  Definition validate_rules (skip : list Z) : M vres := run_restrictions skip restrictions.
End Rules.

(* fit.validate(skip_checks) on the engine model *)
Definition validate (w : world) (d : derived) (rr : rregs) (f : nat) (skip : list Z) : derived * vres :=
  validate_rules (read_attr PF w) w (fr_get (rr_get rr f)) f skip (d_clear d).

Definition xvalidate (x : xsys) (f : nat) (skip : list Z) : xsys * vres * option ierr :=
  let '(d', v) := validate (s_w (fst x)) (s_d (fst x)) (snd x) f skip in
  ((mkSys (s_w (fst x)) d', snd x), v, d_err d').
