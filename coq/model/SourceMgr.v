(* Model of eos/source/manager.py (SourceManager) and source.py.

   State: the class-level registry (alias -> Source, insertion ordered), the
   default source, and -- because add() acts on them -- the cache handlers that
   were passed in (fingerprint, served content, persisted copy).  add() is
   interpreted statement by statement from the generated table (gen/T_srcmgr.v)
   so that the POSITION of the alias check relative to the side effects, the
   rebuild condition and the fingerprint format are those of the source text.

   The data handler is an input of add (its version and its data); the eve
   object builder is an abstract function [build] of the data (C18 is about
   it); a data version is represented by its str() text, None by [None]. *)
From Coq Require Import List String Bool Arith.
From EosV Require Import model.CacheCodec.
Import ListNotations.
Local Open Scope string_scope.
Local Open Scope list_scope.

(* ---- table vocabulary ---- *)
Inductive astep : Type :=
| ACheckAlias | AGetFp | AGetVersion | AFormat | ARebuildIf | AMakeSource | AStore | ADefaultIf.
Inductive cvar : Type := VVersion | VCacheFp | VCurrentFp | VNone.
Inductive cond : Type :=
| COr (a b : cond) | CAnd (a b : cond) | CNot (a : cond)
| CIs (a b : cvar) | CIsNot (a b : cvar) | CEq (a b : cvar) | CNe (a b : cvar).
Inductive uarg : Type := UObjs | UCurrentFp | UCacheFp | UVersion.
Inductive fpiece : Type := FArg (i : nat) | FLit (s : string).
Inductive farg : Type := FVersion | FEngine.
Inductive dtest : Type := DIsTrue.

Record mgr_tables := mkMgrTables {
  mt_steps : list astep;
  mt_cond : cond;
  mt_update_args : list uarg;
  mt_pieces : list fpiece;
  mt_fargs : list farg;
  mt_default : dtest }.

Section Mgr.
  Variable data objs : Type.
  Variable build : data -> objs.          (* EveObjBuilder.run *)
  Variable engine : string.               (* eos.__version__ *)
  Variable mt : mgr_tables.

  (* data handler as add() sees it *)
  Record dhandler := mkDH { dh_version : option string; dh_data : data }.

  (* cache handler: fingerprint (JNull = None), served content, persisted copy *)
  Record chandler := mkCH {
    ch_fp : J; ch_cont : option objs; ch_file : option (J * objs) }.
  Definition empty_ch : chandler := mkCH JNull None None.

  (* update_cache(objs, fp): persist, then serve (C15: writer = reader) *)
  Definition ch_update (o : objs) (fp : J) : chandler := mkCH fp (Some o) (Some (fp, o)).
  (* a new handler object on the same file (C16: complete or empty) *)
  Definition ch_reopen (c : chandler) : chandler :=
    match ch_file c with
    | Some (fp, o) => mkCH fp (Some o) (ch_file c)
    | None => mkCH JNull None None
    end.

  Definition source := (string * nat)%type.       (* Source(alias, cache_handler) *)

  Record mstate := mkM {
    ms_sources : list (string * source);          (* _sources, insertion order *)
    ms_default : option source;
    ms_handlers : list (nat * chandler);
    ms_builds : nat }.                            (* number of builder runs *)

  Definition init : mstate := mkM [] None [] 0.

  Fixpoint lookup {V} (k : string) (d : list (string * V)) : option V :=
    match d with
    | [] => None
    | (k', v) :: r => if String.eqb k' k then Some v else lookup k r
    end.

  Fixpoint get_h (hs : list (nat * chandler)) (h : nat) : chandler :=
    match hs with
    | [] => empty_ch
    | (h', c) :: r => if Nat.eqb h' h then c else get_h r h
    end.
  Definition set_h (hs : list (nat * chandler)) (h : nat) (c : chandler) :=
    (h, c) :: filter (fun x => negb (Nat.eqb (fst x) h)) hs.

  (* '{}_{}'.format(data_version, eos_version) *)
  Definition show_version (v : option string) : string :=
    match v with None => "None" | Some s => s end.
  Definition farg_text (v : option string) (a : farg) : string :=
    match a with FVersion => show_version v | FEngine => engine end.
  Fixpoint format (v : option string) (ps : list fpiece) : option string :=
    match ps with
    | [] => Some ""
    | FLit s :: r => option_map (append s) (format v r)
    | FArg i :: r =>
      match nth_error (mt_fargs mt) i with
      | Some a => option_map (append (farg_text v a)) (format v r)
      | None => None                           (* IndexError in str.format *)
      end
    end.

  (* local variables of add() *)
  Record env := mkEnv {
    ev_cache_fp : option J;
    ev_version : option (option string);
    ev_current : option string;
    ev_source : option source }.

  Inductive cval : Type := XNone | XFp (j : J) | XCur (s : string) | XVer (s : string).
  Definition var_val (e : env) (v : cvar) : option cval :=
    match v with
    | VNone => Some XNone
    | VCacheFp => option_map (fun j => match j with JNull => XNone | _ => XFp j end) (ev_cache_fp e)
    | VCurrentFp => option_map XCur (ev_current e)
    | VVersion => option_map (fun o => match o with None => XNone | Some s => XVer s end)
                             (ev_version e)
    end.

  (* a == b ; None (of option) = a comparison the model has no reading for *)
  Definition val_eq (a b : cval) : option bool :=
    match a, b with
    | XNone, XNone => Some true
    | XNone, _ | _, XNone => Some false
    | XFp (JStr s), XCur t | XCur t, XFp (JStr s) => Some (String.eqb s t)
    | XFp _, XCur _ | XCur _, XFp _ => Some false   (* a non-string never equals a string *)
    | XCur s, XCur t => Some (String.eqb s t)
    | _, _ => None
    end.
  (* a is b : None is a singleton; the freshly formatted current_fp is
     identical to nothing but itself *)
  Definition val_is (va vb : cvar) (a b : cval) : option bool :=
    match a, b with
    | XNone, XNone => Some true
    | XNone, _ | _, XNone => Some false
    | _, _ =>
      match va, vb with
      | VCurrentFp, VCurrentFp | VCacheFp, VCacheFp | VVersion, VVersion => Some true
      | VCurrentFp, _ | _, VCurrentFp => Some false
      | _, _ => None
      end
    end.

  Fixpoint eval_cond (e : env) (c : cond) : option bool :=
    match c with
    | COr a b => match eval_cond e a with
                 | Some true => Some true
                 | Some false => eval_cond e b
                 | None => None
                 end
    | CAnd a b => match eval_cond e a with
                  | Some false => Some false
                  | Some true => eval_cond e b
                  | None => None
                  end
    | CNot a => option_map negb (eval_cond e a)
    | CIs a b => match var_val e a, var_val e b with
                 | Some x, Some y => val_is a b x y | _, _ => None end
    | CIsNot a b => match var_val e a, var_val e b with
                    | Some x, Some y => option_map negb (val_is a b x y) | _, _ => None end
    | CEq a b => match var_val e a, var_val e b with
                 | Some x, Some y => val_eq x y | _, _ => None end
    | CNe a b => match var_val e a, var_val e b with
                 | Some x, Some y => option_map negb (val_eq x y) | _, _ => None end
    end.

  Inductive aout : Type :=
  | Added (rebuilt : bool)
  | ExistingSource
  | Internal             (* NameError / anything the model has no reading for *)
  | WriteFailed.         (* the persistent store refused the write (OSError out of update_cache) *)

  Definition fp_arg (e : env) (a : uarg) : option J :=
    match a with
    | UCurrentFp => option_map JStr (ev_current e)
    | UCacheFp => ev_cache_fp e
    | UVersion => option_map (fun o => match o with None => JNull | Some s => JStr s end)
                             (ev_version e)
    | UObjs => None
    end.

  Fixpoint run_add (steps : list astep) (alias : string) (dh : dhandler) (hid : nat)
           (make_default : bool) (st : mstate) (e : env) (rebuilt : bool) : mstate * aout :=
    match steps with
    | [] => (st, Added rebuilt)
    | s :: r =>
      match s with
      | ACheckAlias =>
        match lookup alias (ms_sources st) with
        | Some _ => (st, ExistingSource)
        | None => run_add r alias dh hid make_default st e rebuilt
        end
      | AGetFp =>
        run_add r alias dh hid make_default st
                (mkEnv (Some (ch_fp (get_h (ms_handlers st) hid))) (ev_version e)
                       (ev_current e) (ev_source e)) rebuilt
      | AGetVersion =>
        run_add r alias dh hid make_default st
                (mkEnv (ev_cache_fp e) (Some (dh_version dh)) (ev_current e) (ev_source e)) rebuilt
      | AFormat =>
        match ev_version e with
        | Some v =>
          match format v (mt_pieces mt) with
          | Some s => run_add r alias dh hid make_default st
                              (mkEnv (ev_cache_fp e) (ev_version e) (Some s) (ev_source e)) rebuilt
          | None => (st, Internal)
          end
        | None => (st, Internal)
        end
      | ARebuildIf =>
        match eval_cond e (mt_cond mt) with
        | None => (st, Internal)
        | Some false => run_add r alias dh hid make_default st e rebuilt
        | Some true =>
          (* eve_objects = EveObjBuilder.run(data_handler); cache_handler.update_cache(...) *)
          match mt_update_args mt with
          | [UObjs; a] =>
            match fp_arg e a with
            | Some fp =>
              let st' := mkM (ms_sources st) (ms_default st)
                             (set_h (ms_handlers st) hid (ch_update (build (dh_data dh)) fp))
                             (S (ms_builds st)) in
              run_add r alias dh hid make_default st' e true
            | None => (mkM (ms_sources st) (ms_default st) (ms_handlers st) (S (ms_builds st)),
                       Internal)
            end
          | _ => (mkM (ms_sources st) (ms_default st) (ms_handlers st) (S (ms_builds st)),
                  Internal)
          end
        end
      | AMakeSource =>
        run_add r alias dh hid make_default st
                (mkEnv (ev_cache_fp e) (ev_version e) (ev_current e) (Some (alias, hid))) rebuilt
      | AStore =>
        match ev_source e with
        | Some src =>
          (* cls._sources[alias] = source : an existing key keeps its place *)
          let srcs := match lookup alias (ms_sources st) with
                      | Some _ => map (fun kv => if String.eqb (fst kv) alias
                                                 then (fst kv, src) else kv) (ms_sources st)
                      | None => ms_sources st ++ [(alias, src)]
                      end in
          run_add r alias dh hid make_default
                  (mkM srcs (ms_default st) (ms_handlers st) (ms_builds st)) e rebuilt
        | None => (st, Internal)
        end
      | ADefaultIf =>
        match ev_source e with
        | Some src =>
          run_add r alias dh hid make_default
                  (if make_default
                   then mkM (ms_sources st) (Some src) (ms_handlers st) (ms_builds st)
                   else st) e rebuilt
        | None => (st, Internal)
        end
      end
    end.

  Definition add (st : mstate) (alias : string) (dh : dhandler) (hid : nat)
             (make_default : bool) : mstate * aout :=
    run_add (mt_steps mt) alias dh hid make_default st (mkEnv None None None None) false.

  (* add() while the persistent store refuses writes: update_cache persists first and raises before it
     touches what the handler serves, the exception leaves add() at that statement. Whatever add() would
     have done up to there (nothing but running the builder) is what remains. *)
  Definition add_blocked (st : mstate) (alias : string) (dh : dhandler) (hid : nat)
             (make_default : bool) : mstate * aout :=
    match add st alias dh hid make_default with
    | (_, Added true) => (mkM (ms_sources st) (ms_default st) (ms_handlers st) (S (ms_builds st)), WriteFailed)
    | r => r
    end.

  (* get / remove / list *)
  Definition get (st : mstate) (alias : string) : option source := lookup alias (ms_sources st).
  Definition remove (st : mstate) (alias : string) : mstate * bool :=
    match lookup alias (ms_sources st) with
    | Some _ => (mkM (filter (fun kv => negb (String.eqb (fst kv) alias)) (ms_sources st))
                     (ms_default st) (ms_handlers st) (ms_builds st), true)
    | None => (st, false)                     (* UnknownSourceError *)
    end.
  Definition list_aliases (st : mstate) : list string := map fst (ms_sources st).

  Inductive op : Type :=
  | OAdd (alias : string) (dh : dhandler) (hid : nat) (make_default : bool)
  | OAddBlocked (alias : string) (dh : dhandler) (hid : nat) (make_default : bool)
  | OGet (alias : string)
  | ORemove (alias : string)
  | OList.
  Inductive obs : Type :=
  | BAdd (o : aout)
  | BGet (s : option source)
  | BRemove (ok : bool)
  | BList (l : list string).

  Definition step (st : mstate) (o : op) : mstate * obs :=
    match o with
    | OAdd a dh h md => let (st', r) := add st a dh h md in (st', BAdd r)
    | OAddBlocked a dh h md => let (st', r) := add_blocked st a dh h md in (st', BAdd r)
    | OGet a => (st, BGet (get st a))
    | ORemove a => let (st', r) := remove st a in (st', BRemove r)
    | OList => (st, BList (list_aliases st))
    end.

  Fixpoint run (st : mstate) (ops : list op) : mstate * list obs :=
    match ops with
    | [] => (st, [])
    | o :: r => let (st', b) := step st o in
                let (st'', bs) := run st' r in (st'', b :: bs)
    end.
End Mgr.
