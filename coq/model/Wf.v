(* What the container-consistency theorem (proofs/Cinv_p.v) asks of a caller,
   as a boolean the extracted driver evaluates on every operation: ids of new
   items are fresh, container operations name an existing fit. *)
From Coq Require Import ZArith List Bool.
From EosV Require Import lib.AList gen.T_eos model.World model.Engine model.Ops.
Import ListNotations.

Definition is_some {A} (o : option A) : bool := match o with Some _ => true | None => false end.

Definition op_okb (w : world) (o : op) : bool :=
  match o with
  | ONewItem i _ _ _ _ => negb (is_some (get_item w i)) && Nat.ltb i (w_next w)
  | ONewFit f chr => negb (is_some (get_fit w f)) && negb (is_some (get_item w chr)) && Nat.ltb chr (w_next w)
  | OSlot f _ _ | OSetAdd f _ _ | OSetRemove f _ _ | OSetClear f _ | OSkillDel f _
  | ORackAppend f _ _ | ORackInsert f _ _ _ | ORackPlace f _ _ _ | ORackEquip f _ _
  | ORackRemove f _ _ | ORackFree f _ _ | ORackClear f _ => is_some (get_fit w f)
  | _ => true
  end.

(* the running-set theorem (proofs/Runs_p.v) additionally asks that a source id is defined once *)
Definition op_okb2 (w : world) (o : op) : bool :=
  op_okb w o && match o with ODefSource src _ => negb (is_some (get_src w src)) | _ => true end.

Definition op_ok_now (x : sys) (o : op) : bool := op_okb (clear_err (s_w x)) o.
Definition op_ok2_now (x : sys) (o : op) : bool := op_okb2 (clear_err (s_w x)) o.

(* ------------------------------------------------------------------ *)
(* What the running-set theorem for charges and autocharges (proofs/RunsC_p.v,
   proofs/RunsD_p.v) additionally asks: worlds are flat (no charge or
   autocharge type defines an autocharge, effect lists are duplicate-free),
   charges go into directly held items only, and the items of a fit that is
   about to be loaded are listed once and are unloaded. *)

Definition fit_list (w : world) (f : nat) : list nat :=
  match get_fit w f with Some ft => fit_items w ft true | None => [] end.

(* the first two phases of a source switch: everything of the solar system is unloaded, the source is set *)
Definition src_mid (s : st) (x : nat) (y : solsys) (new : option nat) : st :=
  let s := match ss_source y with
           | Some _ => fold_left unload_fit_items (ss_fits y) s
           | None => s end in
  lift s (fun w => match get_ss w x with
                   | Some y => put_ss w x (mkSolsys new (ss_fits y))
                   | None => fail w EKeyAbsent end).

Definition directb (it : item) : bool :=
  match cr_state (class_row_of (i_cls it)) with StContainer => false | _ => true end.

Fixpoint nodupb {A} (eqb : A -> A -> bool) (l : list A) : bool :=
  match l with [] => true | x :: r => negb (mem eqb r x) && nodupb eqb r end.

Definition no_auto_typeb (u : universe) (t : itype) : bool :=
  forallb (fun e => match get_effect u e with
                    | Some ef => match e_autocharge_attr ef with
                                 | Some aa => negb (is_some (al_get zeqb (t_attrs t) aa))
                                 | None => true end
                    | None => true end) (t_effects t).

Definition NAtidb (w : world) (tid : Z) : bool :=
  forallb (fun su : nat * universe =>
             match get_type (snd su) tid with Some t => no_auto_typeb (snd su) t | None => true end) (w_srcs w).

Definition auto_okb (w : world) (u : universe) (t : itype) : bool :=
  nodupb Z.eqb (t_effects t) &&
  forallb (fun e => match get_effect u e with
                    | Some ef => match e_autocharge_attr ef with
                                 | Some aa => match al_get zeqb (t_attrs t) aa with
                                              | Some q => NAtidb w (q_trunc q)
                                              | None => true end
                                 | None => true end
                    | None => true end) (t_effects t).

Definition FLATsb (w : world) : bool :=
  forallb (fun su : nat * universe =>
             forallb (fun tt : Z * itype => auto_okb w (snd su) (snd tt)) (u_types (snd su))) (w_srcs w).

Definition dir_unloadedb (w : world) (j : nat) : bool :=
  match get_item w j with
  | Some jit => if directb jit then negb (is_some (i_loaded jit)) else true
  | None => true
  end.

(* ------------------------------------------------------------------ *)
(* loaded from the fit's current source (proofs: LS) *)
Definition fit_of_place (p : option place) : option nat :=
  match p with Some (PSlot f _) | Some (PSet f _) | Some (PRack f _) => Some f | _ => None end.

Definition LSb (w : world) : bool :=
  forallb (fun jc : nat * item =>
             let it := snd jc in
             if directb it then
               match i_loaded it with
               | None => true
               | Some src => match fit_of_place (i_cont it) with
                             | Some f => onat_eqb (fit_source_id w f) (Some src)
                             | None => false
                             end
               end
             else true) (w_items w).

Definition op_okb3 (w : world) (o : op) : bool :=
  match o with
  | ODefSource src u =>
    let w' := set_srcs w (al_set neqb (w_srcs w) src u) in
    FLATsb w' && forallb (fun jc : nat * item => if directb (snd jc) then true else NAtidb w' (i_tid (snd jc))) (w_items w)
  | ONewItem _ c tid _ _ =>
    match c with CAutocharge | CCharge => NAtidb w tid | _ => true end
  | ONewSolsys x => negb (is_some (get_ss w x))
  | OCharge m _ => match get_item w m with Some mit => directb mit | None => true end
  | _ => true
  end.

Definition op_ok3_now (x : sys) (o : op) : bool := op_okb3 (clear_err (s_w x)) o.
