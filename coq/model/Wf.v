(* What the container-consistency theorem (proofs/Cinv_p.v) asks of a caller,
   as a boolean the extracted driver evaluates on every operation: ids of new
   items are fresh, container operations name an existing fit. *)
From Coq Require Import ZArith List Bool.
From EosV Require Import lib.AList model.World model.Ops.

Definition is_some {A} (o : option A) : bool := match o with Some _ => true | None => false end.

Definition op_okb (w : world) (o : op) : bool :=
  match o with
  | ONewItem i _ _ _ _ => negb (is_some (get_item w i)) && Nat.ltb i (w_next w)
  | ONewFit f chr => negb (is_some (get_fit w f)) && negb (is_some (get_item w chr)) && Nat.ltb chr (w_next w)
  | OSlot f _ _ | OSetAdd f _ _ | OSetRemove f _ _ | OSetClear f _ | OSkillDel f _
  | ORackAppend f _ _ | ORackInsert f _ _ _ | ORackPlace f _ _ _ | ORackEquip f _ _
  | ORackRemove f _ _ | ORackFree f _ _ | ORackClear f _ => is_some (get_fit w f)
  | _ => true
  end.

(* the running-set theorem (proofs/Runs_p.v) additionally asks that a source id is defined once *)
Definition op_okb2 (w : world) (o : op) : bool :=
  op_okb w o && match o with ODefSource src _ => negb (is_some (get_src w src)) | _ => true end.

Definition op_ok_now (x : sys) (o : op) : bool := op_okb (clear_err (s_w x)) o.
Definition op_ok2_now (x : sys) (o : op) : bool := op_okb2 (clear_err (s_w x)) o.
