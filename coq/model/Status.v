(* eos/effect_status.py: which effects should run (C05's decision table). *)
From Coq Require Import ZArith QArith List Bool.
From EosV Require Import lib.AList gen.T_eos model.World.
Import ListNotations.
Open Scope Z_scope.

(* Effect._state: KeyError when the category has no state mapping *)
Definition effect_state (e : effect) : option Z := al_get zeqb EFFECT_STATE_MAP (e_cat e).

Definition effect_mode (it : item) (eid : Z) : Z :=
  match al_get zeqb (i_modes it) eid with Some m => m | None => EffectMode_full_compliance end.

Inductive sres := SOk (b : bool) | SFail.   (* SFail: effect._state raised KeyError *)

(* __resolve_full_compliance *)
Definition resolve_full (item_state : Z) (eid : Z) (e : effect) (is_default : bool)
           (online_running : bool) : sres :=
  match effect_state e with
  | None => SFail
  | Some es =>
    if item_state <? es then SOk false
    else if es =? State_offline then
           SOk (match e_chance_attr e with None => true | Some _ => false end)
    else if es =? State_online then
           SOk (if eid =? EffectId_online then true else online_running)
    else if es =? State_active then SOk is_default
    else if es =? State_overload then SOk true
    else SOk false
  end.

Definition resolve_state_compliance (item_state : Z) (e : effect) : sres :=
  match effect_state e with
  | None => SFail
  | Some es => SOk (es <=? item_state)
  end.

(* __resolve_effect_status; an unknown mode logs a warning and yields False *)
Definition resolve_one (item_state : Z) (mode : Z) (eid : Z) (e : effect) (is_default : bool)
           (online_running : bool) : sres :=
  if mode =? EffectMode_full_compliance then resolve_full item_state eid e is_default online_running
  else if mode =? EffectMode_state_compliance then resolve_state_compliance item_state e
  else if mode =? EffectMode_force_run then SOk true
  else if mode =? EffectMode_force_stop then SOk false
  else SOk false.

(* resolve_effects_status(item, effect_ids=None|ids, state_override):
   returns the statuses in type-effect order, or None on an internal failure *)
Definition resolve_effects (st : Z) (it : item) (effs : list (Z * effect)) (default : option Z)
           (rq : option (list Z)) : option (list (Z * bool)) :=
  let wanted eid := match rq with None => true | Some l => mem zeqb l eid end in
  let is_def eid := match default with Some d => d =? eid | None => false end in
  let online :=
      match al_get zeqb effs EffectId_online with
      | Some oe => resolve_one st (effect_mode it EffectId_online) EffectId_online oe
                               (is_def EffectId_online) false
      | None => SOk false
      end in
  match online with
  | SFail => None
  | SOk online_running =>
    fold_right
      (fun (p : Z * effect) acc =>
         let (eid, e) := p in
         match acc with
         | None => None
         | Some l =>
           if negb (wanted eid) then Some l
           else if eid =? EffectId_online then Some ((eid, online_running) :: l)
           else match resolve_one st (effect_mode it eid) eid e (is_def eid) online_running with
                | SOk b => Some ((eid, b) :: l)
                | SFail => None
                end
         end)
      (Some []) effs
  end.
