(* C18 -- executable model of eos.eve_obj_builder (EveObjBuilder.run):
   load (table_pos numbering) -> ValidatorPreClean -> Normalizer -> Cleaner ->
   ValidatorPreConv (attribute value type, default effects, module racks) ->
   Converter (as the reference view of the built objects).

   Definitions only; proofs are in proofs/Builder_p.v.  The constant tables
   (primary keys, strong categories/groups, auxiliary tables, foreign keys,
   modifier-info fields, autocharge/buff attribute ids, buff sections, rack
   effects, constructor-argument maps) are NOT written here: they come from
   gen/T_builder.v, regenerated from the eos sources on every run.

   Python sets/dicts are lists here; every theorem about them is phrased via
   In / Permutation, so it holds for every iteration order.  Not modelled
   (stated in the level note): the three fighter-ability validations and
   Type.abilities_data, the modifier objects themselves (C19), logging. *)
From Coq Require Import ZArith QArith List String Bool Arith.
From EosV Require Import gen.T_builder.
Import ListNotations.

(* ------------------------------------------------------------------ *)
(* values                                                              *)
(* ------------------------------------------------------------------ *)

(* A field value as the builder distinguishes them.  SStr carries the result
   of Python's int(str) (None = ValueError), computed by the glue. *)
Inductive scalar :=
| SInt (z : Z)                       (* int *)
| SBool (b : bool)                   (* bool: an Integral, == 0 / 1 *)
| SFlt (q : Q)                       (* finite float, exact value *)
| SNan
| SInf (neg : bool)
| SStr (s : string) (parse : option Z)
| SNone.

Definition dict := list (string * scalar).

(* VL: a list of dicts (modifierInfo, the four buff modifier sections) *)
Inductive value := VS (s : scalar) | VL (l : list dict).

(* pos = row['table_pos']; None for rows created by the normaliser, which
   have no such field *)
Record row := mkRow { pos : option nat; fields : list (string * value) }.

Definition data := table -> list row.
Definition raw := table -> list (list (string * value)).

Scheme Equality for table.

Definition upd (d : data) (t : table) (l : list row) : data :=
  fun t' => if table_beq t' t then l else d t'.

Fixpoint assoc {V : Type} (k : string) (l : list (string * V)) : option V :=
  match l with
  | [] => None
  | (k', v) :: r => if String.eqb k k' then Some v else assoc k r
  end.

Definition get (r : row) (f : string) : option value := assoc f (fields r).

Definition b2z (b : bool) : Z := if b then 1%Z else 0%Z.
Definition q_is_int (q : Q) : bool := Z.eqb (Z.rem (Qnum q) (Zpos (Qden q))) 0.
Definition q_trunc (q : Q) : Z := Z.quot (Qnum q) (Zpos (Qden q)).

(* isinstance(v, numbers.Integral) and the integer it equals *)
Definition s_integral (s : scalar) : option Z :=
  match s with SInt z => Some z | SBool b => Some (b2z b) | _ => None end.

(* the integer a value compares equal to (Python ==, hash-consistent), if
   any: 5, 5.0 and True==1 are the same set/dict key; strings, None, nan,
   inf, 2.5 and tuples equal no integer *)
Definition s_refkey (s : scalar) : option Z :=
  match s with
  | SInt z => Some z
  | SBool b => Some (b2z b)
  | SFlt q => if q_is_int q then Some (q_trunc q) else None
  | _ => None
  end.

(* int(v) inside try/except (TypeError, ValueError, OverflowError) *)
Definition s_pyint (s : scalar) : option Z :=
  match s with
  | SInt z => Some z
  | SBool b => Some (b2z b)
  | SFlt q => Some (q_trunc q)
  | SStr _ p => p
  | SNan | SInf _ | SNone => None
  end.

(* isinstance(v, numbers.Real) *)
Definition s_is_real (s : scalar) : bool :=
  match s with SInt _ | SBool _ | SFlt _ | SNan | SInf _ => true | _ => false end.

Definition s_truthy (s : scalar) : bool :=
  match s with
  | SInt z => negb (Z.eqb z 0)
  | SBool b => b
  | SFlt q => negb (Z.eqb (Qnum q) 0)
  | SNan | SInf _ => true
  | SStr s _ => negb (String.eqb s EmptyString)
  | SNone => false
  end.

Definition integral (v : value) : option Z :=
  match v with VS s => s_integral s | VL _ => None end.
Definition refkey (v : value) : option Z :=
  match v with VS s => s_refkey s | VL _ => None end.
Definition pyint (v : value) : option Z :=
  match v with VS s => s_pyint s | VL _ => None end.
Definition is_real (v : value) : bool :=
  match v with VS s => s_is_real s | VL _ => false end.
Definition truthy (v : value) : bool :=
  match v with VS s => s_truthy s | VL l => negb (match l with [] => true | _ => false end) end.
Definition is_true (v : value) : bool :=
  match v with VS (SBool true) => true | _ => false end.

(* row.get(c) as a set/dict key *)
Definition colkey (r : row) (c : string) : option Z :=
  match get r c with Some v => refkey v | None => None end.

Definition memz (z : Z) (l : list Z) : bool := existsb (Z.eqb z) l.
Fixpoint lz_eqb (a b : list Z) : bool :=
  match a, b with
  | [], [] => true
  | x :: a', y :: b' => Z.eqb x y && lz_eqb a' b'
  | _, _ => false
  end.
Definition memk (k : list Z) (l : list (list Z)) : bool := existsb (lz_eqb k) l.
Definition mems (s : string) (l : list string) : bool := existsb (String.eqb s) l.
Definition memt (t : table) (l : list table) : bool := existsb (table_beq t) l.

Inductive exn := KeyError | OutOfDomain.
Inductive outcome (A : Type) := Built (a : A) | Crash (e : exn) | OutOfFuel.
Arguments Built {A} a.
Arguments Crash {A} e.
Arguments OutOfFuel {A}.

(* ------------------------------------------------------------------ *)
(* load: builder.py numbers the rows of every table                    *)
(* ------------------------------------------------------------------ *)

Fixpoint number (n : nat) (l : list (list (string * value))) : list row :=
  match l with
  | [] => []
  | f :: r => mkRow (Some n) f :: number (S n) r
  end.

Definition load (rw : raw) : data := fun t => number 0 (rw t).

(* the shapes of modifierInfo / buff sections this model covers: absent, a
   scalar that Python skips (falsy, or not iterable), or a list of dicts;
   a non-empty string (iterable, crashes the cleaner) and a scalar in place
   of a buff section are outside the domain *)
Definition modinfo_shape_ok (r : row) : bool :=
  match get r "modifierInfo"%string with
  | Some (VS (SStr s _)) => String.eqb s EmptyString
  | _ => true
  end.
Definition sections_shape_ok (r : row) : bool :=
  forallb (fun sec => match get r (fst sec) with Some (VS _) => false | _ => true end)
          gen_buff_sections.
Definition in_domain (d : data) : bool :=
  forallb modinfo_shape_ok (d T_dgmeffects) && forallb sections_shape_ok (d T_dbuffcollections).

(* ------------------------------------------------------------------ *)
(* sorted(rows, key=lambda r: r['table_pos'])                          *)
(* ------------------------------------------------------------------ *)

Definition has_pos (r : row) : bool := match pos r with Some _ => true | None => false end.
Definition posn (r : row) : nat := match pos r with Some n => n | None => 0 end.

Fixpoint insert_pos (r : row) (l : list row) : list row :=
  match l with
  | [] => [r]
  | x :: l' => if posn r <=? posn x then r :: l else x :: insert_pos r l'
  end.
Fixpoint sort_pos (l : list row) : list row :=
  match l with [] => [] | x :: l' => insert_pos x (sort_pos l') end.

(* The "first one wins" scan used by the three validators: walk the rows in
   table_pos order with a set of keys already seen. *)
Inductive verdict := NoKey | First | Repeat.

Fixpoint scan (key : row -> option (list Z)) (l : list row) (seen : list (list Z))
  : list (row * verdict) :=
  match l with
  | [] => []
  | a :: r =>
    match key a with
    | None => (a, NoKey) :: scan key r seen
    | Some k => if memk k seen then (a, Repeat) :: scan key r seen
                else (a, First) :: scan key r (k :: seen)
    end
  end.

(* ------------------------------------------------------------------ *)
(* ValidatorPreClean: integer primary keys, first row wins             *)
(* ------------------------------------------------------------------ *)

Fixpoint row_pk (pks : list string) (r : row) : option (list Z) :=
  match pks with
  | [] => Some []
  | f :: fs =>
    match get r f with
    | Some v =>
      match integral v, row_pk fs r with
      | Some z, Some k => Some (z :: k)
      | _, _ => None
      end
    | None => None
    end
  end.

Definition keep_first (sv : list (row * verdict)) : list row :=
  flat_map (fun rv => match snd rv with First => [fst rv] | _ => [] end) sv.

Definition preclean_table (pks : list string) (rows : list row) : list row :=
  keep_first (scan (row_pk pks) (sort_pos rows) []).

Fixpoint pk_of (t : table) (spec : list (table * list string)) : option (list string) :=
  match spec with
  | [] => None
  | (t', pks) :: r => if table_beq t t' then Some pks else pk_of t r
  end.

Definition preclean (d : data) : data :=
  fun t => match pk_of t gen_pk_spec with
           | Some pks => preclean_table pks (d t)
           | None => d t
           end.

(* ------------------------------------------------------------------ *)
(* Normalizer._move_attrs                                              *)
(* ------------------------------------------------------------------ *)

Definition norm_attr_ids : list Z := map snd gen_norm_attr_map.

Definition defined_pairs (d : data) : list (list Z) :=
  flat_map (fun r => match colkey r "attributeID"%string, colkey r "typeID"%string with
                     | Some a, Some t => if memz a norm_attr_ids then [[t; a]] else []
                     | _, _ => []
                     end) (d T_dgmtypeattribs).

Definition is_none (v : value) : bool := match v with VS SNone => true | _ => false end.

Definition moved_rows (defined : list (list Z)) (r : row) : list row :=
  match get r "typeID"%string with
  | Some tv =>
    match refkey tv with
    | Some t =>
      flat_map (fun fa =>
                  match get r (fst fa) with
                  | Some v =>
                    if is_none v then []
                    else if memk [t; snd fa] defined then []
                    else [mkRow None [("typeID"%string, tv);
                                      ("attributeID"%string, VS (SInt (snd fa)));
                                      ("value"%string, v)]]
                  | None => []
                  end) gen_norm_attr_map
    | None => []
    end
  | None => []
  end.

Definition normalize (d : data) : data :=
  upd d T_dgmtypeattribs
      (d T_dgmtypeattribs ++ flat_map (moved_rows (defined_pairs d)) (d T_evetypes)).

(* ------------------------------------------------------------------ *)
(* Cleaner                                                             *)
(* ------------------------------------------------------------------ *)

(* (target table, target column, key): "rows of that table whose column
   equals key are wanted" -- one element of tgt_data *)
Definition tgt := (table * string * Z)%type.

Definition tgt_of (ttb : table) (tc : string) (o : option Z) : list tgt :=
  match o with Some z => [(ttb, tc, z)] | None => [] end.

(* _get_tgts_relational, for one live row of table t *)
Definition tgts_relational (t : table) (r : row) : list tgt :=
  flat_map (fun fk => match fk with
                      | (st, sc, ttb, tc) =>
                        if table_beq st t then tgt_of ttb tc (colkey r sc) else []
                      end) gen_foreign_keys.

(* ids named by one dict (a modifier info, a buff modifier row) for the
   fields of rel; conv is how the cleaner reads the id: as is (set
   membership, s_refkey) or through int() (s_pyint) *)
Definition dict_tgts (conv : scalar -> option Z) (rel : list (string * table * string))
           (m : dict) : list tgt :=
  flat_map (fun e => match e with
                     | (f, ttb, tc) =>
                       match assoc f m with
                       | Some s => tgt_of ttb tc (conv s)
                       | None => []
                       end
                     end) rel.

Definition modinfos (r : row) : list dict :=
  match get r "modifierInfo"%string with Some (VL l) => l | _ => [] end.

(* _get_tgts_modinfo (+ _modinfo_relations): ids named by the row's own
   modifier infos.  The Python keys the relation map by effectID over live
   and trashed rows; effect ids are unique after pre-clean validation, so
   the entry found for a live row is the row's own.  add_entity converts
   with int(), as the modifier builder does. *)
Definition tgts_modinfo (r : row) : list tgt :=
  flat_map (dict_tgts s_pyint gen_modinfo_rel) (modinfos r).

(* _get_tgts_attr_autocharge / _get_tgts_attr_buff *)
Definition tgts_attrvalue (ids : list Z) (tg : table * string) (r : row) : list tgt :=
  match colkey r "attributeID"%string with
  | Some a =>
    if memz a ids then
      match get r "value"%string with
      | Some v => tgt_of (fst tg) (snd tg) (pyint v)
      | None => []     (* row.get -> None -> int(None) -> TypeError -> continue *)
      end
    else []
  | None => []
  end.

(* _get_tgts_buff *)
Definition section (r : row) (sec : string) : list dict :=
  match get r sec with Some (VL l) => l | _ => [] end.
Definition tgts_buff (r : row) : list tgt :=
  flat_map (fun s => flat_map (dict_tgts s_refkey (snd s)) (section r (fst s))) gen_buff_sections.

(* everything one live row of table t asks for in _reestablish_broken_relationships *)
Definition row_tgts (t : table) (r : row) : list tgt :=
  tgts_relational t r ++
  match t with
  | T_dgmeffects => tgts_modinfo r
  | T_dgmtypeattribs =>
    tgts_attrvalue gen_autocharge_attrs gen_autocharge_tgt r ++
    tgts_attrvalue gen_buffattr_attrs gen_buffattr_tgt r
  | T_dbuffcollections => tgts_buff r
  | _ => []
  end.

Definition tgts (d : data) : list tgt :=
  flat_map (fun t => flat_map (row_tgts t) (d t)) gen_tables.

(* _reanimate_auxiliary_friends: rows of the auxiliary tables whose typeID is
   a live type *)
Definition aux_row_tgts (r : row) : list tgt :=
  match colkey r "typeID"%string with
  | Some z => map (fun t => (t, "typeID"%string, z)) gen_aux_tables
  | None => []
  end.
Definition aux_tgts (d : data) : list tgt := flat_map aux_row_tgts (d T_evetypes).

Definition tgt_hits (t : table) (r : row) (g : tgt) : bool :=
  match g with
  | (ttb, tc, z) => table_beq ttb t &&
                   match colkey r tc with Some z' => Z.eqb z z' | None => false end
  end.
Definition matches (tg : list tgt) (t : table) (r : row) : bool := existsb (tgt_hits t r) tg.

Record cstate := mkC { live : data; trash : data }.

(* _restore_data on each of the tables ts, for the rows selected by m *)
Definition restore_in (ts : list table) (m : table -> row -> bool) (st : cstate) : cstate :=
  mkC (fun t => if memt t ts then live st t ++ filter (m t) (trash st t) else live st t)
      (fun t => if memt t ts then filter (fun r => negb (m t r)) (trash st t) else trash st t).
Definition restored_any (ts : list table) (m : table -> row -> bool) (st : cstate) : bool :=
  existsb (fun t => existsb (m t) (trash st t)) ts.

(* one pass of the while loop; the flag is self._changed *)
Definition round (st : cstate) : cstate * bool :=
  let m1 := matches (aux_tgts (live st)) in
  let c1 := restored_any gen_aux_tables m1 st in
  let st1 := restore_in gen_aux_tables m1 st in
  let m2 := matches (tgts (live st1)) in
  let c2 := restored_any gen_tables m2 st1 in
  (restore_in gen_tables m2 st1, c1 || c2).

Fixpoint autoclean (fuel : nat) (st : cstate) : option cstate :=
  match fuel with
  | O => None
  | S f => let (st', ch) := round st in if ch then autoclean f st' else Some st'
  end.

(* _pump_evetypes *)
Definition strong_groups (d : data) : list Z :=
  gen_strong_groups ++
  flat_map (fun g => match colkey g "categoryID"%string with
                     | Some c => if memz c gen_strong_categories
                                 then match colkey g "groupID"%string with
                                      | Some i => [i] | None => [] end
                                 else []
                     | None => []
                     end) (d T_evegroups).

Definition strongp (d : data) (t : table) (r : row) : bool :=
  match t with
  | T_evetypes => match colkey r "groupID"%string with
                  | Some g => memz g (strong_groups d)
                  | None => false
                  end
  | _ => false
  end.

Definition kill_weak (d : data) : cstate :=
  mkC (fun t => filter (strongp d t) (d t))
      (fun t => filter (fun r => negb (strongp d t r)) (d t)).

Definition total (d : data) : nat := list_sum (map (fun t => List.length (d t)) gen_tables).

Definition clean_fuel (fuel : nat) (d : data) : option data :=
  option_map live (autoclean fuel (kill_weak d)).
Definition clean (d : data) : option data := clean_fuel (S (total d)) d.

(* ------------------------------------------------------------------ *)
(* ValidatorPreConv                                                    *)
(* ------------------------------------------------------------------ *)

Definition attr_value_ok (r : row) : bool :=
  match get r "value"%string with Some v => is_real v | None => false end.

Definition key_type (r : row) : option (list Z) :=
  match colkey r "typeID"%string with Some z => Some [z] | None => None end.

Definition key_default (r : row) : option (list Z) :=
  match get r "isDefault"%string with
  | Some v => if truthy v then key_type r else None
  | None => None
  end.

Definition set_default_false (r : row) : row :=
  mkRow (pos r) (map (fun fv => if String.eqb (fst fv) "isDefault"%string
                                then (fst fv, VS (SBool false)) else fv) (fields r)).

Definition fix_defaults (rows : list row) : list row :=
  map (fun rv => match snd rv with Repeat => set_default_false (fst rv) | _ => fst rv end)
      (scan key_default (sort_pos rows) []).

Definition key_rack (r : row) : option (list Z) :=
  match colkey r "effectID"%string with
  | Some e => if memz e gen_rack_effects then key_type r else None
  | None => None
  end.

Definition drop_racks (rows : list row) : list row :=
  flat_map (fun rv => match snd rv with Repeat => [] | _ => [fst rv] end)
           (scan key_rack (sort_pos rows) []).

Definition preconv (d : data) : outcome data :=
  if forallb has_pos (d T_dgmtypeeffects) then
    Built (upd (upd d T_dgmtypeattribs (filter attr_value_ok (d T_dgmtypeattribs)))
               T_dgmtypeeffects (drop_racks (fix_defaults (d T_dgmtypeeffects))))
  else Crash KeyError.     (* row['table_pos'] on a row without it *)

(* ------------------------------------------------------------------ *)
(* Converter: the built objects, as far as their references go         *)
(* ------------------------------------------------------------------ *)

Record btype := mkBType {
  bt_id : Z;
  bt_group : option value;            (* row.get('groupID') *)
  bt_category : option value;
  bt_attrs : list (Z * value);        (* attribute id -> value *)
  bt_effects : list Z;                (* ids of the built effects it carries *)
  bt_default : option Z;
  bt_skills : list (Z * value) }.     (* skill type id -> level *)

Record battr := mkBAttr { ba_id : Z; ba_args : list (string * option value) }.

Record beffect := mkBEffect {
  be_id : Z;
  be_args : list (string * option value);   (* constructor argument -> row.get(field) *)
  be_modrefs : list tgt }.                  (* ids named by modifierInfo *)

Record btemplate := mkBTpl {
  bb_id : Z; bb_filter : string; bb_extra : option scalar; bb_attr : scalar }.

Record built := mkBuilt {
  b_types : list btype; b_attrs : list battr;
  b_effects : list beffect; b_buffs : list btemplate }.

(* the fields the converter reads for the given constructor arguments *)
Definition ctor_field (ctor : list (string * string * string)) (arg : string) : option string :=
  match find (fun e => String.eqb (fst (fst e)) arg) ctor with
  | Some (_, f, _) => Some f
  | None => None
  end.

(* arguments of Effect() / Attribute() that hold attribute ids *)
Definition effect_ref_args : list string :=
  ["duration_attr_id"; "discharge_attr_id"; "range_attr_id"; "falloff_attr_id";
   "tracking_speed_attr_id"; "fitting_usage_chance_attr_id"; "resist_attr_id"]%string.
Definition attr_ref_args : list string := ["max_attr_id"%string].

Definition ref_fields (ctor : list (string * string * string)) (args : list string) : list string :=
  flat_map (fun a => match ctor_field ctor a with Some f => [f] | None => [] end) args.

Definition effect_ref_fields : list string := ref_fields gen_effect_ctor effect_ref_args.
Definition attr_ref_fields : list string := ref_fields gen_attr_ctor attr_ref_args.

Definition conv_attr (r : row) : list battr :=
  match colkey r "attributeID"%string with
  | Some a => [mkBAttr a
                 (flat_map (fun g => match ctor_field gen_attr_ctor g with
                                     | Some f => [(g, get r f)] | None => [] end)
                           attr_ref_args)]
  | None => []
  end.

Definition conv_effect (r : row) : list beffect :=
  match colkey r "effectID"%string with
  | Some e => [mkBEffect e
                 (flat_map (fun a => match ctor_field gen_effect_ctor a with
                                     | Some f => [(a, get r f)] | None => [] end)
                           effect_ref_args)
                 (tgts_modinfo r)]
  | None => []
  end.

Definition rows_of_type (tid : Z) (rows : list row) : list row :=
  filter (fun r => match colkey r "typeID"%string with Some z => Z.eqb z tid | None => false end) rows.

Fixpoint last_opt {A : Type} (l : list A) : option A :=
  match l with [] => None | [a] => Some a | _ :: r => last_opt r end.

Definition conv_type (d : data) (effect_ids : list Z) (r : row) : list btype :=
  match colkey r "typeID"%string with
  | Some tid =>
    let grp := get r "groupID"%string in
    let cat := match grp with
               | Some gv =>
                 match refkey gv with
                 | Some g =>
                   match last_opt (filter (fun x => match colkey x "groupID"%string with
                                                    | Some z => Z.eqb z g | None => false end)
                                          (d T_evegroups)) with
                   | Some grow => get grow "categoryID"%string
                   | None => None
                   end
                 | None => None
                 end
               | None => None
               end in
    let dte := rows_of_type tid (d T_dgmtypeeffects) in
    let effs := filter (fun e => memz e effect_ids)
                       (flat_map (fun x => match colkey x "effectID"%string with
                                           | Some e => [e] | None => [] end) dte) in
    let dflt := match last_opt (filter (fun x => match get x "isDefault"%string with
                                                 | Some v => is_true v | None => false end) dte) with
                | Some x => match colkey x "effectID"%string with
                            | Some e => if memz e effect_ids then Some e else None
                            | None => None
                            end
                | None => None
                end in
    [mkBType tid grp cat
       (flat_map (fun x => match colkey x "attributeID"%string, get x "value"%string with
                           | Some a, Some v => [(a, v)] | _, _ => [] end)
                 (rows_of_type tid (d T_dgmtypeattribs)))
       effs dflt
       (flat_map (fun x => match colkey x "skillTypeID"%string, get x "level"%string with
                           | Some s, Some v => [(s, v)] | _, _ => [] end)
                 (rows_of_type tid (d T_skillreqs)))]
  | None => []
  end.

(* WarfareBuffTemplateBuilder.build; None = KeyError *)
Definition named_ok (r : row) (field : string) (names : list string) : bool :=
  match get r field with
  | Some (VS (SStr s _)) => mems s names
  | _ => false
  end.

Definition conv_buff_section (r : row) (bid : Z) (e : string * string * option string * string)
  : option (list btemplate) :=
  match e with
  | (sec, filt, extra, af) =>
    fold_right
      (fun m acc =>
         match acc, assoc af m,
               (match extra with
                | Some ef => match assoc ef m with Some x => Some (Some x) | None => None end
                | None => Some None
                end) with
         | Some l, Some a, Some x =>
           if named_ok r gen_buff_operator_field gen_buff_operator_names &&
              named_ok r gen_buff_aggregate_field gen_buff_aggregate_names
           then Some (mkBTpl bid filt x a :: l) else None
         | _, _, _ => None
         end)
      (Some []) (section r sec)
  end.

Definition conv_buff (r : row) : option (list btemplate) :=
  match colkey r "buffID"%string with
  | Some bid =>
    fold_right (fun e acc => match acc, conv_buff_section r bid e with
                             | Some l, Some l' => Some (l' ++ l)
                             | _, _ => None
                             end) (Some []) gen_buff_tpl
  | None => Some []
  end.

Definition convert (d : data) : outcome built :=
  if forallb (fun r => match get r "level"%string with Some _ => true | None => false end)
             (d T_skillreqs) then
    let effects := flat_map conv_effect (d T_dgmeffects) in
    let eids := map be_id effects in
    match fold_right (fun r acc => match acc, conv_buff r with
                                   | Some l, Some l' => Some (l' ++ l)
                                   | _, _ => None
                                   end) (Some []) (d T_dbuffcollections) with
    | Some buffs =>
      Built (mkBuilt (flat_map (conv_type d eids) (d T_evetypes))
                     (flat_map conv_attr (d T_dgmattribs))
                     effects buffs)
    | None => Crash KeyError
    end
  else Crash KeyError.     (* row['level'] *)

(* ------------------------------------------------------------------ *)
(* EveObjBuilder.run                                                   *)
(* ------------------------------------------------------------------ *)

(* everything between loading and conversion, on the numbered rows; the
   result is what the converter sees *)
Definition pipeline (d0 : data) : outcome data :=
  if in_domain d0 then
    match clean (normalize (preclean d0)) with
    | Some d3 => preconv d3
    | None => OutOfFuel
    end
  else Crash OutOfDomain.

Definition final_data (rw : raw) : outcome data := pipeline (load rw).

Definition run (rw : raw) : outcome built :=
  match final_data rw with
  | Built d => convert d
  | Crash e => Crash e
  | OutOfFuel => OutOfFuel
  end.

(* the tables after cleaning (before the pre-conversion validation) *)
Definition cleaned (rw : raw) : option data := clean (normalize (preclean (load rw))).

(* The same pipeline with every set handed from one stage to the next in an
   arbitrary order (sh k): Python iterates the row sets in hash order. *)
Definition pipeline_sh (sh : nat -> data -> data) (d0 : data) : outcome data :=
  let d0' := sh 0%nat d0 in
  if in_domain d0' then
    match clean (sh 2%nat (normalize (sh 1%nat (preclean d0')))) with
    | Some d3 => preconv (sh 3%nat d3)
    | None => OutOfFuel
    end
  else Crash OutOfDomain.
