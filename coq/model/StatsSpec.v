(* C04 specification: every statistic recomputed from the CURRENT base world.
   Stateless: the set each register stands for is defined by a predicate over
   the items that are on the fit now; nothing here looks at a register or at a
   message. The spec carries its own constants (attribute / effect ids, class
   tests); Stats_p.v proves the generated tables equal them. *)
From Coq Require Import ZArith QArith List Bool.
From EosV Require Import lib.AList gen.T_eos gen.T_stats model.World model.Status model.Calc model.Engine model.Ops model.Stats.
Import ListNotations.
Open Scope Z_scope.

(* items that are on fit f now (directly, as charges or as autocharges) *)
Definition all_item_ids (w : world) : list nat := dedup neqb (map fst (w_items w)).
Definition on_fit (w : world) (f : nat) (i : nat) : bool := onat_eqb (item_fit w i) (Some f).
Definition fit_item_ids (w : world) (f : nat) : list nat := filter (on_fit w f) (all_item_ids w).

Definition sp_loaded (it : item) : bool := match i_loaded it with Some _ => true | None => false end.
Definition sp_running (it : item) (e : Z) : bool := mem zeqb (i_running it) e.
Definition sp_tattr (w : world) (it : item) (a : Z) : bool := al_mem zeqb (item_type_attrs w it) a.
Definition sp_tattr_truthy (w : world) (it : item) (a : Z) : bool :=
  match al_get zeqb (item_type_attrs w it) a with Some v => negb (Qeq_bool v 0) | None => false end.
Definition sp_state_ge (w : world) (i : nat) (s : Z) : bool :=
  match item_state w i with Some x => s <=? x | None => false end.
Definition sp_drone (it : item) : bool := icls_eqb (i_cls it) CDrone.
Definition sp_fighter (it : item) : bool := icls_eqb (i_cls it) CFighter.

(* the defining predicate of each item-set register *)
Definition spec_pred (r : regid) (w : world) (i : nat) (it : item) : bool :=
  match r with
  | RegCpu => sp_running it 16 && sp_tattr w it 50                 (* online effect, cpu *)
  | RegPowergrid => sp_running it 16 && sp_tattr w it 30           (* online effect, power *)
  | RegCalibration => sp_running it 2663 && sp_tattr w it 1153     (* rigSlot effect, upgradeCost *)
  | RegDronebayVolume => sp_drone it && sp_loaded it && sp_tattr w it 161              (* volume *)
  | RegDroneBandwidth => sp_drone it && sp_loaded it && sp_state_ge w i 2 && sp_tattr w it 1272
  | RegTurretSlot => sp_running it 42                              (* turretFitted *)
  | RegLauncherSlot => sp_running it 40                            (* launcherFitted *)
  | RegLaunchedDrone => sp_drone it && sp_state_ge w i 2           (* in space: state >= online *)
  | RegFighterSquadSupport => sp_fighter it && sp_loaded it && sp_tattr_truthy w it 2213
  | RegFighterSquadLight => sp_fighter it && sp_loaded it && sp_tattr_truthy w it 2212
  | RegFighterSquadHeavy => sp_fighter it && sp_loaded it && sp_tattr_truthy w it 2214
  end.

Definition ALL_REGIDS : list regid :=
  [RegCpu; RegPowergrid; RegCalibration; RegDronebayVolume; RegDroneBandwidth; RegTurretSlot;
   RegLauncherSlot; RegLaunchedDrone; RegFighterSquadSupport; RegFighterSquadLight; RegFighterSquadHeavy].

Definition spec_members (r : regid) (w : world) (f : nat) : list nat :=
  filter (fun i => match get_item w i with Some it => spec_pred r w i it | None => false end)
         (fit_item_ids w f).

(* (item, effect) pairs: running effects of the given class kind *)
Definition spec_pairs (k : ekind) (w : world) (f : nat) : list (nat * Z) :=
  flat_map (fun i => match get_item w i with
                     | Some it => map (fun e => (i, e))
                                      (filter (fun e => match al_get zeqb EFFECT_CLASS e with
                                                        | Some c => ekind_eqb (class_kind c) k
                                                        | None => false end)
                                              (dedup zeqb (i_running it)))
                     | None => []
                     end) (fit_item_ids w f).

(* what the 14 registers of fit f stand for, from scratch *)
Definition spec_fregs (w : world) (f : nat) : fregs :=
  mkFregs (spec_pairs KDmgDealer w f) (spec_pairs KLocalArmor w f) (spec_pairs KLocalShield w f)
          (map (fun r => (r, spec_members r w f)) ALL_REGIDS) false.

Definition spec_regs (w : world) : regs := map (fun ff : nat * fit => (fst ff, spec_fregs w (fst ff))) (w_fits w).

(* the spec's own descriptors of how each register-backed number is obtained
   (which attribute is summed / read, from whom, rounded or not) *)
Definition SPEC_SIMPLE_REGS : list (regid * regdesc) := [
  (RegCpu, mkRegDesc MkEffectsStarted MkEffectsStopped [CondIdIn 16; CondTypeAttrIn 50] [CondIdIn 16] (Some 50) 48 true HShip);
  (RegPowergrid, mkRegDesc MkEffectsStarted MkEffectsStopped [CondIdIn 16; CondTypeAttrIn 30] [CondIdIn 16] (Some 30) 11 true HShip);
  (RegCalibration, mkRegDesc MkEffectsStarted MkEffectsStopped [CondIdIn 2663; CondTypeAttrIn 1153] [CondIdIn 2663] (Some 1153) 1132 false HShip);
  (RegDronebayVolume, mkRegDesc MkItemLoaded MkItemUnloaded [CondClass IsDrone; CondTypeAttrIn 161] [CondClass IsDrone] (Some 161) 283 false HShip);
  (RegDroneBandwidth, mkRegDesc MkStatesActivatedLoaded MkStatesDeactivatedLoaded [CondClass IsDrone; CondIdIn 2; CondTypeAttrIn 1272] [CondClass IsDrone; CondIdIn 2] (Some 1272) 1271 false HShip);
  (RegTurretSlot, mkRegDesc MkEffectsStarted MkEffectsStopped [CondIdIn 42] [CondIdIn 42] None 102 false HShip);
  (RegLauncherSlot, mkRegDesc MkEffectsStarted MkEffectsStopped [CondIdIn 40] [CondIdIn 40] None 101 false HShip);
  (RegLaunchedDrone, mkRegDesc MkStatesActivated MkStatesDeactivated [CondClass IsDrone; CondIdIn 2] [CondClass IsDrone; CondIdIn 2] None 352 false HCharacter);
  (RegFighterSquadSupport, mkRegDesc MkItemLoaded MkItemUnloaded [CondClass IsFighterSquad; CondTypeAttrTruthy 2213] [] None 2218 false HShip);
  (RegFighterSquadLight, mkRegDesc MkItemLoaded MkItemUnloaded [CondClass IsFighterSquad; CondTypeAttrTruthy 2212] [] None 2217 false HShip);
  (RegFighterSquadHeavy, mkRegDesc MkItemLoaded MkItemUnloaded [CondClass IsFighterSquad; CondTypeAttrTruthy 2214] [] None 2219 false HShip)].
Definition SPEC_DD_DESC : pairdesc := mkPairDesc MkEffectsStarted MkEffectsStopped [KDmgDealer] false None.
Definition SPEC_AREP_DESC : pairdesc := mkPairDesc MkEffectsStarted MkEffectsStopped [KLocalArmor] true (Some KRemoteArmor).
Definition SPEC_SREP_DESC : pairdesc := mkPairDesc MkEffectsStarted MkEffectsStopped [KLocalShield] true (Some KRemoteShield).
Definition SPEC_SLOT_ATTRS : list Z := [14; 13; 12; 1137; 1367; 2216].   (* hi, med, low, rig, subsystem, fighter tubes *)

(* effect id -> class kind, as the property understands them (damage dealers,
   local / remote armor and shield repairers) *)
Definition SPEC_EFFECT_KIND : list (Z * ekind) := [
  (4, KLocalShield); (10, KDmgDealer); (27, KLocalArmor); (34, KDmgDealer); (38, KDmgDealer); (101, KDmgDealer);
  (4489, KDmgDealer); (4490, KDmgDealer); (4491, KDmgDealer); (4492, KDmgDealer); (4936, KLocalShield);
  (5275, KLocalArmor); (6186, KRemoteShield); (6188, KRemoteArmor); (6431, KDmgDealer); (6465, KDmgDealer);
  (6485, KDmgDealer); (6554, KDmgDealer); (6651, KRemoteArmor); (6652, KRemoteShield); (6687, KRemoteArmor);
  (6688, KRemoteShield); (6995, KDmgDealer); (7166, KRemoteArmor); (8037, KDmgDealer)].

(* the statistic recomputed from scratch: the aggregation code of StatService
   applied to the from-scratch sets *)
Definition spec_read (av : nat -> Z -> option Q) (w : world) (d : derived) (dur : list (Z * option Z))
           (dp : dprofs) (r : sread) : R sval :=
  stat_read av w d dur (spec_regs w) dp r.

(* equality of results: same outcome class; numbers equal in Q *)
Definition prof_eq (a b : prof) : Prop :=
  (p_em a == p_em b /\ p_th a == p_th b /\ p_ki a == p_ki b /\ p_ex a == p_ex b)%Q.
Definition hp_eq (a b : hp3) : Prop :=
  (h_hull a == h_hull b /\ h_armor a == h_armor b /\ h_shield a == h_shield b)%Q.
Definition res_eq (a b : res3) : Prop :=
  prof_eq (r_hull a) (r_hull b) /\ prof_eq (r_armor a) (r_armor b) /\ prof_eq (r_shield a) (r_shield b).
Definition sval_eq (a b : sval) : Prop :=
  match a, b with
  | VNum x, VNum y => (x == y)%Q
  | VInt x, VInt y => x = y
  | VSlots u t, VSlots u' t' => u = u' /\ t = t'
  | VDmg p, VDmg p' => prof_eq p p'
  | VHp h, VHp h' => hp_eq h h'
  | VRes r, VRes r' => res_eq r r'
  | _, _ => False
  end.
Definition req (a b : R sval) : Prop :=
  match a, b with
  | Ok x, Ok y => sval_eq x y
  | Ex _, Ex _ => True          (* both raise (which member's exception surfaces depends on set order) *)
  | _, _ => False
  end.

(* a register agrees with the from-scratch set *)
Definition same_set {A} (l m : list A) : Prop := NoDup l /\ NoDup m /\ forall x, In x l <-> In x m.
Definition regs_exact (w : world) (rg : regs) (f : nat) : Prop :=
  let g := regs_get rg f in
  let s := spec_fregs w f in
  same_set (g_dd g) (g_dd s) /\ same_set (g_arep g) (g_arep s) /\ same_set (g_srep g) (g_srep s)
  /\ (forall r, same_set (g_get g r) (g_get s r)) /\ g_err g = false.
