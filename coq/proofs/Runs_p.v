(* C05 over histories: in every world reached without an internal error, the
   running set of every loaded item that sits directly in a fit container
   (everything except charges and autocharges, whose state is their
   container's) is exactly the set the decision table yields for the item's
   current state, run modes and type; an unloaded item runs nothing. *)
From Coq Require Import ZArith QArith List Bool Lia.
From EosV Require Import lib.AList gen.T_eos model.World model.Status model.Calc model.Engine model.Ops
     model.Wf proofs.AList_p proofs.Rack_p proofs.Frame_p proofs.Containers_p proofs.Status_p proofs.Owner_p proofs.Cinv_p.
Import ListNotations.

Opaque add_item remove_item load unload.

Definition direct (it : item) : Prop := cr_state (class_row_of (i_cls it)) <> StContainer.

Definition running_of (statuses : list (Z * bool)) : list Z := map fst (filter (fun p => snd p) statuses).

(* what the table says should run on a directly held item *)
Definition expected (w : world) (it : item) : option (list Z) :=
  match resolve_effects (i_state it) it (item_effects w it)
                        (match item_type w it with Some t => t_default t | None => None end) None with
  | Some statuses => Some (running_of statuses)
  | None => None
  end.

Definition good_it (w : world) (it : item) : Prop :=
  direct it ->
  (i_loaded it = None -> i_running it = []) /\
  (i_loaded it <> None -> fitcont_of it <> None) /\
  (i_cont it = None \/ fitcont_of it <> None) /\
  (forall s, i_loaded it = Some s -> get_src w s <> None) /\
  (i_loaded it <> None -> forall r, expected w it = Some r -> set_equiv (i_running it) r).

(* every item outside the exception list X is good *)
Definition RT (X : list nat) (w : world) : Prop :=
  forall j it, ~ In j X -> get_item w j = Some it -> good_it w it.

(* the fields good_it reads *)
Definition ek (it : item) := (i_cls it, i_tid it, i_state it, i_cont it, i_loaded it, i_modes it).
Definition gk (it : item) := (ek it, i_running it).

Lemma expected_ext w w' it it' :
  w_srcs w' = w_srcs w -> ek it' = ek it -> expected w' it' = expected w it.
Proof.
  intros Hs Hk. unfold ek in Hk.
  assert (Ecls : i_cls it' = i_cls it) by congruence.
  assert (Etid : i_tid it' = i_tid it) by congruence.
  assert (Est : i_state it' = i_state it) by congruence.
  assert (Eld : i_loaded it' = i_loaded it) by congruence.
  assert (Emo : i_modes it' = i_modes it) by congruence.
  assert (Ety : item_type w' it' = item_type w it).
  { unfold item_type, get_src. now rewrite Eld, Etid, Hs. }
  assert (Eef : item_effects w' it' = item_effects w it).
  { unfold item_effects, item_universe, get_src. now rewrite Ety, Eld, Hs. }
  unfold expected. rewrite Ety, Eef, Est.
  assert (Er : forall st effs d, resolve_effects st it' effs d None = resolve_effects st it effs d None).
  { intros st effs d. unfold resolve_effects, effect_mode. now rewrite Emo. }
  now rewrite Er.
Qed.

Lemma good_ext w w' it it' :
  w_srcs w' = w_srcs w -> gk it' = gk it -> good_it w it -> good_it w' it'.
Proof.
  intros Hs Hk G D. unfold gk in Hk.
  assert (Hek : ek it' = ek it) by congruence.
  pose proof (expected_ext w w' it it' Hs Hek) as Ee. unfold ek in Hk.
  assert (Ecls : i_cls it' = i_cls it) by congruence.
  assert (Ecn : i_cont it' = i_cont it) by congruence.
  assert (Eld : i_loaded it' = i_loaded it) by congruence.
  assert (Erun : i_running it' = i_running it) by congruence.
  assert (Efc : fitcont_of it' = fitcont_of it) by (now apply fitcont_of_cont).
  assert (D0 : direct it) by (unfold direct in *; now rewrite <- Ecls).
  destruct (G D0) as (C1 & C2 & C3 & C4 & C5).
  rewrite Eld, Erun, Efc, Ecn, Ee. repeat split; auto.
  intros s Hl. unfold get_src. rewrite Hs. now apply C4.
Qed.

(* w' differs from w at most at item i (and not in the sources) *)
Definition upd1 (w w' : world) (i : nat) : Prop :=
  w_srcs w' = w_srcs w /\ forall j, j <> i -> get_item w' j = get_item w j.

Lemma upd1_refl w i : upd1 w w i. Proof. split; auto. Qed.
Lemma upd1_trans a b c i : upd1 a b i -> upd1 b c i -> upd1 a c i.
Proof. intros (S1 & G1) (S2 & G2). split; [congruence|]. intros j N. now rewrite G2, G1. Qed.
Lemma upd1_fail w e i : upd1 w (fail w e) i.
Proof. split; [unfold fail; destruct (w_err w); reflexivity|]. intros j _. apply get_fail. Qed.
Lemma upd1_put w i it : upd1 w (put_item w i it) i.
Proof. split; [reflexivity|]. intros j N. now apply get_put_item_other. Qed.
Lemma upd1_upd w i g : upd1 w (upd_item w i g) i.
Proof. unfold upd_item. destruct (get_item w i); [apply upd1_put|apply upd1_fail]. Qed.

Lemma RT_upd1 X w w' i : upd1 w w' i -> In i X -> RT X w -> RT X w'.
Proof.
  intros (Hs & Hg) Hi R j it Hj G. assert (N : j <> i) by (intros ->; contradiction).
  rewrite Hg in G by exact N. eapply good_ext; [exact Hs|reflexivity|]. eapply R; eauto.
Qed.

Lemma RT_weaken X Y w : (forall j, In j X -> In j Y) -> RT X w -> RT Y w.
Proof. intros H R j it Hj G. eapply R; eauto. Qed.

Lemma RT_restore X w i :
  RT (i :: X) w -> (forall it, get_item w i = Some it -> good_it w it) -> RT X w.
Proof.
  intros R H j it Hj G. destruct (Nat.eq_dec j i) as [->|N]; [now apply H|].
  eapply R; eauto. intros [E|E]; [congruence|contradiction].
Qed.

(* an update of item i that keeps the fields good_it reads *)
Lemma RT_put_same X w i it it' :
  get_item w i = Some it -> gk it' = gk it -> RT X w -> RT X (put_item w i it').
Proof.
  intros Hi Hk R j x Hj G. destruct (Nat.eq_dec j i) as [->|N].
  - rewrite get_put_item_same' in G. injection G as <-. eapply good_ext; [reflexivity|exact Hk|]. eapply R; eauto.
  - rewrite get_put_item_other in G by exact N. eapply good_ext; [reflexivity|reflexivity|]. eapply R; eauto.
Qed.

(* errors are sticky *)
Lemma err_put w i it : w_err (put_item w i it) = w_err w. Proof. reflexivity. Qed.
Lemma err_fail_none w e : w_err (fail w e) = None -> False.
Proof. intros H. exact (err_fail w e H). Qed.
Lemma err_upd w i g : w_err (upd_item w i g) = None -> w_err w = None.
Proof. unfold upd_item. destruct (get_item w i); [auto|intros H; destruct (err_fail_none _ _ H)]. Qed.

(* ------------------------------------------------------------------ *)
(* the message helpers change nothing but running sets                 *)

Lemma set_running_id it : it_set_running it (i_running it) = it.
Proof. destruct it; reflexivity. Qed.
Lemma set_running_twice it a b : it_set_running (it_set_running it a) b = it_set_running it b.
Proof. reflexivity. Qed.

Definition run_only (w w' : world) (i : nat) : Prop :=
  upd1 w w' i /\
  (forall it, get_item w i = Some it -> exists r, get_item w' i = Some (it_set_running it r)) /\
  (get_item w i = None -> get_item w' i = None).

Lemma run_only_refl w i : run_only w w i.
Proof.
  split; [apply upd1_refl|split; [|auto]]. intros it H. exists (i_running it). now rewrite set_running_id.
Qed.
Lemma run_only_trans a b c i : run_only a b i -> run_only b c i -> run_only a c i.
Proof.
  intros (U1 & R1 & N1) (U2 & R2 & N2). split; [eapply upd1_trans; eauto|split; [|auto]].
  intros it H. destruct (R1 it H) as (r1 & H1). destruct (R2 _ H1) as (r2 & H2).
  exists r2. now rewrite H2.
Qed.
Lemma run_only_fail w e i : run_only w (fail w e) i.
Proof.
  split; [apply upd1_fail|split; [|now rewrite get_fail]].
  intros it H. exists (i_running it). now rewrite get_fail, set_running_id.
Qed.
Lemma run_only_put w i it r : get_item w i = Some it -> run_only w (put_item w i (it_set_running it r)) i.
Proof.
  intros H. split; [apply upd1_put|split; [|congruence]]. intros it0 H0. rewrite H in H0. injection H0 as <-.
  exists r. apply get_put_item_same'.
Qed.

Lemma eu_run_only w i : run_only w (fst (effects_update w i)) i.
Proof.
  unfold effects_update.
  destruct (get_item w i) as [it|] eqn:Hi; [|apply run_only_fail].
  destruct (item_state w i) as [st|]; [|apply run_only_fail].
  destruct (resolve_effects _ _ _ _ _) as [statuses|]; [|apply run_only_fail].
  match goal with |- context[let (_, _) := ?X in _] => set (X0 := X) end.
  assert (HX : run_only w (fst X0) i).
  { subst X0. destruct (set_diff zeqb _ (i_running it)); [apply run_only_refl|].
    destruct (effects_tgts _ _ _); cbn [fst].
    - now apply run_only_put.
    - eapply run_only_trans; [|apply run_only_fail]. now apply run_only_put. }
  destruct X0 as [w0 m1]. cbn [fst] in HX.
  destruct (set_diff zeqb (i_running it) _); [exact HX|].
  destruct (get_item w0 i) as [it2|] eqn:H2; [|cbn [fst]; eapply run_only_trans; [exact HX|apply run_only_fail]].
  destruct (effects_tgts _ _ _); cbn [fst].
  - eapply run_only_trans; [exact HX|]. now apply run_only_put.
  - eapply run_only_trans; [exact HX|apply run_only_fail].
Qed.

Lemma unloaded_run_only w i : run_only w (fst (item_unloaded_msgs w i)) i.
Proof.
  unfold item_unloaded_msgs. destruct (get_item w i) as [it|] eqn:Hi; [|apply run_only_fail].
  match goal with |- context[let (_, _) := ?X in _] => set (X0 := X) end.
  assert (HX : run_only w (fst X0) i).
  { subst X0. destruct (i_running it); [apply run_only_refl|].
    destruct (effects_tgts _ _ _); cbn [fst]; [now apply run_only_put|apply run_only_fail]. }
  destruct X0 as [w0 m1]. cbn [fst] in HX.
  destruct (item_state w0 i); cbn [fst]; [exact HX|eapply run_only_trans; [exact HX|apply run_only_fail]].
Qed.

(* a world transformer never clears an error *)
Definition sticky (w w' : world) : Prop := w_err w' = None -> w_err w = None.
Lemma sticky_refl w : sticky w w. Proof. intros H; exact H. Qed.
Lemma sticky_trans a b c : sticky a b -> sticky b c -> sticky a c.
Proof. intros H1 H2 H. auto. Qed.
Lemma sticky_fail w e : sticky w (fail w e).
Proof. intros H. destruct (err_fail_none _ _ H). Qed.
Lemma sticky_put w i it : sticky w (put_item w i it). Proof. intros H; exact H. Qed.
Lemma sticky_upd w i g : sticky w (upd_item w i g). Proof. intros H. now apply err_upd in H. Qed.

Lemma eu_sticky w i : sticky w (fst (effects_update w i)).
Proof.
  unfold effects_update.
  destruct (get_item w i) as [it|] eqn:Hi; [|apply sticky_fail].
  destruct (item_state w i) as [st|]; [|apply sticky_fail].
  destruct (resolve_effects _ _ _ _ _) as [statuses|]; [|apply sticky_fail].
  match goal with |- context[let (_, _) := ?X in _] => set (X0 := X) end.
  assert (HX : sticky w (fst X0)).
  { subst X0. destruct (set_diff zeqb _ (i_running it)); [apply sticky_refl|].
    destruct (effects_tgts _ _ _); cbn [fst]; [apply sticky_put|].
    eapply sticky_trans; [apply sticky_put|apply sticky_fail]. }
  destruct X0 as [w0 m1]. cbn [fst] in HX.
  destruct (set_diff zeqb (i_running it) _); [exact HX|].
  destruct (get_item w0 i) as [it2|]; [|cbn [fst]; eapply sticky_trans; [exact HX|apply sticky_fail]].
  destruct (effects_tgts _ _ _); cbn [fst].
  - eapply sticky_trans; [exact HX|apply sticky_put].
  - eapply sticky_trans; [exact HX|apply sticky_fail].
Qed.

Lemma unloaded_sticky w i : sticky w (fst (item_unloaded_msgs w i)).
Proof.
  unfold item_unloaded_msgs. destruct (get_item w i) as [it|]; [|apply sticky_fail].
  match goal with |- context[let (_, _) := ?X in _] => set (X0 := X) end.
  assert (HX : sticky w (fst X0)).
  { subst X0. destruct (i_running it); [apply sticky_refl|].
    destruct (effects_tgts _ _ _); cbn [fst]; [apply sticky_put|apply sticky_fail]. }
  destruct X0 as [w0 m1]. cbn [fst] in HX.
  destruct (item_state w0 i); cbn [fst]; [exact HX|eapply sticky_trans; [exact HX|apply sticky_fail]].
Qed.

(* ------------------------------------------------------------------ *)
(* effects_update establishes the table for its item                   *)

Lemma item_state_direct w i it : get_item w i = Some it -> direct it -> item_state w i = Some (i_state it).
Proof.
  intros Hi D. unfold item_state. cbn [item_state_n]. rewrite Hi. unfold direct in D.
  destruct (cr_state (class_row_of (i_cls it))); try reflexivity. congruence.
Qed.

Lemma set_equiv_nil l : set_equiv l [] -> l = [].
Proof.
  destruct l as [|a r]; [reflexivity|]. intros H. specialize (H a). simpl in H.
  unfold zeqb in H. rewrite Z.eqb_refl in H. discriminate.
Qed.

Lemma expected_unloaded w it : i_loaded it = None -> expected w it = Some [].
Proof.
  intros H. unfold expected, item_effects, item_type, item_universe. rewrite H. reflexivity.
Qed.

Lemma ek_set_running it r : ek (it_set_running it r) = ek it.
Proof. reflexivity. Qed.

Lemma expected_set_running w it r : expected w (it_set_running it r) = expected w it.
Proof. reflexivity. Qed.

(* the static part of good_it: everything that does not mention the running set *)
Definition sgood (w : world) (it : item) : Prop :=
  (i_loaded it <> None -> fitcont_of it <> None) /\
  (i_cont it = None \/ fitcont_of it <> None) /\
  (forall s, i_loaded it = Some s -> get_src w s <> None).

Lemma eu_good w i it w' m :
  get_item w i = Some it -> effects_update w i = (w', m) -> w_err w' = None ->
  (direct it -> sgood w it) ->
  forall it', get_item w' i = Some it' -> good_it w' it'.
Proof.
  intros Hi E He Hs it' Hi'.
  pose proof (eu_run_only w i) as (U & R & _). rewrite E in U, R. cbn [fst] in U, R.
  destruct (R it Hi) as (r & Hr). rewrite Hr in Hi'. injection Hi' as <-.
  intros D. change (direct it) in D. destruct (Hs D) as (C2 & C3 & C4).
  pose proof (item_state_direct w i it Hi D) as Hst.
  destruct (resolve_effects (i_state it) it (item_effects w it)
              (match item_type w it with Some t => t_default t | None => None end) None) as [statuses|] eqn:Hres.
  - destruct (effects_update_sets_table w i it (i_state it) statuses w' m Hi Hst Hres E He) as (it2 & H2 & Heq).
    rewrite Hr in H2. injection H2 as <-. cbn [i_running it_set_running] in Heq.
    assert (Eexp : expected w' (it_set_running it r) = Some (running_of statuses)).
    { rewrite (expected_ext w w' it (it_set_running it r)); [|apply U|].
      - unfold expected. now rewrite Hres.
      - (* expected ignores the running set *) reflexivity. }
    split; [|split; [exact C2|split; [exact C3|split]]].
    + intros Hl. change (i_loaded it = None) in Hl. cbn [i_running it_set_running].
      rewrite (expected_set_running w' it r) in Eexp.
      assert (E0 : expected w' it = Some []) by now apply expected_unloaded.
      rewrite E0 in Eexp. injection Eexp as E1. unfold running_of in E1. rewrite <- E1 in Heq. now apply set_equiv_nil.
    + intros s Hl. unfold get_src. destruct U as (Us & _). rewrite Us. now apply C4.
    + intros _ r0 Hr0. rewrite Eexp in Hr0. injection Hr0 as <-. exact Heq.
  - exfalso. unfold effects_update in E. rewrite Hi, Hst, Hres in E. injection E as <- _.
    exact (err_fail_none _ _ He).
Qed.

(* ------------------------------------------------------------------ *)
(* closure: a reflexive, transitive relation on worlds that holds for   *)
(* the primitive updates holds for load / add / unload / remove         *)

Section Closure.
  Variable Rel : world -> world -> Prop.
  Hypothesis Rrefl : forall w, Rel w w.
  Hypothesis Rtrans : forall a b c, Rel a b -> Rel b c -> Rel a c.
  Hypothesis Rfail : forall w e, Rel w (fail w e).
  Hypothesis Rput : forall w i it, Rel w (put_item w i it).
  Hypothesis Rnext : forall w n, Rel w (set_next w n).

  Lemma C_upd w i g : Rel w (upd_item w i g).
  Proof. unfold upd_item. destruct (get_item w i); auto. Qed.

  Lemma C_effects_update w i : Rel w (fst (effects_update w i)).
  Proof.
    unfold effects_update.
    destruct (get_item w i) as [it|]; [|apply Rfail].
    destruct (item_state w i) as [st|]; [|apply Rfail].
    destruct (resolve_effects _ _ _ _ _) as [statuses|]; [|apply Rfail].
    match goal with |- context[let (_, _) := ?X in _] => set (X0 := X) end.
    assert (HX : Rel w (fst X0)).
    { subst X0. destruct (set_diff zeqb _ (i_running it)); [apply Rrefl|].
      destruct (effects_tgts _ _ _); cbn [fst]; [apply Rput|].
      eapply Rtrans; [apply Rput|apply Rfail]. }
    destruct X0 as [w0 m1]. cbn [fst] in HX.
    destruct (set_diff zeqb (i_running it) _); [exact HX|].
    destruct (get_item w0 i) as [it2|]; [|cbn [fst]; eapply Rtrans; [exact HX|apply Rfail]].
    destruct (effects_tgts _ _ _); cbn [fst].
    - eapply Rtrans; [exact HX|apply Rput].
    - eapply Rtrans; [exact HX|apply Rfail].
  Qed.
  Lemma C_added w i : Rel w (fst (item_added_msgs w i)).
  Proof. unfold item_added_msgs. destruct (item_state w i); cbn [fst]; auto. Qed.
  Lemma C_removed w i : Rel w (fst (item_removed_msgs w i)).
  Proof. unfold item_removed_msgs. destruct (item_state w i); cbn [fst]; auto. Qed.
  Lemma C_loaded w i : Rel w (fst (item_loaded_msgs w i)).
  Proof.
    unfold item_loaded_msgs. destruct (item_state w i); [|cbn [fst]; auto].
    pose proof (C_effects_update w i) as H. destruct (effects_update w i). exact H.
  Qed.
  Lemma C_unloaded w i : Rel w (fst (item_unloaded_msgs w i)).
  Proof.
    unfold item_unloaded_msgs. destruct (get_item w i) as [it|]; [|apply Rfail].
    match goal with |- context[let (_, _) := ?X in _] => set (X0 := X) end.
    assert (HX : Rel w (fst X0)).
    { subst X0. destruct (i_running it); [apply Rrefl|].
      destruct (effects_tgts _ _ _); cbn [fst]; auto. }
    destruct X0 as [w0 m1]. cbn [fst] in HX.
    destruct (item_state w0 i); cbn [fst]; [exact HX|eapply Rtrans; [exact HX|apply Rfail]].
  Qed.
  Lemma C_state_update w i a b : Rel w (fst (state_update_msgs w i a b)).
  Proof.
    unfold state_update_msgs. destruct (is_loaded w i); [|apply Rrefl].
    pose proof (C_effects_update w i) as H. destruct (effects_update w i). exact H.
  Qed.

  Lemma C_lift (s : st) g : (forall w, Rel w (g w)) -> Rel (fst s) (fst (lift s g)).
  Proof. intros H. unfold lift. cbn [fst]. apply H. Qed.
  Lemma C_with_msgs (s : st) f g : (forall w, Rel w (fst (g w))) -> Rel (fst s) (fst (with_msgs s f g)).
  Proof. intros H. unfold with_msgs. specialize (H (fst s)). destruct (g (fst s)). exact H. Qed.
  Lemma C_fold {A} (f : st -> A -> st) l :
    (forall s x, Rel (fst s) (fst (f s x))) -> forall s, Rel (fst s) (fst (fold_left f l s)).
  Proof.
    intros H. induction l as [|x r IH]; intros s; simpl; [apply Rrefl|].
    eapply Rtrans; [apply H|apply IH].
  Qed.

  Lemma C_load_add n :
    (forall s i, Rel (fst s) (fst (load n s i))) /\
    (forall s i p, Rel (fst s) (fst (add_item n s i p))).
  Proof.
    induction n as [|n [IHl IHa]]; split; intros.
    - simpl. apply Rfail.
    - simpl. apply Rfail.
    - cbn [load].
      destruct (get_item (fst s) i) as [it|]; [|apply C_lift; intros; apply Rfail].
      destruct (item_fit (fst s) i) as [f|]; [|apply Rrefl].
      destruct (fit_source_id (fst s) f) as [src|]; [|apply Rrefl].
      destruct (match get_src (fst s) src with Some u => get_type u (i_tid it) | None => None end) as [t|];
        [|apply Rrefl].
      set (s1 := lift s _). set (s2 := with_msgs s1 f _).
      assert (E2 : Rel (fst s) (fst s2)).
      { eapply Rtrans; [apply (C_lift s); intros; apply Rput|]. apply C_with_msgs. intros; apply C_loaded. }
      destruct (get_item (fst s2) i) as [it2|];
        [|eapply Rtrans; [exact E2|apply C_lift; intros; apply Rfail]].
      eapply Rtrans; [exact E2|]. apply C_fold.
      intros s' ee. destruct (e_autocharge_attr (snd ee)); [|apply Rrefl].
      destruct (al_get zeqb (t_attrs t) z); [|apply Rrefl].
      eapply Rtrans; [|apply IHa]. apply C_lift. intros w.
      eapply Rtrans; [apply Rnext|]. eapply Rtrans; [apply Rput|apply C_upd].
    - cbn [add_item].
      set (s1 := lift s _).
      assert (E1 : Rel (fst s) (fst s1)) by (apply C_lift; intros; apply C_upd).
      destruct (item_fit (fst s1) i) as [f|]; [|exact E1].
      set (one := fun s0 sub => load n (with_msgs s0 f (fun w => item_added_msgs w sub)) sub).
      assert (Hone : forall s0 sub, Rel (fst s0) (fst (one s0 sub))).
      { intros. unfold one. eapply Rtrans; [|apply IHl]. apply C_with_msgs. intros; apply C_added. }
      change (load n (with_msgs s1 f (fun w : world => item_added_msgs w i)) i) with (one s1 i).
      eapply Rtrans; [exact E1|]. eapply Rtrans; [apply Hone|].
      destruct (get_item (fst (one s1 i)) i).
      + apply C_fold. exact Hone.
      + apply C_lift. intros; apply Rfail.
  Qed.

  Lemma C_unload_remove n :
    (forall s i, Rel (fst s) (fst (unload n s i))) /\
    (forall s i, Rel (fst s) (fst (remove_item n s i))).
  Proof.
    induction n as [|n [IHu IHr]]; split; intros.
    - simpl. apply Rfail.
    - simpl. apply Rfail.
    - cbn [unload].
      destruct (get_item (fst s) i) as [it|]; [|apply C_lift; intros; apply Rfail].
      set (s1 := match item_fit (fst s) i, i_loaded it with
                 | Some f, Some _ => with_msgs s f (fun w => item_unloaded_msgs w i)
                 | _, _ => s end).
      assert (E1 : Rel (fst s) (fst s1)).
      { subst s1. destruct (item_fit (fst s) i), (i_loaded it); try apply Rrefl.
        apply C_with_msgs. intros; apply C_unloaded. }
      eapply Rtrans; [|apply C_lift; intros; apply C_upd].
      cbn [fst].
      destruct (get_item (fst s1) i) as [it1|].
      + eapply Rtrans; [|apply C_lift; intros; apply C_upd].
        eapply Rtrans; [exact E1|].
        exact (C_fold (fun s0 (ea : Z * nat) => remove_item n s0 (snd ea)) (i_autos it1)
                      (fun s0 x => IHr s0 (snd x)) (fst s1, snd s1 ++ [EvClear i])).
      + eapply Rtrans; [exact E1|]. apply (C_lift (fst s1, snd s1 ++ [EvClear i])). intros; apply Rfail.
    - cbn [remove_item].
      set (one := fun s0 sub =>
                    match item_fit (fst s) i with
                    | Some f => with_msgs (unload n s0 sub) f (fun w => item_removed_msgs w sub)
                    | None => unload n s0 sub end).
      assert (Hone : forall s0 sub, Rel (fst s0) (fst (one s0 sub))).
      { intros. unfold one. destruct (item_fit (fst s) i).
        - eapply Rtrans; [apply IHu|]. apply C_with_msgs. intros; apply C_removed.
        - apply IHu. }
      eapply Rtrans; [|apply C_lift; intros; apply C_upd].
      change (match item_fit (fst s) i with
              | Some f => with_msgs (unload n s i) f (fun w : world => item_removed_msgs w i)
              | None => unload n s i end) with (one s i).
      eapply Rtrans; [apply Hone|].
      destruct (get_item (fst (one s i)) i).
      + apply C_fold. exact Hone.
      + apply C_lift. intros; apply Rfail.
  Qed.
End Closure.

Lemma sticky_set_next w n : sticky w (set_next w n). Proof. intros H; exact H. Qed.

Definition sticky_load n s i : sticky (fst s) (fst (load n s i)) :=
  proj1 (C_load_add sticky sticky_refl sticky_trans sticky_fail sticky_put sticky_set_next n) s i.
Definition sticky_add n s i p : sticky (fst s) (fst (add_item n s i p)) :=
  proj2 (C_load_add sticky sticky_refl sticky_trans sticky_fail sticky_put sticky_set_next n) s i p.
Definition sticky_unload n s i : sticky (fst s) (fst (unload n s i)) :=
  proj1 (C_unload_remove sticky sticky_refl sticky_trans sticky_fail sticky_put n) s i.
Definition sticky_remove n s i : sticky (fst s) (fst (remove_item n s i)) :=
  proj2 (C_unload_remove sticky sticky_refl sticky_trans sticky_fail sticky_put n) s i.

(* ------------------------------------------------------------------ *)
(* whatever is done to charge / autocharge items leaves every directly  *)
(* held item untouched                                                  *)

Lemma direct_childcls it : ~ direct it <-> childcls (i_cls it).
Proof.
  unfold direct, childcls. destruct (i_cls it); cbn; split; intros H;
    try (exfalso; apply H; discriminate); try (destruct H; discriminate); auto; tauto.
Qed.
Lemma direct_cls it it' : i_cls it' = i_cls it -> direct it' -> direct it.
Proof. unfold direct. now intros ->. Qed.

Definition DF (w w' : world) : Prop :=
  w_srcs w' = w_srcs w /\ forall j it, direct it -> (get_item w' j = Some it <-> get_item w j = Some it).
Definition nd (w : world) (a : nat) : Prop := forall it, get_item w a = Some it -> ~ direct it.

Lemma DF_refl w : DF w w. Proof. split; [reflexivity|tauto]. Qed.
Lemma DF_trans a b c : DF a b -> DF b c -> DF a c.
Proof.
  intros (S1 & H1) (S2 & H2). split; [congruence|]. intros j it D. rewrite (H2 j it D). now apply H1.
Qed.
Lemma DF_fail w e : DF w (fail w e).
Proof.
  split; [unfold fail; destruct (w_err w); reflexivity|]. intros j it _. now rewrite get_fail.
Qed.
Lemma DF_put w a new : nd w a -> ~ direct new -> DF w (put_item w a new).
Proof.
  intros Hn Hd. split; [reflexivity|]. intros j it D. destruct (Nat.eq_dec j a) as [->|N].
  - rewrite get_put_item_same'. split; intros H.
    + injection H as <-. contradiction.
    + exfalso. exact (Hn it H D).
  - now rewrite get_put_item_other.
Qed.
Lemma DF_upd w a g : nd w a -> (forall it, i_cls (g it) = i_cls it) -> DF w (upd_item w a g).
Proof.
  intros Hn Hc. unfold upd_item. destruct (get_item w a) as [it|] eqn:E; [|apply DF_fail].
  apply DF_put; [exact Hn|]. intros D. apply (Hn it E). eapply direct_cls; [|exact D]. now rewrite Hc.
Qed.
Lemma DF_run_only w w' a : run_only w w' a -> nd w a -> DF w w'.
Proof.
  intros ((Hs & Hg) & R & Nn) Hn. split; [exact Hs|]. intros j it D. destruct (Nat.eq_dec j a) as [->|N].
  - destruct (get_item w a) as [it0|] eqn:E.
    + destruct (R it0 eq_refl) as (r & Hr). rewrite Hr. split; intros H; exfalso.
      * assert (E2 : it = it_set_running it0 r) by congruence. subst it. apply (Hn it0 E). exact D.
      * assert (E2 : it0 = it) by congruence. subst it0. exact (Hn it E D).
    + rewrite (Nn eq_refl). tauto.
  - now rewrite Hg.
Qed.
Lemma nd_DF w w' a : DF w w' -> nd w a -> nd w' a.
Proof. intros (_ & H) Hn it G D. apply (H a it D) in G. exact (Hn it G D). Qed.

Lemma RT_DF X w w' : DF w w' -> RT X w -> RT X w'.
Proof.
  intros (Hs & H) R j it Hj G D. apply (H j it D) in G.
  exact (good_ext w w' it it Hs eq_refl (R j it Hj G) D).
Qed.

Lemma nd_of_cls w a : (cls_of w a = Some CAutocharge \/ cls_of w a = Some CCharge) -> nd w a.
Proof.
  intros H it G. apply direct_childcls. unfold cls_of in H. rewrite G in H.
  destruct H as [H|H]; injection H as ->; [now left|now right].
Qed.
Lemma nd_fitcont w a : J w -> nd w a -> fitcont w a = None.
Proof.
  intros (_ & J3 & _) Hn. unfold fitcont. destruct (get_item w a) as [it|] eqn:E; [|reflexivity].
  eapply J3; eauto. apply direct_childcls. now apply Hn.
Qed.

(* DF together with the ownership frame, so that J and classes travel along *)
Definition DK (w w' : world) : Prop := DF w w' /\ KEEP w w'.
Lemma DK_refl w : J w -> DK w w. Proof. intros H. split; [apply DF_refl|now apply KEEP_refl]. Qed.
Lemma DK_trans a b c : DK a b -> DK b c -> DK a c.
Proof. intros (D1 & K1) (D2 & K2). split; [eapply DF_trans; eauto|eapply KEEP_trans; eauto]. Qed.
Lemma DK_J w w' : DK w w' -> J w'. Proof. intros (_ & _ & _ & H & _). exact H. Qed.
Lemma DK_cls w w' a c : DK w w' -> cls_of w a = Some c -> cls_of w' a = Some c.
Proof. intros (_ & _ & _ & _ & H). apply H. Qed.

Lemma DK_fold_in {A} (f : st -> A -> st) (P : world -> A -> Prop) l :
  (forall w w' x, DK w w' -> P w x -> P w' x) ->
  (forall s x, J (fst s) -> P (fst s) x -> DK (fst s) (fst (f s x))) ->
  forall s, J (fst s) -> (forall x, In x l -> P (fst s) x) -> DK (fst s) (fst (fold_left f l s)).
Proof.
  intros St H. induction l as [|x r IH]; intros s Js HP; simpl; [now apply DK_refl|].
  pose proof (H s x Js (HP x (or_introl eq_refl))) as K. eapply DK_trans; [exact K|].
  apply IH; [eapply DK_J; eauto|]. intros y Hy. eapply St; [exact K|]. apply HP. now right.
Qed.

Lemma DK_with_msgs_same (s : st) f g :
  J (fst s) -> (forall w, fst (g w) = w \/ exists e, fst (g w) = fail w e) ->
  DK (fst s) (fst (with_msgs s f g)).
Proof.
  intros Js H. unfold with_msgs. specialize (H (fst s)). destruct (g (fst s)) as [w m]. cbn [fst] in *.
  destruct H as [->|(e & ->)]; [now apply DK_refl|].
  split; [apply DF_fail|apply KEEP_of_FC; [exact Js|apply FC_fail]].
Qed.
Lemma added_same w i : fst (item_added_msgs w i) = w \/ exists e, fst (item_added_msgs w i) = fail w e.
Proof. unfold item_added_msgs. destruct (item_state w i); cbn [fst]; eauto. Qed.
Lemma removed_same w i : fst (item_removed_msgs w i) = w \/ exists e, fst (item_removed_msgs w i) = fail w e.
Proof. unfold item_removed_msgs. destruct (item_state w i); cbn [fst]; eauto. Qed.

Lemma DK_fail (s : st) e : J (fst s) -> DK (fst s) (fst (lift s (fun w => fail w e))).
Proof. intros Js. unfold lift. cbn [fst]. split; [apply DF_fail|apply KEEP_of_FC; [exact Js|apply FC_fail]]. Qed.

Lemma loaded_run_only w i : run_only w (fst (item_loaded_msgs w i)) i.
Proof.
  unfold item_loaded_msgs. destruct (item_state w i); [|cbn [fst]; apply run_only_fail].
  pose proof (eu_run_only w i) as H. destruct (effects_update w i). exact H.
Qed.

(* unload / remove_item of a charge or autocharge *)
Theorem nd_unload_remove n :
  (forall s a, J (fst s) -> nd (fst s) a -> DK (fst s) (fst (unload n s a))) /\
  (forall s a, J (fst s) -> nd (fst s) a -> DK (fst s) (fst (remove_item n s a))).
Proof.
  induction n as [|n [IHu IHr]]; split; intros s a Js Hn.
  - simpl. now apply DK_fail.
  - simpl. now apply DK_fail.
  - split; [|now apply unload_KEEP]. cbn [unload].
    destruct (get_item (fst s) a) as [it|] eqn:Ha; [|unfold lift; cbn [fst]; apply DF_fail].
    set (s1 := match item_fit (fst s) a, i_loaded it with
               | Some f, Some _ => with_msgs s f (fun w => item_unloaded_msgs w a)
               | _, _ => s end).
    assert (K1 : DK (fst s) (fst s1)).
    { subst s1. destruct (item_fit (fst s) a) as [f|]; [|now apply DK_refl].
      destruct (i_loaded it); [|now apply DK_refl].
      split; [|apply KEEP_with_msgs; [exact Js|intros; apply FC_item_unloaded_msgs]].
      unfold with_msgs. pose proof (unloaded_run_only (fst s) a) as R.
      destruct (item_unloaded_msgs (fst s) a) as [w0 m0]. cbn [fst] in *. now apply (DF_run_only _ _ a). }
    pose proof (DK_J _ _ K1) as J1. pose proof (nd_DF _ _ a (proj1 K1) Hn) as Hn1.
    cbv zeta. cbn [fst snd].
    set (s2 := (fst s1, snd s1 ++ [EvClear a])).
    change (fst s1) with (fst s2) in K1, J1, Hn1.
    set (s3 := match get_item (fst s2) a with
               | Some it0 =>
                 lift (fold_left (fun s0 (ea : Z * nat) => remove_item n s0 (snd ea)) (i_autos it0) s2)
                      (fun w => upd_item w a (fun it1 => it_set_autos it1 []))
               | None => lift s2 (fun w => fail w EKeyAbsent)
               end).
    assert (K3 : DF (fst s2) (fst s3) /\ nd (fst s3) a).
    { subst s3. destruct (get_item (fst s2) a) as [it2|] eqn:H2.
      - match goal with |- DF _ (fst (lift ?X _)) /\ _ => set (s4 := X) end.
        assert (K4 : DK (fst s2) (fst s4)).
        { subst s4. apply (DK_fold_in _ (fun w (ea : Z * nat) => cls_of w (snd ea) = Some CAutocharge)).
          - intros w w' x K Hx. eapply DK_cls; eauto.
          - intros s0 x J0 Hx. apply IHr; [exact J0|]. apply nd_of_cls. now left.
          - exact J1.
          - intros [e b] Hin. simpl. destruct J1 as (_ & _ & J4 & _). eapply J4; eauto. }
        pose proof (nd_DF _ _ a (proj1 K4) Hn1) as Hn4.
        assert (D5 : DF (fst s4) (upd_item (fst s4) a (fun it1 => it_set_autos it1 [])))
          by (apply DF_upd; [exact Hn4|reflexivity]).
        unfold lift. cbn [fst]. split; [eapply DF_trans; [exact (proj1 K4)|exact D5]|].
        eapply nd_DF; eauto.
      - unfold lift. cbn [fst]. split; [apply DF_fail|]. eapply nd_DF; [apply DF_fail|exact Hn1]. }
    change (DF (fst s) (fst (lift s3 (fun w => upd_item w a (fun it0 => it_set_loaded it0 None))))).
    eapply DF_trans; [exact (proj1 K1)|]. eapply DF_trans; [exact (proj1 K3)|].
    unfold lift. cbn [fst]. apply DF_upd; [exact (proj2 K3)|reflexivity].
  - split; [|apply unload_keeps_ownership; [exact Js|now apply nd_fitcont]]. cbn [remove_item].
    set (fit := item_fit (fst s) a).
    set (one := fun s sub => let s := unload n s sub in
                             match fit with
                             | Some f => with_msgs s f (fun w => item_removed_msgs w sub)
                             | None => s
                             end).
    assert (Hone : forall s0 sub, J (fst s0) -> nd (fst s0) sub -> DK (fst s0) (fst (one s0 sub))).
    { intros s0 sub J0 H0. unfold one. cbv zeta. pose proof (IHu s0 sub J0 H0) as K.
      destruct fit as [f|]; [|exact K]. eapply DK_trans; [exact K|].
      apply DK_with_msgs_same; [eapply DK_J; eauto|intros; apply removed_same]. }
    pose proof (Hone s a Js Hn) as K1. set (s1 := one s a) in *.
    pose proof (DK_J _ _ K1) as J1. pose proof (nd_DF _ _ a (proj1 K1) Hn) as Hn1.
    set (s2 := match get_item (fst s1) a with
               | Some it => fold_left one (child_items it true) s1
               | None => lift s1 (fun w => fail w EKeyAbsent)
               end).
    assert (K2 : DK (fst s1) (fst s2)).
    { subst s2. destruct (get_item (fst s1) a) as [it|] eqn:H1; [|now apply DK_fail].
      apply (DK_fold_in _ (fun w c => cls_of w c = Some CCharge)).
      - intros w w' x K Hx. eapply DK_cls; eauto.
      - intros s0 x J0 Hx. apply Hone; [exact J0|]. apply nd_of_cls. now right.
      - exact J1.
      - intros c Hin. unfold child_items in Hin. rewrite app_nil_r in Hin.
        destruct (i_charge it) as [c0|] eqn:Ec; [|destruct Hin]. destruct Hin as [<-|[]].
        destruct J1 as (_ & _ & _ & J5). eapply J5; eauto. }
    change (DF (fst s) (fst (lift s2 (fun w => upd_item w a (fun it => it_set_cont it None))))).
    eapply DF_trans; [exact (proj1 K1)|]. eapply DF_trans; [exact (proj1 K2)|].
    unfold lift. cbn [fst]. apply DF_upd; [|reflexivity]. eapply nd_DF; [exact (proj1 K2)|exact Hn1].
Qed.

Lemma KEEP_set_cont_nonfit w a p :
  J w -> fitcont w a = None -> racklike_of p = None ->
  KEEP w (upd_item w a (fun it => it_set_cont it (Some p))).
Proof.
  intros Jw Hf Hp. destruct (get_item w a) as [it|] eqn:E.
  - eapply OW_same_KEEP; [eapply OW_set_cont; eauto; intros H; congruence|]. now rewrite Hp.
  - unfold upd_item. rewrite E. apply KEEP_of_FC; [exact Jw|apply FC_fail].
Qed.

Lemma DF_set_next w n : DF w (set_next w n).
Proof. split; [reflexivity|]. intros j it _. reflexivity. Qed.

Lemma not_direct_auto tid st lvl : ~ direct (new_item CAutocharge tid st lvl).
Proof. apply direct_childcls. now left. Qed.

(* load / add_item of a charge or autocharge *)
Theorem nd_load_add n :
  (forall s a, J (fst s) -> nd (fst s) a -> DK (fst s) (fst (load n s a))) /\
  (forall s a p, J (fst s) -> nd (fst s) a -> racklike_of p = None -> DK (fst s) (fst (add_item n s a p))).
Proof.
  induction n as [|n [IHl IHa]]; split.
  - intros s a Js Hn. simpl. now apply DK_fail.
  - intros s a p Js Hn Hp. simpl. now apply DK_fail.
  - intros s a Js Hn. cbn [load].
    destruct (get_item (fst s) a) as [it|] eqn:Ha; [|now apply DK_fail].
    destruct (item_fit (fst s) a) as [f|]; [|now apply DK_refl].
    destruct (fit_source_id (fst s) f) as [src|]; [|now apply DK_refl].
    destruct (match get_src (fst s) src with Some u => get_type u (i_tid it) | None => None end) as [t|];
      [|now apply DK_refl].
    set (s1 := lift s _).
    assert (K1 : DK (fst s) (fst s1)).
    { subst s1. unfold lift. cbn [fst]. split.
      - apply DF_put; [exact Hn|]. intros D. apply (Hn it Ha). eapply direct_cls; [|exact D]. reflexivity.
      - apply KEEP_of_FC; [exact Js|]. eapply FC_put; [exact Ha|reflexivity]. }
    pose proof (DK_J _ _ K1) as J1. pose proof (nd_DF _ _ a (proj1 K1) Hn) as Hn1.
    set (s2 := with_msgs s1 f _).
    assert (K2 : DK (fst s1) (fst s2)).
    { subst s2. split; [|apply KEEP_with_msgs; [exact J1|intros; apply FC_item_loaded_msgs]].
      unfold with_msgs. pose proof (loaded_run_only (fst s1) a) as R.
      destruct (item_loaded_msgs (fst s1) a) as [w0 m0]. cbn [fst] in *. now apply (DF_run_only _ _ a). }
    pose proof (DK_J _ _ K2) as J2. pose proof (nd_DF _ _ a (proj1 K2) Hn1) as Hn2.
    eapply DK_trans; [exact K1|]. eapply DK_trans; [exact K2|].
    destruct (get_item (fst s2) a) as [it2|]; [|now apply DK_fail].
    apply (DK_fold_in _ (fun w (_ : Z * effect) => nd w a)).
    + intros w w' x K Hx. eapply nd_DF; [exact (proj1 K)|exact Hx].
    + intros s0 ee J0 Hn0.
      destruct (e_autocharge_attr (snd ee)); [|now apply DK_refl].
      destruct (al_get zeqb (t_attrs t) z); [|now apply DK_refl].
      destruct (KEEP_new_autocharge (fst s0) a (fst ee) (q_trunc q) J0) as (Kn & Fa).
      match goal with |- DK _ (fst (add_item n ?S ?A _)) => set (s' := S) end.
      assert (Es : fst s' = upd_item (put_item (set_next (fst s0) (S (w_next (fst s0)))) (w_next (fst s0))
                                               (new_item CAutocharge (q_trunc q) State_offline 0)) a
                                     (fun it => it_set_autos it (al_set zeqb (i_autos it) (fst ee) (w_next (fst s0)))))
        by reflexivity.
      assert (Fresh : get_item (fst s0) (w_next (fst s0)) = None).
      { destruct (get_item (fst s0) (w_next (fst s0))) as [x|] eqn:E; [|reflexivity].
        destruct J0 as (I0 & _). apply I0 in E. lia. }
      set (b := w_next (fst s0)) in *.
      set (w1 := put_item (set_next (fst s0) (S b)) b (new_item CAutocharge (q_trunc q) State_offline 0)).
      assert (D1 : DF (fst s0) w1).
      { eapply DF_trans; [apply (DF_set_next (fst s0) (S b))|]. apply DF_put.
        - intros x Hx. change (get_item (fst s0) b = Some x) in Hx. congruence.
        - apply not_direct_auto. }
      assert (D2 : DF (fst s0) (fst s')).
      { rewrite Es. fold w1. eapply DF_trans; [exact D1|]. apply DF_upd; [|reflexivity].
        eapply nd_DF; [exact D1|exact Hn0]. }
      assert (Ks : DK (fst s0) (fst s')) by (split; [exact D2|rewrite Es; exact Kn]).
      eapply DK_trans; [exact Ks|]. apply IHa; [eapply DK_J; eauto| |reflexivity].
      (* the new item is an autocharge *)
      intros x Hx D. rewrite Es in Hx. rewrite get_upd_item in Hx. fold w1 in Hx.
      assert (Gb : get_item w1 b = Some (new_item CAutocharge (q_trunc q) State_offline 0))
        by apply get_put_item_same'.
      destruct (get_item w1 a) as [ita|] eqn:Ea.
      * destruct (Nat.eqb b a) eqn:Eb.
        -- apply Nat.eqb_eq in Eb. subst a. rewrite Gb in Ea. injection Ea as <-. injection Hx as <-.
           revert D. apply not_direct_auto.
        -- rewrite Gb in Hx. injection Hx as <-. revert D. apply not_direct_auto.
      * rewrite Gb in Hx. injection Hx as <-. revert D. apply not_direct_auto.
    + exact J2.
    + intros x _. exact Hn2.
  - intros s a p Js Hn Hp. cbn [add_item].
    set (s1 := lift s _).
    assert (K1 : DK (fst s) (fst s1)).
    { subst s1. unfold lift. cbn [fst]. split; [apply DF_upd; [exact Hn|reflexivity]|].
      apply KEEP_set_cont_nonfit; [exact Js|now apply nd_fitcont|exact Hp]. }
    pose proof (DK_J _ _ K1) as J1. pose proof (nd_DF _ _ a (proj1 K1) Hn) as Hn1.
    destruct (item_fit (fst s1) a) as [f|]; [|exact K1].
    cbv zeta.
    set (one := fun s0 sub => load n (with_msgs s0 f (fun w => item_added_msgs w sub)) sub).
    assert (Hone : forall s0 sub, J (fst s0) -> nd (fst s0) sub -> DK (fst s0) (fst (one s0 sub))).
    { intros s0 sub J0 H0. unfold one.
      pose proof (DK_with_msgs_same s0 f (fun w => item_added_msgs w sub) J0 (fun w => added_same w sub)) as K.
      eapply DK_trans; [exact K|]. apply IHl; [eapply DK_J; eauto|]. eapply nd_DF; [exact (proj1 K)|exact H0]. }
    pose proof (Hone s1 a J1 Hn1) as K2.
    change (load n (with_msgs s1 f (fun w : world => item_added_msgs w a)) a) with (one s1 a).
    set (s2 := one s1 a) in *.
    pose proof (DK_J _ _ K2) as J2.
    eapply DK_trans; [exact K1|]. eapply DK_trans; [exact K2|].
    destruct (get_item (fst s2) a) as [it|] eqn:H2; [|now apply DK_fail].
    apply (DK_fold_in _ (fun w c => cls_of w c = Some CCharge)).
    + intros w w' x K Hx. eapply DK_cls; eauto.
    + intros s0 x J0 Hx. apply Hone; [exact J0|]. apply nd_of_cls. now right.
    + exact J2.
    + intros c Hin. unfold child_items in Hin. rewrite app_nil_r in Hin.
      destruct (i_charge it) as [c0|] eqn:Ec; [|destruct Hin]. destruct Hin as [<-|[]].
      destruct J2 as (_ & _ & _ & J5). eapply J5; eauto.
Qed.

(* ------------------------------------------------------------------ *)
(* directly held items: load / add / unload / remove keep RT            *)

Definition RJ (w : world) : Prop := RT [] w /\ J w.

Lemma direct_dec it : {direct it} + {~ direct it}.
Proof.
  unfold direct. destruct (cr_state (class_row_of (i_cls it))); [left|left|right]; try discriminate; auto.
Qed.

Lemma nd_or_direct w i : nd w i \/ exists it, get_item w i = Some it /\ direct it.
Proof.
  destruct (get_item w i) as [it|] eqn:E.
  - destruct (direct_dec it) as [d|d]; [right; eauto|left]. intros x Hx. assert (x = it) by congruence. now subst.
  - left. intros x Hx. congruence.
Qed.

Lemma item_fit_cont_none w i it : get_item w i = Some it -> i_cont it = None -> item_fit w i = None.
Proof. intros H C. unfold item_fit. cbn [item_fit_n]. now rewrite H, C. Qed.
Lemma item_fit_fitcont w i it : get_item w i = Some it -> fitcont_of it <> None -> item_fit w i <> None.
Proof.
  intros H C. unfold item_fit. cbn [item_fit_n]. rewrite H. unfold fitcont_of in C.
  destruct (i_cont it) as [[]|]; try discriminate; congruence.
Qed.

Lemma RT_upd_same X w i g : (forall it, gk (g it) = gk it) -> RT X w -> RT X (upd_item w i g).
Proof.
  intros H R. unfold upd_item. destruct (get_item w i) as [it|] eqn:E.
  - eapply RT_put_same; eauto.
  - eapply RT_DF; [apply DF_fail|exact R].
Qed.

Lemma RT_new_nondirect X w b nit :
  get_item w b = None -> ~ direct nit -> RT X w -> RT X (put_item (set_next w (S b)) b nit).
Proof.
  intros Hb Hn R. eapply RT_DF; [|exact R].
  eapply DF_trans; [apply (DF_set_next w (S b))|]. apply DF_put; [|exact Hn].
  intros x Hx. change (get_item w b = Some x) in Hx. congruence.
Qed.

Lemma RJ_fold_err {A} (f : st -> A -> st) l :
  (forall s x, sticky (fst s) (fst (f s x))) ->
  (forall s x, RJ (fst s) -> w_err (fst (f s x)) = None -> RJ (fst (f s x))) ->
  forall s, RJ (fst s) -> w_err (fst (fold_left f l s)) = None -> RJ (fst (fold_left f l s)).
Proof.
  intros Hs H. induction l as [|x r IH]; intros s R He; simpl in *; [exact R|].
  apply IH; [|exact He]. apply H; [exact R|].
  exact (C_fold sticky sticky_refl sticky_trans f r Hs (f s x) He).
Qed.
Lemma RJ_fold {A} (f : st -> A -> st) l :
  (forall s x, RJ (fst s) -> RJ (fst (f s x))) ->
  forall s, RJ (fst s) -> RJ (fst (fold_left f l s)).
Proof. intros H. induction l as [|x r IH]; intros s R; simpl; auto. Qed.

Lemma RJ_DK w w' : DK w w' -> RJ w -> RJ w'.
Proof. intros K (R & _). split; [eapply RT_DF; [exact (proj1 K)|exact R]|eapply DK_J; eauto]. Qed.

Lemma with_msgs_same_RJ (s : st) f g :
  (forall w, fst (g w) = w \/ exists e, fst (g w) = fail w e) ->
  RJ (fst s) -> RJ (fst (with_msgs s f g)).
Proof. intros H R. eapply RJ_DK; [|exact R]. apply DK_with_msgs_same; [apply R|exact H]. Qed.
Lemma with_msgs_sticky (s : st) f g : (forall w, sticky w (fst (g w))) -> sticky (fst s) (fst (with_msgs s f g)).
Proof. apply (C_with_msgs sticky). Qed.
Lemma added_sticky w i : sticky w (fst (item_added_msgs w i)).
Proof. apply (C_added sticky sticky_refl sticky_fail). Qed.
Lemma removed_sticky w i : sticky w (fst (item_removed_msgs w i)).
Proof. apply (C_removed sticky sticky_refl sticky_fail). Qed.
Lemma loaded_sticky w i : sticky w (fst (item_loaded_msgs w i)).
Proof. apply (C_loaded sticky sticky_refl sticky_trans sticky_fail sticky_put). Qed.

Theorem load_RJ n s i :
  RJ (fst s) -> w_err (fst (load n s i)) = None -> RJ (fst (load n s i)).
Proof.
  intros R He. destruct (nd_or_direct (fst s) i) as [Hn|(it & Ha & D)].
  - eapply RJ_DK; [|exact R]. apply nd_load_add; [apply R|exact Hn].
  - split; [|apply load_KEEP; apply R]. destruct R as (R & Js).
    destruct n as [|n]; [simpl in He; destruct (err_fail_none _ _ He)|].
    revert He. cbn [load]. rewrite Ha.
    destruct (item_fit (fst s) i) as [f|] eqn:Ef; [|intros _; exact R].
    destruct (fit_source_id (fst s) f) as [src|]; [|intros _; exact R].
    destruct (get_src (fst s) src) as [u|] eqn:Esrc; [|intros _; exact R].
    destruct (get_type u (i_tid it)) as [t|]; [|intros _; exact R].
    set (it1 := it_set_loaded it (Some src)).
    set (s1 := lift s (fun w => put_item w i it1)).
    set (s2 := with_msgs s1 f (fun w => item_loaded_msgs w i)).
    assert (G1 : get_item (fst s1) i = Some it1) by apply get_put_item_same'.
    assert (S1 : w_srcs (fst s1) = w_srcs (fst s)) by reflexivity.
    assert (R1 : RT [i] (fst s1)).
    { eapply RT_upd1; [apply (upd1_put (fst s) i it1)|now left|]. eapply RT_weaken; [|exact R]. intros j []. }
    assert (J1 : J (fst s1)).
    { eapply FC_J; [|exact Js]. eapply FC_put; [exact Ha|reflexivity]. }
    (* after the loaded-messages item i is good *)
    assert (R2 : w_err (fst s2) = None -> RJ (fst s2)).
    { intros E2. unfold s2, with_msgs in *. pose proof (loaded_run_only (fst s1) i) as RO.
      pose proof (FC_item_loaded_msgs (fst s1) i) as F2.
      destruct (item_loaded_msgs (fst s1) i) as [w2 m2] eqn:El. cbn [fst] in *.
      split; [|eapply FC_J; eauto].
      apply RT_restore with (i := i).
      - eapply RT_upd1; [exact (proj1 RO)|now left|exact R1].
      - intros it2 H2. unfold item_loaded_msgs in El.
        rewrite (item_state_direct (fst s1) i it1 G1 D) in El.
        destruct (effects_update (fst s1) i) as [w3 m3] eqn:Eu. injection El as <- _.
        eapply (eu_good (fst s1) i it1 w3 m3 G1 Eu E2); [|exact H2].
        intros _. pose proof (R i it (fun x => x) Ha D) as (C1 & C2 & C3 & C4 & C5).
        split; [|split].
        + intros _. change (fitcont_of it <> None). destruct C3 as [C3|C3]; [|exact C3].
          rewrite (item_fit_cont_none _ _ _ Ha C3) in Ef. discriminate.
        + exact C3.
        + intros s0 Hl. change (Some src = Some s0) in Hl. injection Hl as <-.
          unfold get_src in *. rewrite S1. congruence. }
    intros He.
    destruct (get_item (fst s2) i) as [it2|];
      [|unfold lift in He; cbn [fst] in He; destruct (err_fail_none _ _ He)].
    match type of He with w_err (fst (fold_left ?F ?L s2)) = None =>
      assert (Hstep : forall s0 x, RJ (fst s0) -> RJ (fst (F s0 x))) end.
    { intros s0 ee (R0 & J0).
      destruct (e_autocharge_attr (snd ee)); [|split; assumption].
      destruct (al_get zeqb (t_attrs t) z); [|split; assumption].
      destruct (KEEP_new_autocharge (fst s0) i (fst ee) (q_trunc q) J0) as (Kn & Fa).
      assert (Fresh : get_item (fst s0) (w_next (fst s0)) = None).
      { destruct (get_item (fst s0) (w_next (fst s0))) as [x|] eqn:E; [|reflexivity].
        destruct J0 as (I0 & _). apply I0 in E. lia. }
      match goal with |- RJ (fst (add_item n ?S ?A _)) => set (s' := S) end.
      assert (Rs : RJ (fst s')).
      { split; [|apply Kn]. unfold s', lift. cbn [fst]. apply RT_upd_same; [reflexivity|].
        apply RT_new_nondirect; [exact Fresh|apply not_direct_auto|exact R0]. }
      eapply RJ_DK; [|exact Rs]. apply nd_load_add; [apply Rs| |reflexivity].
      apply nd_of_cls. left.
      (* the fresh item is an autocharge *)
      unfold cls_of, s', lift. cbn [fst]. rewrite get_upd_item.
      set (b := w_next (fst s0)) in *.
      set (w1 := put_item (set_next (fst s0) (S b)) b (new_item CAutocharge (q_trunc q) State_offline 0)).
      assert (Gb : get_item w1 b = Some (new_item CAutocharge (q_trunc q) State_offline 0))
        by apply get_put_item_same'.
      destruct (get_item w1 i) as [iti|] eqn:Ei; [|now rewrite Gb].
      destruct (Nat.eqb b i) eqn:Eb; [|now rewrite Gb].
      apply Nat.eqb_eq in Eb. subst i. rewrite Gb in Ei. injection Ei as <-. reflexivity. }
    assert (E2 : w_err (fst s2) = None).
    { match type of He with w_err (fst (fold_left ?F ?L s2)) = None =>
        apply (C_fold sticky sticky_refl sticky_trans F L) in He; [exact He|] end.
      intros s0 ee. destruct (e_autocharge_attr (snd ee)); [|apply sticky_refl].
      destruct (al_get zeqb (t_attrs t) z); [|apply sticky_refl].
      eapply sticky_trans; [|apply sticky_add]. unfold lift. cbn [fst].
      eapply sticky_trans; [apply (sticky_set_next (fst s0))|]. eapply sticky_trans; [apply sticky_put|apply sticky_upd]. }
    apply (RJ_fold _ _ Hstep). exact (R2 E2).
Qed.

Lemma direct_childcls_not it : direct it -> ~ childcls (i_cls it).
Proof. intros D C. apply direct_childcls in C. contradiction. Qed.

Theorem add_RJ n s i p it :
  RJ (fst s) -> get_item (fst s) i = Some it ->
  (direct it -> i_loaded it = None /\ racklike_of p <> None) ->
  (~ direct it -> racklike_of p = None) ->
  w_err (fst (add_item n s i p)) = None -> RJ (fst (add_item n s i p)).
Proof.
  intros R Ha Hd Hnd He. destruct (direct_dec it) as [D|D].
  2:{ eapply RJ_DK; [|exact R]. apply nd_load_add; [apply R| |now apply Hnd].
      intros x Hx. assert (x = it) by congruence. now subst. }
  destruct (Hd D) as (Hl & Hp). destruct R as (R & Js).
  destruct n as [|n]; [simpl in He; destruct (err_fail_none _ _ He)|].
  revert He. cbn [add_item].
  set (it1 := it_set_cont it (Some p)).
  set (s1 := lift s (fun w => upd_item w i (fun it0 => it_set_cont it0 (Some p)))).
  assert (E1 : fst s1 = put_item (fst s) i it1) by (unfold s1, lift, upd_item; cbn [fst]; now rewrite Ha).
  assert (O1 : OW (fst s) (fst s1) i (racklike_of p)).
  { unfold s1, lift. cbn [fst]. eapply OW_set_cont; eauto. intros _. now apply direct_childcls_not. }
  assert (R1 : RJ (fst s1)).
  { split; [|apply O1]. apply RT_restore with (i := i).
    - rewrite E1. eapply RT_upd1; [apply upd1_put|now left|]. eapply RT_weaken; [|exact R]. intros j [].
    - intros x Hx. rewrite E1, get_put_item_same' in Hx. injection Hx as <-.
      pose proof (R i it (fun x => x) Ha D) as (C1 & C2 & C3 & C4 & C5).
      intros _. split; [|split; [|split; [|split]]].
      + intros _. now apply C1.
      + intros H. change (i_loaded it <> None) in H. congruence.
      + right. unfold it1. now rewrite fitcont_of_set_cont.
      + intros s0 H. change (i_loaded it = Some s0) in H. congruence.
      + intros H. change (i_loaded it <> None) in H. congruence. }
  destruct (item_fit (fst s1) i) as [f|]; [|intros _; exact R1].
  cbv zeta.
  set (one := fun s0 sub => load n (with_msgs s0 f (fun w => item_added_msgs w sub)) sub).
  assert (Hone : forall s0 sub, RJ (fst s0) -> w_err (fst (one s0 sub)) = None -> RJ (fst (one s0 sub))).
  { intros s0 sub R0 E0. unfold one in *. apply load_RJ; [|exact E0].
    apply with_msgs_same_RJ; [intros; apply added_same|exact R0]. }
  assert (Sone : forall s0 sub, sticky (fst s0) (fst (one s0 sub))).
  { intros s0 sub. unfold one. eapply sticky_trans; [|apply sticky_load].
    apply with_msgs_sticky. intros; apply added_sticky. }
  change (load n (with_msgs s1 f (fun w : world => item_added_msgs w i)) i) with (one s1 i).
  intros He.
  destruct (get_item (fst (one s1 i)) i) as [it2|].
  - assert (E2 : w_err (fst (one s1 i)) = None)
      by (exact (C_fold sticky sticky_refl sticky_trans one _ Sone (one s1 i) He)).
    apply (RJ_fold_err one _ Sone Hone); [now apply Hone|exact He].
  - unfold lift in He. cbn [fst] in He. destruct (err_fail_none _ _ He).
Qed.

Lemma unload_unloaded n s i :
  w_err (fst (unload n s i)) = None ->
  forall it', get_item (fst (unload n s i)) i = Some it' -> i_loaded it' = None.
Proof.
  destruct n as [|n]; [simpl; intros He; destruct (err_fail_none _ _ He)|].
  cbn [unload]. destruct (get_item (fst s) i) as [it|];
    [|unfold lift; cbn [fst]; intros He; destruct (err_fail_none _ _ He)].
  cbv zeta. match goal with |- w_err (fst (lift ?S _)) = None -> _ => set (s3 := S) end.
  unfold lift. cbn [fst]. intros He it' Hg. rewrite get_upd_item in Hg.
  destruct (get_item (fst s3) i) as [x|] eqn:E.
  - rewrite Nat.eqb_refl in Hg. injection Hg as <-. reflexivity.
  - unfold upd_item in He. rewrite E in He. destruct (err_fail_none _ _ He).
Qed.

Lemma direct_ek it it' : ek it' = ek it -> direct it -> direct it'.
Proof. unfold ek, direct. intros H. assert (i_cls it' = i_cls it) by congruence. now rewrite H0. Qed.

Theorem unload_RJ n s i :
  RJ (fst s) -> w_err (fst (unload n s i)) = None -> RJ (fst (unload n s i)).
Proof.
  intros R He. destruct (nd_or_direct (fst s) i) as [Hn|(it & Ha & D)].
  - eapply RJ_DK; [|exact R]. apply nd_unload_remove; [apply R|exact Hn].
  - split; [|apply unload_KEEP; apply R]. destruct R as (R & Js).
    destruct n as [|n]; [simpl in He; destruct (err_fail_none _ _ He)|].
    revert He. cbn [unload]. rewrite Ha.
    pose proof (R i it (fun x => x) Ha D) as (C1 & C2 & C3 & C4 & C5).
    set (s1 := match item_fit (fst s) i, i_loaded it with
               | Some f, Some _ => with_msgs s f (fun w => item_unloaded_msgs w i)
               | _, _ => s end).
    assert (A : w_err (fst s1) = None ->
                exists itA, get_item (fst s1) i = Some itA /\ ek itA = ek it /\ i_running itA = [] /\
                            RT [i] (fst s1) /\ J (fst s1)).
    { intros E1. subst s1.
      assert (Same : i_running it = [] ->
                     exists itA, get_item (fst s) i = Some itA /\ ek itA = ek it /\ i_running itA = [] /\
                                 RT [i] (fst s) /\ J (fst s)).
      { intros Hr. exists it. split; [exact Ha|split; [reflexivity|split; [exact Hr|split; [|exact Js]]]].
        eapply RT_weaken; [|exact R]. intros j []. }
      destruct (item_fit (fst s) i) as [f|] eqn:Ef.
      - destruct (i_loaded it) as [src|] eqn:El; [|apply Same; now apply C1].
        unfold with_msgs in *. pose proof (unloaded_run_only (fst s) i) as (U & RO & _).
        pose proof (FC_item_unloaded_msgs (fst s) i) as F1.
        destruct (item_unloaded_msgs (fst s) i) as [w1 m1] eqn:Em. cbn [fst] in *.
        destruct (RO it Ha) as (r & Hr).
        destruct (unloaded_msgs_clear_running (fst s) i it w1 m1 Ha Em E1) as (x & Hx & Hrun).
        rewrite Hr in Hx. injection Hx as <-. cbn [i_running it_set_running] in Hrun. subst r.
        exists (it_set_running it []).
        split; [exact Hr|split; [reflexivity|split; [reflexivity|split; [|eapply FC_J; eauto]]]].
        eapply RT_upd1; [exact U|now left|]. eapply RT_weaken; [|exact R]. intros j [].
      - apply Same. destruct (i_loaded it) as [src|] eqn:El; [|now apply C1].
        exfalso. apply (item_fit_fitcont (fst s) i it Ha); [apply C2; discriminate|exact Ef]. }
    cbv zeta. cbn [fst snd].
    set (s2 := (fst s1, snd s1 ++ [EvClear i])).
    change (fst s1) with (fst s2) in A.
    set (s3 := match get_item (fst s2) i with
               | Some it0 =>
                 lift (fold_left (fun s0 (ea : Z * nat) => remove_item n s0 (snd ea)) (i_autos it0) s2)
                      (fun w => upd_item w i (fun it1 => it_set_autos it1 []))
               | None => lift s2 (fun w => fail w EKeyAbsent)
               end).
    intros He.
    change (w_err (fst (lift s3 (fun w => upd_item w i (fun it0 => it_set_loaded it0 None)))) = None) in He.
    assert (E3 : w_err (fst s3) = None) by (unfold lift in He; cbn [fst] in He; now apply err_upd in He).
    assert (E2 : w_err (fst s2) = None).
    { revert E3. unfold s3. destruct (get_item (fst s2) i) as [x|];
        [|unfold lift; cbn [fst]; intros H; destruct (err_fail_none _ _ H)].
      unfold lift. cbn [fst]. intros H. apply err_upd in H.
      exact (C_fold sticky sticky_refl sticky_trans (fun s0 (ea : Z * nat) => remove_item n s0 (snd ea)) _
                    (fun s0 x => sticky_remove n s0 (snd x)) s2 H). }
    destruct (A E2) as (itA & HA & EkA & RunA & RA & JA).
    assert (DA : direct itA) by (eapply direct_ek; eauto).
    change (RT [] (fst (lift s3 (fun w => upd_item w i (fun it0 => it_set_loaded it0 None))))).
    (* the autocharges go: item i is untouched *)
    assert (K3 : exists it3, get_item (fst s3) i = Some it3 /\ ek it3 = ek itA /\ i_running it3 = [] /\
                             RT [i] (fst s3)).
    { unfold s3. rewrite HA.
      match goal with |- context[lift ?X _] => set (s4 := X) end.
      assert (K4 : DK (fst s2) (fst s4)).
      { subst s4. apply (DK_fold_in _ (fun w (ea : Z * nat) => cls_of w (snd ea) = Some CAutocharge)).
        - intros w w' x K Hx. eapply DK_cls; eauto.
        - intros s0 x J0 Hx. apply nd_unload_remove; [exact J0|]. apply nd_of_cls. now left.
        - exact JA.
        - intros [e b] Hin. simpl. destruct JA as (_ & _ & J4 & _). eapply J4; eauto. }
      assert (H4 : get_item (fst s4) i = Some itA) by (apply (proj2 (proj1 K4) i itA DA); exact HA).
      exists (it_set_autos itA []). unfold lift. cbn [fst].
      split; [|split; [reflexivity|split; [exact RunA|]]].
      - rewrite get_upd_item, H4, Nat.eqb_refl. reflexivity.
      - apply RT_upd_same; [reflexivity|]. eapply RT_DF; [exact (proj1 K4)|exact RA]. }
    destruct K3 as (it3 & H3 & Ek3 & Run3 & R3).
    unfold lift. cbn [fst]. apply RT_restore with (i := i).
    + eapply RT_upd1; [apply upd1_upd|now left|exact R3].
    + intros x Hx. rewrite get_upd_item, H3, Nat.eqb_refl in Hx. injection Hx as <-.
      intros _. assert (Ec : i_cont it3 = i_cont it) by (unfold ek in *; congruence).
      split; [|split; [|split; [|split]]].
      * intros _. exact Run3.
      * intros H. cbn in H. congruence.
      * change (i_cont it3 = None \/ fitcont_of it3 <> None).
        rewrite (fitcont_of_cont it3 it Ec), Ec. exact C3.
      * intros s0 H. cbn in H. congruence.
      * intros H. cbn in H. congruence.
Qed.

Lemma with_msgs_same_fst (s : st) f g :
  (forall w, fst (g w) = w \/ exists e, fst (g w) = fail w e) ->
  fst (with_msgs s f g) = fst s \/ exists e, fst (with_msgs s f g) = fail (fst s) e.
Proof.
  intros H. unfold with_msgs, emit_always. specialize (H (fst s)). destruct (g (fst s)) as [w m]. cbn [fst] in *.
  destruct H as [->|(e & ->)]; eauto.
Qed.

Theorem remove_RJ n s i :
  RJ (fst s) -> w_err (fst (remove_item n s i)) = None ->
  RJ (fst (remove_item n s i)) /\
  (forall x, get_item (fst (remove_item n s i)) i = Some x -> direct x -> i_loaded x = None /\ i_cont x = None).
Proof.
  intros R He. destruct (nd_or_direct (fst s) i) as [Hn|(it & Ha & D)].
  - pose proof (proj2 (nd_unload_remove n) s i (proj2 R) Hn) as K.
    split; [eapply RJ_DK; [exact K|exact R]|].
    intros x Hx Dx. exfalso. apply (proj2 (proj1 K) i x Dx) in Hx. exact (Hn x Hx Dx).
  - destruct n as [|n]; [simpl in He; destruct (err_fail_none _ _ He)|].
    revert He. cbn [remove_item].
    set (fit := item_fit (fst s) i).
    set (one := fun s sub => let s := unload n s sub in
                             match fit with
                             | Some f => with_msgs s f (fun w => item_removed_msgs w sub)
                             | None => s
                             end).
    assert (Sone : forall s0 sub, sticky (fst s0) (fst (one s0 sub))).
    { intros s0 sub. unfold one. cbv zeta. destruct fit; [|apply sticky_unload].
      eapply sticky_trans; [apply sticky_unload|]. apply with_msgs_sticky. intros; apply removed_sticky. }
    set (s1 := one s i).
    set (s2 := match get_item (fst s1) i with
               | Some it => fold_left one (child_items it true) s1
               | None => lift s1 (fun w => fail w EKeyAbsent)
               end).
    intros He.
    change (w_err (fst (lift s2 (fun w => upd_item w i (fun it0 => it_set_cont it0 None)))) = None) in He.
    change (RJ (fst (lift s2 (fun w => upd_item w i (fun it0 => it_set_cont it0 None)))) /\
            (forall x, get_item (fst (lift s2 (fun w => upd_item w i (fun it0 => it_set_cont it0 None)))) i = Some x ->
                       direct x -> i_loaded x = None /\ i_cont x = None)).
    assert (E2 : w_err (fst s2) = None) by (unfold lift in He; cbn [fst] in He; now apply err_upd in He).
    assert (E1 : w_err (fst s1) = None).
    { revert E2. unfold s2. destruct (get_item (fst s1) i);
        [|unfold lift; cbn [fst]; intros H; destruct (err_fail_none _ _ H)].
      exact (C_fold sticky sticky_refl sticky_trans one _ Sone s1). }
    (* after unloading item i itself *)
    assert (Eu : w_err (fst (unload n s i)) = None).
    { revert E1. unfold s1, one. cbv zeta. destruct fit; [|auto].
      apply with_msgs_sticky. intros; apply removed_sticky. }
    assert (R1 : RJ (fst s1)).
    { unfold s1, one. cbv zeta. pose proof (unload_RJ n s i R Eu) as Ru.
      destruct fit; [|exact Ru]. apply with_msgs_same_RJ; [intros; apply removed_same|exact Ru]. }
    assert (U1 : forall x, get_item (fst s1) i = Some x -> i_loaded x = None).
    { intros x Hx. pose proof (unload_unloaded n s i Eu) as P. revert Hx E1. unfold s1, one. cbv zeta.
      destruct fit as [f|]; [|intros Hx _; now apply P].
      destruct (with_msgs_same_fst (unload n s i) f (fun w => item_removed_msgs w i)
                                   (fun w => removed_same w i)) as [->|(e & ->)].
      - intros Hx _. now apply P.
      - intros _ H. destruct (err_fail_none _ _ H). }
    destruct (get_item (fst s1) i) as [x1|] eqn:H1;
      [|unfold s2, lift in E2; cbn [fst] in E2; destruct (err_fail_none _ _ E2)].
    assert (D1 : direct x1).
    { (* the class of item i never changes *)
      pose proof (unload_KEEP n s i (proj2 R)) as (_ & _ & _ & Ck).
      assert (Cs : cls_of (fst s1) i = Some (i_cls it)).
      { assert (C0 : cls_of (fst (unload n s i)) i = Some (i_cls it)) by (apply Ck; unfold cls_of; now rewrite Ha).
        revert C0. unfold s1, one. cbv zeta. destruct fit as [f|]; [|auto].
        destruct (with_msgs_same_fst (unload n s i) f (fun w => item_removed_msgs w i)
                                     (fun w => removed_same w i)) as [->|(e & ->)]; [auto|].
        unfold cls_of. now rewrite get_fail. }
      unfold cls_of in Cs. rewrite H1 in Cs. injection Cs as Cs. eapply direct_cls; [|exact D]. now rewrite <- Cs. }
    (* the charge goes: item i is untouched *)
    assert (K2 : DK (fst s1) (fst s2)).
    { unfold s2. apply (DK_fold_in _ (fun w c => cls_of w c = Some CCharge)).
      - intros w w' x K Hx. eapply DK_cls; eauto.
      - intros s0 x J0 Hx. unfold one. cbv zeta.
        pose proof (proj1 (nd_unload_remove n) s0 x J0 (nd_of_cls _ _ (or_intror Hx))) as K.
        destruct fit as [f|]; [|exact K]. eapply DK_trans; [exact K|].
        apply DK_with_msgs_same; [eapply DK_J; eauto|intros; apply removed_same].
      - apply R1.
      - intros c Hin. unfold child_items in Hin. rewrite app_nil_r in Hin.
        destruct (i_charge x1) as [c0|] eqn:Ec; [|destruct Hin]. destruct Hin as [<-|[]].
        destruct R1 as (_ & (_ & _ & _ & J5)). eapply J5; eauto. }
    pose proof (RJ_DK _ _ K2 R1) as R2.
    assert (H2 : get_item (fst s2) i = Some x1) by (apply (proj2 (proj1 K2) i x1 D1); exact H1).
    pose proof (proj1 R2 i x1 (fun x => x) H2 D1) as (C1 & C2 & C3 & C4 & C5).
    pose proof (U1 x1 eq_refl) as Hl.
    set (w3 := upd_item (fst s2) i (fun it0 => it_set_cont it0 None)).
    enough (Fin : RJ w3 /\ (forall x, get_item w3 i = Some x -> direct x -> i_loaded x = None /\ i_cont x = None))
      by exact Fin.
    unfold w3. split; [split|].
    + apply RT_restore with (i := i).
      * eapply RT_upd1; [apply upd1_upd|now left|]. eapply RT_weaken; [|exact (proj1 R2)]. intros j [].
      * intros x Hx. rewrite get_upd_item, H2, Nat.eqb_refl in Hx. injection Hx as <-.
        intros _. split; [|split; [|split; [|split]]].
        -- intros _. now apply C1.
        -- intros H. cbn in H. congruence.
        -- now left.
        -- intros s0 H. cbn in H. congruence.
        -- intros H. cbn in H. congruence.
    + apply (OW_clear_cont (fst s2) i (proj2 R2)).
    + intros x Hx _. rewrite get_upd_item, H2, Nat.eqb_refl in Hx. injection Hx as <-. split; [exact Hl|reflexivity].
Qed.

(* ------------------------------------------------------------------ *)
(* operations                                                           *)

Definition same_is (w w' : world) : Prop :=
  w_items w' = w_items w /\ w_next w' = w_next w /\ w_srcs w' = w_srcs w.

Lemma same_is_refl w : same_is w w. Proof. repeat split. Qed.
Lemma same_is_trans a b c : same_is a b -> same_is b c -> same_is a c.
Proof. intros (A1 & A2 & A3) (B1 & B2 & B3). repeat split; congruence. Qed.
Lemma same_is_fail w e : same_is w (fail w e).
Proof. unfold fail. destruct (w_err w); repeat split. Qed.
Lemma same_is_upd_fit w f g : same_is w (upd_fit w f g).
Proof. unfold upd_fit. destruct (get_fit w f); [repeat split|apply same_is_fail]. Qed.

Lemma same_is_get w w' j : same_is w w' -> get_item w' j = get_item w j.
Proof. intros (H & _). unfold get_item. now rewrite H. Qed.

Lemma RT_same_is X w w' : same_is w w' -> RT X w -> RT X w'.
Proof.
  intros S R j it Hj G. rewrite (same_is_get _ _ j S) in G.
  eapply good_ext; [exact (proj2 (proj2 S))|reflexivity|]. eapply R; eauto.
Qed.
Lemma J_same_is w w' : same_is w w' -> J w -> J w'.
Proof.
  intros S (I & J3 & J4 & J5). pose proof (fun j => same_is_get _ _ j S) as G. destruct S as (_ & N & _).
  split; [|split; [|split]].
  - intros j it H. rewrite G in H. rewrite N. eapply I; eauto.
  - intros j it H. rewrite G in H. eapply J3; eauto.
  - intros i it e a H Hin. rewrite G in H. unfold cls_of. rewrite G. eapply J4; eauto.
  - intros i it o H Ho. rewrite G in H. unfold cls_of. rewrite G. eapply J5; eauto.
Qed.
Lemma RJ_same_is w w' : same_is w w' -> RJ w -> RJ w'.
Proof. intros S (R & Jw). split; [eapply RT_same_is; eauto|eapply J_same_is; eauto]. Qed.

Lemma sticky_upd_fit w f g : sticky w (upd_fit w f g).
Proof. unfold upd_fit. destruct (get_fit w f); [intros H; exact H|apply sticky_fail]. Qed.

(* an unloaded-or-not check: an item without container is not loaded *)
Lemma no_container_unloaded w i it :
  RT [] w -> get_item w i = Some it -> direct it -> has_container w i = false -> i_loaded it = None.
Proof.
  intros R Hi D Hc. destruct (R i it (fun x => x) Hi D) as (_ & C2 & _).
  unfold has_container in Hc. rewrite Hi in Hc. destruct (i_cont it) eqn:Ec; [discriminate|].
  destruct (i_loaded it) eqn:El; [|reflexivity]. exfalso. apply C2; [discriminate|].
  unfold fitcont_of. now rewrite Ec.
Qed.

(* an item of a directly held class enters a fit container *)
Lemma enter_RJ (s s1 : st) i p it :
  RJ (fst s) -> same_is (fst s) (fst s1) -> get_item (fst s) i = Some it -> direct it ->
  has_container (fst s) i = false -> racklike_of p <> None ->
  w_err (fst (add_item F s1 i p)) = None -> RJ (fst (add_item F s1 i p)).
Proof.
  intros R S Hi D Hc Hp He.
  apply (add_RJ F s1 i p it); auto.
  - eapply RJ_same_is; eauto.
  - now rewrite (same_is_get _ _ i S).
  - intros _. split; [|exact Hp]. eapply no_container_unloaded; eauto. apply R.
  - intros N. contradiction.
Qed.

Lemma rack_accepts_direct k c it : rack_accepts k c = true -> i_cls it = c -> direct it.
Proof. intros H <-. unfold direct. destruct k, (i_cls it); simpl in *; try discriminate; cbn; discriminate. Qed.
Lemma set_accepts_direct k c it : set_accepts k c = true -> i_cls it = c -> direct it.
Proof. intros H <-. unfold direct. destruct k, (i_cls it); simpl in *; try discriminate; cbn; discriminate. Qed.
Lemma slot_accepts_direct k c it : slot_accepts k c = true -> i_cls it = c -> direct it.
Proof. intros H <-. unfold direct. destruct k, (i_cls it); simpl in *; try discriminate; cbn; discriminate. Qed.

Lemma same_is_set_rack s f k l : same_is (fst s) (fst (set_rack s f k l)).
Proof. unfold set_rack, lift, put_rack. cbn [fst]. apply same_is_upd_fit. Qed.
Lemma sticky_set_rack s f k l : sticky (fst s) (fst (set_rack s f k l)).
Proof. unfold set_rack, lift, put_rack. cbn [fst]. apply sticky_upd_fit. Qed.

Lemma cls_of_some' w i c : cls_of w i = Some c -> exists it, get_item w i = Some it /\ i_cls it = c.
Proof. unfold cls_of. destruct (get_item w i) as [it|]; [|discriminate]. intros [= <-]. eauto. Qed.

Lemma rack_enter_RJ s f k i l2 c :
  RJ (fst s) -> cls_of (fst s) i = Some c -> rack_accepts k c = true -> has_container (fst s) i = false ->
  w_err (fst (add_item F (set_rack s f k l2) i (PRack f k))) = None ->
  RJ (fst (add_item F (set_rack s f k l2) i (PRack f k))).
Proof.
  intros R Hc Ha Hn He. destruct (cls_of_some' _ _ _ Hc) as (it & Hi & Ec).
  eapply (enter_RJ s); eauto.
  - apply same_is_set_rack.
  - eapply rack_accepts_direct; eauto.
  - discriminate.
Qed.

Theorem rack_append_RJ s f k i :
  RJ (fst s) -> w_err (fst (fst (rack_append s f k i))) = None -> RJ (fst (fst (rack_append s f k i))).
Proof.
  intros R. unfold rack_append.
  destruct (cls_of (fst s) i) as [c|] eqn:Hc; [|auto].
  destruct (rack_accepts k c) eqn:Ha; cbn [negb]; [|auto].
  destruct (has_container (fst s) i) eqn:Hn; [auto|]. cbn [fst].
  now apply (rack_enter_RJ s f k i _ c).
Qed.

Theorem rack_insert_RJ s f k idx v :
  RJ (fst s) -> w_err (fst (fst (rack_insert s f k idx v))) = None -> RJ (fst (fst (rack_insert s f k idx v))).
Proof.
  intros R. unfold rack_insert.
  destruct v as [i|].
  - destruct (cls_of (fst s) i) as [c|] eqn:Hc; cbn [negb]; [|auto].
    destruct (rack_accepts k c) eqn:Ha; cbn [negb]; [|auto].
    destruct (has_container (fst s) i) eqn:Hn; cbn [fst].
    + intros _. eapply RJ_same_is; [apply same_is_set_rack|exact R].
    + now apply (rack_enter_RJ s f k i _ c).
  - cbn [negb fst]. intros _. eapply RJ_same_is; [apply same_is_set_rack|exact R].
Qed.

Theorem rack_place_RJ s f k idx i :
  RJ (fst s) -> w_err (fst (fst (rack_place s f k idx i))) = None -> RJ (fst (fst (rack_place s f k idx i))).
Proof.
  intros R. unfold rack_place.
  destruct (cls_of (fst s) i) as [c|] eqn:Hc; [|auto].
  destruct (rack_accepts k c) eqn:Ha; cbn [negb]; [|auto].
  set (l := get_rack (fst s) f k).
  assert (P : forall l1,
    w_err (fst (fst (match norm_index (length l1) idx with
                     | None => (s, RExn XIndex)
                     | Some n =>
                       if has_container (fst s) i
                       then (set_rack s f k (cleanup (list_set l1 n None)), RExn XValue)
                       else (add_item F (set_rack s f k (list_set l1 n (Some i))) i (PRack f k), ROk)
                     end))) = None ->
    RJ (fst (fst (match norm_index (length l1) idx with
                  | None => (s, RExn XIndex)
                  | Some n =>
                    if has_container (fst s) i
                    then (set_rack s f k (cleanup (list_set l1 n None)), RExn XValue)
                    else (add_item F (set_rack s f k (list_set l1 n (Some i))) i (PRack f k), ROk)
                  end)))).
  { intros l1. destruct (norm_index (length l1) idx) as [n|]; [|auto].
    destruct (has_container (fst s) i) eqn:Hn; cbn [fst].
    - intros _. eapply RJ_same_is; [apply same_is_set_rack|exact R].
    - now apply (rack_enter_RJ s f k i _ c). }
  destruct (norm_index (length l) idx) as [n|] eqn:En.
  - destruct (nth_error l n) as [[j|]|]; [auto| |]; specialize (P l); rewrite En in P; exact P.
  - apply P.
Qed.

Theorem rack_equip_RJ s f k i :
  RJ (fst s) -> w_err (fst (fst (rack_equip s f k i))) = None -> RJ (fst (fst (rack_equip s f k i))).
Proof.
  intros R. unfold rack_equip.
  destruct (cls_of (fst s) i) as [c|] eqn:Hc; [|auto].
  destruct (rack_accepts k c) eqn:Ha; cbn [negb]; [|auto].
  destruct (equip_list _ i) as [l1 n].
  destruct (has_container (fst s) i) eqn:Hn; cbn [fst].
  - intros _. eapply RJ_same_is; [apply same_is_set_rack|exact R].
  - now apply (rack_enter_RJ s f k i _ c).
Qed.

Theorem rack_remove_RJ s f k a :
  RJ (fst s) -> w_err (fst (fst (rack_remove s f k a))) = None -> RJ (fst (fst (rack_remove s f k a))).
Proof.
  intros R. unfold rack_remove.
  destruct (rack_locate _ a) as [[n v]|e]; [|auto]. cbn [fst]. destruct v as [i|].
  - intros He. pose proof (sticky_set_rack _ _ _ _ He) as E1.
    eapply RJ_same_is; [apply same_is_set_rack|]. now apply remove_RJ.
  - intros _. eapply RJ_same_is; [apply same_is_set_rack|exact R].
Qed.

Theorem rack_free_RJ s f k a :
  RJ (fst s) -> w_err (fst (fst (rack_free s f k a))) = None -> RJ (fst (fst (rack_free s f k a))).
Proof.
  intros R. unfold rack_free.
  destruct (rack_locate _ a) as [[n [i|]]|e]; auto. cbn [fst].
  intros He. pose proof (sticky_set_rack _ _ _ _ He) as E1.
  eapply RJ_same_is; [apply same_is_set_rack|]. now apply remove_RJ.
Qed.

Lemma remove_fold_RJ {A} (g : A -> option nat) l : forall s,
  RJ (fst s) ->
  w_err (fst (fold_left (fun s v => match g v with Some i => remove_item F s i | None => s end) l s)) = None ->
  RJ (fst (fold_left (fun s v => match g v with Some i => remove_item F s i | None => s end) l s)).
Proof.
  apply RJ_fold_err.
  - intros s x. destruct (g x); [apply sticky_remove|apply sticky_refl].
  - intros s x R He. destruct (g x); [now apply remove_RJ|exact R].
Qed.

Theorem rack_clear_RJ s f k :
  RJ (fst s) -> w_err (fst (fst (rack_clear s f k))) = None -> RJ (fst (fst (rack_clear s f k))).
Proof.
  intros R. unfold rack_clear. cbn [fst]. intros He. pose proof (sticky_set_rack _ _ _ _ He) as E1.
  eapply RJ_same_is; [apply same_is_set_rack|]. now apply (remove_fold_RJ (fun v => v)).
Qed.

(* ------------------------------------------------------------------ *)
(* sets                                                                 *)

Lemma same_is_put_setc w f k l : same_is w (put_setc w f k l).
Proof. unfold put_setc. apply same_is_upd_fit. Qed.
Lemma same_is_put_skillmap w f m : same_is w (put_skillmap w f m).
Proof. unfold put_skillmap. apply same_is_upd_fit. Qed.
Lemma sticky_put_setc w f k l : sticky w (put_setc w f k l).
Proof. unfold put_setc. apply sticky_upd_fit. Qed.
Lemma sticky_put_skillmap w f m : sticky w (put_skillmap w f m).
Proof. unfold put_skillmap. apply sticky_upd_fit. Qed.

Theorem itemset_add_RJ s f k i :
  RJ (fst s) -> w_err (fst (fst (itemset_add s f k i))) = None -> RJ (fst (fst (itemset_add s f k i))).
Proof.
  intros R. unfold itemset_add.
  destruct (cls_of (fst s) i) as [c|] eqn:Hc; [|auto].
  destruct (set_accepts k c) eqn:Ha; cbn [negb]; [|auto].
  destruct (has_container (fst s) i) eqn:Hn.
  - intros _. destruct (mem neqb _ i); cbn [fst]; unfold lift; cbn [fst].
    + eapply RJ_same_is; [apply same_is_put_setc|exact R].
    + eapply RJ_same_is; [|exact R]. eapply same_is_trans; apply same_is_put_setc.
  - cbn [fst]. destruct (cls_of_some' _ _ _ Hc) as (it & Hi & Ec).
    eapply (enter_RJ s); eauto.
    + unfold lift. cbn [fst]. apply same_is_put_setc.
    + eapply set_accepts_direct; eauto.
    + discriminate.
Qed.

Theorem set_add_op_RJ s f k i :
  RJ (fst s) -> w_err (fst (fst (set_add_op s f k i))) = None -> RJ (fst (fst (set_add_op s f k i))).
Proof.
  intros R. unfold set_add_op. destruct k; try (now apply itemset_add_RJ).
  destruct (get_item (fst s) i) as [it|]; [|auto].
  destruct (set_accepts SeSkills (i_cls it)); cbn [negb]; [|auto].
  destruct (al_mem zeqb _ (i_tid it)); [auto|].
  set (s1 := lift s _).
  assert (R1 : RJ (fst s1)) by (eapply RJ_same_is; [|exact R]; unfold s1, lift; cbn [fst]; apply same_is_put_skillmap).
  pose proof (itemset_add_RJ s1 f SeSkills i R1) as H.
  destruct (itemset_add s1 f SeSkills i) as [s2 r]. cbn [fst] in H.
  destruct r; cbn [fst]; try exact H.
  unfold lift. cbn [fst]. intros He. pose proof (sticky_put_skillmap _ _ _ He) as E2.
  eapply RJ_same_is; [apply same_is_put_skillmap|now apply H].
Qed.

Theorem set_remove_op_RJ s f k i :
  RJ (fst s) -> w_err (fst (fst (set_remove_op s f k i))) = None -> RJ (fst (fst (set_remove_op s f k i))).
Proof.
  intros R. unfold set_remove_op.
  destruct (mem neqb _ i); cbn [negb]; [|auto].
  set (s2 := remove_item F s i).
  set (s3 := lift s2 (fun w => put_setc w f k (set_rm neqb (get_setc w f k) i))).
  assert (H3 : w_err (fst s3) = None -> RJ (fst s3)).
  { intros E3. unfold s3, lift in *. cbn [fst] in *. pose proof (sticky_put_setc _ _ _ _ E3) as E2.
    eapply RJ_same_is; [apply same_is_put_setc|]. now apply remove_RJ. }
  destruct k; try exact H3.
  destruct (get_item (fst s3) i) as [it|]; [|exact H3]. cbn [fst]. unfold lift at 1. cbn [fst].
  intros He. pose proof (sticky_put_skillmap _ _ _ He) as E3.
  eapply RJ_same_is; [apply same_is_put_skillmap|now apply H3].
Qed.

Theorem skill_del_op_RJ s f tid :
  RJ (fst s) -> w_err (fst (fst (skill_del_op s f tid))) = None -> RJ (fst (fst (skill_del_op s f tid))).
Proof.
  intros R. unfold skill_del_op. destruct (al_get zeqb _ tid); [now apply set_remove_op_RJ|auto].
Qed.

Theorem set_clear_op_RJ s f k :
  RJ (fst s) -> w_err (fst (fst (set_clear_op s f k))) = None -> RJ (fst (fst (set_clear_op s f k))).
Proof.
  intros R. unfold set_clear_op.
  match goal with |- context[fold_left ?g ?l s] => set (s2 := fold_left g l s) end.
  set (s3 := lift s2 (fun w => put_setc w f k [])).
  assert (H3 : w_err (fst s3) = None -> RJ (fst s3)).
  { intros E3. unfold s3, lift in *. cbn [fst] in *. pose proof (sticky_put_setc _ _ _ _ E3) as E2.
    eapply RJ_same_is; [apply same_is_put_setc|]. now apply (remove_fold_RJ (fun v => Some v)). }
  destruct k; try exact H3. cbn [fst]. unfold lift at 1. cbn [fst].
  intros He. pose proof (sticky_put_skillmap _ _ _ He) as E3.
  eapply RJ_same_is; [apply same_is_put_skillmap|now apply H3].
Qed.

(* ------------------------------------------------------------------ *)
(* slots and charges                                                    *)

Lemma direct_of_cls w w' i it :
  get_item w i = Some it -> direct it -> cls_kept w w' ->
  forall x, get_item w' i = Some x -> direct x.
Proof.
  intros Hi D Ck x Hx. assert (C : cls_of w' i = Some (i_cls it)) by (apply Ck; unfold cls_of; now rewrite Hi).
  unfold cls_of in C. rewrite Hx in C. injection C as C. eapply direct_cls; [|exact D]. now rewrite <- C.
Qed.

Lemma has_container_same_is w w' i : same_is w w' -> has_container w' i = has_container w i.
Proof. intros S. unfold has_container. now rewrite (same_is_get _ _ i S). Qed.

Theorem slot_set_op_RJ s f k new :
  RJ (fst s) ->
  (forall o, match get_fit (fst s) f with Some ft => fit_slot ft k | None => None end = Some o ->
             exists ito, get_item (fst s) o = Some ito /\ direct ito) ->
  w_err (fst (fst (slot_set_op s f k new))) = None -> RJ (fst (fst (slot_set_op s f k new))).
Proof.
  intros R Hold. unfold slot_set_op, descriptor_set. cbv beta.
  set (old := match get_fit (fst s) f with Some ft => fit_slot ft k | None => None end) in *.
  match goal with |- context[negb ?b] => destruct b eqn:Hok end; cbn [negb]; [|auto].
  set (s1 := match old with Some o => remove_item F s o | None => s end).
  assert (H1 : w_err (fst s1) = None ->
               RJ (fst s1) /\ cls_kept (fst s) (fst s1) /\
               (forall o x, old = Some o -> get_item (fst s1) o = Some x -> direct x /\ i_loaded x = None)).
  { intros E1. subst s1. destruct old as [o|] eqn:Eo.
    - destruct (Hold o eq_refl) as (ito & Ho & Do).
      destruct (remove_RJ F s o R E1) as (R1 & P1).
      pose proof (remove_item_ownership 11 s o (proj2 R)) as (_ & _ & _ & Ck). fold F in Ck.
      split; [exact R1|split; [exact Ck|]]. intros o' x [= <-] Hx.
      pose proof (direct_of_cls _ _ o ito Ho Do Ck x Hx) as Dx. split; [exact Dx|]. now apply (P1 x Hx Dx).
    - split; [exact R|split; [intros j c E; exact E|intros o x [=]]]. }
  set (s2 := lift s1 (fun w => upd_fit w f (fun ft => fit_set_slot ft k new))).
  assert (S12 : same_is (fst s1) (fst s2)) by (unfold s2, lift; cbn [fst]; apply same_is_upd_fit).
  assert (K12 : sticky (fst s1) (fst s2)) by (unfold s2, lift; cbn [fst]; apply sticky_upd_fit).
  destruct new as [i|].
  2:{ cbn [fst]. intros He. pose proof (K12 He) as E1. eapply RJ_same_is; [exact S12|]. now apply H1. }
  destruct (cls_of (fst s) i) as [c|] eqn:Hc; [|discriminate].
  destruct (has_container (fst s2) i) eqn:Hh.
  - (* roll-back *)
    set (s3 := lift s2 (fun w => upd_fit w f (fun ft => fit_set_slot ft k old))).
    assert (S13 : same_is (fst s1) (fst s3)).
    { eapply same_is_trans; [exact S12|]. unfold s3, lift. cbn [fst]. apply same_is_upd_fit. }
    assert (K13 : sticky (fst s1) (fst s3)).
    { eapply sticky_trans; [exact K12|]. unfold s3, lift. cbn [fst]. apply sticky_upd_fit. }
    destruct old as [o|] eqn:Eo.
    + cbn [fst]. intros He. pose proof (sticky_add _ _ _ _ He) as E3. pose proof (K13 E3) as E1.
      destruct (H1 E1) as (R1 & Ck & P1).
      destruct (Hold o eq_refl) as (ito & Ho & Do).
      assert (Co : cls_of (fst s1) o = Some (i_cls ito)) by (apply Ck; unfold cls_of; now rewrite Ho).
      destruct (cls_of_some' _ _ _ Co) as (x & Hx & _).
      destruct (P1 o x eq_refl Hx) as (Dx & Lx).
      apply (add_RJ F s3 o (PSlot f k) x); auto.
      * eapply RJ_same_is; eauto.
      * now rewrite (same_is_get _ _ o S13).
      * intros _. split; [exact Lx|discriminate].
      * intros N. contradiction.
    + cbn [fst]. intros He. pose proof (K13 He) as E1. eapply RJ_same_is; [exact S13|]. now apply H1.
  - cbn [fst]. intros He. pose proof (sticky_add _ _ _ _ He) as E2. pose proof (K12 E2) as E1.
    destruct (H1 E1) as (R1 & Ck & _).
    destruct (cls_of_some' _ _ _ (Ck _ _ Hc)) as (it & Hi & Ec).
    eapply (enter_RJ s1 s2); eauto.
    + eapply slot_accepts_direct; eauto.
    + rewrite <- Hh. symmetry. now apply has_container_same_is.
    + discriminate.
Qed.

Theorem charge_set_op_RJ s m new : RJ (fst s) -> RJ (fst (fst (charge_set_op s m new))).
Proof.
  intros R. unfold charge_set_op. destruct (get_item (fst s) m) as [it|] eqn:Hm; [|exact R].
  unfold descriptor_set. cbv beta.
  assert (Hnew : forall i, new = Some i ->
            match cls_of (fst s) i with Some c => icls_eqb c CCharge | None => false end = true ->
            cls_of (fst s) i = Some CCharge).
  { intros i _ H. destruct (cls_of (fst s) i) as [c|]; [|discriminate]. now rewrite (icls_eqb_charge c H). }
  match goal with |- context[negb ?b] => destruct b eqn:Hok end; cbn [negb]; [|exact R].
  assert (Hold : forall o, i_charge it = Some o -> cls_of (fst s) o = Some CCharge).
  { intros o Ho. destruct R as (_ & (_ & _ & _ & J5)). eapply J5; eauto. }
  set (s1 := match i_charge it with Some o => remove_item F s o | None => s end).
  assert (K1 : RJ (fst s1) /\ cls_kept (fst s) (fst s1)).
  { subst s1. destruct (i_charge it) as [o|]; [|split; [exact R|intros j c E; exact E]].
    pose proof (proj2 (nd_unload_remove F) s o (proj2 R) (nd_of_cls _ _ (or_intror (Hold o eq_refl)))) as K.
    split; [eapply RJ_DK; eauto|apply K]. }
  destruct K1 as (R1 & Ck1).
  assert (Store : forall (s0 : st) v, RJ (fst s0) -> (forall o, v = Some o -> cls_of (fst s0) o = Some CCharge) ->
            RJ (fst (lift s0 (fun w => upd_item w m (fun it0 => it_set_charge it0 v)))) /\
            cls_kept (fst s0) (fst (lift s0 (fun w => upd_item w m (fun it0 => it_set_charge it0 v))))).
  { intros s0 v R0 Hv. unfold lift. cbn [fst].
    pose proof (MK_store_charge (fst s0) m v (proj2 R0) Hv) as ((_ & _ & J' & Ck) & _).
    split; [split; [apply RT_upd_same; [reflexivity|apply R0]|exact J']|exact Ck]. }
  set (s2 := lift s1 (fun w => upd_item w m (fun it0 => it_set_charge it0 new))).
  assert (K2 : RJ (fst s2) /\ cls_kept (fst s1) (fst s2)).
  { apply Store; [exact R1|]. intros i ->. apply Ck1. now apply Hnew. }
  destruct K2 as (R2 & Ck2).
  destruct new as [i|]; [|exact R2].
  specialize (Hnew i eq_refl Hok).
  assert (Add : forall (s0 : st) a, RJ (fst s0) -> cls_of (fst s0) a = Some CCharge ->
                                     RJ (fst (add_item F s0 a (PCharge m)))).
  { intros s0 a R0 Ca. eapply RJ_DK; [|exact R0]. apply nd_load_add; [apply R0| |reflexivity].
    apply nd_of_cls. now right. }
  destruct (has_container (fst s2) i); cbn [fst].
  - set (s3 := lift s2 (fun w => upd_item w m (fun it0 => it_set_charge it0 (i_charge it)))).
    assert (K3 : RJ (fst s3) /\ cls_kept (fst s2) (fst s3)).
    { apply Store; [exact R2|]. intros o Ho. apply Ck2, Ck1. now apply Hold. }
    destruct K3 as (R3 & Ck3).
    destruct (i_charge it) as [o|]; [|exact R3].
    apply Add; [exact R3|]. apply Ck3, Ck2, Ck1. now apply Hold.
  - apply Add; [exact R2|]. now apply Ck2, Ck1.
Qed.

(* ------------------------------------------------------------------ *)
(* item setters                                                         *)

Lemma eu_touch w1 i it1 w2 m :
  RT [i] w1 -> get_item w1 i = Some it1 -> (direct it1 -> sgood w1 it1) ->
  effects_update w1 i = (w2, m) -> w_err w2 = None -> RT [] w2.
Proof.
  intros R1 G1 SG Eu He. pose proof (eu_run_only w1 i) as (U & _). rewrite Eu in U. cbn [fst] in U.
  apply RT_restore with (i := i).
  - eapply RT_upd1; [exact U|now left|exact R1].
  - intros x Hx. exact (eu_good w1 i it1 w2 m G1 Eu He SG x Hx).
Qed.

(* item i's record was replaced by one that differs in state / modes only *)
Lemma after_put w i it it1 :
  RT [] w -> J w -> get_item w i = Some it -> direct it -> view it1 = view it ->
  i_tid it1 = i_tid it -> i_loaded it1 = i_loaded it -> i_running it1 = i_running it ->
  let w1 := put_item w i it1 in
  RT [i] w1 /\ J w1 /\ direct it1 /\ sgood w1 it1 /\ (i_loaded it = None -> RT [] w1).
Proof.
  intros R Jw Hi D Ev Etid Eld Erun w1.
  assert (Ecls : i_cls it1 = i_cls it) by (unfold view in Ev; congruence).
  assert (Econt : i_cont it1 = i_cont it) by (unfold view in Ev; congruence).
  assert (Efc : fitcont_of it1 = fitcont_of it) by now apply fitcont_of_cont.
  pose proof (R i it (fun x => x) Hi D) as (C1 & C2 & C3 & C4 & C5).
  assert (U1 : upd1 w w1 i) by apply upd1_put.
  assert (R1 : RT [i] w1).
  { eapply RT_upd1; [exact U1|now left|]. eapply RT_weaken; [|exact R]. intros j []. }
  assert (D1 : direct it1) by (unfold direct in *; now rewrite Ecls).
  assert (SG : sgood w1 it1).
  { split; [|split].
    - rewrite Eld, Efc. exact C2.
    - rewrite Econt, Efc. exact C3.
    - intros s0. rewrite Eld. intros Hl. change (get_src w s0 <> None). now apply C4. }
  split; [exact R1|split; [eapply FC_J; [eapply FC_put; eauto|exact Jw]|split; [exact D1|split; [exact SG|]]]].
  intros Hl. apply RT_restore with (i := i); [exact R1|].
  intros x Hx. unfold w1 in Hx. rewrite get_put_item_same' in Hx. injection Hx as <-. intros _.
  destruct SG as (S2 & S3 & S4). split; [|split; [exact S2|split; [exact S3|split; [exact S4|]]]].
  - intros _. rewrite Erun. now apply C1.
  - rewrite Eld. intros H. congruence.
Qed.

Lemma loaded_on_fit w i it : direct it -> get_item w i = Some it -> sgood w it -> i_loaded it <> None -> item_fit w i <> None.
Proof. intros D Hi (S2 & _) Hl. eapply item_fit_fitcont; eauto. Qed.

Lemma nd_put_RJ w i it it1 :
  RJ w -> get_item w i = Some it -> ~ direct it -> view it1 = view it -> RJ (put_item w i it1) /\ nd (put_item w i it1) i.
Proof.
  intros R Hi D Ev. assert (Ecls : i_cls it1 = i_cls it) by (unfold view in Ev; congruence).
  assert (Hn : nd w i) by (intros x Hx; assert (x = it) by congruence; now subst).
  assert (D1 : ~ direct it1) by (intros D1; apply D; eapply direct_cls; [|exact D1]; now rewrite Ecls).
  assert (DFp : DF w (put_item w i it1)) by (apply DF_put; assumption).
  split; [split; [eapply RT_DF; [exact DFp|apply R]|eapply FC_J; [eapply FC_put; eauto|apply R]]|].
  eapply nd_DF; eauto.
Qed.

Theorem mode_set_op_RJ s i e m :
  RJ (fst s) -> w_err (fst (fst (mode_set_op s i e m))) = None -> RJ (fst (fst (mode_set_op s i e m))).
Proof.
  intros R. unfold mode_set_op. destruct (get_item (fst s) i) as [it|] eqn:Hi;
    [|cbn [fst]; unfold lift; cbn [fst]; intros He; destruct (err_fail_none _ _ He)].
  set (it1 := it_set_modes it _).
  set (s1 := lift s (fun w => put_item w i it1)).
  assert (E1 : fst s1 = put_item (fst s) i it1) by reflexivity.
  destruct (direct_dec it) as [D|D].
  - destruct (after_put (fst s) i it it1 (proj1 R) (proj2 R) Hi D eq_refl eq_refl eq_refl eq_refl)
      as (R1 & J1 & D1 & SG & Hun).
    rewrite <- E1 in R1, J1, SG, Hun.
    assert (G1 : get_item (fst s1) i = Some it1) by (rewrite E1; apply get_put_item_same').
    destruct (item_fit (fst s1) i) as [f|] eqn:Ef; cbn [fst].
    + unfold with_msgs. pose proof (FC_effects_update (fst s1) i) as F2.
      destruct (effects_update (fst s1) i) as [w2 m2] eqn:Eu. cbn [fst] in *. intros He.
      split; [|eapply FC_J; eauto]. eapply eu_touch; eauto.
    + intros _. split; [|exact J1]. apply Hun.
      destruct (i_loaded it) eqn:El; [|reflexivity]. exfalso.
      apply (loaded_on_fit (fst s1) i it1 D1 G1 SG); [|exact Ef]. change (i_loaded it <> None). congruence.
  - destruct (nd_put_RJ (fst s) i it it1 R Hi D eq_refl) as (R1 & Hn1). rewrite <- E1 in R1, Hn1.
    destruct (item_fit (fst s1) i) as [f|]; cbn [fst]; [|intros _; exact R1].
    intros _. unfold with_msgs. pose proof (eu_run_only (fst s1) i) as RO. pose proof (FC_effects_update (fst s1) i) as F2.
    destruct (effects_update (fst s1) i) as [w2 m2]. cbn [fst] in *.
    split; [|eapply FC_J; [exact F2|apply R1]]. eapply RT_DF; [|apply R1]. eapply DF_run_only; eauto.
Qed.

Lemma state_update_run_only w i a b : run_only w (fst (state_update_msgs w i a b)) i.
Proof.
  unfold state_update_msgs. destruct (is_loaded w i); [|apply run_only_refl].
  pose proof (eu_run_only w i) as H. destruct (effects_update w i). exact H.
Qed.
Lemma state_update_sticky w i a b : sticky w (fst (state_update_msgs w i a b)).
Proof. apply (C_state_update sticky sticky_refl sticky_trans sticky_fail sticky_put). Qed.

Lemma container_state_nd w ch : is_container_state w ch = true -> nd w ch.
Proof.
  unfold is_container_state. intros H x Hx D. rewrite Hx in H. unfold direct in D.
  destruct (cr_state (class_row_of (i_cls x))); try discriminate. now apply D.
Qed.

Lemma state_fold_props old new l : forall w ms,
  let r := fold_left (fun (acc : world * list msg) ch =>
                        let (w, ms) := acc in
                        if is_container_state w ch
                        then let (w, m2) := state_update_msgs w ch old new in (w, ms ++ m2)
                        else (w, ms)) l (w, ms) in
  DF w (fst r) /\ sticky w (fst r) /\ FC w (fst r).
Proof.
  induction l as [|ch r IH]; intros w ms; simpl; [split; [apply DF_refl|split; [apply sticky_refl|apply FC_refl]]|].
  destruct (is_container_state w ch) eqn:Ec; [|apply IH].
  pose proof (state_update_run_only w ch old new) as RO.
  pose proof (state_update_sticky w ch old new) as St.
  pose proof (FC_state_update_msgs w ch old new) as F1.
  destruct (state_update_msgs w ch old new) as [w1 m2]. cbn [fst] in *.
  destruct (IH w1 (ms ++ m2)) as (D2 & S2 & F2).
  split; [|split].
  - eapply DF_trans; [|exact D2]. eapply DF_run_only; [exact RO|]. now apply container_state_nd.
  - eapply sticky_trans; eauto.
  - eapply FC_trans; eauto.
Qed.

Theorem state_set_op_RJ s i new :
  RJ (fst s) -> w_err (fst (fst (state_set_op s i new))) = None -> RJ (fst (fst (state_set_op s i new))).
Proof.
  intros R. unfold state_set_op. destruct (get_item (fst s) i) as [it|] eqn:Hi;
    [|cbn [fst]; unfold lift; cbn [fst]; intros He; destruct (err_fail_none _ _ He)].
  destruct (i_state it =? new)%Z; [auto|].
  set (it1 := it_set_state it new).
  set (s1 := lift s (fun w => put_item w i it1)).
  assert (E1 : fst s1 = put_item (fst s) i it1) by reflexivity.
  destruct (direct_dec it) as [D|D].
  - destruct (after_put (fst s) i it it1 (proj1 R) (proj2 R) Hi D eq_refl eq_refl eq_refl eq_refl)
      as (R1 & J1 & D1 & SG & Hun).
    rewrite <- E1 in R1, J1, SG, Hun.
    assert (G1 : get_item (fst s1) i = Some it1) by (rewrite E1; apply get_put_item_same').
    destruct (item_fit (fst s1) i) as [f|] eqn:Ef; cbn [fst].
    + unfold with_msgs.
      pose proof (FC_state_update_msgs (fst s1) i (i_state it) new) as F2.
      assert (A : w_err (fst (state_update_msgs (fst s1) i (i_state it) new)) = None ->
                  RT [] (fst (state_update_msgs (fst s1) i (i_state it) new))).
      { unfold state_update_msgs. destruct (is_loaded (fst s1) i) eqn:El.
        - destruct (effects_update (fst s1) i) as [w2 m2] eqn:Eu. cbn [fst]. intros He2. eapply eu_touch; eauto.
        - cbn [fst]. intros _. apply Hun. unfold is_loaded in El. rewrite G1 in El.
          change (i_loaded it1) with (i_loaded it) in El. destruct (i_loaded it); [discriminate|reflexivity]. }
      destruct (state_update_msgs (fst s1) i (i_state it) new) as [w2 m2]. cbn [fst] in *.
      destruct (state_fold_props (i_state it) new (state_desc (length (child_items it false) + S (length (w_items w2))) w2 (child_items it false)) w2 m2) as (D3 & S3 & F3).
      match goal with |- context[let (_, _) := ?X in _] => destruct X as [w3 m3] end.
      cbn [fst] in *. intros He. pose proof (S3 He) as E2.
      split; [eapply RT_DF; [exact D3|now apply A]|].
      eapply FC_J; [exact F3|]. eapply FC_J; [exact F2|exact J1].
    + intros _. split; [|exact J1]. apply Hun.
      destruct (i_loaded it) eqn:El; [|reflexivity]. exfalso.
      apply (loaded_on_fit (fst s1) i it1 D1 G1 SG); [|exact Ef]. change (i_loaded it <> None). congruence.
  - destruct (nd_put_RJ (fst s) i it it1 R Hi D eq_refl) as (R1 & Hn1). rewrite <- E1 in R1, Hn1.
    destruct (item_fit (fst s1) i) as [f|]; cbn [fst]; [|intros _; exact R1].
    intros _. unfold with_msgs.
    pose proof (state_update_run_only (fst s1) i (i_state it) new) as RO.
    pose proof (FC_state_update_msgs (fst s1) i (i_state it) new) as F2.
    destruct (state_update_msgs (fst s1) i (i_state it) new) as [w2 m2]. cbn [fst] in *.
    destruct (state_fold_props (i_state it) new (state_desc (length (child_items it false) + S (length (w_items w2))) w2 (child_items it false)) w2 m2) as (D3 & S3 & F3).
    match goal with |- context[let (_, _) := ?X in _] => destruct X as [w3 m3] end.
    cbn [fst] in *.
    split; [|eapply FC_J; [exact F3|]; eapply FC_J; [exact F2|apply R1]].
    eapply RT_DF; [exact D3|]. eapply RT_DF; [|apply R1]. eapply DF_run_only; eauto.
Qed.

Lemma RT_fail X w e : RT X w -> RT X (fail w e).
Proof. apply RT_same_is, same_is_fail. Qed.

Theorem target_set_op_RJ s i new : RJ (fst s) -> RJ (fst (fst (target_set_op s i new))).
Proof.
  intros R. split; [|exact (MK_J _ _ (target_set_op_MK s i new (proj2 R)))]. destruct R as (R & _).
  unfold target_set_op. destruct (get_item (fst s) i) as [it|] eqn:Hi; [|cbn [fst]; now apply RT_fail].
  destruct (onat_eqb (i_target it) new); [exact R|].
  destruct (item_fit (fst s) i) as [f|]; cbn [fst].
  - match goal with |- context[match ?X with Some _ => _ | None => _ end] =>
      match X with fold_right _ _ _ => destruct X as [pe|] end end; [|cbn [fst]; now apply RT_fail].
    cbn [fst].
    set (s1 := match i_target it with Some o => emit_always s f _ | None => s end).
    assert (E1 : fst s1 = fst s) by (subst s1; destruct (i_target it); reflexivity).
    set (s2 := lift s1 (fun w => upd_item w i (fun it0 => it_set_target it0 new))).
    assert (R2 : RT [] (fst s2)).
    { unfold s2, lift. cbn [fst]. rewrite E1. apply RT_upd_same; [reflexivity|exact R]. }
    destruct new; exact R2.
  - eapply RT_put_same; eauto.
Qed.

Theorem level_set_op_RJ s i l : RJ (fst s) -> RJ (fst (fst (level_set_op s i l))).
Proof.
  intros R. split; [|exact (MK_J _ _ (level_set_op_MK s i l (proj2 R)))]. destruct R as (R & _).
  unfold level_set_op. destruct (get_item (fst s) i) as [it|] eqn:Hi; [|cbn [fst]; now apply RT_fail].
  destruct (i_level it =? l)%Z; [exact R|].
  set (s1 := lift s _).
  assert (R1 : RT [] (fst s1)) by (unfold s1, lift; cbn [fst]; eapply RT_put_same; eauto).
  destruct (item_fit (fst s1) i); exact R1.
Qed.

(* ------------------------------------------------------------------ *)
(* fleets, solar systems, sources                                       *)

Lemma same_is_fleet_link w fl l f v :
  same_is w (upd_fit (set_fleets w (al_set neqb (w_fleets w) fl l)) f (fun ft => fit_set_fleet ft v)).
Proof. eapply same_is_trans; [|apply same_is_upd_fit]. repeat split. Qed.

Theorem fleet_add_op_RJ s fl f : RJ (fst s) -> RJ (fst (fst (fleet_add_op s fl f))).
Proof.
  intros R. unfold fleet_add_op. destruct (fit_fleet (fst s) f); [exact R|].
  cbn [fst]. unfold emit_always, lift. cbn [fst]. eapply RJ_same_is; [apply same_is_fleet_link|exact R].
Qed.
Lemma fleet_remove_one_RJ s fl f : RJ (fst s) -> RJ (fst (fleet_remove_one s fl f)).
Proof.
  intros R. unfold fleet_remove_one, emit_always, lift. cbn [fst].
  eapply RJ_same_is; [apply same_is_fleet_link|exact R].
Qed.
Theorem fleet_remove_op_RJ s fl f : RJ (fst s) -> RJ (fst (fst (fleet_remove_op s fl f))).
Proof.
  intros R. unfold fleet_remove_op. destruct (mem neqb _ f); cbn [negb fst]; [|exact R].
  now apply fleet_remove_one_RJ.
Qed.
Theorem fleet_clear_op_RJ s fl : RJ (fst s) -> RJ (fst (fst (fleet_clear_op s fl))).
Proof.
  intros R. unfold fleet_clear_op. cbn [fst]. apply RJ_fold; [|exact R].
  intros s0 x R0. now apply fleet_remove_one_RJ.
Qed.

Lemma sticky_lift (s : st) g : (forall w, sticky w (g w)) -> sticky (fst s) (fst (lift s g)).
Proof. apply (C_lift sticky). Qed.

Lemma load_fit_items_RJ s f :
  RJ (fst s) -> w_err (fst (load_fit_items s f)) = None -> RJ (fst (load_fit_items s f)).
Proof.
  intros R. unfold load_fit_items. destruct (get_fit (fst s) f);
    [|unfold lift; cbn [fst]; intros He; destruct (err_fail_none _ _ He)].
  apply RJ_fold_err; [intros; apply sticky_load|intros; now apply load_RJ|exact R].
Qed.
Lemma load_fit_items_sticky s f : sticky (fst s) (fst (load_fit_items s f)).
Proof.
  unfold load_fit_items. destruct (get_fit (fst s) f); [|apply sticky_lift; intros; apply sticky_fail].
  apply (C_fold sticky sticky_refl sticky_trans). intros; apply sticky_load.
Qed.
Lemma unload_fit_items_RJ s f :
  RJ (fst s) -> w_err (fst (unload_fit_items s f)) = None -> RJ (fst (unload_fit_items s f)).
Proof.
  intros R. unfold unload_fit_items. destruct (get_fit (fst s) f);
    [|unfold lift; cbn [fst]; intros He; destruct (err_fail_none _ _ He)].
  apply RJ_fold_err; [intros; apply sticky_unload|intros; now apply unload_RJ|exact R].
Qed.
Lemma unload_fit_items_sticky s f : sticky (fst s) (fst (unload_fit_items s f)).
Proof.
  unfold unload_fit_items. destruct (get_fit (fst s) f); [|apply sticky_lift; intros; apply sticky_fail].
  apply (C_fold sticky sticky_refl sticky_trans). intros; apply sticky_unload.
Qed.

Lemma same_is_ss_set_fits w x l : same_is w (ss_set_fits w x l).
Proof. unfold ss_set_fits. destruct (get_ss w x); [repeat split|apply same_is_fail]. Qed.
Lemma sticky_ss_set_fits w x l : sticky w (ss_set_fits w x l).
Proof. unfold ss_set_fits. destruct (get_ss w x); [intros H; exact H|apply sticky_fail]. Qed.
Lemma same_is_solsys_link w x l f v :
  same_is w (upd_fit (ss_set_fits w x l) f (fun ft => fit_set_solsys ft v)).
Proof. eapply same_is_trans; [apply same_is_ss_set_fits|apply same_is_upd_fit]. Qed.
Lemma sticky_solsys_link w x l f v :
  sticky w (upd_fit (ss_set_fits w x l) f (fun ft => fit_set_solsys ft v)).
Proof. eapply sticky_trans; [apply sticky_ss_set_fits|apply sticky_upd_fit]. Qed.

Theorem solsys_add_op_RJ s x f :
  RJ (fst s) -> w_err (fst (fst (solsys_add_op s x f))) = None -> RJ (fst (fst (solsys_add_op s x f))).
Proof.
  intros R. unfold solsys_add_op. destruct (fit_solsys (fst s) f); [auto|]. cbn [fst].
  apply load_fit_items_RJ. unfold lift. cbn [fst]. eapply RJ_same_is; [apply same_is_solsys_link|exact R].
Qed.
Lemma solsys_remove_one_RJ s x f :
  RJ (fst s) -> w_err (fst (solsys_remove_one s x f)) = None -> RJ (fst (solsys_remove_one s x f)).
Proof.
  intros R. unfold solsys_remove_one, lift. cbn [fst]. intros He.
  pose proof (sticky_solsys_link _ _ _ _ _ He) as E1.
  eapply RJ_same_is; [apply same_is_solsys_link|]. now apply unload_fit_items_RJ.
Qed.
Lemma solsys_remove_one_sticky s x f : sticky (fst s) (fst (solsys_remove_one s x f)).
Proof.
  unfold solsys_remove_one, lift. cbn [fst].
  eapply sticky_trans; [apply unload_fit_items_sticky|apply sticky_solsys_link].
Qed.
Theorem solsys_remove_op_RJ s x f :
  RJ (fst s) -> w_err (fst (fst (solsys_remove_op s x f))) = None -> RJ (fst (fst (solsys_remove_op s x f))).
Proof.
  intros R. unfold solsys_remove_op. destruct (mem neqb _ f); cbn [negb fst]; [|auto].
  now apply solsys_remove_one_RJ.
Qed.
Theorem solsys_clear_op_RJ s x :
  RJ (fst s) -> w_err (fst (fst (solsys_clear_op s x))) = None -> RJ (fst (fst (solsys_clear_op s x))).
Proof.
  intros R. unfold solsys_clear_op. cbn [fst].
  apply RJ_fold_err; [intros; apply solsys_remove_one_sticky|intros; now apply solsys_remove_one_RJ|exact R].
Qed.

Theorem source_set_op_RJ s x new :
  RJ (fst s) -> w_err (fst (fst (source_set_op s x new))) = None -> RJ (fst (fst (source_set_op s x new))).
Proof.
  intros R. unfold source_set_op. destruct (get_ss (fst s) x) as [y|];
    [|cbn [fst]; unfold lift; cbn [fst]; intros He; destruct (err_fail_none _ _ He)].
  destruct (onat_eqb (ss_source y) new); [auto|].
  match goal with |- context[if ?b then (s, RExn XUnknownSource) else _] => destruct b end; [auto|]. cbn [fst].
  set (s1 := match ss_source y with Some _ => fold_left unload_fit_items (ss_fits y) s | None => s end).
  assert (H1 : w_err (fst s1) = None -> RJ (fst s1)).
  { subst s1. destruct (ss_source y); [|auto].
    apply RJ_fold_err; [intros; apply unload_fit_items_sticky|intros; now apply unload_fit_items_RJ|exact R]. }
  set (s2 := lift s1 _).
  assert (S12 : same_is (fst s1) (fst s2)).
  { unfold s2, lift. cbn [fst]. destruct (get_ss (fst s1) x); [repeat split|apply same_is_fail]. }
  assert (K12 : sticky (fst s1) (fst s2)).
  { unfold s2, lift. cbn [fst]. destruct (get_ss (fst s1) x); [intros H; exact H|apply sticky_fail]. }
  destruct new.
  - intros He.
    assert (E2 : w_err (fst s2) = None).
    { exact (C_fold sticky sticky_refl sticky_trans load_fit_items _ load_fit_items_sticky s2 He). }
    apply RJ_fold_err; [intros; apply load_fit_items_sticky|intros; now apply load_fit_items_RJ| |exact He].
    eapply RJ_same_is; [exact S12|]. apply H1. now apply K12.
  - intros He. eapply RJ_same_is; [exact S12|]. apply H1. now apply K12.
Qed.

(* ------------------------------------------------------------------ *)
(* every operation, every history                                       *)

Definition op_ok2 (w : world) (o : op) : Prop :=
  op_ok w o /\ match o with ODefSource src _ => get_src w src = None | _ => True end.

Definition INV (w : world) : Prop := CI w /\ RT [] w.
Lemma INV_RJ w : INV w -> RJ w. Proof. intros (C & R). split; [exact R|apply C]. Qed.

Lemma good_new_item w c tid st lvl : good_it w (new_item c tid st lvl).
Proof.
  intros _. split; [reflexivity|split; [intros H; now destruct H|split; [now left|split]]].
  - intros s H. discriminate.
  - intros H. now destruct H.
Qed.

Lemma RT_new_item w i c tid st lvl : RT [] w -> RT [] (put_item w i (new_item c tid st lvl)).
Proof.
  intros R. apply RT_restore with (i := i).
  - eapply RT_upd1; [apply upd1_put|now left|]. eapply RT_weaken; [|exact R]. intros j [].
  - intros x Hx. rewrite get_put_item_same' in Hx. injection Hx as <-. apply good_new_item.
Qed.

Lemma get_src_set_other w src u s0 :
  s0 <> src -> get_src (set_srcs w (al_set neqb (w_srcs w) src u)) s0 = get_src w s0.
Proof. intros N. unfold get_src. simpl. unfold neqb. apply al_get_set_other. congruence. Qed.

Lemma RT_def_source w src u : get_src w src = None -> RT [] w -> RT [] (set_srcs w (al_set neqb (w_srcs w) src u)).
Proof.
  intros Hs R j it _ G D. change (get_item w j = Some it) in G.
  destruct (R j it (fun x => x) G D) as (C1 & C2 & C3 & C4 & C5).
  set (w' := set_srcs w (al_set neqb (w_srcs w) src u)).
  assert (Same : forall s0, i_loaded it = Some s0 -> get_src w' s0 = get_src w s0).
  { intros s0 Hl. apply get_src_set_other. intros ->. apply (C4 src Hl). exact Hs. }
  assert (Ety : item_type w' it = item_type w it).
  { unfold item_type. destruct (i_loaded it) as [s0|] eqn:El; [|reflexivity]. now rewrite Same. }
  assert (Eef : item_effects w' it = item_effects w it).
  { unfold item_effects, item_universe. rewrite Ety. destruct (i_loaded it) as [s0|] eqn:El; [|reflexivity].
    now rewrite Same. }
  split; [exact C1|split; [exact C2|split; [exact C3|split]]].
  - intros s0 Hl. rewrite (Same s0 Hl). now apply C4.
  - intros Hl r. unfold expected. rewrite Ety, Eef. now apply C5.
Qed.

Lemma slot_occupant_direct w f k o :
  CI w -> match get_fit w f with Some ft => fit_slot ft k | None => None end = Some o ->
  exists ito, get_item w o = Some ito /\ direct ito.
Proof.
  intros (Jw & M & _) Ho.
  assert (Hm : In o (members w (PSlot f k))) by (rewrite members_slot; unfold slot_of; rewrite Ho; now left).
  apply M in Hm. destruct (fitcont_some_cls w o _ Jw Hm) as (c & Hc & Nc).
  destruct (cls_of_some' _ _ _ Hc) as (ito & Hi & Ec). exists ito. split; [exact Hi|].
  destruct (direct_dec ito) as [D|D]; [exact D|]. exfalso. apply Nc. rewrite <- Ec. now apply direct_childcls.
Qed.

Theorem md_op_RT w o :
  INV w -> op_ok2 w o -> w_err (fst (fst (md_op w o))) = None -> RT [] (fst (fst (md_op w o))).
Proof.
  intros I (Hok & Hsrc). pose proof (INV_RJ w I) as R. destruct I as (C & RTw).
  destruct o; cbn [md_op op_ok] in *; cbn [fst].
  - (* ODefSource *) intros _. unfold lift. cbn [fst]. now apply RT_def_source.
  - (* ONewItem *) intros _. unfold lift. cbn [fst]. now apply RT_new_item.
  - (* ONewFit *)
    destruct Hok as (Hf & Hc & Hlt). intros He.
    set (w1 := put_item (put_fit w f empty_fit) chr (new_item CCharacter TypeId_character_static State_offline 0)).
    assert (C1 : CI w1) by (apply CI_new_item; [now apply CI_new_fit|exact Hc|exact Hlt]).
    assert (R1 : RJ w1).
    { split; [|apply C1]. apply RT_new_item. eapply RT_same_is; [|exact RTw]. repeat split. }
    apply (slot_set_op_RJ (w1, []) f SlCharacter (Some chr) R1); [|exact He].
    intros o Ho. exact (slot_occupant_direct w1 f SlCharacter o C1 Ho).
  - (* ONewSolsys *) intros _. unfold lift. cbn [fst]. eapply RT_same_is; [|exact RTw]. repeat split.
  - intros He. apply (slot_set_op_RJ (w, []) f k v R); [|exact He].
    intros o Ho. exact (slot_occupant_direct w f k o C Ho).
  - intros He. now apply (set_add_op_RJ (w, [])).
  - intros He. now apply (set_remove_op_RJ (w, [])).
  - intros He. now apply (set_clear_op_RJ (w, [])).
  - intros He. now apply (skill_del_op_RJ (w, [])).
  - intros He. now apply (rack_append_RJ (w, [])).
  - intros He. now apply (rack_insert_RJ (w, [])).
  - intros He. now apply (rack_place_RJ (w, [])).
  - intros He. now apply (rack_equip_RJ (w, [])).
  - intros He. now apply (rack_remove_RJ (w, [])).
  - intros He. now apply (rack_free_RJ (w, [])).
  - intros He. now apply (rack_clear_RJ (w, [])).
  - intros _. now apply (charge_set_op_RJ (w, [])).
  - intros He. now apply (state_set_op_RJ (w, [])).
  - intros _. now apply (target_set_op_RJ (w, [])).
  - intros He. now apply (mode_set_op_RJ (w, [])).
  - intros _. now apply (level_set_op_RJ (w, [])).
  - intros _. now apply (fleet_add_op_RJ (w, [])).
  - intros _. now apply (fleet_remove_op_RJ (w, [])).
  - intros _. now apply (fleet_clear_op_RJ (w, [])).
  - intros He. now apply (solsys_add_op_RJ (w, [])).
  - intros He. now apply (solsys_remove_op_RJ (w, [])).
  - intros He. now apply (solsys_clear_op_RJ (w, [])).
  - intros He. now apply (source_set_op_RJ (w, [])).
  - intros _. exact RTw.
  - intros _. exact RTw.
  - intros _. exact RTw.
  - intros _. exact RTw.
Qed.

Lemma INV_clear_err w : INV w -> INV (clear_err w).
Proof. intros (C & R). split; [now apply CI_clear_err|]. eapply RT_same_is; [|exact R]. repeat split. Qed.

(* a history is clean when every call respects the caller obligations and no call ends in an internal error *)
Fixpoint ops_clean (x : sys) (ops : list op) : Prop :=
  match ops with
  | [] => True
  | o :: r => op_ok2 (clear_err (s_w x)) o /\ w_err (s_w (fst (step x o))) = None /\ ops_clean (fst (step x o)) r
  end.

Theorem step_INV x o :
  INV (s_w x) -> op_ok2 (clear_err (s_w x)) o -> w_err (s_w (fst (step x o))) = None -> INV (s_w (fst (step x o))).
Proof.
  intros I Hok. apply INV_clear_err in I. revert Hok. unfold step, step_ev.
  destruct (is_read o).
  - destruct (read_op _ _ o) as [d' r]. intros _ _. exact I.
  - intros Hok. pose proof (md_op_CI _ o (proj1 I) (proj1 Hok)) as C'.
    pose proof (md_op_RT _ o I Hok) as R'.
    destruct (md_op (clear_err (s_w x)) o) as [[w' evs] r]. cbn [fst s_w] in *. intros He. split; auto.
Qed.

Theorem run_INV ops : forall x, INV (s_w x) -> ops_clean x ops -> INV (s_w (run x ops)).
Proof.
  induction ops as [|o r IH]; intros x I Hc; [exact I|].
  destruct Hc as (H1 & H2 & H3). unfold run. simpl. apply IH; [now apply step_INV|exact H3].
Qed.

Lemma INV_empty : INV empty_world.
Proof. split; [apply CI_empty|]. intros j it _ H. discriminate. Qed.

(* boolean versions, evaluated by the extracted driver *)
Lemma op_okb2_ok w o : op_okb2 w o = true -> op_ok2 w o.
Proof.
  unfold op_okb2. intros H. apply andb_true_iff in H. destruct H as (H1 & H2).
  split; [now apply op_okb_ok|]. destruct o; auto. destruct (get_src w src); [discriminate|reflexivity].
Qed.
Fixpoint ops_cleanb (x : sys) (ops : list op) : bool :=
  match ops with
  | [] => true
  | o :: r => op_okb2 (clear_err (s_w x)) o && negb (is_some (w_err (s_w (fst (step x o)))))
              && ops_cleanb (fst (step x o)) r
  end.
Lemma ops_cleanb_ok ops : forall x, ops_cleanb x ops = true -> ops_clean x ops.
Proof.
  induction ops as [|o r IH]; intros x H; simpl in *; [exact I|].
  apply andb_true_iff in H. destruct H as (H12 & H3). apply andb_true_iff in H12. destruct H12 as (H1 & H2).
  split; [now apply op_okb2_ok|split; [|now apply IH]].
  destruct (w_err (s_w (fst (step x o)))); [discriminate|reflexivity].
Qed.

(* from the empty system, after any clean history: the running set of every
   directly held item is the table's *)
Theorem running_is_table pen ops :
  ops_cleanb (init_sys pen) ops = true ->
  let w := s_w (run (init_sys pen) ops) in
  forall i it, get_item w i = Some it -> direct it ->
    (i_loaded it = None -> i_running it = []) /\
    (i_loaded it <> None -> forall r, expected w it = Some r -> set_equiv (i_running it) r).
Proof.
  intros H w i it Hi D.
  pose proof (run_INV ops (init_sys pen) INV_empty (ops_cleanb_ok ops _ H)) as (_ & R).
  destruct (R i it (fun x => x) Hi D) as (C1 & _ & _ & _ & C5). split; assumption.
Qed.
