(* C09: a read touches nothing but value caches (and the error flag): the
   calculator's registers, the penalty table and the modifier-id counter are
   the same before and after any read, for every fuel. *)
From Coq Require Import ZArith QArith List Bool.
From EosV Require Import lib.AList gen.T_eos model.World model.Status model.Calc model.Engine model.Ops.
Import ListNotations.

Definition dk (d : derived) := (d_calcs d, d_next d, d_pen d, d_trace d, d_pysubs d).

Lemma dk_dfail d e : dk (dfail d e) = dk d.
Proof. unfold dfail. destruct (d_err d); reflexivity. Qed.
Lemma dk_put_icache d i c : dk (put_icache d i c) = dk d.
Proof. unfold put_icache. destruct (ic_vals c), (ic_caps c); reflexivity. Qed.
Lemma dk_cache_put d i a v : dk (cache_put d i a v) = dk d.
Proof. unfold cache_put. apply dk_put_icache. Qed.
Lemma dk_cap_set d i a b : dk (cap_set d i a b) = dk d.
Proof. unfold cap_set. apply dk_put_icache. Qed.

Lemma dk_fold {A} (f : derived * list A -> spec -> derived * list A) l :
  (forall acc s, dk (fst (f acc s)) = dk (fst acc)) ->
  forall acc, dk (fst (fold_left f l acc)) = dk (fst acc).
Proof. intros H. induction l as [|x r IH]; intros acc; simpl; [reflexivity|]. now rewrite IH, H. Qed.

Theorem read_keeps_registers fuel : forall w d i a, dk (fst (read_attr fuel w d i a)) = dk d.
Proof.
  induction fuel as [|fuel IH]; intros w d i a; [simpl; apply dk_dfail|].
  cbn [read_attr].
  destruct (get_item w i) as [it|]; [|cbn [fst]; apply dk_dfail].
  destruct (override_value it a); [reflexivity|].
  destruct (al_get zeqb (ic_vals (get_icache d i)) a); [reflexivity|].
  destruct (item_fit w i) as [f|]; [|reflexivity].
  destruct (fit_universe w f) as [u|]; [|reflexivity].
  destruct (fit_calc w d f) as [[ci c]|]; [|reflexivity].
  destruct (get_attr_meta u a) as [meta|]; [|reflexivity].
  destruct (i_loaded it); [|reflexivity].
  match goal with |- context[match ?X with Some base => _ | None => (d, None) end] => destruct X as [base|] end;
    [|reflexivity].
  destruct (affector_specs w c i) as [specs|]; [|cbn [fst]; apply dk_dfail].
  match goal with |- context[fold_left ?G specs (d, [])] => set (gather := G) end.
  assert (Hg : forall acc s, dk (fst (gather acc s)) = dk (fst acc)).
  { intros [d0 mods] s. unfold gather. cbn [fst].
    destruct (negb (m_tgt_attr (sp_mod s) =? a)%Z); [reflexivity|].
    (* operator and value of the modification *)
    assert (Hmod : forall (K : derived * option (Z * Q) -> derived * list gmod),
               (forall d1 om, dk d1 = dk d0 -> dk (fst (K (d1, om))) = dk d0) ->
               dk (fst (K
                 (if (m_py (sp_mod s) =? 0)%Z then
                    let (d, ov) := read_attr fuel w d0 (sp_item s) (m_src_attr (sp_mod s)) in
                    (d, match ov with Some v => Some (m_op (sp_mod s), v) | None => None end)
                  else if (m_py (sp_mod s) =? 1)%Z then
                    match (match item_fit w (sp_item s) with
                           | Some pf => match get_fit w pf with Some ft => f_ship ft | None => None end
                           | None => None end) with
                    | None => (d0, None)
                    | Some ship =>
                      let (d, om) := read_attr fuel w d0 ship AttrId_mass in
                      match om with
                      | None => (d, None)
                      | Some mass =>
                        let (d, osf) := read_attr fuel w d (sp_item s) AttrId_speed_factor in
                        match osf with
                        | None => (d, None)
                        | Some sf =>
                          let (d, oth) := read_attr fuel w d (sp_item s) AttrId_speed_boost_factor in
                          match oth with
                          | None => (d, None)
                          | Some th =>
                            if Qeq_bool mass 0%Q then (d, None)
                            else (d, Some (ModOperator_post_mul, Qred (1 + sf * th / mass / 100)%Q))
                          end
                        end
                      end
                    end
                  else if (m_py (sp_mod s) =? 2)%Z then
                    match get_item w (sp_item s) with
                    | None => (d0, None)
                    | Some ai =>
                      let paste := match i_charge ai with
                                   | Some c => match get_item w c with
                                               | Some ci => (i_tid ci =? TypeId_nanite_repair_paste)%Z
                                               | None => false end
                                   | None => false end in
                      if paste then
                        let (d, ov) := read_attr fuel w d0 (sp_item s) AttrId_charged_armor_dmg_mult in
                        (d, match ov with Some v => Some (ModOperator_post_mul_immune, v) | None => None end)
                      else (d0, Some (ModOperator_post_mul_immune, 1%Q))
                    end
                  else (d0, None)))) = dk d0).
    { intros K HK.
      destruct (m_py (sp_mod s) =? 0)%Z.
      - pose proof (IH w d0 (sp_item s) (m_src_attr (sp_mod s))) as H1.
        destruct (read_attr fuel w d0 (sp_item s) (m_src_attr (sp_mod s))) as [d1 ov]. now apply HK.
      - destruct (m_py (sp_mod s) =? 1)%Z.
        + destruct (match item_fit w (sp_item s) with
                    | Some pf => match get_fit w pf with Some ft => f_ship ft | None => None end
                    | None => None end) as [ship|]; [|now apply HK].
          pose proof (IH w d0 ship AttrId_mass) as Ha.
          destruct (read_attr fuel w d0 ship AttrId_mass) as [d1 om]. cbn [fst] in Ha.
          destruct om as [mass|]; [|now apply HK].
          pose proof (IH w d1 (sp_item s) AttrId_speed_factor) as Hb.
          destruct (read_attr fuel w d1 (sp_item s) AttrId_speed_factor) as [d2 osf]. cbn [fst] in Hb.
          destruct osf as [sf|]; [|apply HK; congruence].
          pose proof (IH w d2 (sp_item s) AttrId_speed_boost_factor) as Hc.
          destruct (read_attr fuel w d2 (sp_item s) AttrId_speed_boost_factor) as [d3 oth]. cbn [fst] in Hc.
          destruct oth as [th|]; [|apply HK; congruence].
          destruct (Qeq_bool mass 0%Q); apply HK; congruence.
        + destruct (m_py (sp_mod s) =? 2)%Z; [|now apply HK].
          destruct (get_item w (sp_item s)) as [ai|]; [|now apply HK].
          cbv zeta.
          destruct (match i_charge ai with
                    | Some c => match get_item w c with
                                | Some ci => (i_tid ci =? TypeId_nanite_repair_paste)%Z
                                | None => false end
                    | None => false end); [|now apply HK].
          pose proof (IH w d0 (sp_item s) AttrId_charged_armor_dmg_mult) as H1.
          destruct (read_attr fuel w d0 (sp_item s) AttrId_charged_armor_dmg_mult) as [d1 ov]. now apply HK. }
    apply (Hmod (fun x => let (d, omod) := x in _)).
    intros d1 omod H1. destruct omod as [[mop v]|]; [|exact H1].
    match goal with |- context[let (_, _) := ?X in _] => set (X0 := X) end.
    assert (H2 : dk (fst X0) = dk d1).
    { subst X0. destruct (sp_resist s) as [ra|]; [|reflexivity].
      destruct (solsys_carrier w i) as [[car|]|]; cbn [fst]; [|reflexivity|apply dk_dfail].
      pose proof (IH w d1 car ra) as H3. destruct (read_attr fuel w d1 car ra). exact H3. }
    destruct X0 as [d2 resist]. cbn [fst] in H2.
    destruct (al_get zeqb NORMALIZATION_MAP mop) as [ne|]; [|cbn [fst]; congruence].
    destruct (normalize ne v); [|cbn [fst]; rewrite dk_dfail; congruence].
    destruct (get_item w (sp_item s)) as [ai|]; [|cbn [fst]; rewrite dk_dfail; congruence].
    destruct (item_type w ai); cbn [fst]; [congruence|rewrite dk_dfail; congruence]. }
  pose proof (dk_fold gather specs Hg (d, [])) as Hf. cbn [fst] in Hf.
  destruct (fold_left gather specs (d, [])) as [d1 mods]. cbn [fst] in Hf.
  match goal with |- context[let (_, _) := ?X in _] => set (X0 := X) end.
  assert (H2 : dk (fst X0) = dk d1).
  { subst X0. destruct (am_max meta) as [ma|]; [|reflexivity].
    pose proof (IH w d1 i ma) as H3. destruct (read_attr fuel w d1 i ma) as [d2 omv]. cbn [fst] in H3.
    destruct omv; cbn [fst]; [rewrite dk_cap_set|]; exact H3. }
  destruct X0 as [d2 value]. cbn [fst] in *. rewrite dk_cache_put. congruence.
Qed.

(* a read step of the whole system: configuration, registers, penalties untouched *)
Theorem read_step_keeps_registers x o :
  is_read o = true ->
  d_calcs (s_d (fst (step x o))) = d_calcs (s_d x) /\ d_pen (s_d (fst (step x o))) = d_pen (s_d x) /\
  d_next (s_d (fst (step x o))) = d_next (s_d x).
Proof.
  intros H. unfold step, step_ev. rewrite H.
  assert (K : forall d', dk d' = dk (d_clear (s_d x)) ->
                         d_calcs d' = d_calcs (s_d x) /\ d_pen d' = d_pen (s_d x) /\ d_next d' = d_next (s_d x)).
  { intros d' E. unfold dk in E. cbn in E. repeat split; congruence. }
  destruct o; try discriminate; unfold read_op.
  - pose proof (read_keeps_registers PF (clear_err (s_w x)) (d_clear (s_d x)) i a) as E.
    destruct (read_attr PF (clear_err (s_w x)) (d_clear (s_d x)) i a) as [d' v]. cbn [fst s_d] in *. now apply K.
  - pose proof (read_keeps_registers PF (clear_err (s_w x)) (d_clear (s_d x)) i a) as E.
    destruct (read_attr PF (clear_err (s_w x)) (d_clear (s_d x)) i a) as [d' v]. cbn [fst s_d] in *. now apply K.
  - cbn [fst s_d]. now apply K.
  - destruct (get_item (clear_err (s_w x)) i); cbn [fst s_d]; now apply K.
Qed.
