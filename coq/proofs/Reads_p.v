(* C09: a read touches nothing but value caches (and the error flag): the
   calculator's registers, the penalty table and the modifier-id counter are
   the same before and after any read, for every fuel. *)
From Coq Require Import ZArith QArith List Bool.
From EosV Require Import lib.AList gen.T_eos model.World model.Status model.Calc model.Engine model.Ops.
Import ListNotations.

Definition dk (d : derived) := (d_calcs d, d_next d, d_pen d, d_trace d).

Lemma dk_dfail d e : dk (dfail d e) = dk d.
Proof. unfold dfail. destruct (d_err d); reflexivity. Qed.
Lemma dk_put_icache d i c : dk (put_icache d i c) = dk d.
Proof. unfold put_icache. destruct (ic_vals c), (ic_caps c); reflexivity. Qed.
Lemma dk_cache_put d i a v : dk (cache_put d i a v) = dk d.
Proof. unfold cache_put. apply dk_put_icache. Qed.
Lemma dk_cap_set d i a b : dk (cap_set d i a b) = dk d.
Proof. unfold cap_set. apply dk_put_icache. Qed.

Lemma dk_fold {A} (f : derived * list A -> spec -> derived * list A) l :
  (forall acc s, dk (fst (f acc s)) = dk (fst acc)) ->
  forall acc, dk (fst (fold_left f l acc)) = dk (fst acc).
Proof. intros H. induction l as [|x r IH]; intros acc; simpl; [reflexivity|]. now rewrite IH, H. Qed.

Theorem read_keeps_registers fuel : forall w d i a, dk (fst (read_attr fuel w d i a)) = dk d.
Proof.
  induction fuel as [|fuel IH]; intros w d i a; [simpl; apply dk_dfail|].
  cbn [read_attr].
  destruct (get_item w i) as [it|]; [|cbn [fst]; apply dk_dfail].
  destruct (override_value it a); [reflexivity|].
  destruct (al_get zeqb (ic_vals (get_icache d i)) a); [reflexivity|].
  destruct (item_fit w i) as [f|]; [|reflexivity].
  destruct (fit_universe w f) as [u|]; [|reflexivity].
  destruct (fit_calc w d f) as [[ci c]|]; [|reflexivity].
  destruct (get_attr_meta u a) as [meta|]; [|reflexivity].
  destruct (i_loaded it); [|reflexivity].
  match goal with |- context[match ?X with Some base => _ | None => (d, None) end] => destruct X as [base|] end;
    [|reflexivity].
  destruct (affector_specs w c i) as [specs|]; [|cbn [fst]; apply dk_dfail].
  match goal with |- context[fold_left ?G specs (d, [])] => set (gather := G) end.
  assert (Hg : forall acc s, dk (fst (gather acc s)) = dk (fst acc)).
  { intros [d0 mods] s. unfold gather. cbn [fst].
    destruct (negb (m_tgt_attr (sp_mod s) =? a)%Z); [reflexivity|].
    pose proof (IH w d0 (sp_item s) (m_src_attr (sp_mod s))) as H1.
    destruct (read_attr fuel w d0 (sp_item s) (m_src_attr (sp_mod s))) as [d1 ov]. cbn [fst] in H1.
    destruct ov as [v|]; [|exact H1].
    match goal with |- context[let (_, _) := ?X in _] => set (X0 := X) end.
    assert (H2 : dk (fst X0) = dk d1).
    { subst X0. destruct (sp_resist s) as [ra|]; [|reflexivity].
      destruct (solsys_carrier w i) as [[car|]|]; cbn [fst]; [|reflexivity|apply dk_dfail].
      pose proof (IH w d1 car ra) as H3. destruct (read_attr fuel w d1 car ra). exact H3. }
    destruct X0 as [d2 resist]. cbn [fst] in H2.
    destruct (al_get zeqb NORMALIZATION_MAP (m_op (sp_mod s))) as [ne|]; [|cbn [fst]; congruence].
    destruct (normalize ne v); [|cbn [fst]; rewrite dk_dfail; congruence].
    destruct (get_item w (sp_item s)) as [ai|]; [|cbn [fst]; rewrite dk_dfail; congruence].
    destruct (item_type w ai); cbn [fst]; [congruence|rewrite dk_dfail; congruence]. }
  pose proof (dk_fold gather specs Hg (d, [])) as Hf. cbn [fst] in Hf.
  destruct (fold_left gather specs (d, [])) as [d1 mods]. cbn [fst] in Hf.
  match goal with |- context[let (_, _) := ?X in _] => set (X0 := X) end.
  assert (H2 : dk (fst X0) = dk d1).
  { subst X0. destruct (am_max meta) as [ma|]; [|reflexivity].
    pose proof (IH w d1 i ma) as H3. destruct (read_attr fuel w d1 i ma) as [d2 omv]. cbn [fst] in H3.
    destruct omv; cbn [fst]; [rewrite dk_cap_set|]; exact H3. }
  destruct X0 as [d2 value]. cbn [fst] in *. rewrite dk_cache_put. congruence.
Qed.

(* a read step of the whole system: configuration, registers, penalties untouched *)
Theorem read_step_keeps_registers x o :
  is_read o = true ->
  d_calcs (s_d (fst (step x o))) = d_calcs (s_d x) /\ d_pen (s_d (fst (step x o))) = d_pen (s_d x) /\
  d_next (s_d (fst (step x o))) = d_next (s_d x).
Proof.
  intros H. unfold step, step_ev. rewrite H.
  assert (K : forall d', dk d' = dk (d_clear (s_d x)) ->
                         d_calcs d' = d_calcs (s_d x) /\ d_pen d' = d_pen (s_d x) /\ d_next d' = d_next (s_d x)).
  { intros d' E. unfold dk in E. cbn in E. repeat split; congruence. }
  destruct o; try discriminate; unfold read_op.
  - pose proof (read_keeps_registers PF (clear_err (s_w x)) (d_clear (s_d x)) i a) as E.
    destruct (read_attr PF (clear_err (s_w x)) (d_clear (s_d x)) i a) as [d' v]. cbn [fst s_d] in *. now apply K.
  - pose proof (read_keeps_registers PF (clear_err (s_w x)) (d_clear (s_d x)) i a) as E.
    destruct (read_attr PF (clear_err (s_w x)) (d_clear (s_d x)) i a) as [d' v]. cbn [fst s_d] in *. now apply K.
  - cbn [fst s_d]. now apply K.
  - destruct (get_item (clear_err (s_w x)) i); cbn [fst s_d]; now apply K.
Qed.
