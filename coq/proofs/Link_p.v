(* The two sides of "fit f is in solar system x" -- the fit's own reference and the solar system's fit list --
   agree in every world reached by public calls, and no solar system lists a fit twice. Only the solar-system
   operations change either side; every other operation leaves both alone (same_link). *)
From Coq Require Import ZArith QArith List Bool Lia.
From EosV Require Import lib.AList gen.T_eos model.World model.Status model.Calc model.Engine model.Ops
     model.Wf proofs.AList_p proofs.Rack_p proofs.Frame_p proofs.Containers_p proofs.Status_p proofs.Owner_p proofs.Cinv_p proofs.Runs_p.
Import ListNotations.

Opaque add_item remove_item load unload.

Definition same_link (w w' : world) : Prop :=
  (forall f, fit_solsys w' f = fit_solsys w f) /\ (forall x, ss_fit_list w' x = ss_fit_list w x).

Lemma sl_refl w : same_link w w. Proof. split; reflexivity. Qed.
Lemma sl_trans a b c : same_link a b -> same_link b c -> same_link a c.
Proof. intros (A1 & A2) (B1 & B2). split; intros; [now rewrite B1, A1|now rewrite B2, A2]. Qed.
Lemma sl_structure w w' : structure w' = structure w -> same_link w w'.
Proof.
  intros H. unfold structure in H. assert (E1 : w_fits w' = w_fits w) by congruence.
  assert (E2 : w_ss w' = w_ss w) by congruence.
  split; intros; [unfold fit_solsys, get_fit; now rewrite E1|unfold ss_fit_list, get_ss; now rewrite E2].
Qed.
Lemma slw_fail w e : same_link w (fail w e).
Proof. apply sl_structure. apply S_fail. Qed.
Lemma slw_put_item w i it : same_link w (put_item w i it).
Proof. apply sl_structure. apply S_put_item. Qed.
Lemma slw_upd_item w i g : same_link w (upd_item w i g).
Proof. apply sl_structure. apply S_upd_item. Qed.
Lemma slw_upd_fit w f g : (forall ft, f_solsys (g ft) = f_solsys ft) -> same_link w (upd_fit w f g).
Proof.
  intros Hg. unfold upd_fit. destruct (get_fit w f) as [ft|] eqn:Gf; [|apply slw_fail]. split.
  - intros f'. unfold fit_solsys, get_fit, put_fit. cbn [w_fits set_fits]. destruct (Nat.eq_dec f' f) as [->|N].
    + rewrite al_get_set_same. unfold get_fit in Gf. rewrite Gf. apply Hg.
    + rewrite al_get_set_other by congruence. reflexivity.
  - intros x. reflexivity.
Qed.
Lemma slw_put_rack w f k l : same_link w (put_rack w f k l).
Proof. unfold put_rack. apply slw_upd_fit. intros ft. destruct k; reflexivity. Qed.
Lemma slw_put_setc w f k l : same_link w (put_setc w f k l).
Proof. unfold put_setc. apply slw_upd_fit. intros ft. destruct k; reflexivity. Qed.
Lemma slw_put_skillmap w f m : same_link w (put_skillmap w f m).
Proof. unfold put_skillmap. apply slw_upd_fit. intros ft. reflexivity. Qed.
Lemma slw_set_slot w f k v : same_link w (upd_fit w f (fun ft => fit_set_slot ft k v)).
Proof. apply slw_upd_fit. intros ft. destruct k; reflexivity. Qed.
Lemma slw_fleet_link w fl l f v :
  same_link w (upd_fit (set_fleets w (al_set neqb (w_fleets w) fl l)) f (fun ft => fit_set_fleet ft v)).
Proof. eapply sl_trans; [|apply slw_upd_fit; intros ft; reflexivity]. split; reflexivity. Qed.

Lemma sl_lift (s : st) g : (forall w, same_link w (g w)) -> same_link (fst s) (fst (lift s g)).
Proof. intros H. unfold lift. cbn [fst]. apply H. Qed.
Lemma sl_set_rack s f k l : same_link (fst s) (fst (set_rack s f k l)).
Proof. unfold set_rack. apply sl_lift. intros w. apply slw_put_rack. Qed.
Lemma sl_add_item n s i p : same_link (fst s) (fst (add_item n s i p)).
Proof. apply sl_structure. apply S_add_item. Qed.
Lemma sl_remove_item n s i : same_link (fst s) (fst (remove_item n s i)).
Proof. apply sl_structure. apply S_remove_item. Qed.
Lemma sl_load n s i : same_link (fst s) (fst (load n s i)).
Proof. apply sl_structure. apply S_load. Qed.
Lemma sl_unload n s i : same_link (fst s) (fst (unload n s i)).
Proof. apply sl_structure. apply S_unload. Qed.
Lemma sl_emit s f m : same_link (fst s) (fst (emit_always s f m)).
Proof. apply sl_refl. Qed.
Lemma sl_fold {A} (f : st -> A -> st) l :
  (forall s x, same_link (fst s) (fst (f s x))) -> forall s, same_link (fst s) (fst (fold_left f l s)).
Proof.
  intros H. induction l as [|x r IH]; intros s; cbn [fold_left]; [apply sl_refl|].
  eapply sl_trans; [apply H|apply IH].
Qed.
Lemma sl_with_msgs (s : st) f g : (forall w, structure (fst (g w)) = structure w) ->
  same_link (fst s) (fst (with_msgs s f g)).
Proof. intros H. apply sl_structure. now apply S_with_msgs. Qed.

(* peel one layer off the state expression *)
Ltac slw :=
  first [ apply slw_put_setc | apply slw_put_skillmap | apply slw_put_rack | apply slw_set_slot
        | apply slw_upd_item | apply slw_put_item | apply slw_fail | apply slw_fleet_link | apply sl_refl ].
Ltac sl1 :=
  cbn [fst snd];
  first [ apply sl_refl
        | eapply sl_trans; [|first [ apply sl_add_item | apply sl_remove_item | apply sl_set_rack | apply sl_emit
                                   | apply sl_load | apply sl_unload
                                   | apply sl_lift; intros; slw ]] ].
Ltac sl := repeat sl1.
Ltac split_ops :=
  repeat match goal with
         | |- context[match ?x with _ => _ end] => destruct x
         | |- context[if ?x then _ else _] => destruct x
         end.

Lemma rack_append_sl s f k i : same_link (fst s) (fst (fst (rack_append s f k i))).
Proof. unfold rack_append. split_ops; sl. Qed.
Lemma rack_insert_sl s f k idx v : same_link (fst s) (fst (fst (rack_insert s f k idx v))).
Proof. unfold rack_insert. split_ops; sl. Qed.
Lemma rack_place_sl s f k idx i : same_link (fst s) (fst (fst (rack_place s f k idx i))).
Proof. unfold rack_place. split_ops; sl. Qed.
Lemma rack_equip_sl s f k i : same_link (fst s) (fst (fst (rack_equip s f k i))).
Proof. unfold rack_equip. split_ops; sl. Qed.
Lemma rack_remove_sl s f k a : same_link (fst s) (fst (fst (rack_remove s f k a))).
Proof. unfold rack_remove. split_ops; sl. Qed.
Lemma rack_free_sl s f k a : same_link (fst s) (fst (fst (rack_free s f k a))).
Proof. unfold rack_free. split_ops; sl. Qed.

Lemma rack_clear_sl s f k : same_link (fst s) (fst (fst (rack_clear s f k))).
Proof.
  unfold rack_clear. cbn [fst]. eapply sl_trans; [|apply sl_set_rack]. apply sl_fold.
  intros s0 v. destruct v; sl.
Qed.
Lemma itemset_add_sl s f k i : same_link (fst s) (fst (fst (itemset_add s f k i))).
Proof. unfold itemset_add. split_ops; sl. Qed.
Lemma set_add_op_sl s f k i : same_link (fst s) (fst (fst (set_add_op s f k i))).
Proof.
  unfold set_add_op. destruct k; try apply itemset_add_sl.
  destruct (get_item (fst s) i) as [it|]; [|sl].
  destruct (negb _); [sl|]. destruct (al_mem _ _ _); [sl|].
  set (s1 := lift s _). pose proof (itemset_add_sl s1 f SeSkills i) as H.
  assert (H1 : same_link (fst s) (fst s1)) by (unfold s1; apply sl_lift; intros; slw).
  destruct (itemset_add s1 f SeSkills i) as [s2 r]. cbn [fst] in H.
  destruct r; cbn [fst]; try (eapply sl_trans; [exact H1|exact H]).
  eapply sl_trans; [exact H1|]. eapply sl_trans; [exact H|]. apply sl_lift. intros; slw.
Qed.
Lemma set_remove_op_sl s f k i : same_link (fst s) (fst (fst (set_remove_op s f k i))).
Proof. unfold set_remove_op. split_ops; sl. Qed.
Lemma set_clear_op_sl s f k : same_link (fst s) (fst (fst (set_clear_op s f k))).
Proof.
  unfold set_clear_op.
  assert (H : same_link (fst s) (fst (lift (fold_left (fun s0 i => remove_item F s0 i) (get_setc (fst s) f k) s)
                                            (fun w => put_setc w f k [])))).
  { eapply sl_trans; [|apply sl_lift; intros; slw]. apply sl_fold. intros; apply sl_remove_item. }
  destruct k; cbn [fst]; try exact H. eapply sl_trans; [exact H|]. apply sl_lift. intros; slw.
Qed.
Lemma skill_del_op_sl s f tid : same_link (fst s) (fst (fst (skill_del_op s f tid))).
Proof. unfold skill_del_op. destruct (al_get zeqb _ tid); [apply set_remove_op_sl|sl]. Qed.
Lemma descriptor_set_sl s old new acc p store :
  (forall w v, same_link w (store w v)) -> same_link (fst s) (fst (fst (descriptor_set s old new acc p store))).
Proof.
  intros Hst. unfold descriptor_set.
  assert (L : forall s0 v, same_link (fst s0) (fst (lift s0 (fun w => store w v)))) by (intros; apply sl_lift; intros; apply Hst).
  split_ops; cbn [fst];
    repeat first [ apply sl_refl
                 | eapply sl_trans; [|first [apply sl_add_item | apply sl_remove_item | apply L]] ].
Qed.
Lemma slot_set_op_sl s f k v : same_link (fst s) (fst (fst (slot_set_op s f k v))).
Proof. unfold slot_set_op. apply descriptor_set_sl. intros; apply slw_set_slot. Qed.
Lemma charge_set_op_sl s m c : same_link (fst s) (fst (fst (charge_set_op s m c))).
Proof.
  unfold charge_set_op. destruct (get_item (fst s) m); [|sl]. apply descriptor_set_sl. intros; apply slw_upd_item.
Qed.
Lemma fleet_add_op_sl s fl f : same_link (fst s) (fst (fst (fleet_add_op s fl f))).
Proof. unfold fleet_add_op. split_ops; sl. Qed.
Lemma fleet_remove_one_sl s fl f : same_link (fst s) (fst (fleet_remove_one s fl f)).
Proof. unfold fleet_remove_one. sl. Qed.
Lemma fleet_remove_op_sl s fl f : same_link (fst s) (fst (fst (fleet_remove_op s fl f))).
Proof. unfold fleet_remove_op. destruct (negb _); cbn [fst]; [apply sl_refl|apply fleet_remove_one_sl]. Qed.
Lemma fleet_clear_op_sl s fl : same_link (fst s) (fst (fst (fleet_clear_op s fl))).
Proof. unfold fleet_clear_op. cbn [fst]. apply sl_fold. intros; apply fleet_remove_one_sl. Qed.

(* the setters change no fit, fleet, solar system or source *)
Lemma S_lift_fail (s : st) e : structure (fst (lift s (fun w => fail w e))) = structure (fst s).
Proof. unfold lift. cbn [fst]. apply S_fail. Qed.
Lemma state_set_op_S s i new : structure (fst (fst (state_set_op s i new))) = structure (fst s).
Proof.
  unfold state_set_op. destruct (get_item (fst s) i) as [it|] eqn:Hi; [|apply S_lift_fail].
  destruct (i_state it =? new)%Z; [reflexivity|].
  set (s1 := lift s _).
  assert (K1 : structure (fst s1) = structure (fst s)) by (unfold s1, lift; cbn [fst]; apply S_put_item).
  destruct (item_fit (fst s1) i) as [f|]; cbn [fst]; [|exact K1].
  rewrite <- K1. apply S_with_msgs.
  intros w. pose proof (S_state_update_msgs w i (i_state it) new) as F1.
  destruct (state_update_msgs w i (i_state it) new) as [w1 m1]. cbn [fst] in F1.
  destruct (FC_state_fold (i_state it) new (state_desc (length (child_items it false) + S (length (w_items w1))) w1 (child_items it false)) w1 m1) as (_ & F2).
  congruence.
Qed.
Lemma target_set_op_S s i new : structure (fst (fst (target_set_op s i new))) = structure (fst s).
Proof.
  unfold target_set_op. destruct (get_item (fst s) i) as [it|] eqn:Hi; [|apply S_lift_fail].
  destruct (onat_eqb (i_target it) new); [reflexivity|].
  destruct (item_fit (fst s) i) as [f|]; cbn [fst].
  - match goal with |- context[match ?X with Some _ => _ | None => _ end] =>
      match X with fold_right _ _ _ => destruct X as [pe|] end end; [|apply S_lift_fail].
    cbn [fst].
    set (s1 := match i_target it with Some o => emit_always s f _ | None => s end).
    assert (E1 : fst s1 = fst s) by (subst s1; destruct (i_target it); reflexivity).
    set (s2 := lift s1 (fun w => upd_item w i (fun it0 => it_set_target it0 new))).
    assert (K2 : structure (fst s2) = structure (fst s)).
    { unfold s2, lift. cbn [fst]. rewrite E1. apply S_upd_item. }
    destruct new; exact K2.
  - apply S_put_item.
Qed.
Lemma mode_set_op_S s i e m : structure (fst (fst (mode_set_op s i e m))) = structure (fst s).
Proof.
  unfold mode_set_op. destruct (get_item (fst s) i) as [it|] eqn:Hi; [|apply S_lift_fail].
  set (s1 := lift s _).
  assert (K1 : structure (fst s1) = structure (fst s)) by (unfold s1, lift; cbn [fst]; apply S_put_item).
  destruct (item_fit (fst s1) i) as [f|]; cbn [fst]; [|exact K1].
  rewrite <- K1. apply S_with_msgs. intros w. apply S_effects_update.
Qed.
Lemma level_set_op_S s i l : structure (fst (fst (level_set_op s i l))) = structure (fst s).
Proof.
  unfold level_set_op. destruct (get_item (fst s) i) as [it|] eqn:Hi; [|apply S_lift_fail].
  destruct (i_level it =? l)%Z; [reflexivity|].
  set (s1 := lift s _).
  assert (K1 : structure (fst s1) = structure (fst s)) by (unfold s1, lift; cbn [fst]; apply S_put_item).
  destruct (item_fit (fst s1) i); exact K1.
Qed.


(* ------------------------------------------------------------------ *)
(* the invariant                                                        *)

Definition SSI (w : world) : Prop :=
  (forall f x, fit_solsys w f = Some x <-> In f (ss_fit_list w x)) /\ (forall x, NoDup (ss_fit_list w x)).

Lemma SSI_same_link w w' : same_link w w' -> SSI w -> SSI w'.
Proof. intros (L1 & L2) (H1 & H2). split; [intros f x; rewrite L1, L2; apply H1|intros x; rewrite L2; apply H2]. Qed.

Lemma SSI_empty : SSI empty_world.
Proof. split; [intros f x; cbn; split; [discriminate|intros []]|intros x; constructor]. Qed.

Lemma nmem_in (l : list nat) x : mem neqb l x = true <-> In x l.
Proof.
  induction l as [|y r IH]; cbn; [split; [discriminate|tauto]|].
  rewrite orb_true_iff, IH. unfold neqb. rewrite Nat.eqb_eq. split; intros [H|H]; auto.
Qed.
Lemma nset_add_in (l : list nat) v x : In x (set_add neqb l v) <-> x = v \/ In x l.
Proof.
  unfold set_add. destruct (mem neqb l v) eqn:E.
  - apply nmem_in in E. split; [tauto|]. intros [->|H]; assumption.
  - rewrite in_app_iff. cbn. split; [intros [H|[H|[]]]; auto|intros [H|H]; auto].
Qed.
Lemma nset_add_nodup (l : list nat) v : NoDup l -> NoDup (set_add neqb l v).
Proof.
  intros H. unfold set_add. destruct (mem neqb l v) eqn:E; [exact H|].
  assert (N : ~ In v l) by (intros I; apply nmem_in in I; congruence).
  clear E. induction l as [|y r IH]; cbn; [constructor; [intros []|constructor]|].
  inversion H as [|? ? Ny H']; subst. constructor.
  - rewrite in_app_iff. cbn. intros [I|[<-|[]]]; [contradiction|]. apply N. now left.
  - apply IH; [exact H'|]. intros I. apply N. now right.
Qed.
Lemma nset_rm_in (l : list nat) v x : NoDup l -> (In x (set_rm neqb l v) <-> In x l /\ x <> v).
Proof.
  induction l as [|y r IH]; cbn; intros H; [tauto|]. inversion H as [|? ? Ny H']; subst.
  unfold neqb at 1. destruct (Nat.eqb v y) eqn:E.
  - apply Nat.eqb_eq in E. subst y. split.
    + intros I. split; [now right|]. intros ->. contradiction.
    + intros ([<-|I] & N); [congruence|exact I].
  - apply Nat.eqb_neq in E. cbn. rewrite (IH H'). split.
    + intros [<-|(I & N)]; [split; [now left|congruence]|split; [now right|exact N]].
    + intros ([<-|I] & N); [now left|right; now split].
Qed.
Lemma nset_rm_nodup (l : list nat) v : NoDup l -> NoDup (set_rm neqb l v).
Proof.
  induction l as [|y r IH]; cbn; intros H; [constructor|]. inversion H as [|? ? Ny H']; subst.
  destruct (neqb v y); [exact H'|]. constructor; [|now apply IH].
  intros I. apply (nset_rm_in r v y H') in I. tauto.
Qed.

(* the two sides after the link step of solar_system.fits.add / remove *)
Lemma link_sides w x l f v :
  get_ss w x <> None -> get_fit w f <> None ->
  let w' := upd_fit (ss_set_fits w x l) f (fun ft => fit_set_solsys ft v) in
  (forall g, fit_solsys w' g = if Nat.eq_dec g f then v else fit_solsys w g) /\
  (forall y, ss_fit_list w' y = if Nat.eq_dec y x then l else ss_fit_list w y).
Proof.
  intros Hx Hf. cbv zeta. unfold ss_set_fits. destruct (get_ss w x) as [sx|] eqn:Gx; [|congruence].
  set (w0 := put_ss w x (mkSolsys (ss_source sx) l)).
  assert (G0 : forall k, get_fit w0 k = get_fit w k) by reflexivity.
  unfold upd_fit. rewrite G0. destruct (get_fit w f) as [ft|] eqn:Gf; [|congruence]. split.
  - intros g. unfold fit_solsys, get_fit, put_fit. cbn [w_fits set_fits]. destruct (Nat.eq_dec g f) as [->|N].
    + rewrite al_get_set_same. reflexivity.
    + rewrite al_get_set_other by congruence. reflexivity.
  - intros y. unfold ss_fit_list, get_ss, put_fit, w0, put_ss. cbn [w_ss set_fits set_sss].
    destruct (Nat.eq_dec y x) as [->|N].
    + rewrite al_get_set_same. reflexivity.
    + rewrite al_get_set_other by congruence. reflexivity.
Qed.

Lemma link_no_err w x l f g : w_err (upd_fit (ss_set_fits w x l) f g) = None -> get_ss w x <> None /\ get_fit w f <> None.
Proof.
  intros He. split.
  - intros Hx. apply (sticky_upd_fit _ f g) in He. unfold ss_set_fits in He. rewrite Hx in He. exact (err_fail_none _ _ He).
  - intros Hf. unfold upd_fit in He.
    assert (G0 : get_fit (ss_set_fits w x l) f = None).
    { unfold ss_set_fits. destruct (get_ss w x); [exact Hf|]. unfold get_fit, fail. destruct (w_err w); exact Hf. }
    rewrite G0 in He. exact (err_fail_none _ _ He).
Qed.

Lemma load_fit_items_sl s f : same_link (fst s) (fst (load_fit_items s f)).
Proof. unfold load_fit_items. destruct (get_fit (fst s) f); [apply sl_fold; intros; apply sl_load|apply sl_lift; intros; slw]. Qed.
Lemma unload_fit_items_sl s f : same_link (fst s) (fst (unload_fit_items s f)).
Proof. unfold unload_fit_items. destruct (get_fit (fst s) f); [apply sl_fold; intros; apply sl_unload|apply sl_lift; intros; slw]. Qed.

Theorem solsys_add_op_SSI s x f :
  SSI (fst s) -> w_err (fst (fst (solsys_add_op s x f))) = None -> SSI (fst (fst (solsys_add_op s x f))).
Proof.
  intros I. unfold solsys_add_op. destruct (fit_solsys (fst s) f) eqn:Efs; [auto|]. cbn [fst].
  set (s1 := lift s _). intros He.
  assert (He1 : w_err (fst s1) = None) by (apply (load_fit_items_sticky s1 f); exact He).
  apply (SSI_same_link (fst s1)); [apply load_fit_items_sl|].
  unfold s1, lift in He1 |- *. cbn [fst] in He1 |- *.
  destruct (link_no_err _ _ _ _ _ He1) as (Hx & Hf).
  destruct (link_sides (fst s) x (set_add neqb (ss_fit_list (fst s) x) f) f (Some x) Hx Hf) as (L1 & L2).
  destruct I as (I1 & I2). split.
  - intros g y. rewrite L1, L2. destruct (Nat.eq_dec g f) as [->|Ng]; destruct (Nat.eq_dec y x) as [->|Ny].
    + rewrite nset_add_in. split; auto.
    + split; [intros [= E]; congruence|]. intros H. apply I1 in H. congruence.
    + rewrite nset_add_in, I1. split; [auto|intros [E|H]; [congruence|exact H]].
    + apply I1.
  - intros y. rewrite L2. destruct (Nat.eq_dec y x); [apply nset_add_nodup|]; apply I2.
Qed.

Lemma solsys_remove_one_SSI s x f :
  SSI (fst s) -> In f (ss_fit_list (fst s) x) ->
  w_err (fst (solsys_remove_one s x f)) = None -> SSI (fst (solsys_remove_one s x f)).
Proof.
  intros I Hin. unfold solsys_remove_one, lift. cbn [fst]. intros He.
  set (s1 := unload_fit_items s f) in *.
  pose proof (SSI_same_link _ _ (unload_fit_items_sl s f) I) as I1. fold s1 in I1.
  pose proof (unload_fit_items_sl s f) as (S1 & S2). fold s1 in S1, S2.
  destruct (link_no_err _ _ _ _ _ He) as (Hx & Hf).
  destruct (link_sides (fst s1) x (set_rm neqb (ss_fit_list (fst s1) x) f) f None Hx Hf) as (L1 & L2).
  destruct I1 as (J1 & J2).
  assert (Efx : fit_solsys (fst s1) f = Some x) by (apply J1; rewrite S2; exact Hin).
  split.
  - intros g y. rewrite L1, L2. destruct (Nat.eq_dec g f) as [->|Ng]; destruct (Nat.eq_dec y x) as [->|Ny].
    + rewrite (nset_rm_in _ f f (J2 x)). split; [discriminate|tauto].
    + split; [discriminate|]. intros H. apply J1 in H. congruence.
    + rewrite (nset_rm_in _ f g (J2 x)), J1. tauto.
    + apply J1.
  - intros y. rewrite L2. destruct (Nat.eq_dec y x); [apply nset_rm_nodup|]; apply J2.
Qed.
Theorem solsys_remove_op_SSI s x f :
  SSI (fst s) -> w_err (fst (fst (solsys_remove_op s x f))) = None -> SSI (fst (fst (solsys_remove_op s x f))).
Proof.
  intros I. unfold solsys_remove_op. destruct (mem neqb _ f) eqn:E; cbn [negb fst]; [|auto].
  apply solsys_remove_one_SSI; [exact I|now apply nmem_in].
Qed.
Theorem solsys_clear_op_SSI s x :
  SSI (fst s) -> w_err (fst (fst (solsys_clear_op s x))) = None -> SSI (fst (fst (solsys_clear_op s x))).
Proof.
  intros I. unfold solsys_clear_op. cbn [fst].
  assert (G : forall l s0, SSI (fst s0) -> NoDup l -> (forall f, In f l -> In f (ss_fit_list (fst s0) x)) ->
              w_err (fst (fold_left (fun s1 f => solsys_remove_one s1 x f) l s0)) = None ->
              SSI (fst (fold_left (fun s1 f => solsys_remove_one s1 x f) l s0))).
  { induction l as [|f l IH]; intros s0 I0 Hn Hl He; cbn [fold_left] in *; [exact I0|].
    inversion Hn as [|? ? Nf Hn']; subst.
    assert (He1 : w_err (fst (solsys_remove_one s0 x f)) = None).
    { revert He. apply (C_fold sticky sticky_refl sticky_trans). intros; apply solsys_remove_one_sticky. }
    assert (I1 : SSI (fst (solsys_remove_one s0 x f))) by (apply solsys_remove_one_SSI; [exact I0|apply Hl; now left|exact He1]).
    apply IH; [exact I1|exact Hn'| |exact He].
    intros g Ig.
    unfold solsys_remove_one, lift in He1 |- *. cbn [fst] in He1 |- *.
    destruct (link_no_err _ _ _ _ _ He1) as (Hx & Hf).
    destruct (link_sides (fst (unload_fit_items s0 f)) x (set_rm neqb (ss_fit_list (fst (unload_fit_items s0 f)) x) f) f None Hx Hf) as (_ & L2).
    rewrite L2. destruct (Nat.eq_dec x x) as [_|N]; [|congruence].
    pose proof (unload_fit_items_sl s0 f) as (_ & S2). rewrite S2.
    apply nset_rm_in; [apply I0|]. split; [apply Hl; now right|]. intros ->. contradiction. }
  apply G; [exact I|apply I|auto].
Qed.
Theorem source_set_op_sl s x new : same_link (fst s) (fst (fst (source_set_op s x new))).
Proof.
  unfold source_set_op. destruct (get_ss (fst s) x) as [y|] eqn:Gy; [|cbn [fst]; apply sl_lift; intros; slw].
  destruct (onat_eqb (ss_source y) new); [apply sl_refl|].
  match goal with |- context[if ?b then (s, RExn XUnknownSource) else _] => destruct b end; [apply sl_refl|]. cbn [fst].
  set (s1 := match ss_source y with Some _ => fold_left unload_fit_items (ss_fits y) s | None => s end).
  assert (H1 : same_link (fst s) (fst s1)).
  { unfold s1. destruct (ss_source y); [|apply sl_refl]. apply sl_fold. intros; apply unload_fit_items_sl. }
  set (s2 := lift s1 _).
  assert (H2 : same_link (fst s1) (fst s2)).
  { unfold s2, lift. cbn [fst]. destruct (get_ss (fst s1) x) as [y1|] eqn:G1; [|apply slw_fail]. split; [reflexivity|].
    intros z. unfold ss_fit_list, get_ss, put_ss. cbn [w_ss set_sss]. destruct (Nat.eq_dec z x) as [->|N].
    - rewrite al_get_set_same. unfold get_ss in G1. rewrite G1. reflexivity.
    - rewrite al_get_set_other by congruence. reflexivity. }
  destruct new; [|eapply sl_trans; eauto].
  eapply sl_trans; [exact H1|]. eapply sl_trans; [exact H2|]. apply sl_fold. intros; apply load_fit_items_sl.
Qed.

Lemma slw_new_fit w f : get_fit w f = None -> same_link w (put_fit w f empty_fit).
Proof.
  intros Hf. split; [|reflexivity]. intros g. unfold fit_solsys, get_fit, put_fit. cbn [w_fits set_fits].
  destruct (Nat.eq_dec g f) as [->|N].
  - rewrite al_get_set_same. unfold get_fit in Hf. now rewrite Hf.
  - rewrite al_get_set_other by congruence. reflexivity.
Qed.
Lemma slw_new_ss w x : get_ss w x = None -> same_link w (put_ss w x (mkSolsys None [])).
Proof.
  intros Hx. split; [reflexivity|]. intros z. unfold ss_fit_list, get_ss, put_ss. cbn [w_ss set_sss].
  destruct (Nat.eq_dec z x) as [->|N].
  - rewrite al_get_set_same. unfold get_ss in Hx. now rewrite Hx.
  - rewrite al_get_set_other by congruence. reflexivity.
Qed.

(* every operation *)
Theorem md_op_SSI w o :
  SSI w -> match o with ONewFit f _ => get_fit w f = None | ONewSolsys x => get_ss w x = None | _ => True end ->
  w_err (fst (fst (md_op w o))) = None -> SSI (fst (fst (md_op w o))).
Proof.
  intros I Hok.
  assert (SL : forall w', same_link w w' -> SSI w') by (intros w' H; now apply (SSI_same_link w)).
  destruct o; cbn [md_op fst]; intros He;
    try (apply SL;
         first [ apply (slot_set_op_sl (w, [])) | apply (set_add_op_sl (w, [])) | apply (set_remove_op_sl (w, []))
               | apply (set_clear_op_sl (w, [])) | apply (skill_del_op_sl (w, [])) | apply (rack_append_sl (w, []))
               | apply (rack_insert_sl (w, [])) | apply (rack_place_sl (w, [])) | apply (rack_equip_sl (w, []))
               | apply (rack_remove_sl (w, [])) | apply (rack_free_sl (w, [])) | apply (rack_clear_sl (w, []))
               | apply (charge_set_op_sl (w, [])) | apply (fleet_add_op_sl (w, [])) | apply (fleet_remove_op_sl (w, []))
               | apply (fleet_clear_op_sl (w, [])) | apply (source_set_op_sl (w, []))
               | apply sl_structure; first [ apply (state_set_op_S (w, [])) | apply (target_set_op_S (w, []))
                                           | apply (mode_set_op_S (w, [])) | apply (level_set_op_S (w, [])) ]
               | apply sl_refl ]; fail).
  - apply SL. unfold lift. cbn [fst]. split; reflexivity.
  - apply SL. unfold lift. cbn [fst]. apply slw_put_item.
  - apply SL. eapply sl_trans; [|apply slot_set_op_sl]. unfold lift. cbn [fst].
    eapply sl_trans; [apply (slw_new_fit w f Hok)|apply slw_put_item].
  - apply SL. unfold lift. cbn [fst]. now apply slw_new_ss.
  - now apply (solsys_add_op_SSI (w, [])).
  - now apply (solsys_remove_op_SSI (w, [])).
  - now apply (solsys_clear_op_SSI (w, [])).
Qed.
