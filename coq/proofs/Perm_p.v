(* C08 / C02: the value an attribute gets does not depend on the ORDER in which
   the modifications were gathered (eos gathers them from sets and dicts, i.e.
   in hash order): [combine_mods] applied to any permutation of the gathered
   modifications yields the same rational. The values of gathered modifications
   are in lowest terms ([Qred], as [read_attr] produces them). *)
From Coq Require Import ZArith QArith List Bool Lia Permutation.
From EosV Require Import lib.AList gen.T_eos model.World model.Calc.
Import ListNotations.

(* ------------------------------------------------------------------ *)
(* association lists of lists with a decidable key                      *)

Section GAL.
  Context {K V : Type} (eqb : K -> K -> bool).
  Hypothesis eqb_ok : forall a b, eqb a b = true <-> a = b.

  Notation al := (list (K * list V)).
  Definition getl (st : al) (k : K) : list V := match al_get eqb st k with Some l => l | None => [] end.
  Definition gadd (st : al) (k : K) (v : V) : al :=
    match al_get eqb st k with
    | Some l => al_set eqb st k (l ++ [v])
    | None => al_set eqb st k [v]
    end.

  Lemma eqb_refl k : eqb k k = true.
  Proof. now apply eqb_ok. Qed.
  Lemma eqb_neq a b : a <> b -> eqb a b = false.
  Proof. intros H. destruct (eqb a b) eqn:E; [apply eqb_ok in E; contradiction|reflexivity]. Qed.

  Lemma g_set_same (l : al) k v : al_get eqb (al_set eqb l k v) k = Some v.
  Proof.
    induction l as [|[k' v'] r IH]; cbn; [now rewrite eqb_refl|].
    destruct (eqb k k') eqn:E; cbn; rewrite E; auto.
  Qed.
  Lemma g_set_other (l : al) k k' v : k <> k' -> al_get eqb (al_set eqb l k v) k' = al_get eqb l k'.
  Proof.
    intros N. induction l as [|[k2 v2] r IH]; cbn.
    - rewrite (eqb_neq k' k); auto.
    - destruct (eqb k k2) eqn:E; cbn.
      + apply eqb_ok in E; subst k2. rewrite (eqb_neq k' k); auto.
      + destruct (eqb k' k2); auto.
  Qed.

  Lemma getl_gadd st k v k' :
    getl (gadd st k v) k' = if eqb k' k then getl st k ++ [v] else getl st k'.
  Proof.
    unfold getl, gadd. destruct (eqb k' k) eqn:E.
    - apply eqb_ok in E; subst k'. destruct (al_get eqb st k); now rewrite g_set_same.
    - assert (N : k <> k') by (intros ->; rewrite eqb_refl in E; discriminate).
      destruct (al_get eqb st k); now rewrite g_set_other.
  Qed.

  (* keys *)
  Definition keys (st : al) : list K := map fst st.
  Lemma get_in_keys (st : al) k : al_get eqb st k <> None <-> In k (keys st).
  Proof.
    unfold keys. induction st as [|[k' v'] r IH]; cbn; [tauto|].
    destruct (eqb k k') eqn:E.
    - apply eqb_ok in E; subst. split; [auto|discriminate].
    - rewrite IH. split; [auto|]. intros [->|H]; [rewrite eqb_refl in E; discriminate|exact H].
  Qed.
  Lemma keys_set_present (st : al) k v : al_get eqb st k <> None -> keys (al_set eqb st k v) = keys st.
  Proof.
    unfold keys. induction st as [|[k' v'] r IH]; cbn; [congruence|].
    destruct (eqb k k') eqn:E; cbn; [reflexivity|]. intros H. now rewrite IH.
  Qed.
  Lemma keys_set_absent (st : al) k v : al_get eqb st k = None -> keys (al_set eqb st k v) = keys st ++ [k].
  Proof.
    unfold keys. induction st as [|[k' v'] r IH]; cbn; [reflexivity|].
    destruct (eqb k k') eqn:E; cbn; [discriminate|]. intros H. now rewrite IH.
  Qed.

  (* well-formed: distinct keys, no empty entry *)
  Definition wf (st : al) : Prop := NoDup (keys st) /\ forall k, In k (keys st) -> getl st k <> [].

  Lemma wf_nil : wf [].
  Proof. split; [constructor|intros k []]. Qed.

  Lemma wf_gadd st k v : wf st -> wf (gadd st k v).
  Proof.
    intros [N E]. split.
    - unfold gadd. destruct (al_get eqb st k) eqn:G.
      + rewrite keys_set_present by congruence. exact N.
      + rewrite keys_set_absent by exact G.
        apply NoDup_rev in N. rewrite <- (rev_involutive (keys st ++ [k])). apply NoDup_rev.
        rewrite rev_app_distr. cbn. constructor; [|exact N].
        rewrite <- in_rev. intros I. apply get_in_keys in I. contradiction.
    - intros k' I. rewrite getl_gadd. destruct (eqb k' k) eqn:Ek.
      + destruct (getl st k); discriminate.
      + apply E. unfold gadd in I. destruct (al_get eqb st k) eqn:G.
        * rewrite keys_set_present in I by congruence. exact I.
        * rewrite keys_set_absent in I by exact G. apply in_app_or in I as [I|[->|[]]]; [exact I|].
          rewrite eqb_refl in Ek. discriminate.
  Qed.

  Lemma in_keys_getl st k : wf st -> (In k (keys st) <-> getl st k <> []).
  Proof.
    intros [N E]. split; [apply E|]. intros H. apply get_in_keys. unfold getl in H.
    destruct (al_get eqb st k); congruence.
  Qed.

  (* a keyed fold of additions *)
  Section Fold.
    Context {G : Type} (c : G -> bool) (kf : G -> K) (vf : G -> V).
    Definition fstep (st : al) (g : G) : al := if c g then gadd st (kf g) (vf g) else st.

    Lemma getl_fold l st k :
      getl (fold_left fstep l st) k = getl st k ++ map vf (filter (fun g => c g && eqb k (kf g)) l).
    Proof.
      revert st. induction l as [|g l IH]; intros st; cbn [fold_left filter map].
      - now rewrite app_nil_r.
      - rewrite IH. unfold fstep at 1. destruct (c g); cbn [andb].
        + rewrite getl_gadd. destruct (eqb k (kf g)) eqn:E; cbn; [|reflexivity].
          apply eqb_ok in E. rewrite <- E, <- app_assoc. reflexivity.
        + reflexivity.
    Qed.
    Lemma wf_fold l st : wf st -> wf (fold_left fstep l st).
    Proof.
      revert st. induction l as [|g l IH]; intros st W; cbn; [exact W|].
      apply IH. unfold fstep. destruct (c g); [now apply wf_gadd|exact W].
    Qed.
  End Fold.

  (* two stores with permuted entries under every key *)
  Definition sim (st st' : al) : Prop := forall k, Permutation (getl st k) (getl st' k).

  Lemma sim_keys st st' : wf st -> wf st' -> sim st st' -> Permutation (keys st) (keys st').
  Proof.
    intros W W' S. apply NoDup_Permutation; [apply W|apply W'|].
    intros k. rewrite (in_keys_getl st k W), (in_keys_getl st' k W').
    specialize (S k). split; intros H E; apply H.
    - rewrite E in S. now apply Permutation_nil.
    - rewrite E in S. apply Permutation_sym in S. now apply Permutation_nil.
  Qed.

  (* canonical form of a store with distinct keys *)
  Lemma al_canon (st : al) : NoDup (keys st) -> st = map (fun k => (k, getl st k)) (keys st).
  Proof.
    unfold keys. induction st as [|[k v] r IH]; cbn; [reflexivity|].
    intros N. inversion N as [|? ? NI N']; subst. unfold getl at 1. cbn. rewrite eqb_refl. f_equal.
    rewrite IH at 1 by exact N'. apply map_ext_in. intros k' I. f_equal.
    unfold getl. cbn. rewrite eqb_neq; [reflexivity|]. intros ->. contradiction.
  Qed.
End GAL.

(* ------------------------------------------------------------------ *)
(* generic facts about permutations                                     *)

Lemma Permutation_filter {A} (f : A -> bool) l l' : Permutation l l' -> Permutation (filter f l) (filter f l').
Proof.
  induction 1 as [|x l l' _ IH|x y l|l l' l'' _ IH1 _ IH2]; cbn.
  - constructor.
  - destruct (f x); [now constructor|exact IH].
  - destruct (f x), (f y); try apply Permutation_refl. apply perm_swap.
  - eapply Permutation_trans; eauto.
Qed.

(* folding an action whose steps commute, over a permuted list *)
Section FoldAct.
  Context {A B : Type} (R : A -> A -> Prop) (f : A -> B -> A).
  Hypothesis Rrefl : forall a, R a a.
  Hypothesis Rtrans : forall a b c, R a b -> R b c -> R a c.
  Hypothesis fR : forall a a' x, R a a' -> R (f a x) (f a' x).
  Hypothesis rcomm : forall a x y, R (f (f a x) y) (f (f a y) x).

  Lemma fold_R l : forall a a', R a a' -> R (fold_left f l a) (fold_left f l a').
  Proof. induction l as [|x l IH]; cbn; intros a a' H; [exact H|]. apply IH. now apply fR. Qed.

  Lemma fold_perm_act l l' : Permutation l l' -> forall a a', R a a' -> R (fold_left f l a) (fold_left f l' a').
  Proof.
    induction 1 as [|x l l' _ IH|x y l|l l' l'' _ IH1 _ IH2]; intros a a' H; cbn.
    - exact H.
    - apply IH. now apply fR.
    - apply fold_R. eapply Rtrans; [apply rcomm|]. apply fR. now apply fR.
    - eapply Rtrans; [apply IH1; exact H|]. apply IH2. apply Rrefl.
  Qed.
End FoldAct.

(* ... and of an idempotent commutative choice started from the first element *)
Section FoldPick.
  Context {A : Type} (R : A -> A -> Prop) (f : A -> A -> A).
  Hypothesis Rrefl : forall a, R a a.
  Hypothesis Rsym : forall a b, R a b -> R b a.
  Hypothesis Rtrans : forall a b c, R a b -> R b c -> R a c.
  Hypothesis fR : forall a a' x, R a a' -> R (f a x) (f a' x).
  Hypothesis rcomm : forall a x y, R (f (f a x) y) (f (f a y) x).
  Hypothesis idem : forall a, R (f a a) a.
  Hypothesis absorb : forall a x, R (f (f a x) x) (f a x).
  Hypothesis comm : forall a b, R (f a b) (f b a).

  Lemma fold_absorb l a y : In y l -> R (fold_left f l a) (fold_left f l (f a y)).
  Proof.
    intros I. apply in_split in I as [l1 [l2 ->]].
    assert (P : Permutation (l1 ++ y :: l2) (y :: l1 ++ l2)) by (apply Permutation_sym, Permutation_middle).
    eapply Rtrans; [apply (fold_perm_act R f Rrefl Rtrans fR rcomm _ _ P a a (Rrefl a))|].
    apply Rsym. eapply Rtrans; [apply (fold_perm_act R f Rrefl Rtrans fR rcomm _ _ P (f a y) (f a y) (Rrefl _))|].
    cbn. apply (fold_R R f fR). apply absorb.
  Qed.

  Lemma pick_perm x r y s : Permutation (x :: r) (y :: s) -> R (fold_left f r x) (fold_left f s y).
  Proof.
    intros P.
    assert (E1 : R (fold_left f r x) (fold_left f (x :: r) x)).
    { cbn. apply (fold_R R f fR). apply Rsym, idem. }
    assert (E2 : R (fold_left f s y) (fold_left f (y :: s) y)).
    { cbn. apply (fold_R R f fR). apply Rsym, idem. }
    eapply Rtrans; [exact E1|]. apply Rsym. eapply Rtrans; [exact E2|]. apply Rsym.
    eapply Rtrans; [apply (fold_perm_act R f Rrefl Rtrans fR rcomm _ _ P x x (Rrefl x))|].
    assert (Ix : In x (y :: s)) by (eapply Permutation_in; [exact P|now left]).
    assert (Iy : In y (y :: s)) by now left.
    eapply Rtrans; [apply (fold_absorb _ x y Iy)|].
    apply Rsym. eapply Rtrans; [apply (fold_absorb _ y x Ix)|].
    apply (fold_R R f fR). apply comm.
  Qed.
End FoldPick.

(* ------------------------------------------------------------------ *)
(* rationals in lowest terms                                            *)

Definition canon (q : Q) : Prop := Qred q = q.
Lemma canon_eq a b : canon a -> canon b -> a == b -> a = b.
Proof. unfold canon. intros Ha Hb E. rewrite <- Ha, <- Hb. now apply Qred_complete. Qed.
Lemma canon_Qred q : canon (Qred q).
Proof. unfold canon. apply Qred_complete, Qred_correct. Qed.

Lemma Qle_bool_total a b : Qle_bool a b = true \/ Qle_bool b a = true.
Proof.
  destruct (Qlt_le_dec a b) as [H|H]; [left|right]; apply Qle_bool_iff; [now apply Qlt_le_weak|exact H].
Qed.
Lemma Qle_bool_trans a b c : Qle_bool a b = true -> Qle_bool b c = true -> Qle_bool a c = true.
Proof. rewrite !Qle_bool_iff. apply Qle_trans. Qed.
Lemma Qle_bool_antisym a b : canon a -> canon b -> Qle_bool a b = true -> Qle_bool b a = true -> a = b.
Proof. rewrite !Qle_bool_iff. intros Ha Hb H1 H2. apply canon_eq; auto. now apply Qle_antisym. Qed.

(* insertion sort with a total, transitive order that is antisymmetric on the elements at hand *)
Section Sort.
  Variable le : Q -> Q -> bool.
  Hypothesis le_total : forall a b, le a b = true \/ le b a = true.
  Hypothesis le_trans : forall a b c, le a b = true -> le b c = true -> le a c = true.
  Hypothesis le_antisym : forall a b, canon a -> canon b -> le a b = true -> le b a = true -> a = b.

  Lemma qinsert_comm x y s : canon x -> canon y ->
    qinsert le x (qinsert le y s) = qinsert le y (qinsert le x s).
  Proof.
    intros Cx Cy. induction s as [|a r IH]; cbn.
    - destruct (le x y) eqn:Exy, (le y x) eqn:Eyx; try reflexivity.
      + now rewrite (le_antisym x y Cx Cy Exy Eyx).
      + destruct (le_total x y); congruence.
    - destruct (le y a) eqn:Eya, (le x a) eqn:Exa; cbn; rewrite ?Eya, ?Exa.
      + destruct (le x y) eqn:Exy, (le y x) eqn:Eyx; try reflexivity.
        * now rewrite (le_antisym x y Cx Cy Exy Eyx).
        * destruct (le_total x y); congruence.
      + destruct (le x y) eqn:Exy; [|reflexivity].
        rewrite (le_trans x y a Exy Eya) in Exa. discriminate.
      + destruct (le y x) eqn:Eyx; [|reflexivity].
        rewrite (le_trans y x a Eyx Exa) in Eya. discriminate.
      + now rewrite IH.
  Qed.

  Lemma qsort_perm l l' : Permutation l l' -> Forall canon l -> qsort le l = qsort le l'.
  Proof.
    induction 1 as [|x l l' _ IH|x y l|l l' l'' H1 IH1 H2 IH2]; intros F; cbn.
    - reflexivity.
    - inversion F; subst. unfold qsort in IH. now rewrite IH.
    - inversion F as [|? ? Cy F']; subst. inversion F' as [|? ? Cx F'']; subst. now apply qinsert_comm.
    - rewrite IH1 by exact F. apply IH2. eapply Permutation_Forall; eauto.
  Qed.
End Sort.

Lemma penalize_perm pen l l' : Permutation l l' -> Forall canon l -> penalize_values pen l = penalize_values pen l'.
Proof.
  intros P F. unfold penalize_values.
  assert (F1 : forall f, Forall canon (filter f l)).
  { intros f. apply Forall_forall. intros x I. apply filter_In in I as [I _]. rewrite Forall_forall in F. auto. }
  rewrite (qsort_perm (fun a b => Qle_bool b a)) with (l' := filter (fun v => Qle_bool 0 v) l').
  - rewrite (qsort_perm Qle_bool) with (l' := filter (fun v => negb (Qle_bool 0 v)) l'); [reflexivity| | | | |].
    + apply Qle_bool_total.
    + apply Qle_bool_trans.
    + apply Qle_bool_antisym.
    + now apply Permutation_filter.
    + apply F1.
  - intros a b. destruct (Qle_bool_total b a); auto.
  - intros a b c H1 H2. eapply Qle_bool_trans; eauto.
  - intros a b Ca Cb H1 H2. now apply Qle_bool_antisym.
  - now apply Permutation_filter.
  - apply F1.
Qed.

(* ------------------------------------------------------------------ *)
(* "first extremal wins" is the minimum of a strict weak order          *)

Section SWO.
  Context {A : Type} (lt : A -> A -> bool) (R : A -> A -> Prop).
  Hypothesis Rrefl : forall a, R a a.
  Hypothesis lt_irrefl : forall a, lt a a = false.
  Hypothesis lt_trans : forall a b c, lt a b = true -> lt b c = true -> lt a c = true.
  Hypothesis tri : forall a b, lt a b = false -> lt b a = false -> R a b.
  Hypothesis ltR_r : forall a b b', R b b' -> lt a b = lt a b'.

  Definition kmin (cur x : A) : A := if lt x cur then x else cur.

  Lemma kmin_fR a a' x : R a a' -> R (kmin a x) (kmin a' x).
  Proof. intros H. unfold kmin. rewrite (ltR_r x a a' H). destruct (lt x a'); auto. Qed.
  Lemma kmin_idem a : R (kmin a a) a.
  Proof. unfold kmin. rewrite lt_irrefl. apply Rrefl. Qed.
  Lemma kmin_comm a b : R (kmin a b) (kmin b a).
  Proof.
    unfold kmin. destruct (lt b a) eqn:E1, (lt a b) eqn:E2; auto.
    pose proof (lt_trans a b a E2 E1) as X. rewrite lt_irrefl in X. discriminate.
  Qed.
  Lemma kmin_absorb a x : R (kmin (kmin a x) x) (kmin a x).
  Proof. unfold kmin. destruct (lt x a) eqn:E; [rewrite lt_irrefl|rewrite E]; apply Rrefl. Qed.
  Lemma kmin_rcomm a x y : R (kmin (kmin a x) y) (kmin (kmin a y) x).
  Proof.
    unfold kmin at 2 4. destruct (lt x a) eqn:Ex, (lt y a) eqn:Ey.
    - apply kmin_comm.
    - unfold kmin. rewrite Ex. destruct (lt y x) eqn:E; [|apply Rrefl].
      rewrite (lt_trans y x a E Ex) in Ey. discriminate.
    - unfold kmin. rewrite Ey. destruct (lt x y) eqn:E; [|apply Rrefl].
      rewrite (lt_trans x y a E Ey) in Ex. discriminate.
    - unfold kmin. rewrite Ex, Ey. apply Rrefl.
  Qed.
End SWO.

From Coq Require Import Lqa.
Local Open Scope Q_scope.

Definition pairR (a b : Q * bool) : Prop := fst a == fst b /\ snd a = snd b.
Lemma pairR_refl a : pairR a a.
Proof. split; reflexivity. Qed.
Lemma pairR_sym a b : pairR a b -> pairR b a.
Proof. intros [H1 H2]. split; [now symmetry|now symmetry]. Qed.
Lemma pairR_trans a b c : pairR a b -> pairR b c -> pairR a c.
Proof. intros [H1 H2] [H3 H4]. split; [now rewrite H1|congruence]. Qed.

Lemma Qle_bool_false a b : Qle_bool a b = false <-> b < a.
Proof.
  split; intros H.
  - apply Qnot_le_lt. intros L. apply Qle_bool_iff in L. congruence.
  - destruct (Qle_bool a b) eqn:E; [|reflexivity]. apply Qle_bool_iff in E. lra.
Qed.

Lemma key_lt_spec a b :
  key_lt a b = true <-> (fst a < fst b \/ (fst a == fst b /\ snd a = false /\ snd b = true)).
Proof.
  unfold key_lt. destruct (Qle_bool (fst b) (fst a)) eqn:E1.
  - apply Qle_bool_iff in E1. destruct (Qle_bool (fst a) (fst b)) eqn:E2.
    + apply Qle_bool_iff in E2. split.
      * intros H. apply andb_true_iff in H as [H1 H2]. apply negb_true_iff in H1. right. repeat split; auto. lra.
      * intros [H|[_ [H1 H2]]]; [lra|]. now rewrite H1, H2.
    + apply Qle_bool_false in E2. split; [discriminate|]. intros [H|[H _]]; lra.
  - apply Qle_bool_false in E1. split; auto.
Qed.
Lemma key_lt_false a b :
  key_lt a b = false <-> (fst b < fst a \/ (fst a == fst b /\ (snd a = true \/ snd b = false))).
Proof.
  destruct (key_lt a b) eqn:E.
  - apply key_lt_spec in E. split; [discriminate|]. intros [H|[H1 [H2|H2]]]; destruct E as [E|[E1 [E2 E3]]]; try lra; congruence.
  - split; [intros _|reflexivity].
    destruct (Qlt_le_dec (fst b) (fst a)) as [H|H]; [now left|].
    destruct (Qlt_le_dec (fst a) (fst b)) as [H'|H'].
    + assert (X : key_lt a b = true) by (apply key_lt_spec; now left). congruence.
    + right. split; [lra|]. destruct (snd a) eqn:Sa; [now left|]. destruct (snd b) eqn:Sb; [|now right].
      assert (X : key_lt a b = true) by (apply key_lt_spec; right; repeat split; auto; lra). congruence.
Qed.

Lemma key_lt_irrefl a : key_lt a a = false.
Proof. apply key_lt_false. right. split; [reflexivity|]. destruct (snd a); auto. Qed.
Lemma key_lt_trans a b c : key_lt a b = true -> key_lt b c = true -> key_lt a c = true.
Proof.
  rewrite !key_lt_spec. intros [H1|[H1 [H2 H3]]] [H4|[H4 [H5 H6]]]; try (left; lra).
  congruence.
Qed.
Lemma key_lt_tri a b : key_lt a b = false -> key_lt b a = false -> pairR a b.
Proof.
  rewrite !key_lt_false. intros [H1|[H1 H2]] [H3|[H3 H4]]; try lra.
  split; [exact H1|]. destruct (snd a), (snd b); auto; destruct H2, H4; congruence.
Qed.
Lemma key_lt_R_r a b b' : pairR b b' -> key_lt a b = key_lt a b'.
Proof.
  intros [H1 H2]. destruct (key_lt a b') eqn:E.
  - apply key_lt_spec. apply key_lt_spec in E. rewrite H1, H2. exact E.
  - apply key_lt_false. apply key_lt_false in E. rewrite H1, H2. exact E.
Qed.
Lemma key_lt_R_l a a' b : pairR a a' -> key_lt a b = key_lt a' b.
Proof.
  intros [H1 H2]. destruct (key_lt a' b) eqn:E.
  - apply key_lt_spec. apply key_lt_spec in E. rewrite H1, H2. exact E.
  - apply key_lt_false. apply key_lt_false in E. rewrite H1, H2. exact E.
Qed.

(* the order pick_max uses *)
Definition key_gt (a b : Q * bool) : bool := key_lt (flipk b) (flipk a).
Lemma flipk_R a b : pairR (flipk a) (flipk b) <-> pairR a b.
Proof.
  unfold pairR, flipk. cbn. split; intros [H1 H2]; split; auto; [|now rewrite H2].
  destruct (snd a), (snd b); cbn in *; congruence.
Qed.

Lemma pick_min_fold cur l : pick_min cur l = fold_left (kmin key_lt) l cur.
Proof. revert cur. induction l as [|x r IH]; intros cur; cbn; [reflexivity|]. apply IH. Qed.
Lemma pick_max_fold cur l : pick_max cur l = fold_left (kmin key_gt) l cur.
Proof. revert cur. induction l as [|x r IH]; intros cur; cbn; [reflexivity|]. apply IH. Qed.

Definition canonp (p : Q * bool) : Prop := canon (fst p).
Lemma pairR_eq a b : canonp a -> canonp b -> pairR a b -> a = b.
Proof.
  destruct a as [qa ba], b as [qb bb]. unfold canonp, pairR. cbn. intros Ca Cb [H1 H2].
  f_equal; [now apply canon_eq|exact H2].
Qed.

Lemma fold_kmin_in {A} (lt : A -> A -> bool) l cur : In (fold_left (kmin lt) l cur) (cur :: l).
Proof.
  revert cur. induction l as [|x r IH]; intros cur; cbn; [now left|].
  specialize (IH (kmin lt cur x)). destruct IH as [IH|IH].
  - rewrite <- IH. unfold kmin. destruct (lt x cur); auto.
  - right. right. exact IH.
Qed.

Lemma pick_min_perm x r y s : Permutation (x :: r) (y :: s) -> Forall canonp (x :: r) ->
  pick_min x r = pick_min y s.
Proof.
  intros P F. rewrite !pick_min_fold.
  assert (F' : Forall canonp (y :: s)) by (eapply Permutation_Forall; eauto).
  apply pairR_eq.
  - rewrite Forall_forall in F. apply F. apply fold_kmin_in.
  - rewrite Forall_forall in F'. apply F'. apply fold_kmin_in.
  - apply (pick_perm pairR (kmin key_lt) pairR_refl pairR_sym pairR_trans); auto.
    + apply (kmin_fR key_lt pairR pairR_refl key_lt_R_r).
    + apply (kmin_rcomm key_lt pairR pairR_refl key_lt_irrefl key_lt_trans key_lt_tri).
    + apply (kmin_idem key_lt pairR pairR_refl key_lt_irrefl).
    + apply (kmin_absorb key_lt pairR pairR_refl key_lt_irrefl).
    + apply (kmin_comm key_lt pairR pairR_refl key_lt_irrefl key_lt_trans key_lt_tri).
Qed.

Lemma key_gt_irrefl a : key_gt a a = false.
Proof. apply key_lt_irrefl. Qed.
Lemma key_gt_trans a b c : key_gt a b = true -> key_gt b c = true -> key_gt a c = true.
Proof. unfold key_gt. intros H1 H2. eapply key_lt_trans; eauto. Qed.
Lemma key_gt_tri a b : key_gt a b = false -> key_gt b a = false -> pairR a b.
Proof. unfold key_gt. intros H1 H2. apply flipk_R. now apply key_lt_tri. Qed.
Lemma key_gt_R_r a b b' : pairR b b' -> key_gt a b = key_gt a b'.
Proof. unfold key_gt. intros H. apply key_lt_R_l. now apply flipk_R. Qed.

Lemma pick_max_perm x r y s : Permutation (x :: r) (y :: s) -> Forall canonp (x :: r) ->
  pick_max x r = pick_max y s.
Proof.
  intros P F. rewrite !pick_max_fold.
  assert (F' : Forall canonp (y :: s)) by (eapply Permutation_Forall; eauto).
  apply pairR_eq.
  - rewrite Forall_forall in F. apply F. apply fold_kmin_in.
  - rewrite Forall_forall in F'. apply F'. apply fold_kmin_in.
  - apply (pick_perm pairR (kmin key_gt) pairR_refl pairR_sym pairR_trans); auto.
    + apply (kmin_fR key_gt pairR pairR_refl key_gt_R_r).
    + apply (kmin_rcomm key_gt pairR pairR_refl key_gt_irrefl key_gt_trans key_gt_tri).
    + apply (kmin_idem key_gt pairR pairR_refl key_gt_irrefl).
    + apply (kmin_absorb key_gt pairR pairR_refl key_gt_irrefl).
    + apply (kmin_comm key_gt pairR pairR_refl key_gt_irrefl key_gt_trans key_gt_tri).
Qed.

(* ------------------------------------------------------------------ *)
(* the order of the operators                                           *)

Lemma zinsert_comm x y s : zinsert x (zinsert y s) = zinsert y (zinsert x s).
Proof.
  induction s as [|a r IH]; cbn.
  - destruct (x <=? y)%Z eqn:Exy, (y <=? x)%Z eqn:Eyx; try reflexivity.
    + apply Z.leb_le in Exy, Eyx. assert (x = y) by lia. now subst.
    + apply Z.leb_gt in Exy, Eyx. lia.
  - destruct (y <=? a)%Z eqn:Eya, (x <=? a)%Z eqn:Exa; cbn; rewrite ?Eya, ?Exa.
    + destruct (x <=? y)%Z eqn:Exy, (y <=? x)%Z eqn:Eyx; try reflexivity.
      * apply Z.leb_le in Exy, Eyx. assert (x = y) by lia. now subst.
      * apply Z.leb_gt in Exy, Eyx. lia.
    + destruct (x <=? y)%Z eqn:Exy; [|reflexivity].
      apply Z.leb_le in Exy, Eya. apply Z.leb_gt in Exa. lia.
    + destruct (y <=? x)%Z eqn:Eyx; [|reflexivity].
      apply Z.leb_le in Eyx, Exa. apply Z.leb_gt in Eya. lia.
    + now rewrite IH.
Qed.
Lemma zsort_perm l l' : Permutation l l' -> zsort l = zsort l'.
Proof.
  induction 1 as [|x l l' _ IH|x y l|l l' l'' _ IH1 _ IH2]; cbn.
  - reflexivity.
  - unfold zsort in IH. now rewrite IH.
  - apply zinsert_comm.
  - now rewrite IH1.
Qed.

(* ------------------------------------------------------------------ *)
(* Qeq-level facts for the final fold                                   *)

Lemma Qmax'_fR a a' x : a == a' -> Qmax' a x == Qmax' a' x.
Proof.
  intros H. unfold Qmax'. destruct (Qle_bool a x) eqn:E1, (Qle_bool a' x) eqn:E2;
    rewrite ?Qle_bool_iff, ?Qle_bool_false in *; lra.
Qed.
Lemma Qmax'_rcomm a x y : Qmax' (Qmax' a x) y == Qmax' (Qmax' a y) x.
Proof.
  unfold Qmax'. destruct (Qle_bool a x) eqn:E1, (Qle_bool a y) eqn:E2;
    repeat match goal with |- context[Qle_bool ?u ?v] => destruct (Qle_bool u v) eqn:? end;
    rewrite ?Qle_bool_iff, ?Qle_bool_false in *; lra.
Qed.
Lemma Qmax'_idem a : Qmax' a a == a.
Proof. unfold Qmax'. destruct (Qle_bool a a); reflexivity. Qed.
Lemma Qmax'_absorb a x : Qmax' (Qmax' a x) x == Qmax' a x.
Proof.
  unfold Qmax'. destruct (Qle_bool a x) eqn:E1;
    repeat match goal with |- context[Qle_bool ?u ?v] => destruct (Qle_bool u v) eqn:? end;
    rewrite ?Qle_bool_iff, ?Qle_bool_false in *; lra.
Qed.
Lemma Qmax'_comm a b : Qmax' a b == Qmax' b a.
Proof.
  unfold Qmax'. destruct (Qle_bool a b) eqn:E1, (Qle_bool b a) eqn:E2;
    rewrite ?Qle_bool_iff, ?Qle_bool_false in *; lra.
Qed.
Lemma Qmin'_fR a a' x : a == a' -> Qmin' a x == Qmin' a' x.
Proof.
  intros H. unfold Qmin'. destruct (Qle_bool a x) eqn:E1, (Qle_bool a' x) eqn:E2;
    rewrite ?Qle_bool_iff, ?Qle_bool_false in *; lra.
Qed.
Lemma Qmin'_rcomm a x y : Qmin' (Qmin' a x) y == Qmin' (Qmin' a y) x.
Proof.
  unfold Qmin'. destruct (Qle_bool a x) eqn:E1, (Qle_bool a y) eqn:E2;
    repeat match goal with |- context[Qle_bool ?u ?v] => destruct (Qle_bool u v) eqn:? end;
    rewrite ?Qle_bool_iff, ?Qle_bool_false in *; lra.
Qed.
Lemma Qmin'_idem a : Qmin' a a == a.
Proof. unfold Qmin'. destruct (Qle_bool a a); reflexivity. Qed.
Lemma Qmin'_absorb a x : Qmin' (Qmin' a x) x == Qmin' a x.
Proof.
  unfold Qmin'. destruct (Qle_bool a x) eqn:E1;
    repeat match goal with |- context[Qle_bool ?u ?v] => destruct (Qle_bool u v) eqn:? end;
    rewrite ?Qle_bool_iff, ?Qle_bool_false in *; lra.
Qed.
Lemma Qmin'_comm a b : Qmin' a b == Qmin' b a.
Proof.
  unfold Qmin'. destruct (Qle_bool a b) eqn:E1, (Qle_bool b a) eqn:E2;
    rewrite ?Qle_bool_iff, ?Qle_bool_false in *; lra.
Qed.

Lemma qmaxl_fold x l : qmaxl x l = fold_left Qmax' l x.
Proof. revert x. induction l as [|y r IH]; intros x; cbn; auto. Qed.
Lemma qminl_fold x l : qminl x l = fold_left Qmin' l x.
Proof. revert x. induction l as [|y r IH]; intros x; cbn; auto. Qed.

Lemma Qeq_sym' (a b : Q) : a == b -> b == a.
Proof. intros H. now symmetry. Qed.
Lemma Qeq_trans' (a b c : Q) : a == b -> b == c -> a == c.
Proof. intros H1 H2. now rewrite H1. Qed.

Lemma qmaxl_perm x r y s : Permutation (x :: r) (y :: s) -> qmaxl x r == qmaxl y s.
Proof.
  intros P. rewrite !qmaxl_fold.
  apply (pick_perm Qeq Qmax' Qeq_refl Qeq_sym' Qeq_trans' Qmax'_fR Qmax'_rcomm Qmax'_idem Qmax'_absorb Qmax'_comm _ _ _ _ P).
Qed.
Lemma qminl_perm x r y s : Permutation (x :: r) (y :: s) -> qminl x r == qminl y s.
Proof.
  intros P. rewrite !qminl_fold.
  apply (pick_perm Qeq Qmin' Qeq_refl Qeq_sym' Qeq_trans' Qmin'_fR Qmin'_rcomm Qmin'_idem Qmin'_absorb Qmin'_comm _ _ _ _ P).
Qed.

Lemma sum_perm l l' a a' : Permutation l l' -> a == a' -> fold_left Qplus l a == fold_left Qplus l' a'.
Proof.
  intros P H. apply (fold_perm_act Qeq Qplus Qeq_refl Qeq_trans'); auto.
  - intros u u' x E. now rewrite E.
  - intros u x y. ring.
Qed.
Lemma prod_perm l l' a a' : Permutation l l' -> a == a' ->
  fold_left (fun u x => u * (1 + x)) l a == fold_left (fun u x => u * (1 + x)) l' a'.
Proof.
  intros P H. apply (fold_perm_act Qeq (fun u x => u * (1 + x)) Qeq_refl Qeq_trans'); auto.
  - intros u u' x E. now rewrite E.
  - intros u x y. ring.
Qed.

(* ------------------------------------------------------------------ *)
(* more on stores: entries seen through a function of (key, list)       *)

Lemma flat_map_map' {A B C} (g : A -> B) (f : B -> list C) l : flat_map f (map g l) = flat_map (fun x => f (g x)) l.
Proof. induction l as [|x l IH]; cbn; [reflexivity|now rewrite IH]. Qed.
Lemma flat_map_ext_in {A B} (f g : A -> list B) l : (forall x, In x l -> f x = g x) -> flat_map f l = flat_map g l.
Proof.
  induction l as [|x l IH]; cbn; intros H; [reflexivity|].
  rewrite (H x) by now left. rewrite IH; [reflexivity|]. intros y I. apply H. now right.
Qed.
Lemma fold_left_ext' {A B} (f g : A -> B -> A) l a : (forall u x, f u x = g u x) -> fold_left f l a = fold_left g l a.
Proof. intros H. revert a. induction l as [|x l IH]; intros a; cbn; [reflexivity|]. now rewrite H, IH. Qed.
Lemma fold_left_map' {A B C} (f : A -> C -> A) (g : B -> C) l a :
  fold_left f (map g l) a = fold_left (fun u x => f u (g x)) l a.
Proof. revert a. induction l as [|x l IH]; intros a; cbn; [reflexivity|apply IH]. Qed.

Section GAL2.
  Context {K V : Type} (eqb : K -> K -> bool).
  Hypothesis eqb_ok : forall a b, eqb a b = true <-> a = b.

  Lemma flat_map_sim {T} (resl : K * list V -> list T) (good : list V -> Prop) (E E' : list (K * list V)) :
    wf eqb E -> wf eqb E' -> sim eqb E E' -> (forall k, good (getl eqb E k)) ->
    (forall k l l', good l -> Permutation l l' -> resl (k, l) = resl (k, l')) ->
    Permutation (flat_map resl E) (flat_map resl E').
  Proof.
    intros W W' S Gd Inv.
    rewrite (al_canon eqb eqb_ok E) at 1 by apply W.
    rewrite (al_canon eqb eqb_ok E') at 1 by apply W'.
    rewrite !flat_map_map'.
    eapply Permutation_trans.
    - apply Permutation_flat_map. apply (sim_keys eqb eqb_ok E E' W W' S).
    - rewrite (flat_map_ext_in (fun x => resl (x, getl eqb E x)) (fun x => resl (x, getl eqb E' x))); [apply Permutation_refl|].
      intros k _. apply Inv; [apply Gd|apply S].
  Qed.

  Lemma in_getl (st : list (K * list V)) k l : NoDup (keys st) -> In (k, l) st -> getl eqb st k = l.
  Proof.
    unfold keys, getl. induction st as [|[k' l'] r IH]; cbn; intros N I; [destruct I|].
    inversion N as [|? ? NI N']; subst. destruct I as [E|I].
    - inversion E; subst. rewrite (proj2 (eqb_ok k k) eq_refl). reflexivity.
    - destruct (eqb k k') eqn:Ek.
      + apply eqb_ok in Ek; subst k'. exfalso. apply NI. apply in_map_iff. exists (k, l). auto.
      + apply IH; assumption.
  Qed.

  (* the same fold of additions over permuted inputs, started from similar stores *)
  Lemma sim_fold {G} (c : G -> bool) (kf : G -> K) (vf : G -> V) l l' st st' :
    Permutation l l' -> sim eqb st st' -> sim eqb (fold_left (fstep eqb c kf vf) l st) (fold_left (fstep eqb c kf vf) l' st').
  Proof.
    intros P S k. rewrite !(getl_fold eqb eqb_ok). apply Permutation_app; [apply S|].
    apply Permutation_map. now apply Permutation_filter.
  Qed.

  Lemma forall_fold {G} (Pv : V -> Prop) (c : G -> bool) (kf : G -> K) (vf : G -> V) l st :
    (forall k, Forall Pv (getl eqb st k)) -> (forall g, In g l -> Pv (vf g)) ->
    forall k, Forall Pv (getl eqb (fold_left (fstep eqb c kf vf) l st) k).
  Proof.
    intros H1 H2 k. rewrite (getl_fold eqb eqb_ok). apply Forall_app. split; [apply H1|].
    apply Forall_forall. intros v I. apply in_map_iff in I as [g [<- I]]. apply filter_In in I as [I _]. auto.
  Qed.
End GAL2.

(* ------------------------------------------------------------------ *)
(* combine_mods, stage by stage                                         *)

Lemma zeqb_ok a b : zeqb a b = true <-> a = b.
Proof. apply Z.eqb_eq. Qed.
Lemma aggkey_eqb_ok a b : aggkey_eqb a b = true <-> a = b.
Proof.
  destruct a as [a1 a2], b as [b1 b2]. unfold aggkey_eqb. cbn. rewrite andb_true_iff, Z.eqb_eq.
  split.
  - intros [-> H]. f_equal. destruct a2, b2; cbn in H; try discriminate; [apply Z.eqb_eq in H; now subst|reflexivity].
  - intros H. inversion H; subst. split; [reflexivity|]. destruct b2; cbn; [apply Z.eqb_refl|reflexivity].
Qed.

Definition St := list (Z * list Q).
Definition Ag := list ((Z * option Z) * list (Q * bool)).

Definition stage_stack (mods : list gmod) : St * St :=
  let stackm := filter (fun g => Z.eqb (g_mode g) ModAggregateMode_stack) mods in
  (fold_left (fun st g => if g_pen g then st else stack_add st (g_op g) (g_val g)) stackm [],
   fold_left (fun st g => if g_pen g then stack_add st (g_op g) (g_val g) else st) stackm []).
Definition aggs (mode : Z) (mods : list gmod) : Ag :=
  fold_left (fun st g => if Z.eqb (g_mode g) mode
                         then agg_add st (g_op g, g_key g) (g_val g, g_pen g) else st) mods [].
Definition use_agg (pick : Q * bool -> list (Q * bool) -> Q * bool)
           (acc : St * St) (kv : (Z * option Z) * list (Q * bool)) : St * St :=
  match snd kv with
  | [] => acc
  | x :: r => let (v, p) := pick x r in
              if (p : bool) then (fst acc, stack_add (snd acc) (fst (fst kv)) v)
              else (stack_add (fst acc) (fst (fst kv)) v, snd acc)
  end.
Definition stage_final (pen : list Q) (acc : St * St) : St :=
  fold_left (fun st (kv : Z * list Q) => stack_add st (fst kv) (penalize_values pen (snd kv))) (snd acc) (fst acc).
Definition opl (hig : bool) (value : Q) (op : Z) (l : list Q) : Q :=
  match l with
  | [] => value
  | v :: vs =>
    if mem zeqb ASSIGNMENT_OPERATORS op then (if hig then qmaxl v vs else qminl v vs)
    else if mem zeqb ADDITION_OPERATORS op then fold_left Qplus (v :: vs) value
    else if mem zeqb MULTIPLICATION_OPERATORS op then fold_left (fun a x => a * (1 + x)) (v :: vs) value
    else value
  end.
Definition finish (hig : bool) (base : Q) (stack : St) : Q :=
  fold_left (fun value op => opl hig value op (getl zeqb stack op)) (zsort (map fst stack)) base.

Lemma opl_get (hig : bool) (S : St) (value : Q) (op : Z) :
  match al_get zeqb S op with
  | None | Some [] => value
  | Some (v :: vs) =>
    if mem zeqb ASSIGNMENT_OPERATORS op then (if hig then qmaxl v vs else qminl v vs)
    else if mem zeqb ADDITION_OPERATORS op then fold_left Qplus (v :: vs) value
    else if mem zeqb MULTIPLICATION_OPERATORS op then fold_left (fun a x => a * (1 + x)) (v :: vs) value
    else value
  end = opl hig value op (getl zeqb S op).
Proof. unfold getl, opl. destruct (al_get zeqb S op) as [[|v vs]|]; reflexivity. Qed.

Lemma combine_mods_staged pen hig base mods :
  combine_mods pen hig base mods =
  finish hig base (stage_final pen (fold_left (use_agg pick_max) (aggs ModAggregateMode_maximum mods)
                                      (fold_left (use_agg pick_min) (aggs ModAggregateMode_minimum mods)
                                                 (stage_stack mods)))).
Proof.
  unfold combine_mods, finish. cbv zeta. apply fold_left_ext'. intros value op. apply opl_get.
Qed.

(* invariants of a pair of stores *)
Definition cst (st : St) : Prop := forall k, Forall canon (getl zeqb st k).
Definition cag (st : Ag) : Prop := forall k, Forall canonp (getl aggkey_eqb st k).
Record ok2 (a a' : St * St) : Prop := mkOk2 {
  ok_wf1 : wf zeqb (fst a); ok_wf1' : wf zeqb (fst a');
  ok_wf2 : wf zeqb (snd a); ok_wf2' : wf zeqb (snd a');
  ok_sim1 : sim zeqb (fst a) (fst a'); ok_sim2 : sim zeqb (snd a) (snd a');
  ok_c1 : cst (fst a); ok_c2 : cst (snd a); ok_c1' : cst (fst a'); ok_c2' : cst (snd a') }.

Definition cmods (mods : list gmod) : Prop := Forall (fun g => canon (g_val g)) mods.

Lemma sim_nil {K V} (eqb : K -> K -> bool) : sim (V := V) eqb [] [].
Proof. intros k. apply Permutation_refl. Qed.

Lemma stage_stack_ok mods mods' : Permutation mods mods' -> cmods mods -> ok2 (stage_stack mods) (stage_stack mods').
Proof.
  intros P C. assert (C' : cmods mods') by (eapply Permutation_Forall; eauto).
  unfold stage_stack.
  set (sm := filter _ mods). set (sm' := filter _ mods').
  assert (Ps : Permutation sm sm') by now apply Permutation_filter.
  assert (Cs : forall g, In g sm -> canon (g_val g)).
  { intros g I. apply filter_In in I as [I _]. unfold cmods in C. rewrite Forall_forall in C. auto. }
  assert (Cs' : forall g, In g sm' -> canon (g_val g)).
  { intros g I. apply filter_In in I as [I _]. unfold cmods in C'. rewrite Forall_forall in C'. auto. }
  assert (E1 : forall l, fold_left (fun st g => if g_pen g then st else stack_add st (g_op g) (g_val g)) l [] =
                         fold_left (fstep zeqb (fun g => negb (g_pen g)) g_op g_val) l []).
  { intros l. apply fold_left_ext'. intros u x. unfold fstep. destruct (g_pen x); reflexivity. }
  assert (E2 : forall l, fold_left (fun st g => if g_pen g then stack_add st (g_op g) (g_val g) else st) l [] =
                         fold_left (fstep zeqb g_pen g_op g_val) l []).
  { intros l. apply fold_left_ext'. intros u x. reflexivity. }
  cbn [fst snd]. rewrite !E1, !E2.
  constructor; cbn [fst snd].
  - apply wf_fold; [exact zeqb_ok|apply wf_nil].
  - apply wf_fold; [exact zeqb_ok|apply wf_nil].
  - apply wf_fold; [exact zeqb_ok|apply wf_nil].
  - apply wf_fold; [exact zeqb_ok|apply wf_nil].
  - apply sim_fold; [exact zeqb_ok|exact Ps|apply sim_nil].
  - apply sim_fold; [exact zeqb_ok|exact Ps|apply sim_nil].
  - intros k. apply forall_fold; [exact zeqb_ok|intros k0; constructor|exact Cs].
  - intros k. apply forall_fold; [exact zeqb_ok|intros k0; constructor|exact Cs].
  - intros k. apply forall_fold; [exact zeqb_ok|intros k0; constructor|exact Cs'].
  - intros k. apply forall_fold; [exact zeqb_ok|intros k0; constructor|exact Cs'].
Qed.

Lemma aggs_ok mode mods mods' : Permutation mods mods' -> cmods mods ->
  wf aggkey_eqb (aggs mode mods) /\ wf aggkey_eqb (aggs mode mods') /\
  sim aggkey_eqb (aggs mode mods) (aggs mode mods') /\ cag (aggs mode mods).
Proof.
  intros P C.
  assert (E : forall l, aggs mode l = fold_left (fstep aggkey_eqb (fun g => Z.eqb (g_mode g) mode)
                                                       (fun g => (g_op g, g_key g)) (fun g => (g_val g, g_pen g))) l []).
  { intros l. unfold aggs. apply fold_left_ext'. intros u x. reflexivity. }
  rewrite !E. repeat split.
  - apply wf_fold; [exact aggkey_eqb_ok|apply wf_nil].
  - apply wf_fold; [exact aggkey_eqb_ok|apply wf_nil].
  - apply wf_fold; [exact aggkey_eqb_ok|apply wf_nil].
  - apply wf_fold; [exact aggkey_eqb_ok|apply wf_nil].
  - apply sim_fold; [exact aggkey_eqb_ok|exact P|apply sim_nil].
  - intros k. apply forall_fold; [exact aggkey_eqb_ok|intros k0; constructor|].
    intros g I. unfold canonp. cbn. unfold cmods in C. rewrite Forall_forall in C. auto.
Qed.

(* the aggregate stage: one picked value per (operator, key) group *)
Definition resl (pick : Q * bool -> list (Q * bool) -> Q * bool)
           (kv : (Z * option Z) * list (Q * bool)) : list (Z * (Q * bool)) :=
  match snd kv with [] => [] | x :: r => [(fst (fst kv), pick x r)] end.

Notation F1 := (fstep zeqb (fun t : Z * (Q * bool) => negb (snd (snd t))) fst (fun t => fst (snd t))).
Notation F2 := (fstep zeqb (fun t : Z * (Q * bool) => snd (snd t)) fst (fun t => fst (snd t))).

Lemma use_agg_step pick kv (acc : St * St) :
  use_agg pick acc kv = (fold_left F1 (resl pick kv) (fst acc), fold_left F2 (resl pick kv) (snd acc)).
Proof.
  destruct kv as [k l], acc as [a1 a2]. unfold use_agg, resl. cbn [snd fst].
  destruct l as [|x r]; [reflexivity|]. destruct (pick x r) as [v p]. cbn [fold_left]. unfold fstep. cbn [fst snd].
  destruct p; reflexivity.
Qed.

Lemma use_agg_fold pick E (acc : St * St) :
  fold_left (use_agg pick) E acc =
  (fold_left F1 (flat_map (resl pick) E) (fst acc), fold_left F2 (flat_map (resl pick) E) (snd acc)).
Proof.
  revert acc. induction E as [|kv E IH]; intros acc; cbn [fold_left flat_map]; [now destruct acc|].
  rewrite IH, use_agg_step. cbn [fst snd]. now rewrite !fold_left_app.
Qed.

Definition pick_ok (pick : Q * bool -> list (Q * bool) -> Q * bool) : Prop :=
  (forall x r y s, Permutation (x :: r) (y :: s) -> Forall canonp (x :: r) -> pick x r = pick y s) /\
  (forall x r, In (pick x r) (x :: r)).

Lemma pick_min_ok : pick_ok pick_min.
Proof. split; [apply pick_min_perm|]. intros x r. rewrite pick_min_fold. apply fold_kmin_in. Qed.
Lemma pick_max_ok : pick_ok pick_max.
Proof. split; [apply pick_max_perm|]. intros x r. rewrite pick_max_fold. apply fold_kmin_in. Qed.

Lemma resl_perm pick E E' : pick_ok pick ->
  wf aggkey_eqb E -> wf aggkey_eqb E' -> sim aggkey_eqb E E' -> cag E ->
  Permutation (flat_map (resl pick) E) (flat_map (resl pick) E').
Proof.
  intros [PK _] W W' S C.
  apply (flat_map_sim aggkey_eqb aggkey_eqb_ok (resl pick) (Forall canonp) E E' W W' S C).
  intros k l l' F P. unfold resl. cbn [snd fst]. destruct l as [|x r], l' as [|y s]; try reflexivity.
  - apply Permutation_nil in P. discriminate.
  - apply Permutation_sym, Permutation_nil in P. discriminate.
  - now rewrite (PK x r y s P F).
Qed.

Lemma resl_canon pick E : pick_ok pick -> wf aggkey_eqb E -> cag E ->
  forall t, In t (flat_map (resl pick) E) -> canon (fst (snd t)).
Proof.
  intros [_ PI] W C t I. apply in_flat_map in I as [[k l] [I1 I2]]. unfold resl in I2. cbn [snd fst] in I2.
  destruct l as [|x r]; [destruct I2|]. destruct I2 as [<-|[]]. cbn [snd fst].
  pose proof (in_getl aggkey_eqb aggkey_eqb_ok E k (x :: r) (proj1 W) I1) as G.
  specialize (C k). rewrite G in C. rewrite Forall_forall in C. apply (C _ (PI x r)).
Qed.

Lemma use_agg_ok pick E E' a a' : pick_ok pick ->
  wf aggkey_eqb E -> wf aggkey_eqb E' -> sim aggkey_eqb E E' -> cag E -> cag E' ->
  ok2 a a' -> ok2 (fold_left (use_agg pick) E a) (fold_left (use_agg pick) E' a').
Proof.
  intros PK W W' S C C' O. rewrite !use_agg_fold.
  pose proof (resl_perm pick E E' PK W W' S C) as P.
  pose proof (resl_canon pick E PK W C) as K1. pose proof (resl_canon pick E' PK W' C') as K2.
  destruct O. constructor; cbn [fst snd].
  - apply wf_fold; [exact zeqb_ok|assumption].
  - apply wf_fold; [exact zeqb_ok|assumption].
  - apply wf_fold; [exact zeqb_ok|assumption].
  - apply wf_fold; [exact zeqb_ok|assumption].
  - apply sim_fold; [exact zeqb_ok|exact P|assumption].
  - apply sim_fold; [exact zeqb_ok|exact P|assumption].
  - intros k. apply forall_fold; [exact zeqb_ok|assumption|exact K1].
  - intros k. apply forall_fold; [exact zeqb_ok|assumption|exact K1].
  - intros k. apply forall_fold; [exact zeqb_ok|assumption|exact K2].
  - intros k. apply forall_fold; [exact zeqb_ok|assumption|exact K2].
Qed.

(* the penalised chains: one combined value per operator *)
Lemma stage_final_ok pen a a' : ok2 a a' ->
  wf zeqb (stage_final pen a) /\ wf zeqb (stage_final pen a') /\ sim zeqb (stage_final pen a) (stage_final pen a').
Proof.
  intros O. destruct O.
  assert (E : forall x : St * St, stage_final pen x =
              fold_left (fstep zeqb (fun _ : Z * Q => true) fst snd)
                        (flat_map (fun kv : Z * list Q => [(fst kv, penalize_values pen (snd kv))]) (snd x)) (fst x)).
  { intros [x1 x2]. unfold stage_final. cbn [fst snd]. revert x1.
    induction x2 as [|kv r IH]; intros x1; cbn [fold_left flat_map app]; [reflexivity|]. rewrite IH. reflexivity. }
  rewrite !E. repeat split.
  - apply wf_fold; [exact zeqb_ok|assumption].
  - apply wf_fold; [exact zeqb_ok|assumption].
  - apply wf_fold; [exact zeqb_ok|assumption].
  - apply wf_fold; [exact zeqb_ok|assumption].
  - apply sim_fold; [exact zeqb_ok| |assumption].
    apply (flat_map_sim zeqb zeqb_ok _ (Forall canon) (snd a) (snd a')); try assumption.
    intros k l l' F P. cbn [fst snd]. now rewrite (penalize_perm pen l l' P F).
Qed.

(* the operators in their fixed order *)
Lemma opl_compat hig value value' op l l' : Permutation l l' -> value == value' ->
  opl hig value op l == opl hig value' op l'.
Proof.
  intros P H. unfold opl. destruct l as [|v vs], l' as [|v' vs'].
  - exact H.
  - apply Permutation_nil in P. discriminate.
  - apply Permutation_sym, Permutation_nil in P. discriminate.
  - destruct (mem zeqb ASSIGNMENT_OPERATORS op).
    + destruct hig; [now apply qmaxl_perm|now apply qminl_perm].
    + destruct (mem zeqb ADDITION_OPERATORS op); [now apply sum_perm|].
      destruct (mem zeqb MULTIPLICATION_OPERATORS op); [now apply prod_perm|exact H].
Qed.

Lemma finish_ok hig base S S' : wf zeqb S -> wf zeqb S' -> sim zeqb S S' -> finish hig base S == finish hig base S'.
Proof.
  intros W W' Sm. unfold finish.
  rewrite (zsort_perm (map fst S) (map fst S')) by apply (sim_keys zeqb zeqb_ok S S' W W' Sm).
  generalize (zsort (map fst S')). intros ks.
  assert (G : forall v v', v == v' ->
              fold_left (fun value op => opl hig value op (getl zeqb S op)) ks v ==
              fold_left (fun value op => opl hig value op (getl zeqb S' op)) ks v').
  { induction ks as [|op ks IH]; intros v v' H; cbn [fold_left]; [exact H|].
    apply IH. apply opl_compat; [apply Sm|exact H]. }
  apply G. reflexivity.
Qed.

(* ------------------------------------------------------------------ *)
(* the theorem                                                          *)

Theorem combine_mods_perm pen hig base mods mods' :
  Permutation mods mods' -> Forall (fun g => canon (g_val g)) mods ->
  combine_mods pen hig base mods == combine_mods pen hig base mods'.
Proof.
  intros P C. rewrite !combine_mods_staged.
  assert (C' : cmods mods') by (eapply Permutation_Forall; eauto).
  pose proof (stage_stack_ok mods mods' P C) as O0.
  destruct (aggs_ok ModAggregateMode_minimum mods mods' P C) as [W1 [W1' [S1 K1]]].
  destruct (aggs_ok ModAggregateMode_minimum mods' mods (Permutation_sym P) C') as [_ [_ [_ K1']]].
  pose proof (use_agg_ok pick_min _ _ _ _ pick_min_ok W1 W1' S1 K1 K1' O0) as O1.
  destruct (aggs_ok ModAggregateMode_maximum mods mods' P C) as [W2 [W2' [S2 K2]]].
  destruct (aggs_ok ModAggregateMode_maximum mods' mods (Permutation_sym P) C') as [_ [_ [_ K2']]].
  pose proof (use_agg_ok pick_max _ _ _ _ pick_max_ok W2 W2' S2 K2 K2' O1) as O2.
  destruct (stage_final_ok pen _ _ O2) as [W3 [W3' S3]].
  apply finish_ok; assumption.
Qed.

(* the value read_attr stores: Leibniz-equal for every gathering order *)
Corollary combine_mods_perm_red pen hig base mods mods' :
  Permutation mods mods' -> Forall (fun g => canon (g_val g)) mods ->
  Qred (combine_mods pen hig base mods) = Qred (combine_mods pen hig base mods').
Proof. intros P C. apply Qred_complete. now apply combine_mods_perm. Qed.

(* whatever was gathered, once its values are in lowest terms (as read_attr stores them) *)
Definition normg (g : gmod) : gmod := mkGmod (g_op g) (Qred (g_val g)) (g_pen g) (g_mode g) (g_key g).
Corollary combine_mods_perm_norm pen hig base mods mods' :
  Permutation mods mods' ->
  combine_mods pen hig base (map normg mods) == combine_mods pen hig base (map normg mods').
Proof.
  intros P. apply combine_mods_perm; [now apply Permutation_map|].
  apply Forall_forall. intros g I. apply in_map_iff in I as [g0 [<- _]]. apply canon_Qred.
Qed.

(* ------------------------------------------------------------------ *)
(* C02: what the combined value is, operator by operator                *)

(* values of the stacking (non-aggregated) modifications of one operator *)
Definition vals_stack (mods : list gmod) (op : Z) (p : bool) : list Q :=
  map g_val (filter (fun g => Bool.eqb (g_pen g) p && zeqb op (g_op g))
                    (filter (fun g => Z.eqb (g_mode g) ModAggregateMode_stack) mods)).
(* the members of one aggregation group, in gathering order *)
Definition group_members (mods : list gmod) (mode : Z) (k : Z * option Z) : list (Q * bool) :=
  map (fun g => (g_val g, g_pen g)) (filter (fun g => Z.eqb (g_mode g) mode && aggkey_eqb k (g_op g, g_key g)) mods).
(* one survivor per group: (operator, (value, penalised)) *)
Definition survivors (mods : list gmod) (mode : Z) (pick : Q * bool -> list (Q * bool) -> Q * bool) :=
  flat_map (resl pick) (aggs mode mods).
Definition surv_vals (sv : list (Z * (Q * bool))) (op : Z) (p : bool) : list Q :=
  map (fun t => fst (snd t)) (filter (fun t : Z * (Q * bool) => Bool.eqb (snd (snd t)) p && zeqb op (fst t)) sv).

(* penalised and penalty-free values that reach one operator *)
Definition pen_vals (mods : list gmod) (op : Z) : list Q :=
  vals_stack mods op true
  ++ surv_vals (survivors mods ModAggregateMode_minimum pick_min) op true
  ++ surv_vals (survivors mods ModAggregateMode_maximum pick_max) op true.
Definition free_vals (mods : list gmod) (op : Z) : list Q :=
  vals_stack mods op false
  ++ surv_vals (survivors mods ModAggregateMode_minimum pick_min) op false
  ++ surv_vals (survivors mods ModAggregateMode_maximum pick_max) op false.

Lemma group_members_spec mods mode k : getl aggkey_eqb (aggs mode mods) k = group_members mods mode k.
Proof.
  unfold aggs, group_members.
  rewrite (fold_left_ext' _ (fstep aggkey_eqb (fun g => Z.eqb (g_mode g) mode) (fun g => (g_op g, g_key g))
                                   (fun g => (g_val g, g_pen g)))) by reflexivity.
  rewrite (getl_fold aggkey_eqb aggkey_eqb_ok). reflexivity.
Qed.

Lemma filter_negb_eqb {A} (f : A -> bool) (k : A -> bool) l :
  filter (fun g => negb (f g) && k g) l = filter (fun g => Bool.eqb (f g) false && k g) l.
Proof. apply filter_ext. intros a. destruct (f a); reflexivity. Qed.
Lemma filter_id_eqb {A} (f : A -> bool) (k : A -> bool) l :
  filter (fun g => f g && k g) l = filter (fun g => Bool.eqb (f g) true && k g) l.
Proof. apply filter_ext. intros a. destruct (f a); reflexivity. Qed.

Lemma app3_eq {A} (a b c a' b' c' : list A) : a = a' -> b = b' -> c = c' -> a ++ b ++ c = a' ++ b' ++ c'.
Proof. now intros -> -> ->. Qed.
Lemma map_filter_ext {A B} (h : A -> B) (f g : A -> bool) l :
  (forall x, f x = g x) -> map h (filter f l) = map h (filter g l).
Proof. intros H. now rewrite (filter_ext f g H). Qed.

(* the two stores after the aggregation stages *)
Lemma acc_spec mods op :
  let acc := fold_left (use_agg pick_max) (aggs ModAggregateMode_maximum mods)
                       (fold_left (use_agg pick_min) (aggs ModAggregateMode_minimum mods) (stage_stack mods)) in
  getl zeqb (fst acc) op = free_vals mods op /\ getl zeqb (snd acc) op = pen_vals mods op.
Proof.
  cbv zeta. rewrite !use_agg_fold. cbn [fst snd]. unfold stage_stack. cbn [fst snd].
  rewrite (fold_left_ext' (fun st g => if g_pen g then st else stack_add st (g_op g) (g_val g))
                          (fstep zeqb (fun g => negb (g_pen g)) g_op g_val))
    by (intros u x; unfold fstep; destruct (g_pen x); reflexivity).
  rewrite (fold_left_ext' (fun st g => if g_pen g then stack_add st (g_op g) (g_val g) else st)
                          (fstep zeqb g_pen g_op g_val)) by reflexivity.
  rewrite !(getl_fold zeqb zeqb_ok). unfold free_vals, pen_vals, vals_stack, surv_vals, survivors, getl. cbn [al_get].
  rewrite !app_nil_l, <- !app_assoc.
  split; (apply app3_eq; apply map_filter_ext;
          [intros g; destruct (g_pen g); reflexivity
          |intros [o [v b]]; destruct b; reflexivity
          |intros [o [v b]]; destruct b; reflexivity]).
Qed.

Lemma acc_wf mods :
  let acc := fold_left (use_agg pick_max) (aggs ModAggregateMode_maximum mods)
                       (fold_left (use_agg pick_min) (aggs ModAggregateMode_minimum mods) (stage_stack mods)) in
  wf zeqb (fst acc) /\ wf zeqb (snd acc).
Proof.
  cbv zeta. rewrite !use_agg_fold. cbn [fst snd]. unfold stage_stack. cbn [fst snd].
  rewrite (fold_left_ext' (fun st g => if g_pen g then st else stack_add st (g_op g) (g_val g))
                          (fstep zeqb (fun g => negb (g_pen g)) g_op g_val))
    by (intros u x; unfold fstep; destruct (g_pen x); reflexivity).
  rewrite (fold_left_ext' (fun st g => if g_pen g then stack_add st (g_op g) (g_val g) else st)
                          (fstep zeqb g_pen g_op g_val)) by reflexivity.
  split; repeat (apply wf_fold; [exact zeqb_ok|]); apply wf_nil.
Qed.

Section GAL3.
  Context {K V : Type} (eqb : K -> K -> bool).
  Hypothesis eqb_ok : forall a b, eqb a b = true <-> a = b.
  Lemma filter_key_absent (st : list (K * list V)) k :
    ~ In k (keys st) -> filter (fun kv => eqb k (fst kv)) st = [].
  Proof.
    unfold keys. induction st as [|[k' v] r IH]; cbn; intros H; [reflexivity|].
    destruct (eqb k k') eqn:E; [apply eqb_ok in E; subst; exfalso; apply H; now left|].
    apply IH. intros I. apply H. now right.
  Qed.
  Lemma filter_key (st : list (K * list V)) k : NoDup (keys st) ->
    filter (fun kv => eqb k (fst kv)) st = match al_get eqb st k with Some l => [(k, l)] | None => [] end.
  Proof.
    unfold keys. induction st as [|[k' v] r IH]; cbn; intros N; [reflexivity|].
    inversion N as [|? ? NI N']; subst. destruct (eqb k k') eqn:E.
    - apply eqb_ok in E; subst k'. f_equal. now apply filter_key_absent.
    - now apply IH.
  Qed.
End GAL3.

(* every operator's final list: the penalty-free values, then one combined value for the penalised ones *)
Definition op_vals (pen : list Q) (mods : list gmod) (op : Z) : list Q :=
  free_vals mods op ++ match pen_vals mods op with [] => [] | l => [penalize_values pen l] end.

Lemma final_spec pen mods op :
  getl zeqb (stage_final pen (fold_left (use_agg pick_max) (aggs ModAggregateMode_maximum mods)
                                (fold_left (use_agg pick_min) (aggs ModAggregateMode_minimum mods) (stage_stack mods)))) op
  = op_vals pen mods op.
Proof.
  set (acc := fold_left _ _ _).
  destruct (acc_spec mods op) as [E1 E2]. destruct (acc_wf mods) as [_ W2]. fold acc in E1, E2, W2.
  unfold stage_final, op_vals.
  rewrite (fold_left_ext' (fun st (kv : Z * list Q) => stack_add st (fst kv) (penalize_values pen (snd kv)))
                          (fstep zeqb (fun _ => true) fst (fun kv => penalize_values pen (snd kv)))) by reflexivity.
  rewrite (getl_fold zeqb zeqb_ok), E1. f_equal.
  rewrite (filter_ext _ (fun kv : Z * list Q => zeqb op (fst kv))) by reflexivity.
  rewrite (filter_key zeqb zeqb_ok (snd acc) op (proj1 W2)).
  rewrite <- E2. unfold getl. destruct (al_get zeqb (snd acc) op) as [l|] eqn:G; [|reflexivity].
  cbn [map snd]. destruct l as [|x r]; [|reflexivity].
  (* an entry of a well-formed store is never empty *)
  exfalso. destruct W2 as [_ NE]. apply (NE op).
  - apply (get_in_keys zeqb zeqb_ok). rewrite G. discriminate.
  - unfold getl. now rewrite G.
Qed.

(* the operators that occur at all *)
Lemma final_keys pen mods op :
  In op (map fst (stage_final pen (fold_left (use_agg pick_max) (aggs ModAggregateMode_maximum mods)
                                      (fold_left (use_agg pick_min) (aggs ModAggregateMode_minimum mods) (stage_stack mods)))))
  <-> op_vals pen mods op <> [].
Proof.
  rewrite <- final_spec. set (S := stage_final _ _).
  assert (W : wf zeqb S).
  { subst S. destruct (acc_wf mods) as [W1 _]. unfold stage_final.
    rewrite (fold_left_ext' (fun st (kv : Z * list Q) => stack_add st (fst kv) (penalize_values pen (snd kv)))
                            (fstep zeqb (fun _ => true) fst (fun kv => penalize_values pen (snd kv)))) by reflexivity.
    apply wf_fold; [exact zeqb_ok|exact W1]. }
  apply (in_keys_getl zeqb zeqb_ok S op W).
Qed.

(* C02: the value is the base value taken through the operators in their fixed order, each applied to
   exactly the values [op_vals] lists for it *)

(* ------------------------------------------------------------------ *)
(* folding over the operators that occur = folding over all operators   *)
From Coq Require Import Sorting.Sorted.

Lemma zinsert_perm x l : Permutation (zinsert x l) (x :: l).
Proof.
  induction l as [|y r IH]; cbn; [apply Permutation_refl|].
  destruct (x <=? y)%Z; [apply Permutation_refl|].
  eapply Permutation_trans; [apply perm_skip; exact IH|apply perm_swap].
Qed.
Lemma zsort_permutation l : Permutation (zsort l) l.
Proof.
  induction l as [|x l IH]; cbn; [constructor|].
  eapply Permutation_trans; [apply zinsert_perm|now apply perm_skip].
Qed.
Lemma zinsert_sorted x l : StronglySorted Z.le l -> StronglySorted Z.le (zinsert x l).
Proof.
  induction 1 as [|y r S IH F]; cbn; [repeat constructor|].
  destruct (x <=? y)%Z eqn:E.
  - apply Z.leb_le in E. constructor; [now constructor|]. constructor; [exact E|].
    rewrite Forall_forall in *. intros z Iz. specialize (F z Iz). lia.
  - apply Z.leb_gt in E. constructor; [exact IH|].
    rewrite Forall_forall in *. intros z Iz.
    apply (Permutation_in _ (zinsert_perm x r)) in Iz. destruct Iz as [<-|Iz]; [lia|auto].
Qed.
Lemma zsort_sorted l : StronglySorted Z.le (zsort l).
Proof. induction l as [|x l IH]; cbn; [constructor|now apply zinsert_sorted]. Qed.

Lemma strict_of_nodup l : StronglySorted Z.le l -> NoDup l -> StronglySorted Z.lt l.
Proof.
  induction 1 as [|y r S IH F]; intros N; [constructor|].
  inversion N as [|? ? NI N']; subst. constructor; [auto|].
  rewrite Forall_forall in *. intros z Iz. specialize (F z Iz).
  assert (z <> y) by (intros ->; contradiction). lia.
Qed.

Section SkipFold.
  Context {A : Type} (F : A -> Z -> A).
  Lemma fold_skip l b : (forall x, In x l -> forall v, F v x = v) -> fold_left F l b = b.
  Proof.
    revert b. induction l as [|x l IH]; intros b H; cbn; [reflexivity|].
    rewrite (H x) by now left. apply IH. intros y I. apply H. now right.
  Qed.
  Lemma fold_two_sorted l1 : forall l2 b,
    StronglySorted Z.lt l1 -> StronglySorted Z.lt l2 ->
    (forall x, In x l1 -> ~ In x l2 -> forall v, F v x = v) ->
    (forall x, In x l2 -> ~ In x l1 -> forall v, F v x = v) ->
    fold_left F l1 b = fold_left F l2 b.
  Proof.
    induction l1 as [|a r1 IH1]; intros l2 b S1 S2 H1 H2.
    - cbn. symmetry. apply fold_skip. intros x I. apply H2; [exact I|intros []].
    - inversion S1 as [|? ? S1' F1]; subst. rewrite Forall_forall in F1.
      revert b. induction l2 as [|x r2 IH2]; intros b.
      + change (fold_left F [] b) with b. apply fold_skip. intros y I. apply H1; [exact I|intros []].
      + inversion S2 as [|? ? S2' F2]; subst. rewrite Forall_forall in F2.
        destruct (Z.lt_trichotomy a x) as [L|[E|G]].
        * (* a is absent from l2 *)
          assert (Na : ~ In a (x :: r2)).
          { intros [->|I]; [lia|]. specialize (F2 a I). lia. }
          change (fold_left F (a :: r1) b) with (fold_left F r1 (F b a)). rewrite (H1 a (or_introl eq_refl) Na).
          apply IH1; [exact S1'|exact S2| |].
          -- intros y I N. apply H1; [now right|exact N].
          -- intros y I N. apply H2; [exact I|]. intros [->|I2]; [contradiction|contradiction].
        * subst x. cbn [fold_left]. apply IH1; [exact S1'|exact S2'| |].
          -- intros y I N. apply H1; [now right|]. intros [->|I2]; [specialize (F1 y I); lia|contradiction].
          -- intros y I N. apply H2; [now right|]. intros [->|I2]; [specialize (F2 y I); lia|contradiction].
        * (* x is absent from l1 *)
          assert (Nx : ~ In x (a :: r1)).
          { intros [->|I]; [lia|]. specialize (F1 x I). lia. }
          change (fold_left F (x :: r2) b) with (fold_left F r2 (F b x)). rewrite (H2 x (or_introl eq_refl) Nx).
          apply IH2; [exact S2'| |].
          -- intros y I N. apply H1; [exact I|]. intros [->|I2]; [contradiction|contradiction].
          -- intros y I N. apply H2; [now right|exact N].
  Qed.
End SkipFold.

Lemma members_sorted : StronglySorted Z.lt ModOperator_members.
Proof. unfold ModOperator_members. repeat (constructor; [|repeat constructor; lia]). constructor. Qed.

Lemma opl_unknown hig v op l : ~ In op ModOperator_members -> opl hig v op l = v.
Proof.
  intros N. unfold opl. destruct l as [|x r]; [reflexivity|].
  assert (H : forall cls, (forall z, In z cls -> In z ModOperator_members) -> mem zeqb cls op = false).
  { intros cls Hc. destruct (mem zeqb cls op) eqn:E; [|reflexivity]. exfalso. apply N, Hc.
    clear -E. induction cls as [|c r IH]; cbn in E; [discriminate|].
    apply orb_true_iff in E as [E|E]; [left; symmetry; now apply Z.eqb_eq|right; auto]. }
  rewrite (H ASSIGNMENT_OPERATORS), (H ADDITION_OPERATORS), (H MULTIPLICATION_OPERATORS); [reflexivity| | |];
    intros z Iz; cbn in Iz; cbn; intuition.
Qed.

(* C02: the value is the base value taken through ALL operators in their fixed order; each operator is
   applied to the penalty-free values that reach it (stacking ones, plus the survivor of every minimum /
   maximum group that is not penalised) and to ONE combined value of the penalised ones (the stacking-
   penalty chain over the penalised stacking values and the penalised survivors). An operator that
   nothing reaches leaves the value alone. *)
Theorem combine_mods_by_operator pen hig base mods :
  combine_mods pen hig base mods =
  fold_left (fun value op => opl hig value op (op_vals pen mods op)) ModOperator_members base.
Proof.
  rewrite combine_mods_staged. unfold finish. set (S := stage_final _ _).
  rewrite (fold_left_ext' (fun value op => opl hig value op (getl zeqb S op))
                          (fun value op => opl hig value op (op_vals pen mods op)))
    by (intros v op; subst S; now rewrite final_spec).
  assert (W : wf zeqb S).
  { subst S. destruct (acc_wf mods) as [W1 _]. unfold stage_final.
    rewrite (fold_left_ext' (fun st (kv : Z * list Q) => stack_add st (fst kv) (penalize_values pen (snd kv)))
                            (fstep zeqb (fun _ => true) fst (fun kv => penalize_values pen (snd kv)))) by reflexivity.
    apply wf_fold; [exact zeqb_ok|exact W1]. }
  apply fold_two_sorted.
  - apply strict_of_nodup; [apply zsort_sorted|].
    eapply Permutation_NoDup; [apply Permutation_sym, zsort_permutation|apply W].
  - apply members_sorted.
  - intros op _ N v. now apply opl_unknown.
  - intros op _ N v.
    assert (E : op_vals pen mods op = []).
    { destruct (op_vals pen mods op) eqn:E; [reflexivity|]. exfalso. apply N.
      apply (Permutation_in _ (Permutation_sym (zsort_permutation _))).
      apply (final_keys pen mods op). rewrite E. discriminate. }
    rewrite E. reflexivity.
Qed.

Lemma filter_all {A} (f : A -> bool) l : (forall x, In x l -> f x = true) -> filter f l = l.
Proof.
  induction l as [|x l IH]; cbn; intros H; [reflexivity|]. rewrite (H x) by now left.
  f_equal. apply IH. intros y I. apply H. now right.
Qed.
Lemma filter_none {A} (f : A -> bool) l : (forall x, In x l -> f x = false) -> filter f l = [].
Proof.
  induction l as [|x l IH]; cbn; intros H; [reflexivity|]. rewrite (H x) by now left.
  apply IH. intros y I. apply H. now right.
Qed.

(* readable special cases *)
Corollary combine_only_post_mul pen hig base mods :
  (forall g, In g mods -> g_op g = ModOperator_post_mul /\ g_mode g = ModAggregateMode_stack /\ g_pen g = false) ->
  combine_mods pen hig base mods = fold_left (fun a x => a * (1 + x)) (map g_val mods) base.
Proof.
  intros H. rewrite combine_mods_by_operator.
  assert (Hst : filter (fun g => Z.eqb (g_mode g) ModAggregateMode_stack) mods = mods).
  { apply filter_all. intros g I. destruct (H g I) as (_ & -> & _). reflexivity. }
  assert (Ag : forall mode, mode <> ModAggregateMode_stack -> aggs mode mods = []).
  { intros mode Hm. unfold aggs. assert (G : forall l st, (forall g, In g l -> In g mods) ->
       fold_left (fun st g => if Z.eqb (g_mode g) mode then agg_add st (g_op g, g_key g) (g_val g, g_pen g) else st) l st = st).
    { induction l as [|g l IH]; intros st Hl; cbn; [reflexivity|].
      destruct (H g (Hl g (or_introl eq_refl))) as (_ & E & _). rewrite E.
      destruct (Z.eqb ModAggregateMode_stack mode) eqn:Eq; [apply Z.eqb_eq in Eq; congruence|].
      apply IH. intros x I. apply Hl. now right. }
    apply G. auto. }
  assert (OV : forall op, op_vals pen mods op = if Z.eqb op ModOperator_post_mul then map g_val mods else []).
  { intros op. unfold op_vals, free_vals, pen_vals, survivors, vals_stack.
    rewrite !Ag by discriminate. cbn [flat_map surv_vals filter map]. rewrite !app_nil_r, Hst.
    assert (P : filter (fun g => Bool.eqb (g_pen g) true && zeqb op (g_op g)) mods = []).
    { apply filter_none. intros g I. destruct (H g I) as (_ & _ & ->). reflexivity. }
    rewrite P. cbn [map]. rewrite app_nil_r.
    destruct (Z.eqb op ModOperator_post_mul) eqn:E.
    - apply Z.eqb_eq in E. subst op. f_equal. apply filter_all. intros g I.
      destruct (H g I) as (-> & _ & ->). reflexivity.
    - assert (N : filter (fun g => Bool.eqb (g_pen g) false && zeqb op (g_op g)) mods = []).
      { apply filter_none. intros g I. destruct (H g I) as (-> & _ & _).
        unfold zeqb. rewrite E. apply andb_false_r. }
      now rewrite N. }
  rewrite (fold_left_ext' _ (fun value op => opl hig value op (if Z.eqb op ModOperator_post_mul then map g_val mods else [])))
    by (intros v op; now rewrite OV).
  destruct mods as [|g0 r]; [reflexivity|].
  cbn. reflexivity.
Qed.

(* the survivor of a group is extremal *)
Section Extremal.
  Context {A : Type} (lt : A -> A -> bool).
  Hypothesis lt_irrefl : forall a, lt a a = false.
  Hypothesis lt_trans : forall a b c, lt a b = true -> lt b c = true -> lt a c = true.
  Lemma fold_kmin_least l : forall cur seen,
    (forall y, In y seen -> lt y cur = false) ->
    forall y, In y (seen ++ cur :: l) -> lt y (fold_left (kmin lt) l cur) = false.
  Proof.
    induction l as [|x l IH]; intros cur seen Hs y Iy; cbn [fold_left].
    - apply in_app_or in Iy as [I|[<-|[]]]; [now apply Hs|apply lt_irrefl].
    - apply (IH (kmin lt cur x) (x :: cur :: seen)).
      + intros z Iz. unfold kmin. destruct (lt x cur) eqn:E.
        * destruct Iz as [<-|[<-|I]].
          -- apply lt_irrefl.
          -- destruct (lt cur x) eqn:E2; [|reflexivity].
             pose proof (lt_trans cur x cur E2 E) as X. rewrite lt_irrefl in X. discriminate.
          -- destruct (lt z x) eqn:E2; [|reflexivity].
             pose proof (lt_trans z x cur E2 E) as X. rewrite (Hs z I) in X. discriminate.
        * destruct Iz as [<-|[<-|I]]; [exact E|apply lt_irrefl|now apply Hs].
      + apply in_app_or in Iy as [I|[<-|[<-|I]]].
        * apply in_or_app. left. right. right. exact I.
        * apply in_or_app. left. right. now left.
        * apply in_or_app. left. now left.
        * apply in_or_app. right. now right.
  Qed.
End Extremal.

Lemma pick_min_least x r y : In y (x :: r) -> key_lt y (pick_min x r) = false.
Proof. intros I. rewrite pick_min_fold. apply (fold_kmin_least key_lt key_lt_irrefl key_lt_trans r x []); [intros ? []|exact I]. Qed.
Lemma pick_max_greatest x r y : In y (x :: r) -> key_lt (flipk (pick_max x r)) (flipk y) = false.
Proof.
  intros I. rewrite pick_max_fold.
  apply (fold_kmin_least key_gt key_gt_irrefl key_gt_trans r x []); [intros ? []|exact I].
Qed.
