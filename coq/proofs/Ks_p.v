(* Keyed storages (eos.util.keyed_storage.KeyedStorage: dict of sets) as association lists of duplicate-free
   lists: what each operation does to the set stored under every key; and C13's projection register
   (eos/calculator/projection.py): the two indexes -- projector -> targets, target -> projectors -- describe the
   same relation after any sequence of apply / unapply calls. *)
From Coq Require Import ZArith List Bool Lia.
From EosV Require Import lib.AList gen.T_eos model.World model.Calc.
Import ListNotations.

Section KsTheory.
  Context {K V : Type} (keqb : K -> K -> bool) (veqb : V -> V -> bool).
  Hypothesis keqb_spec : forall a b, keqb a b = true <-> a = b.
  Hypothesis veqb_spec : forall a b, veqb a b = true <-> a = b.

  Lemma keqb_refl a : keqb a a = true. Proof. now apply keqb_spec. Qed.
  Lemma keqb_neq a b : a <> b -> keqb a b = false.
  Proof. intros N. destruct (keqb a b) eqn:E; [apply keqb_spec in E; contradiction|reflexivity]. Qed.
  Lemma veqb_refl a : veqb a a = true. Proof. now apply veqb_spec. Qed.
  Lemma veqb_neq a b : a <> b -> veqb a b = false.
  Proof. intros N. destruct (veqb a b) eqn:E; [apply veqb_spec in E; contradiction|reflexivity]. Qed.
  Lemma K_dec (a b : K) : {a = b} + {a <> b}.
  Proof. destruct (keqb a b) eqn:E; [left; now apply keqb_spec|right; intros H; apply keqb_spec in H; congruence]. Qed.
  Lemma V_dec (a b : V) : {a = b} + {a <> b}.
  Proof. destruct (veqb a b) eqn:E; [left; now apply veqb_spec|right; intros H; apply veqb_spec in H; congruence]. Qed.

  (* ---- list-sets ---- *)
  Lemma mem_in (l : list V) x : mem veqb l x = true <-> In x l.
  Proof.
    induction l as [|y r IH]; cbn; [split; [discriminate|tauto]|].
    rewrite orb_true_iff, IH, veqb_spec. split; intros [H|H]; auto.
  Qed.
  Lemma set_add_in (l : list V) v x : In x (set_add veqb l v) <-> x = v \/ In x l.
  Proof.
    unfold set_add. destruct (mem veqb l v) eqn:E.
    - apply mem_in in E. split; [tauto|]. intros [->|H]; assumption.
    - rewrite in_app_iff. cbn. split; [intros [H|[H|[]]]; auto|intros [H|H]; auto].
  Qed.
  Lemma set_add_nodup (l : list V) v : NoDup l -> NoDup (set_add veqb l v).
  Proof.
    intros H. unfold set_add. destruct (mem veqb l v) eqn:E; [exact H|].
    assert (N : ~ In v l) by (intros I; apply mem_in in I; congruence).
    clear E. induction l as [|y r IH]; cbn; [constructor; [intros []|constructor]|].
    inversion H as [|? ? Ny H']; subst. constructor.
    - rewrite in_app_iff. cbn. intros [I|[<-|[]]]; [contradiction|]. apply N. now left.
    - apply IH; [exact H'|]. intros I. apply N. now right.
  Qed.
  Lemma set_rm_in (l : list V) v x : NoDup l -> (In x (set_rm veqb l v) <-> In x l /\ x <> v).
  Proof.
    induction l as [|y r IH]; cbn; intros H; [tauto|]. inversion H as [|? ? Ny H']; subst.
    destruct (veqb v y) eqn:E.
    - apply veqb_spec in E. subst y. split.
      + intros I. split; [now right|]. intros ->. contradiction.
      + intros ([<-|I] & N); [congruence|exact I].
    - assert (Nvy : v <> y) by (intros ->; rewrite veqb_refl in E; discriminate).
      cbn. rewrite (IH H'). split.
      + intros [<-|(I & N)]; [split; [now left|congruence]|split; [now right|exact N]].
      + intros ([<-|I] & N); [now left|right; now split].
  Qed.
  Lemma set_rm_nodup (l : list V) v : NoDup l -> NoDup (set_rm veqb l v).
  Proof.
    induction l as [|y r IH]; cbn; intros H; [constructor|]. inversion H as [|? ? Ny H']; subst.
    destruct (veqb v y); [exact H'|]. constructor; [|now apply IH].
    intros I. apply (set_rm_in r v y H') in I. tauto.
  Qed.
  Lemma set_union_in (m l : list V) x : In x (set_union veqb l m) <-> In x l \/ In x m.
  Proof.
    unfold set_union. revert l. induction m as [|v m IH]; intros l; cbn; [tauto|].
    rewrite IH, set_add_in. split; [intros [[->|H]|H]; auto|intros [H|[<-|H]]; auto].
  Qed.
  Lemma set_union_nodup (m l : list V) : NoDup l -> NoDup (set_union veqb l m).
  Proof.
    unfold set_union. revert l. induction m as [|v m IH]; intros l H; cbn; [exact H|]. apply IH. now apply set_add_nodup.
  Qed.
  Lemma set_diff_in (l m : list V) x : In x (set_diff veqb l m) <-> In x l /\ ~ In x m.
  Proof.
    unfold set_diff. rewrite filter_In, negb_true_iff. split.
    - intros (H1 & H2). split; [exact H1|]. intros I. apply mem_in in I. rewrite I in H2. discriminate.
    - intros (H1 & H2). split; [exact H1|]. destruct (mem veqb m x) eqn:E; [apply mem_in in E; contradiction|reflexivity].
  Qed.
  Lemma set_diff_nodup (l m : list V) : NoDup l -> NoDup (set_diff veqb l m).
  Proof. intros H. unfold set_diff. now apply NoDup_filter. Qed.
  Lemma dedup_in (l : list V) x : In x (dedup veqb l) <-> In x l.
  Proof.
    induction l as [|y r IH]; cbn; [tauto|]. destruct (mem veqb r y) eqn:E.
    - apply mem_in in E. rewrite IH. split; [auto|]. intros [<-|H]; auto.
    - cbn. rewrite IH. tauto.
  Qed.
  Lemma dedup_nodup (l : list V) : NoDup (dedup veqb l).
  Proof.
    induction l as [|y r IH]; cbn; [constructor|]. destruct (mem veqb r y) eqn:E; [exact IH|].
    constructor; [|exact IH]. intros I. apply (proj1 (dedup_in r y)) in I. apply (proj2 (mem_in r y)) in I. congruence.
  Qed.

  (* ---- association lists with unique keys ---- *)
  Notation get := (al_get keqb).
  Notation aset := (al_set keqb).
  Notation del := (al_del keqb).

  Lemma get_set_same (s : list (K * list V)) k v : get (aset s k v) k = Some v.
  Proof.
    induction s as [|[k0 v0] r IH]; cbn; [now rewrite keqb_refl|].
    destruct (keqb k k0) eqn:E; cbn; rewrite E; [reflexivity|exact IH].
  Qed.
  Lemma get_set_other (s : list (K * list V)) k v k' : k' <> k -> get (aset s k v) k' = get s k'.
  Proof.
    intros N. induction s as [|[k0 v0] r IH]; cbn; [now rewrite (keqb_neq k' k N)|].
    destruct (keqb k k0) eqn:E; cbn.
    - apply keqb_spec in E. subst k0. now rewrite (keqb_neq k' k N).
    - destruct (keqb k' k0); [reflexivity|exact IH].
  Qed.
  Lemma keys_set (s : list (K * list V)) k v : In k (map fst s) -> map fst (aset s k v) = map fst s.
  Proof.
    induction s as [|[k0 v0] r IH]; cbn; [intros []|]. destruct (keqb k k0) eqn:E; cbn; [reflexivity|].
    intros [->|H]; [rewrite keqb_refl in E; discriminate|]. now rewrite IH.
  Qed.
  Lemma keys_set_new (s : list (K * list V)) k v : ~ In k (map fst s) -> map fst (aset s k v) = map fst s ++ [k].
  Proof.
    induction s as [|[k0 v0] r IH]; cbn; [reflexivity|]. intros N. destruct (keqb k k0) eqn:E; cbn.
    - apply keqb_spec in E. subst k0. exfalso. apply N. now left.
    - rewrite IH; [reflexivity|]. intros I. apply N. now right.
  Qed.
  Lemma get_some_in (s : list (K * list V)) k v : get s k = Some v -> In k (map fst s).
  Proof.
    induction s as [|[k0 v0] r IH]; cbn; [discriminate|]. destruct (keqb k k0) eqn:E.
    - apply keqb_spec in E. subst. now left.
    - intros H. right. now apply IH.
  Qed.
  Lemma get_none_notin (s : list (K * list V)) k : get s k = None -> ~ In k (map fst s).
  Proof.
    induction s as [|[k0 v0] r IH]; cbn; [tauto|]. destruct (keqb k k0) eqn:E; [discriminate|].
    intros H [->|I]; [rewrite keqb_refl in E; discriminate|now apply IH].
  Qed.
  Lemma nodup_keys_set (s : list (K * list V)) k v : NoDup (map fst s) -> NoDup (map fst (aset s k v)).
  Proof.
    intros H. destruct (get s k) as [l|] eqn:G.
    - rewrite keys_set; [exact H|]. eapply get_some_in; eauto.
    - pose proof (get_none_notin s k G) as N. rewrite (keys_set_new s k v N).
      clear G. induction (map fst s) as [|y r IH]; cbn; [constructor; [intros []|constructor]|].
      inversion H as [|? ? Ny H']; subst. constructor.
      + rewrite in_app_iff. cbn. intros [I|[<-|[]]]; [contradiction|]. apply N. now left.
      + apply IH; [exact H'|]. intros I. apply N. now right.
  Qed.
  Lemma get_del_same (s : list (K * list V)) k : NoDup (map fst s) -> get (del s k) k = None.
  Proof.
    induction s as [|[k0 v0] r IH]; cbn; intros H; [reflexivity|]. inversion H as [|? ? Ny H']; subst.
    destruct (keqb k k0) eqn:E.
    - apply keqb_spec in E. subst k0. destruct (get r k) as [l|] eqn:G; [|reflexivity].
      exfalso. apply Ny. eapply get_some_in; eauto.
    - cbn. rewrite E. now apply IH.
  Qed.
  Lemma get_del_other (s : list (K * list V)) k k' : k' <> k -> get (del s k) k' = get s k'.
  Proof.
    intros N. induction s as [|[k0 v0] r IH]; cbn; [reflexivity|]. destruct (keqb k k0) eqn:E.
    - apply keqb_spec in E. subst k0. now rewrite (keqb_neq k' k N).
    - cbn. destruct (keqb k' k0); [reflexivity|exact IH].
  Qed.
  Lemma keys_del_incl (s : list (K * list V)) k x : In x (map fst (del s k)) -> In x (map fst s).
  Proof.
    induction s as [|[k0 v0] r IH]; cbn; [tauto|]. destruct (keqb k k0); cbn; [now right|].
    intros [H|H]; [now left|right; now apply IH].
  Qed.
  Lemma nodup_keys_del (s : list (K * list V)) k : NoDup (map fst s) -> NoDup (map fst (del s k)).
  Proof.
    induction s as [|[k0 v0] r IH]; cbn; intros H; [constructor|]. inversion H as [|? ? Ny H']; subst.
    destruct (keqb k k0); [exact H'|]. cbn. constructor; [|now apply IH].
    intros I. apply Ny. eapply keys_del_incl; eauto.
  Qed.

  (* ---- keyed storages ---- *)
  Notation kget := (ks_get keqb).
  Definition KWF (s : list (K * list V)) : Prop := NoDup (map fst s) /\ forall k, NoDup (kget s k).

  Lemma KWF_nil : KWF []. Proof. split; [constructor|intros k; constructor]. Qed.

  Lemma kget_set (s : list (K * list V)) k l k' : kget (aset s k l) k' = if K_dec k' k then l else kget s k'.
  Proof.
    unfold ks_get. destruct (K_dec k' k) as [->|N]; [now rewrite get_set_same|now rewrite get_set_other].
  Qed.
  Lemma kget_del (s : list (K * list V)) k k' : NoDup (map fst s) ->
    kget (del s k) k' = if K_dec k' k then [] else kget s k'.
  Proof.
    intros H. unfold ks_get. destruct (K_dec k' k) as [->|N]; [now rewrite get_del_same|now rewrite get_del_other].
  Qed.
  Lemma KWF_set (s : list (K * list V)) k l : KWF s -> NoDup l -> KWF (aset s k l).
  Proof.
    intros (H1 & H2) Hl. split; [now apply nodup_keys_set|]. intros k'. rewrite kget_set.
    destruct (K_dec k' k); [exact Hl|apply H2].
  Qed.
  Lemma KWF_del (s : list (K * list V)) k : KWF s -> KWF (del s k).
  Proof.
    intros (H1 & H2). split; [now apply nodup_keys_del|]. intros k'. rewrite (kget_del s k k' H1).
    destruct (K_dec k' k); [constructor|apply H2].
  Qed.
  Lemma kget_some (s : list (K * list V)) k l : get s k = Some l -> kget s k = l.
  Proof. intros H. unfold ks_get. now rewrite H. Qed.
  Lemma kget_none (s : list (K * list V)) k : get s k = None -> kget s k = [].
  Proof. intros H. unfold ks_get. now rewrite H. Qed.

  Lemma ks_add_entry_in (s : list (K * list V)) k v k' x :
    In x (kget (ks_add_entry keqb veqb s k v) k') <-> (k' = k /\ x = v) \/ In x (kget s k').
  Proof.
    unfold ks_add_entry. destruct (get s k) as [l|] eqn:G; rewrite kget_set; destruct (K_dec k' k) as [->|N].
    - rewrite set_add_in, (kget_some s k l G). tauto.
    - tauto.
    - rewrite (kget_none s k G). cbn. split; [intros [<-|[]]; auto|intros [(_ & ->)|[]]; now left].
    - tauto.
  Qed.
  Lemma ks_add_entry_wf (s : list (K * list V)) k v : KWF s -> KWF (ks_add_entry keqb veqb s k v).
  Proof.
    intros W. unfold ks_add_entry. destruct (get s k) as [l|] eqn:G.
    - apply KWF_set; [exact W|]. apply set_add_nodup. rewrite <- (kget_some s k l G). apply W.
    - apply KWF_set; [exact W|]. constructor; [intros []|constructor].
  Qed.
  Lemma ks_rm_entry_in (s : list (K * list V)) k v k' x : KWF s ->
    (In x (kget (ks_rm_entry keqb veqb s k v) k') <-> In x (kget s k') /\ ~ (k' = k /\ x = v)).
  Proof.
    intros (W1 & W2). unfold ks_rm_entry. destruct (get s k) as [l|] eqn:G.
    - pose proof (W2 k) as Nl. rewrite (kget_some s k l G) in Nl.
      destruct (set_rm veqb l v) as [|y r] eqn:E.
      + rewrite (kget_del s k k' W1). destruct (K_dec k' k) as [->|N]; [|tauto].
        rewrite (kget_some s k l G). split; [intros []|]. intros (I & Hn).
        assert (I' : In x (set_rm veqb l v)) by (apply set_rm_in; [exact Nl|]; split; [exact I|]; intros ->; tauto).
        rewrite E in I'. destruct I'.
      + rewrite kget_set. destruct (K_dec k' k) as [->|N]; [|tauto].
        rewrite <- E, (set_rm_in l v x Nl), (kget_some s k l G). tauto.
    - destruct (K_dec k' k) as [->|N]; [|tauto]. rewrite (kget_none s k G). cbn. tauto.
  Qed.
  Lemma ks_rm_entry_wf (s : list (K * list V)) k v : KWF s -> KWF (ks_rm_entry keqb veqb s k v).
  Proof.
    intros W. unfold ks_rm_entry. destruct (get s k) as [l|] eqn:G; [|exact W].
    destruct (set_rm veqb l v) as [|y r] eqn:E; [now apply KWF_del|].
    apply KWF_set; [exact W|]. rewrite <- E. apply set_rm_nodup. rewrite <- (kget_some s k l G). apply W.
  Qed.
  Lemma ks_add_set_in (s : list (K * list V)) k vs k' x :
    In x (kget (ks_add_set keqb veqb s k vs) k') <-> (k' = k /\ In x vs) \/ In x (kget s k').
  Proof.
    unfold ks_add_set. destruct (get s k) as [l|] eqn:G; rewrite kget_set; destruct (K_dec k' k) as [->|N].
    - rewrite set_union_in, (kget_some s k l G). tauto.
    - tauto.
    - rewrite dedup_in, (kget_none s k G). cbn. tauto.
    - tauto.
  Qed.
  Lemma ks_add_set_wf (s : list (K * list V)) k vs : KWF s -> KWF (ks_add_set keqb veqb s k vs).
  Proof.
    intros W. unfold ks_add_set. destruct (get s k) as [l|] eqn:G.
    - apply KWF_set; [exact W|]. apply set_union_nodup. rewrite <- (kget_some s k l G). apply W.
    - apply KWF_set; [exact W|apply dedup_nodup].
  Qed.
  Lemma ks_rm_set_in (s : list (K * list V)) k vs k' x : KWF s ->
    (In x (kget (ks_rm_set keqb veqb s k vs) k') <-> In x (kget s k') /\ ~ (k' = k /\ In x vs)).
  Proof.
    intros (W1 & W2). unfold ks_rm_set. destruct (get s k) as [l|] eqn:G.
    - destruct (set_diff veqb l vs) as [|y r] eqn:E.
      + rewrite (kget_del s k k' W1). destruct (K_dec k' k) as [->|N]; [|tauto].
        rewrite (kget_some s k l G). split; [intros []|]. intros (I & Hn).
        assert (I' : In x (set_diff veqb l vs)) by (apply set_diff_in; split; [exact I|tauto]).
        rewrite E in I'. destruct I'.
      + rewrite kget_set. destruct (K_dec k' k) as [->|N]; [|tauto].
        rewrite <- E, set_diff_in, (kget_some s k l G). tauto.
    - destruct (K_dec k' k) as [->|N]; [|tauto]. rewrite (kget_none s k G). cbn. tauto.
  Qed.
  Lemma ks_rm_set_wf (s : list (K * list V)) k vs : KWF s -> KWF (ks_rm_set keqb veqb s k vs).
  Proof.
    intros W. unfold ks_rm_set. destruct (get s k) as [l|] eqn:G; [|exact W].
    destruct (set_diff veqb l vs) as [|y r] eqn:E; [now apply KWF_del|].
    apply KWF_set; [exact W|]. rewrite <- E. apply set_diff_nodup. rewrite <- (kget_some s k l G). apply W.
  Qed.
End KsTheory.

(* ------------------------------------------------------------------ *)
(* the projection register                                              *)

Lemma proj_eqb_spec a b : proj_eqb a b = true <-> a = b.
Proof.
  unfold proj_eqb. destruct a as [i e s], b as [i' e' s']. cbn.
  rewrite !andb_true_iff, !Nat.eqb_eq, Z.eqb_eq. split; [intros ((-> & ->) & ->); reflexivity|intros [= -> -> ->]; auto].
Qed.
Lemma onat_eqb_spec a b : onat_eqb a b = true <-> a = b.
Proof.
  destruct a as [x|], b as [y|]; cbn; try (split; [discriminate|discriminate]); [|tauto].
  rewrite Nat.eqb_eq. split; [intros ->; reflexivity|intros [= ->]; reflexivity].
Qed.

Notation ptg c p := (ks_get proj_eqb (c_ptgts c) p).
Notation tgp c t := (ks_get onat_eqb (c_tgtp c) t).

(* both indexes are well-formed and describe the same relation *)
Definition PINV (c : calc) : Prop :=
  KWF proj_eqb (c_ptgts c) /\ KWF onat_eqb (c_tgtp c) /\
  forall p t, In t (ptg c p) <-> In p (tgp c t).

Lemma tgtp_add_fold p : forall (tgts : list (option nat)) (c : calc),
  KWF onat_eqb (c_tgtp c) ->
  let c' := fold_left (fun c t => c_set_tgtp c (ks_add_entry onat_eqb proj_eqb (c_tgtp c) t p)) tgts c in
  KWF onat_eqb (c_tgtp c') /\ c_ptgts c' = c_ptgts c /\
  forall t q, In q (tgp c' t) <-> (q = p /\ In t tgts) \/ In q (tgp c t).
Proof.
  induction tgts as [|t0 r IH]; intros c W; cbn [fold_left].
  - cbv zeta. split; [exact W|split; [reflexivity|]]. intros t q. cbn. tauto.
  - cbv zeta. set (c1 := c_set_tgtp c (ks_add_entry onat_eqb proj_eqb (c_tgtp c) t0 p)).
    assert (W1 : KWF onat_eqb (c_tgtp c1)) by (apply (ks_add_entry_wf onat_eqb proj_eqb onat_eqb_spec proj_eqb_spec); exact W).
    destruct (IH c1 W1) as (W' & E' & H'). split; [exact W'|split; [exact E'|]].
    intros t q. rewrite H'. unfold c1. cbn [c_tgtp c_set_tgtp].
    rewrite (ks_add_entry_in onat_eqb proj_eqb onat_eqb_spec proj_eqb_spec). cbn [In].
    split; [intros [(-> & I)|[(-> & ->)|I]]; auto|intros [(-> & [->|I])|I]; auto].
Qed.

Lemma tgtp_rm_fold p : forall (tgts : list (option nat)) (c : calc),
  KWF onat_eqb (c_tgtp c) ->
  let c' := fold_left (fun c t => c_set_tgtp c (ks_rm_entry onat_eqb proj_eqb (c_tgtp c) t p)) tgts c in
  KWF onat_eqb (c_tgtp c') /\ c_ptgts c' = c_ptgts c /\
  forall t q, In q (tgp c' t) <-> In q (tgp c t) /\ ~ (q = p /\ In t tgts).
Proof.
  induction tgts as [|t0 r IH]; intros c W; cbn [fold_left].
  - cbv zeta. split; [exact W|split; [reflexivity|]]. intros t q. cbn. tauto.
  - cbv zeta. set (c1 := c_set_tgtp c (ks_rm_entry onat_eqb proj_eqb (c_tgtp c) t0 p)).
    assert (W1 : KWF onat_eqb (c_tgtp c1)) by (apply (ks_rm_entry_wf onat_eqb proj_eqb onat_eqb_spec proj_eqb_spec); exact W).
    destruct (IH c1 W1) as (W' & E' & H'). split; [exact W'|split; [exact E'|]].
    intros t q. rewrite H'. unfold c1. cbn [c_tgtp c_set_tgtp].
    rewrite (ks_rm_entry_in onat_eqb proj_eqb onat_eqb_spec proj_eqb_spec _ _ _ _ _ W). cbn [In].
    split.
    + intros ((I & N1) & N2). split; [exact I|]. intros (-> & [->|I']); [apply N1; auto|apply N2; auto].
    + intros (I & N). split; [split; [exact I|]|].
      * intros (-> & ->). apply N. split; [reflexivity|now left].
      * intros (-> & H). apply N. split; [reflexivity|now right].
Qed.

(* ProjectionRegister.apply_projector: the targets of p grow by tgts, nothing else changes *)
Theorem apply_projector_spec c p tgts :
  PINV c ->
  PINV (apply_projector c p tgts) /\
  (forall q t, In t (ptg (apply_projector c p tgts) q) <-> (q = p /\ In t tgts) \/ In t (ptg c q)).
Proof.
  intros (W1 & W2 & H). unfold apply_projector.
  set (c1 := c_set_ptgts c (ks_add_set proj_eqb onat_eqb (c_ptgts c) p tgts)).
  assert (W21 : KWF onat_eqb (c_tgtp c1)) by exact W2.
  destruct (tgtp_add_fold p tgts c1 W21) as (W' & E' & H').
  assert (P : forall q t, In t (ptg (fold_left (fun c0 t0 => c_set_tgtp c0 (ks_add_entry onat_eqb proj_eqb (c_tgtp c0) t0 p)) tgts c1) q)
                          <-> (q = p /\ In t tgts) \/ In t (ptg c q)).
  { intros q t. rewrite E'. unfold c1. cbn [c_ptgts c_set_ptgts].
    apply (ks_add_set_in proj_eqb onat_eqb proj_eqb_spec onat_eqb_spec). }
  split; [|exact P]. split; [|split; [exact W'|]].
  - rewrite E'. unfold c1. cbn [c_ptgts c_set_ptgts].
    apply (ks_add_set_wf proj_eqb onat_eqb proj_eqb_spec onat_eqb_spec). exact W1.
  - intros q t. rewrite P, H'. unfold c1 at 1. cbn [c_tgtp c_set_ptgts]. rewrite (H q t). tauto.
Qed.

(* ProjectionRegister.unapply_projector: the targets of p shrink by tgts, nothing else changes *)
Theorem unapply_projector_spec c p tgts aliased :
  PINV c ->
  PINV (unapply_projector c p tgts aliased) /\
  (forall q t, In t (ptg (unapply_projector c p tgts aliased) q) <-> In t (ptg c q) /\ ~ (q = p /\ In t tgts)).
Proof.
  intros (W1 & W2 & H). unfold unapply_projector.
  set (c1 := c_set_ptgts c (ks_rm_set proj_eqb onat_eqb (c_ptgts c) p tgts)).
  assert (W21 : KWF onat_eqb (c_tgtp c1)) by exact W2.
  destruct (tgtp_rm_fold p tgts c1 W21) as (W' & E' & H').
  assert (P : forall q t, In t (ptg (fold_left (fun c0 t0 => c_set_tgtp c0 (ks_rm_entry onat_eqb proj_eqb (c_tgtp c0) t0 p)) tgts c1) q)
                          <-> In t (ptg c q) /\ ~ (q = p /\ In t tgts)).
  { intros q t. rewrite E'. unfold c1. cbn [c_ptgts c_set_ptgts].
    exact (ks_rm_set_in proj_eqb onat_eqb proj_eqb_spec onat_eqb_spec _ _ _ _ _ W1). }
  split; [|exact P]. split; [|split; [exact W'|]].
  - rewrite E'. unfold c1. cbn [c_ptgts c_set_ptgts].
    apply (ks_rm_set_wf proj_eqb onat_eqb proj_eqb_spec). exact W1.
  - intros q t. rewrite P, H'. unfold c1 at 1. cbn [c_tgtp c_set_ptgts]. rewrite (H q t). tauto.
Qed.

(* after any sequence of apply / unapply calls the two indexes agree *)
Inductive pcall := PApply (p : proj) (tgts : list (option nat)) | PUnapply (p : proj) (tgts : list (option nat)) (aliased : bool).
Definition pstep (c : calc) (o : pcall) : calc :=
  match o with PApply p t => apply_projector c p t | PUnapply p t a => unapply_projector c p t a end.
Theorem projection_register_consistent c ops : PINV c -> PINV (fold_left pstep ops c).
Proof.
  revert c. induction ops as [|o r IH]; intros c H; cbn [fold_left]; [exact H|]. apply IH.
  destruct o; cbn [pstep]; [now apply apply_projector_spec|now apply unapply_projector_spec].
Qed.

(* re-targeting: unapply from the old target, apply to the new one -- the projector's targets are exactly the
   new target when they were exactly the old one *)
Theorem retarget_register c p old new a :
  PINV c -> (forall t, In t (ptg c p) <-> t = old) ->
  let c' := apply_projector (unapply_projector c p [old] a) p [new] in
  PINV c' /\ (forall t, In t (ptg c' p) <-> t = new) /\
  (forall q, q <> p -> forall t, In t (ptg c' q) <-> In t (ptg c q)).
Proof.
  intros H Hold. cbv zeta.
  destruct (unapply_projector_spec c p [old] a H) as (H1 & P1).
  destruct (apply_projector_spec _ p [new] H1) as (H2 & P2).
  split; [exact H2|split].
  - intros t. rewrite P2, P1, Hold. cbn [In]. split.
    + intros [(_ & [<-|[]])|(-> & N)]; [reflexivity|]. exfalso. apply N. split; [reflexivity|now left].
    + intros ->. left. split; [reflexivity|now left].
  - intros q Nq t. rewrite P2, P1. split.
    + intros [(E & _)|(I & _)]; [contradiction|exact I].
    + intros I. right. split; [exact I|]. intros (E & _). contradiction.
Qed.

Lemma PINV_empty : PINV empty_calc.
Proof. split; [apply KWF_nil|split; [apply KWF_nil|]]. intros p t. cbn. tauto. Qed.

(* from the empty register, after any sequence of calls *)
Corollary projection_register_consistent_from_empty ops : PINV (fold_left pstep ops empty_calc).
Proof. apply projection_register_consistent. exact PINV_empty. Qed.
