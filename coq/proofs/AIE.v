(* Generic cache-coherence theorem for attribute-style incremental evaluation
   (DESIGN 5.3): nodes with direct dependencies, values defined by local
   functions, a cache that is valid w.r.t. the specification of the old
   configuration. After a change of configuration, every surviving entry whose
   local definition is unchanged (O1) stays valid, provided the surviving part
   of the cache is closed under dependencies (O2: invalidation is transitive). *)
From Coq Require Import List Arith Lia Wf_nat.
Import ListNotations.

Section AIE.
  Variables (N V C : Type).
  Variable deps : C -> N -> list N.
  Variable f : C -> N -> (N -> V) -> V.
  Hypothesis f_local :
    forall c n e e', (forall m, In m (deps c n) -> e m = e' m) -> f c n e = f c n e'.

  Definition is_spec (c : C) (s : N -> V) : Prop := forall n, s n = f c n s.
  Definition ranked (c : C) (rank : N -> nat) : Prop := forall n m, In m (deps c n) -> rank m < rank n.
  Definition valid (s : N -> V) (cache : N -> option V) : Prop := forall n v, cache n = Some v -> v = s n.
  Definition closed (c : C) (cache : N -> option V) : Prop :=
    forall n v, cache n = Some v -> forall m, In m (deps c n) -> cache m <> None.

  (* acyclic dependencies determine the values *)
  Theorem spec_unique c rank s s' :
    ranked c rank -> is_spec c s -> is_spec c s' -> forall n, s n = s' n.
  Proof.
    intros R S S' n. induction n as [n IH] using (induction_ltof1 _ rank).
    rewrite (S n), (S' n). apply f_local. intros m Hm. apply IH. unfold ltof. now apply R.
  Qed.

  Theorem step_preserves c c' rank' s s' cache cache' :
    ranked c' rank' -> is_spec c s -> is_spec c' s' -> valid s cache ->
    (forall n v, cache' n = Some v -> cache n = Some v) ->
    (forall n, cache' n <> None -> deps c n = deps c' n /\ forall e, f c n e = f c' n e) ->
    closed c' cache' ->
    valid s' cache'.
  Proof.
    intros R S S' Hv Hsub O1 O2 n.
    induction n as [n IH] using (induction_ltof1 _ rank'). intros v Hc.
    assert (Hn : cache' n <> None) by congruence.
    destruct (O1 n Hn) as [Hd Hf].
    rewrite (Hv n v (Hsub n v Hc)). rewrite (S n), (S' n), Hf.
    apply f_local. intros m Hm.
    destruct (cache' m) as [vm|] eqn:Em; [|exfalso; exact (O2 n v Hc m Hm Em)].
    rewrite <- (Hv m vm (Hsub m vm Em)). apply (IH m); [unfold ltof; now apply R|exact Em].
  Qed.

  (* filling the cache with a freshly computed specification value keeps it valid *)
  Theorem fill_preserves s cache n (eqb : N -> N -> bool) :
    (forall a b, eqb a b = true <-> a = b) ->
    valid s cache -> valid s (fun m => if eqb m n then Some (s n) else cache m).
  Proof.
    intros E Hv m v. destruct (eqb m n) eqn:B.
    - apply E in B. subst. now intros [= <-].
    - apply Hv.
  Qed.

  (* dropping entries keeps validity *)
  Theorem drop_preserves s cache cache' :
    valid s cache -> (forall n v, cache' n = Some v -> cache n = Some v) -> valid s cache'.
  Proof. intros Hv Hs n v H. apply Hv, Hs, H. Qed.
End AIE.
