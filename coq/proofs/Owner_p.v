(* Ownership frame: composing messages, loading and unloading never change
   which fit container (slot / set / rack) an item believes it is in; only
   add_item / remove_item change it, and only for the item concerned. *)
From Coq Require Import ZArith QArith List Bool Lia.
From EosV Require Import lib.AList gen.T_eos model.World model.Status model.Calc model.Engine model.Ops
     proofs.AList_p proofs.Frame_p.
Import ListNotations.

(* the fit-level container an item refers to (charge / autocharge links excluded) *)
Definition fitcont_of (it : item) : option place :=
  match i_cont it with
  | Some (PSlot f k) => Some (PSlot f k)
  | Some (PSet f k) => Some (PSet f k)
  | Some (PRack f k) => Some (PRack f k)
  | _ => None
  end.
Definition fitcont (w : world) (j : nat) : option place :=
  match get_item w j with Some it => fitcont_of it | None => None end.

(* every existing item id is below the fresh-id counter *)
Definition ids_ok (w : world) : Prop := forall j it, get_item w j = Some it -> (j < w_next w)%nat.

Lemma get_put_item_other w i it j : j <> i -> get_item (put_item w i it) j = get_item w j.
Proof. intros N. unfold get_item, put_item. simpl. unfold neqb. now apply al_get_set_other; auto. Qed.
Lemma get_put_item_same' w i it : get_item (put_item w i it) i = Some it.
Proof. unfold get_item, put_item. simpl. unfold neqb. apply al_get_set_same. Qed.
Lemma get_fail w e j : get_item (fail w e) j = get_item w j.
Proof. unfold fail. destruct (w_err w); reflexivity. Qed.
Lemma next_put_item w i it : w_next (put_item w i it) = w_next w.
Proof. reflexivity. Qed.
Lemma next_fail w e : w_next (fail w e) = w_next w.
Proof. unfold fail. destruct (w_err w); reflexivity. Qed.


(* what the ownership argument needs to know about an item *)
Definition view (it : item) := (i_cls it, i_cont it, i_autos it, i_charge it).
Definition vw (w : world) (j : nat) := option_map view (get_item w j).

(* charge and autocharge items never sit in a fit container, only autocharge
   items are listed as somebody's autocharges, only charge items as a charge *)
Definition childcls (c : icls) : Prop := c = CAutocharge \/ c = CCharge.
Definition J (w : world) : Prop :=
  ids_ok w /\
  (forall j it, get_item w j = Some it -> childcls (i_cls it) -> fitcont_of it = None) /\
  (forall i it e a, get_item w i = Some it -> In (e, a) (i_autos it) -> cls_of w a = Some CAutocharge) /\
  (forall i it o, get_item w i = Some it -> i_charge it = Some o -> cls_of w o = Some CCharge).

Lemma fitcont_fail w e j : fitcont (fail w e) j = fitcont w j.
Proof. unfold fitcont. now rewrite get_fail. Qed.

Lemma fitcont_of_cont a b : i_cont a = i_cont b -> fitcont_of a = fitcont_of b.
Proof. unfold fitcont_of. now intros ->. Qed.

Definition FC (w w' : world) : Prop := (forall j, vw w' j = vw w j) /\ w_next w' = w_next w.

Lemma FC_refl w : FC w w. Proof. split; auto. Qed.
Lemma FC_trans a b c : FC a b -> FC b c -> FC a c.
Proof. intros (H1 & N1) (H2 & N2). split; [intros j; now rewrite H2, H1|congruence]. Qed.
Lemma vw_fail w e j : vw (fail w e) j = vw w j.
Proof. unfold vw. now rewrite get_fail. Qed.
Lemma FC_fail w e : FC w (fail w e).
Proof. split; intros; [apply vw_fail|apply next_fail]. Qed.
Lemma FC_put w i it it' : get_item w i = Some it -> view it' = view it -> FC w (put_item w i it').
Proof.
  intros Hi Hv. split; [|reflexivity]. intros j. unfold vw. destruct (Nat.eq_dec j i) as [->|N].
  - rewrite get_put_item_same', Hi. simpl. now rewrite Hv.
  - now rewrite get_put_item_other.
Qed.
Lemma FC_upd w i g : (forall it, view (g it) = view it) -> FC w (upd_item w i g).
Proof.
  intros H. unfold upd_item. destruct (get_item w i) as [it|] eqn:E; [eapply FC_put; eauto|apply FC_fail].
Qed.

Lemma vw_some w w' j it :
  vw w' j = vw w j -> get_item w' j = Some it -> exists it0, get_item w j = Some it0 /\ view it0 = view it.
Proof.
  unfold vw. intros H G. rewrite G in H. destruct (get_item w j) as [it0|]; simpl in H; [|discriminate].
  exists it0. split; [reflexivity|congruence].
Qed.
Lemma vw_some' w w' j it :
  vw w' j = vw w j -> get_item w j = Some it -> exists it1, get_item w' j = Some it1 /\ view it1 = view it.
Proof.
  unfold vw. intros H G. rewrite G in H. destruct (get_item w' j) as [it1|]; simpl in H; [|discriminate].
  exists it1. split; [reflexivity|congruence].
Qed.

Lemma FC_fitcont w w' j : FC w w' -> fitcont w' j = fitcont w j.
Proof.
  intros (H & _). unfold fitcont. destruct (get_item w' j) as [it|] eqn:E.
  - destruct (vw_some _ _ _ _ (H j) E) as (it0 & -> & V). apply fitcont_of_cont. unfold view in V. congruence.
  - specialize (H j). unfold vw in H. rewrite E in H. destruct (get_item w j); [discriminate|reflexivity].
Qed.

Lemma FC_cls w w' j : FC w w' -> cls_of w' j = cls_of w j.
Proof.
  intros (H & _). unfold cls_of. destruct (get_item w' j) as [it|] eqn:E.
  - destruct (vw_some _ _ _ _ (H j) E) as (it0 & -> & V). unfold view in V. congruence.
  - specialize (H j). unfold vw in H. rewrite E in H. destruct (get_item w j); [discriminate|reflexivity].
Qed.

Lemma FC_J w w' : FC w w' -> J w -> J w'.
Proof.
  intros F (I & J3 & J4 & J5). pose proof F as (H & N). split; [|split; [|split]].
  - intros j it G. destruct (vw_some _ _ _ _ (H j) G) as (it0 & G0 & _). rewrite N. eapply I; eauto.
  - intros j it G C. destruct (vw_some _ _ _ _ (H j) G) as (it0 & G0 & V). unfold view in V.
    rewrite <- (fitcont_of_cont it0 it) by congruence. eapply J3; eauto.
    replace (i_cls it0) with (i_cls it) by congruence. exact C.
  - intros i it e a G Hin. destruct (vw_some _ _ _ _ (H i) G) as (it0 & G0 & V). unfold view in V.
    rewrite (FC_cls _ _ a F). eapply J4; eauto. replace (i_autos it0) with (i_autos it) by congruence. exact Hin.
  - intros i it o G Hc. destruct (vw_some _ _ _ _ (H i) G) as (it0 & G0 & V). unfold view in V.
    rewrite (FC_cls _ _ o F). eapply J5; eauto. congruence.
Qed.

Lemma view_set_running it r : view (it_set_running it r) = view it. Proof. reflexivity. Qed.

Lemma FC_effects_update w i : FC w (fst (effects_update w i)).
Proof.
  unfold effects_update.
  destruct (get_item w i) as [it|] eqn:Hi; [|apply FC_fail].
  destruct (item_state w i) as [st|]; [|apply FC_fail].
  destruct (resolve_effects _ _ _ _ _) as [statuses|]; [|apply FC_fail].
  match goal with |- context[let (_, _) := ?X in _] => set (X0 := X) end.
  assert (HX : FC w (fst X0) /\ (fst X0 = w \/ exists it1, get_item (fst X0) i = Some it1 /\ view it1 = view it)).
  { subst X0. destruct (set_diff zeqb _ (i_running it)); [split; [apply FC_refl|now left]|].
    set (it1 := it_set_running it _).
    assert (F1 : FC w (put_item w i it1)) by (eapply FC_put; eauto).
    destruct (effects_tgts _ _ _); simpl fst.
    - split; [exact F1|right; exists it1; split; [apply get_put_item_same'|reflexivity]].
    - split; [eapply FC_trans; [exact F1|apply FC_fail]|].
      right. exists it1. split; [rewrite get_fail; apply get_put_item_same'|reflexivity]. }
  destruct X0 as [w0 m1]. simpl in HX. destruct HX as [HF Hget].
  destruct (set_diff zeqb (i_running it) _); [exact HF|].
  destruct (get_item w0 i) as [it2|] eqn:H2; [|simpl fst; eapply FC_trans; [exact HF|apply FC_fail]].
  assert (Hc2 : view it2 = view it).
  { destruct Hget as [->|(it1 & G & C)]; [congruence|]. rewrite G in H2. congruence. }
  destruct (effects_tgts _ _ _); simpl fst.
  - eapply FC_trans; [exact HF|]. eapply FC_put; eauto.
  - eapply FC_trans; [exact HF|apply FC_fail].
Qed.

Lemma FC_item_added_msgs w i : FC w (fst (item_added_msgs w i)).
Proof. unfold item_added_msgs. destruct (item_state w i); simpl; [apply FC_refl|apply FC_fail]. Qed.
Lemma FC_item_removed_msgs w i : FC w (fst (item_removed_msgs w i)).
Proof. unfold item_removed_msgs. destruct (item_state w i); simpl; [apply FC_refl|apply FC_fail]. Qed.
Lemma FC_item_loaded_msgs w i : FC w (fst (item_loaded_msgs w i)).
Proof.
  unfold item_loaded_msgs. destruct (item_state w i); [|simpl; apply FC_fail].
  pose proof (FC_effects_update w i) as H. destruct (effects_update w i). exact H.
Qed.
Lemma FC_item_unloaded_msgs w i : FC w (fst (item_unloaded_msgs w i)).
Proof.
  unfold item_unloaded_msgs. destruct (get_item w i) as [it|] eqn:Hi; [|apply FC_fail].
  match goal with |- context[let (_, _) := ?X in _] => set (X0 := X) end.
  assert (HX : FC w (fst X0)).
  { subst X0. destruct (i_running it); [apply FC_refl|].
    destruct (effects_tgts _ _ _); simpl fst.
    - eapply FC_put; eauto.
    - apply FC_fail. }
  destruct X0 as [w0 m1]. simpl in HX.
  destruct (item_state w0 i); simpl fst; [exact HX|eapply FC_trans; [exact HX|apply FC_fail]].
Qed.
Lemma FC_state_update_msgs w i a b : FC w (fst (state_update_msgs w i a b)).
Proof.
  unfold state_update_msgs. destruct (is_loaded w i); [|apply FC_refl].
  pose proof (FC_effects_update w i) as H. destruct (effects_update w i). exact H.
Qed.

(* ------------------------------------------------------------------ *)
(* load / add_item / unload / remove_item                               *)

Definition racklike_of (p : place) : option place :=
  match p with
  | PSlot f k => Some (PSlot f k) | PSet f k => Some (PSet f k) | PRack f k => Some (PRack f k)
  | _ => None
  end.

(* [OW w w' i c]: item i's fit-level container reference became c, every other one is unchanged *)
Definition cls_kept (w w' : world) : Prop := forall j c, cls_of w j = Some c -> cls_of w' j = Some c.
Definition OW (w w' : world) (i : nat) (c : option place) : Prop :=
  (forall j, fitcont w' j = if Nat.eqb j i then c else fitcont w j) /\
  (w_next w <= w_next w')%nat /\ J w' /\ cls_kept w w'.
Definition KEEP (w w' : world) : Prop :=
  (forall j, fitcont w' j = fitcont w j) /\ (w_next w <= w_next w')%nat /\ J w' /\ cls_kept w w'.

Lemma KEEP_refl w : J w -> KEEP w w.
Proof. intros H. split; [reflexivity|split; [lia|split; [exact H|intros j c E; exact E]]]. Qed.
Lemma KEEP_trans a b c : KEEP a b -> KEEP b c -> KEEP a c.
Proof.
  intros (H1 & N1 & I1 & C1) (H2 & N2 & I2 & C2). split; [|split; [lia|split; [exact I2|]]].
  - intros j. now rewrite H2, H1.
  - intros j x E. apply C2, C1, E.
Qed.
Lemma KEEP_of_FC w w' : J w -> FC w w' -> KEEP w w'.
Proof.
  intros I F. pose proof (FC_J _ _ F I) as I'. split; [|split; [|split; [exact I'|]]].
  - intros j. now apply FC_fitcont.
  - destruct F as (_ & ->). lia.
  - intros j c E. now rewrite (FC_cls _ _ j F).
Qed.

Lemma KEEP_fold_in {A} (f : st -> A -> st) (P : world -> A -> Prop) l :
  (forall w w' x, KEEP w w' -> P w x -> P w' x) ->
  (forall s x, J (fst s) -> P (fst s) x -> KEEP (fst s) (fst (f s x))) ->
  forall s, J (fst s) -> (forall x, In x l -> P (fst s) x) -> KEEP (fst s) (fst (fold_left f l s)).
Proof.
  intros St H. induction l as [|x r IH]; intros s I HP; simpl; [now apply KEEP_refl|].
  pose proof (H s x I (HP x (or_introl eq_refl))) as K. eapply KEEP_trans; [exact K|].
  apply IH; [apply K|]. intros y Hy. eapply St; [exact K|]. apply HP. now right.
Qed.
Lemma KEEP_fold {A} (f : st -> A -> st) l :
  (forall s x, J (fst s) -> KEEP (fst s) (fst (f s x))) ->
  forall s, J (fst s) -> KEEP (fst s) (fst (fold_left f l s)).
Proof.
  intros H s I. apply (KEEP_fold_in f (fun _ _ => True)); auto.
Qed.

Lemma KEEP_with_msgs (s : st) f g :
  J (fst s) -> (forall w, FC w (fst (g w))) -> KEEP (fst s) (fst (with_msgs s f g)).
Proof.
  intros I H. unfold with_msgs. specialize (H (fst s)). destruct (g (fst s)) as [w m]. simpl in *.
  now apply KEEP_of_FC.
Qed.
Lemma KEEP_lift_FC (s : st) g : J (fst s) -> (forall w, FC w (g w)) -> KEEP (fst s) (fst (lift s g)).
Proof. intros I H. unfold lift. simpl. now apply KEEP_of_FC. Qed.

Lemma get_upd_item w i g j :
  get_item (upd_item w i g) j =
  match get_item w i with
  | Some it => if Nat.eqb j i then Some (g it) else get_item w j
  | None => get_item w j
  end.
Proof.
  unfold upd_item. destruct (get_item w i) as [it|] eqn:E; [|apply get_fail].
  destruct (Nat.eqb j i) eqn:B.
  - apply Nat.eqb_eq in B. subst. apply get_put_item_same'.
  - apply Nat.eqb_neq in B. now apply get_put_item_other.
Qed.

Lemma cls_of_put_keepcls w i it it' a :
  get_item w i = Some it -> i_cls it' = i_cls it -> cls_of (put_item w i it') a = cls_of w a.
Proof.
  intros Hi Hc. unfold cls_of. destruct (Nat.eq_dec a i) as [->|N].
  - rewrite get_put_item_same', Hi. now rewrite Hc.
  - now rewrite get_put_item_other.
Qed.

(* replacing an existing item by one of the same class *)
Lemma J_put_keepcls w i it it' :
  J w -> get_item w i = Some it -> i_cls it' = i_cls it ->
  (childcls (i_cls it') -> fitcont_of it' = None) ->
  (forall e a, In (e, a) (i_autos it') -> cls_of w a = Some CAutocharge) ->
  (forall o, i_charge it' = Some o -> cls_of w o = Some CCharge) ->
  J (put_item w i it').
Proof.
  intros (I & J3 & J4 & J5) Hi Hc H3 H4 H5. split; [|split; [|split]].
  - intros j x G. simpl. destruct (Nat.eq_dec j i) as [->|N]; [eapply I; eauto|].
    rewrite get_put_item_other in G by exact N. eapply I; eauto.
  - intros j x G C. destruct (Nat.eq_dec j i) as [->|N].
    + rewrite get_put_item_same' in G. injection G as <-. now apply H3.
    + rewrite get_put_item_other in G by exact N. eapply J3; eauto.
  - intros j x e a G Hin. rewrite (cls_of_put_keepcls w i it it' a Hi Hc).
    destruct (Nat.eq_dec j i) as [->|N].
    + rewrite get_put_item_same' in G. injection G as <-. eapply H4; eauto.
    + rewrite get_put_item_other in G by exact N. eapply J4; eauto.
  - intros j x o G Ho. rewrite (cls_of_put_keepcls w i it it' o Hi Hc).
    destruct (Nat.eq_dec j i) as [->|N].
    + rewrite get_put_item_same' in G. injection G as <-. eapply H5; eauto.
    + rewrite get_put_item_other in G by exact N. eapply J5; eauto.
Qed.

Lemma fitcont_put w i it' j :
  fitcont (put_item w i it') j = if Nat.eqb j i then fitcont_of it' else fitcont w j.
Proof.
  unfold fitcont. destruct (Nat.eqb j i) eqn:E.
  - apply Nat.eqb_eq in E. subst. now rewrite get_put_item_same'.
  - apply Nat.eqb_neq in E. now rewrite get_put_item_other.
Qed.

Lemma cls_kept_put w i it it' : get_item w i = Some it -> i_cls it' = i_cls it -> cls_kept w (put_item w i it').
Proof. intros Hi Hc j c E. now rewrite (cls_of_put_keepcls w i it it' j Hi Hc). Qed.

(* an update that keeps class and container reference and lists only autocharge / charge items *)
Lemma KEEP_put w i it it' :
  J w -> get_item w i = Some it -> i_cls it' = i_cls it -> i_cont it' = i_cont it ->
  (forall e a, In (e, a) (i_autos it') -> cls_of w a = Some CAutocharge) ->
  (forall o, i_charge it' = Some o -> cls_of w o = Some CCharge) ->
  KEEP w (put_item w i it').
Proof.
  intros Jw Hi Hc Hk H4 H5. split; [|split; [simpl; lia|split; [|eapply cls_kept_put; eauto]]].
  - intros j. rewrite fitcont_put. destruct (Nat.eqb j i) eqn:E; [|reflexivity].
    apply Nat.eqb_eq in E. subst. unfold fitcont. rewrite Hi. now apply fitcont_of_cont.
  - eapply J_put_keepcls; eauto. intros C. rewrite (fitcont_of_cont it' it Hk).
    destruct Jw as (_ & J3 & _). eapply J3; eauto. now rewrite <- Hc.
Qed.

Lemma al_set_in_val {V} (l : list (Z * V)) k v k' v' :
  In (k', v') (al_set zeqb l k v) -> v' = v \/ In (k', v') l.
Proof.
  induction l as [|[k0 v0] r IH]; simpl.
  - intros [E|[]]. left. congruence.
  - destruct (zeqb k k0); simpl.
    + intros [E|H]; [left; congruence|right; now right].
    + intros [E|H]; [right; now left|]. destruct (IH H) as [->|H']; [now left|right; now right].
Qed.

Lemma J_auto_fitcont w i it e a :
  J w -> get_item w i = Some it -> In (e, a) (i_autos it) -> fitcont w a = None.
Proof.
  intros (_ & J3 & J4 & _) Hi Hin. specialize (J4 _ _ _ _ Hi Hin). unfold cls_of in J4. unfold fitcont.
  destruct (get_item w a) as [ita|] eqn:E; [|reflexivity]. eapply J3; eauto. left. congruence.
Qed.
Lemma J_cls_fitcont w j : J w -> (cls_of w j = Some CAutocharge \/ cls_of w j = Some CCharge) -> fitcont w j = None.
Proof.
  intros (_ & J3 & _) H. unfold cls_of in H. unfold fitcont.
  destruct (get_item w j) as [it|] eqn:E; [|reflexivity]. eapply J3; eauto.
  destruct H as [H|H]; [left|right]; congruence.
Qed.
Lemma J_charge_fitcont w i it o :
  J w -> get_item w i = Some it -> i_charge it = Some o -> fitcont w o = None.
Proof.
  intros Jw Hi Ho. apply J_cls_fitcont; [exact Jw|right]. destruct Jw as (_ & _ & _ & J5). eapply J5; eauto.
Qed.

(* creating an autocharge item under a fresh id and linking it to its parent *)
Lemma KEEP_new_autocharge w i e tid :
  J w ->
  let a := w_next w in
  let w' := upd_item (put_item (set_next w (S a)) a (new_item CAutocharge tid State_offline 0)) i
                     (fun it => it_set_autos it (al_set zeqb (i_autos it) e a)) in
  KEEP w w' /\ fitcont w' a = None.
Proof.
  intros Jw a w'. pose proof Jw as (I & J3 & J4 & J5).
  assert (Fresh : get_item w a = None).
  { destruct (get_item w a) as [it|] eqn:E; [|reflexivity]. apply I in E. unfold a in E. lia. }
  set (nit := new_item CAutocharge tid State_offline 0).
  set (w1 := put_item (set_next w (S a)) a nit).
  assert (G1 : forall j, j <> a -> get_item w1 j = get_item w j).
  { intros j N. unfold w1. rewrite get_put_item_other by exact N. reflexivity. }
  assert (Ga : get_item w1 a = Some nit) by apply get_put_item_same'.
  assert (C1 : cls_kept w w1).
  { intros j c C. unfold cls_of in *. destruct (Nat.eq_dec j a) as [->|N]; [now rewrite Fresh in C|now rewrite G1]. }
  assert (J1 : J w1).
  { split; [|split; [|split]].
    - intros j it H. unfold w1 at 1. simpl. destruct (Nat.eq_dec j a) as [->|N]; [lia|].
      rewrite G1 in H by exact N. apply I in H. unfold a. lia.
    - intros j it H C. destruct (Nat.eq_dec j a) as [->|N].
      + rewrite Ga in H. injection H as <-. reflexivity.
      + rewrite G1 in H by exact N. eapply J3; eauto.
    - intros j it e0 a0 H Hin. destruct (Nat.eq_dec j a) as [->|N].
      + rewrite Ga in H. injection H as <-. destruct Hin.
      + rewrite G1 in H by exact N. apply C1. eapply J4; eauto.
    - intros j it o H Ho. destruct (Nat.eq_dec j a) as [->|N].
      + rewrite Ga in H. injection H as <-. discriminate.
      + rewrite G1 in H by exact N. apply C1. eapply J5; eauto. }
  assert (F1 : forall j, fitcont w1 j = fitcont w j).
  { intros j. unfold fitcont. destruct (Nat.eq_dec j a) as [->|N]; [now rewrite Ga, Fresh|now rewrite G1]. }
  assert (N1 : (w_next w <= w_next w1)%nat) by (unfold w1; simpl; unfold a; lia).
  assert (Ca : cls_of w1 a = Some CAutocharge) by (unfold cls_of; now rewrite Ga).
  assert (K2 : KEEP w1 w').
  { unfold w', upd_item. fold nit. fold w1. destruct (get_item w1 i) as [it|] eqn:Ei.
    - eapply KEEP_put; eauto.
      + intros e0 a0 Hin. simpl in Hin.
        apply al_set_in_val in Hin. destruct Hin as [->|Hin]; [exact Ca|].
        destruct J1 as (_ & _ & J4' & _). eapply J4'; eauto.
      + intros o Ho. simpl in Ho. destruct J1 as (_ & _ & _ & J5'). eapply J5'; eauto.
    - apply KEEP_of_FC; [exact J1|apply FC_fail]. }
  split.
  - destruct K2 as (H2 & N2 & J2 & C2). split; [|split; [lia|split; [exact J2|]]].
    + intros j. now rewrite H2, F1.
    + intros j c E. apply C2, C1, E.
  - destruct K2 as (H2 & _). rewrite H2, F1. unfold fitcont. now rewrite Fresh.
Qed.

Lemma fitcont_of_set_cont it p : fitcont_of (it_set_cont it (Some p)) = racklike_of p.
Proof. destruct p; reflexivity. Qed.

(* setting the container reference of an existing item *)
Lemma OW_set_cont w i p it :
  J w -> get_item w i = Some it -> (racklike_of p <> None -> ~ childcls (i_cls it)) ->
  OW w (upd_item w i (fun it => it_set_cont it (Some p))) i (racklike_of p).
Proof.
  intros Jw Hi Hcls. unfold upd_item. rewrite Hi.
  split; [|split; [simpl; lia|split; [|eapply cls_kept_put; eauto]]].
  - intros j. rewrite fitcont_put. now rewrite fitcont_of_set_cont.
  - eapply J_put_keepcls; eauto.
    + intros C. rewrite fitcont_of_set_cont. destruct (racklike_of p) eqn:R; [|reflexivity].
      exfalso. apply Hcls; [discriminate|exact C].
    + intros e a Hin. destruct Jw as (_ & _ & J4 & _). eapply J4; eauto.
    + intros o Ho. destruct Jw as (_ & _ & _ & J5). eapply J5; eauto.
Qed.

Lemma OW_clear_cont w i :
  J w -> OW w (upd_item w i (fun it => it_set_cont it None)) i None.
Proof.
  intros Jw. unfold upd_item. destruct (get_item w i) as [it|] eqn:Hi.
  - split; [|split; [simpl; lia|split; [|eapply cls_kept_put; eauto]]].
    + intros j. rewrite fitcont_put. reflexivity.
    + eapply J_put_keepcls; eauto.
      * intros e a Hin. destruct Jw as (_ & _ & J4 & _). eapply J4; eauto.
      * intros o Ho. destruct Jw as (_ & _ & _ & J5). eapply J5; eauto.
  - pose proof (KEEP_of_FC _ _ Jw (FC_fail w EKeyAbsent)) as (Hf & N & J' & C').
    split; [|split; [exact N|split; [exact J'|exact C']]].
    intros j. rewrite Hf. destruct (Nat.eqb j i) eqn:E; [|reflexivity].
    apply Nat.eqb_eq in E. subst. unfold fitcont. now rewrite Hi.
Qed.

Lemma OW_then_KEEP w w1 w2 i c : OW w w1 i c -> KEEP w1 w2 -> OW w w2 i c.
Proof.
  intros (H1 & N1 & I1 & C1) (H2 & N2 & I2 & C2). split; [|split; [lia|split; [exact I2|]]].
  - intros j. now rewrite H2, H1.
  - intros j x E. apply C2, C1, E.
Qed.
Lemma KEEP_then_OW w w1 w2 i c : KEEP w w1 -> OW w1 w2 i c -> OW w w2 i c.
Proof.
  intros (H1 & N1 & I1 & C1) (H2 & N2 & I2 & C2). split; [|split; [lia|split; [exact I2|]]].
  - intros j. rewrite H2. now rewrite H1.
  - intros j x E. apply C2, C1, E.
Qed.
Lemma OW_same_KEEP w w' i c : OW w w' i c -> fitcont w i = c -> KEEP w w'.
Proof.
  intros (H & N & Jw & C) E. split; [|split; [exact N|split; [exact Jw|exact C]]].
  intros j. rewrite H. destruct (Nat.eqb j i) eqn:B; [|reflexivity]. apply Nat.eqb_eq in B. now subst.
Qed.

Section LoadAdd.
  Variable n : nat.
  Hypothesis IHl : forall s i, J (fst s) -> KEEP (fst s) (fst (load n s i)).

  Lemma KEEP_one f s sub :
    J (fst s) ->
    KEEP (fst s) (fst (load n (with_msgs s f (fun w => item_added_msgs w sub)) sub)).
  Proof.
    intros I. pose proof (KEEP_with_msgs s f (fun w => item_added_msgs w sub) I
                                         (fun w => FC_item_added_msgs w sub)) as K1.
    eapply KEEP_trans; [exact K1|]. apply IHl. apply K1.
  Qed.

  (* the part of add_item after the container reference was set *)
  Lemma KEEP_add_tail (s1 : st) i :
    J (fst s1) ->
    KEEP (fst s1)
         (fst match item_fit (fst s1) i with
              | None => s1
              | Some f =>
                let one := fun s sub => load n (with_msgs s f (fun w => item_added_msgs w sub)) sub in
                let s := one s1 i in
                match get_item (fst s) i with
                | Some it => fold_left one (child_items it true) s
                | None => lift s (fun w => fail w EKeyAbsent)
                end
              end).
  Proof.
    intros I. destruct (item_fit (fst s1) i) as [f|]; [|now apply KEEP_refl].
    cbv zeta. pose proof (KEEP_one f s1 i I) as K1.
    set (s2 := load n (with_msgs s1 f (fun w => item_added_msgs w i)) i) in *.
    assert (I2 : J (fst s2)) by apply K1.
    destruct (get_item (fst s2) i).
    - eapply KEEP_trans; [exact K1|]. apply KEEP_fold; [|exact I2].
      intros s x Is. now apply KEEP_one.
    - eapply KEEP_trans; [exact K1|]. apply KEEP_lift_FC; [exact I2|intros; apply FC_fail].
  Qed.
End LoadAdd.

Theorem load_keeps_ownership n :
  (forall s i, J (fst s) -> KEEP (fst s) (fst (load n s i))) /\
  (forall s a parent, J (fst s) -> fitcont (fst s) a = None ->
                      KEEP (fst s) (fst (add_item n s a (PAuto parent)))).
Proof.
  induction n as [|n [IHl IHb]]; split.
  - intros s i I. simpl. apply KEEP_of_FC; [exact I|apply FC_fail].
  - intros s a parent I Hn. simpl. apply KEEP_of_FC; [exact I|apply FC_fail].
  - intros s i I. cbn [load].
    destruct (get_item (fst s) i) as [it|] eqn:Hi;
      [|apply KEEP_lift_FC; [exact I|intros; apply FC_fail]].
    destruct (item_fit (fst s) i) as [f|]; [|now apply KEEP_refl].
    destruct (fit_source_id (fst s) f) as [src|]; [|now apply KEEP_refl].
    destruct (match get_src (fst s) src with Some u => get_type u (i_tid it) | None => None end) as [t|];
      [|now apply KEEP_refl].
    set (s1 := lift s _).
    assert (K1 : KEEP (fst s) (fst s1)).
    { subst s1. unfold lift. cbn [fst]. apply KEEP_of_FC; [exact I|]. eapply FC_put; [exact Hi|reflexivity]. }
    set (s2 := with_msgs s1 f _).
    assert (K2 : KEEP (fst s1) (fst s2)).
    { subst s2. apply KEEP_with_msgs; [apply K1|]. intros; apply FC_item_loaded_msgs. }
    assert (K12 : KEEP (fst s) (fst s2)) by (eapply KEEP_trans; eauto).
    assert (I2 : J (fst s2)) by apply K12.
    destruct (get_item (fst s2) i) as [it2|].
    + eapply KEEP_trans; [exact K12|]. apply KEEP_fold; [|exact I2].
      intros s0 ee I0.
      destruct (e_autocharge_attr (snd ee)); [|now apply KEEP_refl].
      destruct (al_get zeqb (t_attrs t) z); [|now apply KEEP_refl].
      destruct (KEEP_new_autocharge (fst s0) i (fst ee) (q_trunc q) I0) as (Kn & Fa).
      match goal with |- KEEP _ (fst (add_item n ?S ?A _)) => set (s' := S) end.
      assert (Es : fst s' = upd_item (put_item (set_next (fst s0) (S (w_next (fst s0)))) (w_next (fst s0))
                                               (new_item CAutocharge (q_trunc q) State_offline 0)) i
                                     (fun it => it_set_autos it (al_set zeqb (i_autos it) (fst ee) (w_next (fst s0)))))
        by reflexivity.
      eapply KEEP_trans; [rewrite <- Es in Kn; exact Kn|].
      apply IHb; [rewrite Es; apply Kn|].
      rewrite Es. exact Fa.
    + eapply KEEP_trans; [exact K12|]. apply KEEP_lift_FC; [exact I2|intros; apply FC_fail].
  - intros s a parent I Hn. cbn [add_item].
    set (s1 := lift s _).
    assert (K1 : KEEP (fst s) (fst s1)).
    { subst s1. unfold lift. cbn [fst]. unfold upd_item.
      destruct (get_item (fst s) a) as [it|] eqn:Ha; [|apply KEEP_of_FC; [exact I|apply FC_fail]].
      assert (O : OW (fst s) (upd_item (fst s) a (fun it => it_set_cont it (Some (PAuto parent)))) a
                     (racklike_of (PAuto parent))).
      { eapply OW_set_cont; eauto; simpl; congruence. }
      unfold upd_item in O. rewrite Ha in O. eapply OW_same_KEEP; [exact O|exact Hn]. }
    eapply KEEP_trans; [exact K1|]. apply KEEP_add_tail; [exact IHl|apply K1].
Qed.

Lemma load_KEEP n s i : J (fst s) -> KEEP (fst s) (fst (load n s i)).
Proof. apply load_keeps_ownership. Qed.

(* add_item with any fuel > 0: the item's reference is set, nothing else changes *)
Theorem add_item_ownership n s i p it :
  J (fst s) -> get_item (fst s) i = Some it -> (racklike_of p <> None -> ~ childcls (i_cls it)) ->
  OW (fst s) (fst (add_item (S n) s i p)) i (racklike_of p).
Proof.
  intros I Hi Hc. cbn [add_item].
  set (s1 := lift s _).
  assert (O1 : OW (fst s) (fst s1) i (racklike_of p)).
  { subst s1. unfold lift. cbn [fst]. eapply OW_set_cont; eauto. }
  eapply OW_then_KEEP; [exact O1|]. apply KEEP_add_tail; [intros; now apply load_KEEP|apply O1].
Qed.

(* ------------------------------------------------------------------ *)
(* unload / remove_item                                                 *)

Section UnloadRemove.
  Variable n : nat.
  Hypothesis IHu : forall s i, J (fst s) -> KEEP (fst s) (fst (unload n s i)).

  Lemma KEEP_unone fit s sub :
    J (fst s) ->
    KEEP (fst s) (fst (let s := unload n s sub in
                       match fit with
                       | Some f => with_msgs s f (fun w => item_removed_msgs w sub)
                       | None => s
                       end)).
  Proof.
    intros I. cbv zeta. pose proof (IHu s sub I) as K1. destruct fit as [f|]; [|exact K1].
    eapply KEEP_trans; [exact K1|]. apply KEEP_with_msgs; [apply K1|]. intros; apply FC_item_removed_msgs.
  Qed.

  Lemma remove_item_OW s i : J (fst s) -> OW (fst s) (fst (remove_item (S n) s i)) i None.
  Proof.
    intros I. cbn [remove_item].
    set (fit := item_fit (fst s) i).
    set (one := fun s sub => let s := unload n s sub in
                             match fit with
                             | Some f => with_msgs s f (fun w => item_removed_msgs w sub)
                             | None => s
                             end).
    assert (K1 : KEEP (fst s) (fst (one s i))) by (apply KEEP_unone; exact I).
    set (s1 := one s i) in *.
    assert (I1 : J (fst s1)) by apply K1.
    set (s2 := match get_item (fst s1) i with
               | Some it => fold_left one (child_items it true) s1
               | None => lift s1 (fun w => fail w EKeyAbsent)
               end).
    assert (K2 : KEEP (fst s1) (fst s2)).
    { subst s2. destruct (get_item (fst s1) i).
      - apply KEEP_fold; [|exact I1]. intros s0 x I0. now apply KEEP_unone.
      - apply KEEP_lift_FC; [exact I1|intros; apply FC_fail]. }
    change (OW (fst s) (fst (lift s2 (fun w => upd_item w i (fun it => it_set_cont it None)))) i None).
    eapply KEEP_then_OW; [eapply KEEP_trans; [exact K1|exact K2]|].
    unfold lift. cbn [fst]. apply OW_clear_cont. apply K2.
  Qed.
End UnloadRemove.

Theorem unload_keeps_ownership n :
  (forall s i, J (fst s) -> KEEP (fst s) (fst (unload n s i))) /\
  (forall s a, J (fst s) -> fitcont (fst s) a = None -> KEEP (fst s) (fst (remove_item n s a))).
Proof.
  induction n as [|n [IHu IHr]]; split.
  - intros s i I. simpl. apply KEEP_of_FC; [exact I|apply FC_fail].
  - intros s a I Hn. simpl. apply KEEP_of_FC; [exact I|apply FC_fail].
  - intros s i I. cbn [unload].
    destruct (get_item (fst s) i) as [it|] eqn:Hi;
      [|apply KEEP_lift_FC; [exact I|intros; apply FC_fail]].
    set (s1 := match item_fit (fst s) i, i_loaded it with
               | Some f, Some _ => with_msgs s f (fun w => item_unloaded_msgs w i)
               | _, _ => s
               end).
    assert (K1 : KEEP (fst s) (fst s1)).
    { subst s1. destruct (item_fit (fst s) i) as [f|]; [|now apply KEEP_refl].
      destruct (i_loaded it); [|now apply KEEP_refl].
      apply KEEP_with_msgs; [exact I|]. intros; apply FC_item_unloaded_msgs. }
    assert (I1 : J (fst s1)) by apply K1.
    cbv zeta. cbn [fst snd].
    set (s2 := (fst s1, snd s1 ++ [EvClear i])).
    change (fst s1) with (fst s2) in K1, I1.
    set (s3 := match get_item (fst s2) i with
               | Some it0 =>
                 lift (fold_left (fun s0 (ea : Z * nat) => remove_item n s0 (snd ea)) (i_autos it0) s2)
                      (fun w => upd_item w i (fun it1 => it_set_autos it1 []))
               | None => lift s2 (fun w => fail w EKeyAbsent)
               end).
    assert (K3 : KEEP (fst s2) (fst s3)).
    { subst s3. destruct (get_item (fst s2) i) as [it2|] eqn:H2.
      - match goal with |- KEEP _ (fst (lift ?X _)) => set (s4 := X) end.
        assert (K4 : KEEP (fst s2) (fst s4)).
        { subst s4. apply (KEEP_fold_in _ (fun w (ea : Z * nat) => fitcont w (snd ea) = None)).
          - intros w w' x (Hf & _) Hx. now rewrite Hf.
          - intros s0 x I0 Hx. now apply IHr.
          - exact I1.
          - intros [e a] Hin. simpl. eapply J_auto_fitcont; eauto. }
        eapply KEEP_trans; [exact K4|]. unfold lift. cbn [fst]. unfold upd_item.
        destruct (get_item (fst s4) i) as [it4|] eqn:H4; [|apply KEEP_of_FC; [apply K4|apply FC_fail]].
        eapply KEEP_put; eauto; [apply K4|intros e a []|].
        intros o Ho. simpl in Ho. destruct K4 as (_ & _ & (_ & _ & _ & J5) & _). eapply J5; eauto.
      - apply KEEP_lift_FC; [exact I1|intros; apply FC_fail]. }
    change (KEEP (fst s) (fst (lift s3 (fun w => upd_item w i (fun it0 => it_set_loaded it0 None))))).
    eapply KEEP_trans; [exact K1|]. eapply KEEP_trans; [exact K3|].
    apply KEEP_lift_FC; [apply K3|]. intros w. apply FC_upd. reflexivity.
  - intros s a I Hn. eapply OW_same_KEEP; [apply remove_item_OW; [exact IHu|exact I]|exact Hn].
Qed.

Lemma unload_KEEP n s i : J (fst s) -> KEEP (fst s) (fst (unload n s i)).
Proof. apply unload_keeps_ownership. Qed.

(* remove_item with any fuel > 0: the item's reference is cleared, nothing else changes *)
Theorem remove_item_ownership n s i :
  J (fst s) -> OW (fst s) (fst (remove_item (S n) s i)) i None.
Proof. intros I. apply remove_item_OW; [intros; now apply unload_KEEP|exact I]. Qed.
