(* C04 proofs: fit statistics (eos/stats/**, tanking, damage / repair effect
   statistics).

   A. the generated tables equal the specification's constants
   B. registers are exact: generic insert/discard register over an edit trace,
      the model's registers are such folds, faithfulness of the trace to the
      final world implies [regs_exact]
   C. every statistic read off exact registers equals the from-scratch one
   D. algebraic laws in exact arithmetic *)
From Coq Require Import ZArith QArith Qreduction List Bool Lia Lra Psatz Permutation Morphisms Setoid.
From EosV Require Import lib.AList gen.T_eos gen.T_stats model.World model.Status model.Calc
  model.Engine model.Ops model.Stats model.StatsSpec.
Import ListNotations.
Local Open Scope Z_scope.
Local Open Scope Q_scope.

(* ================================================================== *)
(* A. table obligations                                                *)

Lemma simple_regs_ok : SIMPLE_REGS = SPEC_SIMPLE_REGS.
Proof. vm_compute; reflexivity. Qed.
Lemma dd_desc_ok : DD_DESC = SPEC_DD_DESC.
Proof. vm_compute; reflexivity. Qed.
Lemma arep_desc_ok : AREP_DESC = SPEC_AREP_DESC.
Proof. vm_compute; reflexivity. Qed.
Lemma srep_desc_ok : SREP_DESC = SPEC_SREP_DESC.
Proof. vm_compute; reflexivity. Qed.
Lemma slot_attrs_ok :
  [SLOT_ATTR_high; SLOT_ATTR_mid; SLOT_ATTR_low; SLOT_ATTR_rig; SLOT_ATTR_subsystem; SLOT_ATTR_fighter]
  = SPEC_SLOT_ATTRS.
Proof. vm_compute; reflexivity. Qed.
Lemma effect_kind_ok : map (fun p => (fst p, class_kind (snd p))) EFFECT_CLASS = SPEC_EFFECT_KIND.
Proof. vm_compute; reflexivity. Qed.

(* ================================================================== *)
(* list-set lemmas                                                     *)

Lemma nodup_app {A} (a b : list A) :
  NoDup a -> NoDup b -> (forall x, In x a -> ~ In x b) -> NoDup (a ++ b).
Proof.
  induction a as [|x a IH]; intros Ha Hb Hd; simpl; [exact Hb|].
  inversion Ha as [|? ? Hx Ha']; subst. constructor.
  - rewrite in_app_iff. intros [H|H]; [exact (Hx H)|]. exact (Hd x (or_introl eq_refl) H).
  - apply IH; [exact Ha'|exact Hb|]. intros y Hy. apply Hd. right. exact Hy.
Qed.

Lemma nodup_filter {A} (p : A -> bool) (l : list A) : NoDup l -> NoDup (filter p l).
Proof.
  induction l as [|x l IH]; intros H; simpl; [constructor|].
  inversion H as [|? ? Hx Hl]; subst. destruct (p x).
  - constructor; [|exact (IH Hl)]. rewrite filter_In. intros [Hin _]. exact (Hx Hin).
  - exact (IH Hl).
Qed.

Lemma nodup_map_inj {A B} (g : A -> B) (l : list A) :
  (forall a b, g a = g b -> a = b) -> NoDup l -> NoDup (map g l).
Proof.
  intros Hg. induction l as [|x l IH]; intros H; simpl; [constructor|].
  inversion H as [|? ? Hx Hl]; subst. constructor; [|exact (IH Hl)].
  rewrite in_map_iff. intros [y [Hy Hin]]. apply Hg in Hy. subst y. exact (Hx Hin).
Qed.

Lemma nodup_flat_map {A B} (h : A -> list B) (key : B -> A) (l : list A) :
  NoDup l -> (forall i, NoDup (h i)) -> (forall i p, In p (h i) -> key p = i) ->
  NoDup (flat_map h l).
Proof.
  intros Hl Hh Hk. induction l as [|x l IH]; simpl; [constructor|].
  inversion Hl as [|? ? Hx Hl']; subst. apply nodup_app; [apply Hh|exact (IH Hl')|].
  intros p Hp Hq. apply in_flat_map in Hq. destruct Hq as [y [Hy Hpy]].
  apply Hk in Hp. apply Hk in Hpy. subst. exact (Hx Hy).
Qed.

Section SetLemmas.
  Context {X : Type} (eqb : X -> X -> bool).
  Hypothesis eqb_spec : forall a b, eqb a b = true <-> a = b.

  Lemma eqb_refl_x : forall a, eqb a a = true.
  Proof. intros a. apply eqb_spec. reflexivity. Qed.

  Lemma eqb_false_iff : forall a b, eqb a b = false <-> a <> b.
  Proof.
    intros a b. split.
    - intros H E. apply eqb_spec in E. rewrite E in H. discriminate.
    - intros H. destruct (eqb a b) eqn:E; [|reflexivity]. apply eqb_spec in E. contradiction.
  Qed.

  Lemma mem_In : forall l x, mem eqb l x = true <-> In x l.
  Proof.
    induction l as [|y l IH]; intros x; simpl.
    - split; [discriminate|tauto].
    - rewrite orb_true_iff, IH, eqb_spec. split; intros [H|H]; auto.
  Qed.

  Lemma mem_false_In : forall l x, mem eqb l x = false <-> ~ In x l.
  Proof.
    intros l x. rewrite <- mem_In. destruct (mem eqb l x); split; intros H; try discriminate; auto.
    exfalso. apply H. reflexivity.
  Qed.

  Lemma mem_app : forall l m x, mem eqb (l ++ m) x = mem eqb l x || mem eqb m x.
  Proof.
    induction l as [|y l IH]; intros m x; simpl; [reflexivity|]. rewrite IH, orb_assoc. reflexivity.
  Qed.

  Lemma mem_set_add : forall s y x, mem eqb (set_add eqb s y) x = eqb x y || mem eqb s x.
  Proof.
    intros s y x. unfold set_add. destruct (mem eqb s y) eqn:E.
    - destruct (eqb x y) eqn:Exy; [|reflexivity]. apply eqb_spec in Exy. subst. simpl. exact E.
    - rewrite mem_app. simpl. rewrite orb_false_r. apply orb_comm.
  Qed.

  Lemma mem_set_rm : forall s y x, NoDup s ->
    mem eqb (set_rm eqb s y) x = negb (eqb x y) && mem eqb s x.
  Proof.
    induction s as [|z s IH]; intros y x Hnd; simpl.
    - rewrite andb_false_r. reflexivity.
    - inversion Hnd as [|? ? Hz Hs]; subst. destruct (eqb y z) eqn:Eyz.
      + apply eqb_spec in Eyz. subst z. destruct (eqb x y) eqn:Exy; simpl; [|reflexivity].
        apply eqb_spec in Exy. subst x. apply mem_false_In. exact Hz.
      + simpl. rewrite (IH y x Hs). destruct (eqb x z) eqn:Exz; simpl; [|reflexivity].
        apply eqb_spec in Exz. subst z. destruct (eqb x y) eqn:Exy; [|reflexivity].
        apply eqb_spec in Exy. subst y. rewrite eqb_refl_x in Eyz. discriminate.
  Qed.

  Lemma In_set_rm : forall s y x, In x (set_rm eqb s y) -> In x s.
  Proof.
    induction s as [|z s IH]; intros y x; simpl; [tauto|].
    destruct (eqb y z); simpl; [tauto|]. intros [H|H]; [left; exact H|right; exact (IH _ _ H)].
  Qed.

  Lemma nodup_set_add : forall s y, NoDup s -> NoDup (set_add eqb s y).
  Proof.
    intros s y Hs. unfold set_add. destruct (mem eqb s y) eqn:E; [exact Hs|].
    apply nodup_app; [exact Hs|constructor; [simpl; tauto|constructor]|].
    intros x Hx [Hy|[]]. subst x. apply mem_false_In in E. exact (E Hx).
  Qed.

  Lemma nodup_set_rm : forall s y, NoDup s -> NoDup (set_rm eqb s y).
  Proof.
    induction s as [|z s IH]; intros y Hs; simpl; [constructor|].
    inversion Hs as [|? ? Hz Hs']; subst. destruct (eqb y z); [exact Hs'|].
    constructor; [|exact (IH y Hs')]. intros H. apply In_set_rm in H. exact (Hz H).
  Qed.

  Lemma In_dedup : forall l x, In x (dedup eqb l) <-> In x l.
  Proof.
    induction l as [|y l IH]; intros x; simpl; [tauto|].
    destruct (mem eqb l y) eqn:E.
    - rewrite IH. split; [tauto|]. intros [H|H]; [|exact H]. subst y. apply mem_In. exact E.
    - simpl. rewrite IH. tauto.
  Qed.

  Lemma NoDup_dedup : forall l, NoDup (dedup eqb l).
  Proof.
    induction l as [|y l IH]; simpl; [constructor|].
    destruct (mem eqb l y) eqn:E; [exact IH|]. constructor; [|exact IH].
    rewrite In_dedup. apply mem_false_In. exact E.
  Qed.
End SetLemmas.

(* ================================================================== *)
(* B. generic insert/discard register                                  *)

Section Register.
  Variable X : Type.
  Variable eqb : X -> X -> bool.
  Hypothesis eqb_spec : forall a b, eqb a b = true <-> a = b.

  Inductive edit := EOn (x : X) | EOff (x : X).

  Definition apply_edit (s : list X) (e : edit) : list X :=
    match e with EOn x => set_add eqb s x | EOff x => set_rm eqb s x end.
  Definition run (s : list X) (t : list edit) : list X := fold_left apply_edit t s.

  (* [strict]: discarding an absent member raises (set.remove); the flag
     records it and the set is left alone *)
  Definition apply_gen (strict : bool) (acc : list X * bool) (e : edit) : list X * bool :=
    let (s, err) := acc in
    match e with
    | EOn x => (set_add eqb s x, err)
    | EOff x => if strict && negb (mem eqb s x) then (s, true) else (set_rm eqb s x, err)
    end.
  Definition run_gen (strict : bool) (acc : list X * bool) (t : list edit) : list X * bool :=
    fold_left (apply_gen strict) t acc.
  Definition run_strict (s : list X) (t : list edit) : list X * bool := run_gen true (s, false) t.

  (* the last edit mentioning x is an EOn; [b] when there is none *)
  Fixpoint active_from (b : bool) (t : list edit) (x : X) : bool :=
    match t with
    | [] => b
    | EOn y :: r => active_from (if eqb x y then true else b) r x
    | EOff y :: r => active_from (if eqb x y then false else b) r x
    end.
  Definition active (t : list edit) (x : X) : bool := active_from false t x.

  Definition alternating (t : list edit) : Prop :=
    forall t1 e t2, t = t1 ++ e :: t2 ->
      (forall x, e = EOn x -> active t1 x = false) /\ (forall x, e = EOff x -> active t1 x = true).

  Lemma run_app : forall t1 t2 s, run s (t1 ++ t2) = run (run s t1) t2.
  Proof. intros. unfold run. apply fold_left_app. Qed.

  Lemma run_gen_app : forall st t1 t2 acc, run_gen st acc (t1 ++ t2) = run_gen st (run_gen st acc t1) t2.
  Proof. intros. unfold run_gen. apply fold_left_app. Qed.

  Lemma active_from_app : forall t1 t2 b x,
    active_from b (t1 ++ t2) x = active_from (active_from b t1 x) t2 x.
  Proof.
    induction t1 as [|e t1 IH]; intros t2 b x; simpl; [reflexivity|].
    destruct e; apply IH.
  Qed.

  Lemma run_exact_from : forall t s, NoDup s ->
    NoDup (run s t) /\ forall x, In x (run s t) <-> active_from (mem eqb s x) t x = true.
  Proof.
    induction t as [|e t IH]; intros s Hs; simpl.
    - split; [exact Hs|]. intros x. symmetry. apply (mem_In eqb eqb_spec).
    - destruct e as [y|y]; simpl.
      + destruct (IH (set_add eqb s y) (nodup_set_add eqb eqb_spec s y Hs)) as [Hn Hi].
        split; [exact Hn|]. intros x. rewrite Hi, (mem_set_add eqb eqb_spec).
        destruct (eqb x y); simpl; tauto.
      + destruct (IH (set_rm eqb s y) (nodup_set_rm eqb s y Hs)) as [Hn Hi].
        split; [exact Hn|]. intros x. rewrite Hi, (mem_set_rm eqb eqb_spec s y x Hs).
        destruct (eqb x y); simpl; tauto.
  Qed.

  Theorem register_exact_generic : forall t,
    NoDup (run [] t) /\ forall x, In x (run [] t) <-> active t x = true.
  Proof. intros t. exact (run_exact_from t [] (NoDup_nil X)). Qed.

  (* the error flag only accumulates; the set does not depend on it *)
  Lemma run_gen_err_split : forall st t s err,
    run_gen st (s, err) t = (fst (run_gen st (s, false) t), err || snd (run_gen st (s, false) t)).
  Proof.
    induction t as [|e t IH]; intros s err; simpl.
    - rewrite orb_false_r. reflexivity.
    - destruct e as [y|y]; simpl.
      + apply IH.
      + destruct (st && negb (mem eqb s y)).
        * rewrite (IH s true). rewrite orb_true_r. reflexivity.
        * apply IH.
  Qed.

  Lemma run_gen_lax : forall t s err, run_gen false (s, err) t = (run s t, err).
  Proof.
    induction t as [|e t IH]; intros s err; simpl; [reflexivity|].
    destruct e; simpl; apply IH.
  Qed.

  Lemma alternating_prefix : forall t e, alternating (t ++ [e]) -> alternating t.
  Proof.
    intros t e H t1 e' t2 E. apply (H t1 e' (t2 ++ [e])). rewrite E, <- app_assoc. reflexivity.
  Qed.

  Theorem register_strict_generic : forall t, alternating t -> run_strict [] t = (run [] t, false).
  Proof.
    induction t as [|e t IH] using rev_ind; intros Halt; [reflexivity|].
    unfold run_strict in *. rewrite run_gen_app, run_app, (IH (alternating_prefix _ _ Halt)).
    destruct e as [y|y]; simpl; [reflexivity|].
    destruct (Halt t (EOff y) [] eq_refl) as [_ Hoff].
    specialize (Hoff y eq_refl). apply (proj2 (register_exact_generic t)) in Hoff.
    apply (mem_In eqb eqb_spec) in Hoff. rewrite Hoff. reflexivity.
  Qed.
End Register.

Arguments EOn {X} x.
Arguments EOff {X} x.
Arguments run {X} eqb s t.
Arguments run_gen {X} eqb strict acc t.
Arguments run_strict {X} eqb s t.
Arguments active {X} eqb t x.
Arguments active_from {X} eqb b t x.
Arguments alternating {X} eqb t.
Arguments apply_edit {X} eqb s e.
Arguments apply_gen {X} eqb strict acc e.

(* ------------------------------------------------------------------ *)
(* the model's registers are such folds                                 *)

Lemma neqb_spec : forall a b, neqb a b = true <-> a = b.
Proof. intros a b. unfold neqb. apply Nat.eqb_eq. Qed.
Lemma zeqb_spec : forall a b, zeqb a b = true <-> a = b.
Proof. intros a b. unfold zeqb. apply Z.eqb_eq. Qed.
Lemma pair_eqb_spec : forall a b, pair_eqb a b = true <-> a = b.
Proof.
  intros [a1 a2] [b1 b2]. unfold pair_eqb. simpl. rewrite andb_true_iff, Nat.eqb_eq, Z.eqb_eq.
  split; [intros [H1 H2]; subst; reflexivity | intros H; inversion H; auto].
Qed.

Lemma set_rm_absent {X} (eqb : X -> X -> bool) : forall s x, mem eqb s x = false -> set_rm eqb s x = s.
Proof.
  induction s as [|y s IH]; intros x H; simpl in *; [reflexivity|].
  apply orb_false_iff in H. destruct H as [H1 H2]. rewrite H1, (IH x H2). reflexivity.
Qed.

Lemma run_gen_fst {X} (eqb : X -> X -> bool) : forall st t s err,
  fst (run_gen eqb st (s, err) t) = run eqb s t.
Proof.
  induction t as [|e t IH]; intros s err; simpl; [reflexivity|].
  destruct e as [y|y]; simpl; [apply IH|].
  destruct (mem eqb s y) eqn:E; simpl.
  - rewrite andb_false_r. apply IH.
  - rewrite (set_rm_absent eqb s y E). destruct st; simpl; apply IH.
Qed.

Lemma al_get_set_neqb {V} : forall (l : list (nat * V)) k v k0,
  al_get neqb (al_set neqb l k v) k0 = if neqb k0 k then Some v else al_get neqb l k0.
Proof.
  induction l as [|[k' v'] l IH]; intros k v k0; simpl.
  - destruct (neqb k0 k); reflexivity.
  - destruct (neqb k k') eqn:E; simpl.
    + apply neqb_spec in E. subst k'. destruct (neqb k0 k); reflexivity.
    + rewrite IH. destruct (neqb k0 k') eqn:E1; [|reflexivity].
      destruct (neqb k0 k) eqn:E2; [|reflexivity].
      apply neqb_spec in E1. apply neqb_spec in E2. subst. rewrite (proj2 (neqb_spec _ _) eq_refl) in E.
      discriminate.
Qed.

Lemma fold_left_map_l {A B C} (f : A -> C -> A) (h : B -> C) : forall l a,
  fold_left f (map h l) a = fold_left (fun a x => f a (h x)) l a.
Proof. induction l as [|x l IH]; intros a; simpl; [reflexivity|apply IH]. Qed.

(* the publications fit f's StatService receives, each with the world it saw *)
Definition fit_msgs (f : nat) (tr : list event) : list (world * msg) :=
  flat_map (fun ev => match ev with
                      | EvPublish w f' msgs => if neqb f f' then map (fun m => (w, m)) msgs else []
                      | EvClear _ => []
                      end) tr.

Definition fold_msgs (l : list (world * msg)) (g : fregs) : fregs :=
  fold_left (fun g wm => reg_msg (fst wm) (snd wm) g) l g.

Lemma regs_get_set : forall (rg : regs) k v f,
  regs_get (al_set neqb rg k v) f = if neqb f k then v else regs_get rg f.
Proof. intros. unfold regs_get. rewrite al_get_set_neqb. destruct (neqb f k); reflexivity. Qed.

Lemma regs_fold_fit : forall tr rg f,
  regs_get (regs_apply_events rg tr) f = fold_msgs (fit_msgs f tr) (regs_get rg f).
Proof.
  induction tr as [|ev tr IH]; intros rg f; [reflexivity|].
  unfold regs_apply_events in *. simpl fold_left. rewrite IH.
  destruct ev as [w f' msgs|i]; [|reflexivity].
  cbn [regs_apply_event fit_msgs flat_map]. rewrite regs_get_set.
  destruct (neqb f f') eqn:E; [|reflexivity].
  apply neqb_spec in E. subst f'. unfold fold_msgs. rewrite fold_left_app, fold_left_map_l. reflexivity.
Qed.

(* item-set registers *)
Definition simple_msg_edits (w : world) (d : regdesc) (m : msg) : list (edit nat) :=
  match msg_kind m, msg_item m with
  | Some k, Some i =>
    match get_item w i with
    | None => []
    | Some it =>
      if mkind_eqb k (rd_on d) then
        if forallb (cond_holds w it m) (rd_on_conds d) then [EOn i] else []
      else if mkind_eqb k (rd_off d) then
        if forallb (cond_holds w it m) (rd_off_conds d) then [EOff i] else []
      else []
    end
  | _, _ => []
  end.
Definition sedits (d : regdesc) (l : list (world * msg)) : list (edit nat) :=
  flat_map (fun wm => simple_msg_edits (fst wm) d (snd wm)) l.
Definition simple_edits (d : regdesc) (f : nat) (tr : list event) : list (edit nat) :=
  sedits d (fit_msgs f tr).

Lemma simple_step_run : forall w d m s, simple_step w d m s = run neqb s (simple_msg_edits w d m).
Proof.
  intros w d m s. unfold simple_step, simple_msg_edits.
  destruct (msg_kind m) as [k|]; [|reflexivity]. destruct (msg_item m) as [i|]; [|reflexivity].
  destruct (get_item w i) as [it|]; [|reflexivity].
  destruct (mkind_eqb k (rd_on d)).
  - destruct (forallb (cond_holds w it m) (rd_on_conds d)); reflexivity.
  - destruct (mkind_eqb k (rd_off d)); [|reflexivity].
    destruct (forallb (cond_holds w it m) (rd_off_conds d)); reflexivity.
Qed.

(* (item, effect) registers *)
Definition kind_in (d : pairdesc) (e : Z) : bool :=
  existsb (fun kd => match al_get zeqb EFFECT_CLASS e with
                     | Some c => ekind_eqb (class_kind c) kd
                     | None => false end) (pd_kinds d).
Definition pair_id_edits (w : world) (d : pairdesc) (it : item) (i : nat) (add : bool) (e : Z)
  : list (edit (nat * Z)) :=
  match item_effect w it e with
  | None => []
  | Some _ => if kind_in d e then [if add then EOn (i, e) else EOff (i, e)] else []
  end.
Definition pair_ids_edits (w : world) (d : pairdesc) (it : item) (i : nat) (add : bool) (ids : list Z) :=
  flat_map (pair_id_edits w d it i add) ids.
Definition pair_msg_edits (w : world) (d : pairdesc) (m : msg) : list (edit (nat * Z)) :=
  match msg_kind m, msg_item m with
  | Some k, Some i =>
    match get_item w i with
    | None => []
    | Some it =>
      if mkind_eqb k (pd_on d) then pair_ids_edits w d it i true (msg_ids m)
      else if mkind_eqb k (pd_off d) then pair_ids_edits w d it i false (msg_ids m)
      else []
    end
  | _, _ => []
  end.
Definition pedits (d : pairdesc) (l : list (world * msg)) : list (edit (nat * Z)) :=
  flat_map (fun wm => pair_msg_edits (fst wm) d (snd wm)) l.
Definition pair_edits (d : pairdesc) (f : nat) (tr : list event) : list (edit (nat * Z)) :=
  pedits d (fit_msgs f tr).

(* the effect ids of a started/stopped message are effects of the item's type
   in the world the message was published in: item_effects[effect_id] finds them *)
Definition ids_known (w : world) (it : item) (ids : list Z) : bool :=
  forallb (fun e => match item_effect w it e with Some _ => true | None => false end) ids.
Definition pair_msg_ok (w : world) (d : pairdesc) (m : msg) : bool :=
  match msg_kind m, msg_item m with
  | Some k, Some i =>
    match get_item w i with
    | None => true
    | Some it =>
      if mkind_eqb k (pd_on d) then ids_known w it (msg_ids m)
      else if mkind_eqb k (pd_off d) then ids_known w it (msg_ids m)
      else true
    end
  | _, _ => true
  end.
Definition msg_ok3 (wm : world * msg) : Prop :=
  pair_msg_ok (fst wm) DD_DESC (snd wm) = true /\
  pair_msg_ok (fst wm) AREP_DESC (snd wm) = true /\
  pair_msg_ok (fst wm) SREP_DESC (snd wm) = true.
Definition no_keyerr (f : nat) (tr : list event) : Prop := Forall msg_ok3 (fit_msgs f tr).

Definition pairs_body (w : world) (d : pairdesc) (it : item) (i : nat) (add : bool)
           (acc : list (nat * Z) * bool) (e : Z) : list (nat * Z) * bool :=
  let (s, err) := acc in
  match item_effect w it e with
  | None => (s, true)
  | Some _ =>
    if existsb (fun kd => match al_get zeqb EFFECT_CLASS e with
                          | Some c => ekind_eqb (class_kind c) kd
                          | None => false end) (pd_kinds d)
    then if add then (set_add pair_eqb s (i, e), err)
         else if pd_strict d && negb (mem pair_eqb s (i, e))
              then (s, true)
              else (set_rm pair_eqb s (i, e), err)
    else (s, err)
  end.

Lemma pairs_body_one : forall w d it i add s err e ef,
  item_effect w it e = Some ef ->
  pairs_body w d it i add (s, err) e
  = run_gen pair_eqb (pd_strict d) (s, err) (pair_id_edits w d it i add e).
Proof.
  intros w d it i add s err e ef H. unfold pairs_body, pair_id_edits, kind_in. rewrite H.
  destruct (existsb _ (pd_kinds d)); [|reflexivity]. destruct add; reflexivity.
Qed.

Lemma pairs_go_run : forall w d it i add ids acc,
  ids_known w it ids = true ->
  fold_left (pairs_body w d it i add) ids acc
  = run_gen pair_eqb (pd_strict d) acc (pair_ids_edits w d it i add ids).
Proof.
  induction ids as [|e ids IH]; intros acc H; [reflexivity|].
  unfold ids_known in H. simpl in H. apply andb_true_iff in H. destruct H as [He Hr].
  destruct (item_effect w it e) as [ef|] eqn:Ee; [|discriminate].
  destruct acc as [s err]. cbn [fold_left]. rewrite (pairs_body_one w d it i add s err e ef Ee).
  unfold pair_ids_edits. simpl flat_map. rewrite run_gen_app. apply IH. exact Hr.
Qed.

Lemma pairs_step_run : forall w d m s, pair_msg_ok w d m = true ->
  pairs_step w d m s = run_gen pair_eqb (pd_strict d) (s, false) (pair_msg_edits w d m).
Proof.
  intros w d m s H. unfold pairs_step, pair_msg_edits, pair_msg_ok in *.
  destruct (msg_kind m) as [k|]; [|reflexivity]. destruct (msg_item m) as [i|]; [|reflexivity].
  destruct (get_item w i) as [it|]; [|reflexivity].
  destruct (mkind_eqb k (pd_on d)).
  - exact (pairs_go_run w d it i true (msg_ids m) (s, false) H).
  - destruct (mkind_eqb k (pd_off d)); [|reflexivity].
    exact (pairs_go_run w d it i false (msg_ids m) (s, false) H).
Qed.

Lemma reg_msg_dd : forall w m g, g_dd (reg_msg w m g) = fst (pairs_step w DD_DESC m (g_dd g)).
Proof.
  intros. unfold reg_msg. destruct (pairs_step w DD_DESC m (g_dd g)), (pairs_step w AREP_DESC m (g_arep g)),
    (pairs_step w SREP_DESC m (g_srep g)). reflexivity.
Qed.
Lemma reg_msg_arep : forall w m g, g_arep (reg_msg w m g) = fst (pairs_step w AREP_DESC m (g_arep g)).
Proof.
  intros. unfold reg_msg. destruct (pairs_step w DD_DESC m (g_dd g)), (pairs_step w AREP_DESC m (g_arep g)),
    (pairs_step w SREP_DESC m (g_srep g)). reflexivity.
Qed.
Lemma reg_msg_srep : forall w m g, g_srep (reg_msg w m g) = fst (pairs_step w SREP_DESC m (g_srep g)).
Proof.
  intros. unfold reg_msg. destruct (pairs_step w DD_DESC m (g_dd g)), (pairs_step w AREP_DESC m (g_arep g)),
    (pairs_step w SREP_DESC m (g_srep g)). reflexivity.
Qed.
Lemma reg_msg_err : forall w m g,
  g_err (reg_msg w m g) = g_err g || snd (pairs_step w DD_DESC m (g_dd g))
                          || snd (pairs_step w AREP_DESC m (g_arep g))
                          || snd (pairs_step w SREP_DESC m (g_srep g)).
Proof.
  intros. unfold reg_msg. destruct (pairs_step w DD_DESC m (g_dd g)), (pairs_step w AREP_DESC m (g_arep g)),
    (pairs_step w SREP_DESC m (g_srep g)). reflexivity.
Qed.
Lemma reg_msg_get : forall w m g r,
  g_get (reg_msg w m g) r = match al_get regid_eqb SIMPLE_REGS r with
                            | Some d => simple_step w d m (g_get g r)
                            | None => []
                            end.
Proof.
  intros. unfold reg_msg. destruct (pairs_step w DD_DESC m (g_dd g)), (pairs_step w AREP_DESC m (g_arep g)),
    (pairs_step w SREP_DESC m (g_srep g)). unfold g_get at 1. cbn [g_simple]. destruct r; reflexivity.
Qed.

Lemma fold_msgs_simple : forall l g r d, al_get regid_eqb SIMPLE_REGS r = Some d ->
  g_get (fold_msgs l g) r = run neqb (g_get g r) (sedits d l).
Proof.
  induction l as [|[w m] l IH]; intros g r d H; [reflexivity|].
  unfold fold_msgs in *. simpl fold_left. rewrite (IH _ r d H), reg_msg_get, H, simple_step_run.
  unfold sedits. simpl flat_map. rewrite run_app. reflexivity.
Qed.

Lemma run_strict_err_app {X} (eqb : X -> X -> bool) : forall st a b s,
  snd (run_gen eqb st (s, false) (a ++ b))
  = snd (run_gen eqb st (s, false) a) || snd (run_gen eqb st (run eqb s a, false) b).
Proof.
  intros st a b s. rewrite run_gen_app.
  destruct (run_gen eqb st (s, false) a) as [s' e'] eqn:E.
  assert (Hs : s' = run eqb s a). { rewrite <- (run_gen_fst eqb st a s false), E. reflexivity. }
  subst s'. rewrite run_gen_err_split. reflexivity.
Qed.

Lemma fold_msgs_pairs : forall l g, Forall msg_ok3 l ->
  g_dd (fold_msgs l g) = run pair_eqb (g_dd g) (pedits DD_DESC l) /\
  g_arep (fold_msgs l g) = run pair_eqb (g_arep g) (pedits AREP_DESC l) /\
  g_srep (fold_msgs l g) = run pair_eqb (g_srep g) (pedits SREP_DESC l) /\
  g_err (fold_msgs l g) = g_err g
     || snd (run_gen pair_eqb (pd_strict DD_DESC) (g_dd g, false) (pedits DD_DESC l))
     || snd (run_gen pair_eqb (pd_strict AREP_DESC) (g_arep g, false) (pedits AREP_DESC l))
     || snd (run_gen pair_eqb (pd_strict SREP_DESC) (g_srep g, false) (pedits SREP_DESC l)).
Proof.
  induction l as [|[w m] l IH]; intros g Hok.
  - simpl. rewrite !orb_false_r. auto.
  - inversion Hok as [|? ? Hm Hl]; subst. destruct Hm as [H1 [H2 H3]]. simpl in H1, H2, H3.
    unfold fold_msgs in *. simpl fold_left.
    destruct (IH (reg_msg w m g) Hl) as [I1 [I2 [I3 I4]]].
    rewrite I1, I2, I3, I4. clear I1 I2 I3 I4 IH.
    rewrite reg_msg_dd, reg_msg_arep, reg_msg_srep, reg_msg_err.
    rewrite (pairs_step_run w DD_DESC m (g_dd g) H1), (pairs_step_run w AREP_DESC m (g_arep g) H2),
      (pairs_step_run w SREP_DESC m (g_srep g) H3).
    unfold pedits. simpl flat_map. rewrite !run_gen_fst, !run_app, !run_strict_err_app.
    repeat split; try reflexivity.
    repeat match goal with |- context [snd ?x] => let b := fresh "b" in generalize (snd x); intro b end.
    destruct (g_err g), b, b0, b1, b2, b3, b4; reflexivity.
Qed.

Lemma in_simple_regs : forall r d, In (r, d) SIMPLE_REGS -> al_get regid_eqb SIMPLE_REGS r = Some d.
Proof.
  intros r d H. simpl in H.
  repeat (destruct H as [H|H]; [inversion H; reflexivity|]). contradiction.
Qed.

Lemma simple_regs_total : forall r, exists d, In (r, d) SIMPLE_REGS.
Proof. intros r. destruct r; eexists; simpl; tauto. Qed.

Theorem simple_fold_is_run : forall tr f r d, In (r, d) SIMPLE_REGS ->
  g_get (regs_get (regs_apply_events [] tr) f) r = run neqb [] (simple_edits d f tr).
Proof.
  intros tr f r d H. rewrite regs_fold_fit.
  exact (fold_msgs_simple (fit_msgs f tr) (regs_get [] f) r d (in_simple_regs r d H)).
Qed.

Theorem pairs_fold_is_run : forall tr f, no_keyerr f tr ->
  let g := regs_get (regs_apply_events [] tr) f in
  g_dd g = run pair_eqb [] (pair_edits DD_DESC f tr) /\
  g_arep g = run pair_eqb [] (pair_edits AREP_DESC f tr) /\
  g_srep g = run pair_eqb [] (pair_edits SREP_DESC f tr) /\
  (alternating pair_eqb (pair_edits AREP_DESC f tr) ->
   alternating pair_eqb (pair_edits SREP_DESC f tr) -> g_err g = false).
Proof.
  intros tr f Hok g. subst g. rewrite regs_fold_fit.
  destruct (fold_msgs_pairs (fit_msgs f tr) (regs_get [] f) Hok) as [I1 [I2 [I3 I4]]].
  split; [exact I1|]. split; [exact I2|]. split; [exact I3|].
  intros Ha Hs. rewrite I4. change (pd_strict DD_DESC) with false. rewrite run_gen_lax.
  change (pd_strict AREP_DESC) with true. change (pd_strict SREP_DESC) with true.
  change (g_arep (regs_get [] f)) with (@nil (nat * Z)). change (g_srep (regs_get [] f)) with (@nil (nat * Z)).
  pose proof (register_strict_generic _ pair_eqb pair_eqb_spec _ Ha) as Ra.
  pose proof (register_strict_generic _ pair_eqb pair_eqb_spec _ Hs) as Rs.
  unfold run_strict in Ra, Rs. unfold pair_edits in Ra, Rs. rewrite Ra, Rs. reflexivity.
Qed.

(* ------------------------------------------------------------------ *)
(* faithfulness of the trace to the final world => exact registers      *)

Definition trace_faithful (tr : list event) (w : world) (f : nat) : Prop :=
  (forall r d, In (r, d) SIMPLE_REGS ->
     forall i, active neqb (simple_edits d f tr) i = true <-> In i (spec_members r w f)) /\
  (forall x, active pair_eqb (pair_edits DD_DESC f tr) x = true <-> In x (spec_pairs KDmgDealer w f)) /\
  (forall x, active pair_eqb (pair_edits AREP_DESC f tr) x = true <-> In x (spec_pairs KLocalArmor w f)) /\
  (forall x, active pair_eqb (pair_edits SREP_DESC f tr) x = true <-> In x (spec_pairs KLocalShield w f)) /\
  alternating pair_eqb (pair_edits AREP_DESC f tr) /\
  alternating pair_eqb (pair_edits SREP_DESC f tr) /\
  no_keyerr f tr.

Lemma nodup_fit_item_ids : forall w f, NoDup (fit_item_ids w f).
Proof. intros. unfold fit_item_ids, all_item_ids. apply nodup_filter, (NoDup_dedup neqb neqb_spec). Qed.

Lemma nodup_spec_members : forall r w f, NoDup (spec_members r w f).
Proof. intros. unfold spec_members. apply nodup_filter, nodup_fit_item_ids. Qed.

Lemma nodup_spec_pairs : forall k w f, NoDup (spec_pairs k w f).
Proof.
  intros k w f. unfold spec_pairs. apply (nodup_flat_map _ fst); [apply nodup_fit_item_ids| |].
  - intros i. destruct (get_item w i) as [it|]; [|constructor].
    apply nodup_map_inj; [intros a b H; inversion H; reflexivity|].
    apply nodup_filter, (NoDup_dedup zeqb zeqb_spec).
  - intros i p Hp. destruct (get_item w i) as [it|]; [|destruct Hp].
    apply in_map_iff in Hp. destruct Hp as [e [He _]]. subst p. reflexivity.
Qed.

Lemma spec_fregs_get : forall w f r, g_get (spec_fregs w f) r = spec_members r w f.
Proof. intros w f r. destruct r; reflexivity. Qed.

Lemma same_set_run {X} (eqb : X -> X -> bool) (eqb_spec : forall a b, eqb a b = true <-> a = b) :
  forall t m, NoDup m -> (forall x, active eqb t x = true <-> In x m) -> same_set (run eqb [] t) m.
Proof.
  intros t m Hm H. destruct (register_exact_generic X eqb eqb_spec t) as [Hn Hi].
  split; [exact Hn|]. split; [exact Hm|]. intros x. rewrite Hi. apply H.
Qed.

Theorem registers_exact : forall tr w f,
  trace_faithful tr w f -> regs_exact w (regs_apply_events [] tr) f.
Proof.
  intros tr w f [Hs [Hdd [Har [Hsr [Aa [As Hok]]]]]].
  destruct (pairs_fold_is_run tr f Hok) as [I1 [I2 [I3 I4]]].
  unfold regs_exact. cbv zeta. rewrite I1, I2, I3.
  split; [apply (same_set_run pair_eqb pair_eqb_spec); [apply nodup_spec_pairs|exact Hdd]|].
  split; [apply (same_set_run pair_eqb pair_eqb_spec); [apply nodup_spec_pairs|exact Har]|].
  split; [apply (same_set_run pair_eqb pair_eqb_spec); [apply nodup_spec_pairs|exact Hsr]|].
  split; [|exact (I4 Aa As)].
  intros r. destruct (simple_regs_total r) as [d Hd].
  rewrite (simple_fold_is_run tr f r d Hd), spec_fregs_get.
  apply (same_set_run neqb neqb_spec); [apply nodup_spec_members|exact (Hs r d Hd)].
Qed.

(* a fragment where faithfulness holds outright: nothing was published and
   the fit holds no item *)
Lemma alternating_nil {X} (eqb : X -> X -> bool) : alternating eqb [].
Proof. intros t1 e t2 H. destruct t1; discriminate. Qed.

Lemma trace_faithful_nil : forall w f, fit_item_ids w f = [] -> trace_faithful [] w f.
Proof.
  intros w f H. unfold trace_faithful, spec_members, spec_pairs, simple_edits, pair_edits, no_keyerr.
  rewrite H. unfold sedits, pedits, active. simpl.
  assert (T : false = true <-> False).
  { split; [discriminate|intros []]. }
  split; [intros r d _ i; exact T|]. split; [intros x; exact T|]. split; [intros x; exact T|].
  split; [intros x; exact T|]. split; [apply alternating_nil|]. split; [apply alternating_nil|].
  constructor.
Qed.

(* ================================================================== *)
(* C. statistics read off exact registers = from-scratch statistics     *)

Definition R_rel {A} (P : A -> A -> Prop) (a b : R A) : Prop :=
  match a, b with Ok x, Ok y => P x y | Ex _, Ex _ => True | _, _ => False end.
Definition rq_eq : R Q -> R Q -> Prop := R_rel Qeq.

Lemma R_rel_refl {A} (P : A -> A -> Prop) : (forall x, P x x) -> forall a, R_rel P a a.
Proof. intros H [x|l]; simpl; auto. Qed.

Lemma R_rel_trans {A} (P : A -> A -> Prop) : (forall x y z, P x y -> P y z -> P x z) ->
  forall a b c, R_rel P a b -> R_rel P b c -> R_rel P a c.
Proof. intros H [x|l] [y|m] [z|n]; simpl; try tauto. apply H. Qed.

Lemma R_rel_rbind {A B} (P : A -> A -> Prop) (Q : B -> B -> Prop) (a b : R A) (f g : A -> R B) :
  R_rel P a b -> (forall x y, P x y -> R_rel Q (f x) (g y)) -> R_rel Q (rbind a f) (rbind b g).
Proof. destruct a, b; simpl; try tauto. intros H H'. apply H'. exact H. Qed.

Lemma R_rel_rmap {A B} (P : A -> A -> Prop) (Q : B -> B -> Prop) (a b : R A) (f g : A -> B) :
  R_rel P a b -> (forall x y, P x y -> Q (f x) (g y)) -> R_rel Q (rmap f a) (rmap g b).
Proof. destruct a, b; simpl; try tauto. intros H H'. apply H'. exact H. Qed.

Lemma req_R_rel : forall a b, R_rel sval_eq a b -> req a b.
Proof. intros [x|l] [y|m]; simpl; tauto. Qed.

Lemma prof_eq_refl : forall a, prof_eq a a.
Proof. intros a. unfold prof_eq. repeat split; reflexivity. Qed.
Lemma prof_eq_sym : forall a b, prof_eq a b -> prof_eq b a.
Proof. intros a b (H1 & H2 & H3 & H4). unfold prof_eq. repeat split; symmetry; assumption. Qed.
Lemma prof_eq_trans : forall a b c, prof_eq a b -> prof_eq b c -> prof_eq a c.
Proof.
  intros a b c (H1 & H2 & H3 & H4) (G1 & G2 & G3 & G4). unfold prof_eq.
  repeat split; etransitivity; eassumption.
Qed.
Lemma prof_add_compat : forall a a' b b', prof_eq a a' -> prof_eq b b' ->
  prof_eq (prof_add a b) (prof_add a' b').
Proof.
  intros a a' b b' (H1 & H2 & H3 & H4) (G1 & G2 & G3 & G4). unfold prof_eq, prof_add. simpl.
  rewrite H1, H2, H3, H4, G1, G2, G3, G4. repeat split; reflexivity.
Qed.
Lemma hp_eq_refl : forall a, hp_eq a a.
Proof. intros a. unfold hp_eq. repeat split; reflexivity. Qed.
Lemma res_eq_refl : forall a, res_eq a a.
Proof. intros a. unfold res_eq. repeat split; apply prof_eq_refl. Qed.
Lemma sval_eq_refl : forall v, sval_eq v v.
Proof.
  intros [q|z|u t|p|h|r]; simpl; auto; try reflexivity.
  - apply prof_eq_refl. - apply hp_eq_refl. - apply res_eq_refl.
Qed.
Lemma req_refl : forall a, req a a.
Proof. intros a. apply req_R_rel, R_rel_refl, sval_eq_refl. Qed.

Lemma fold_prof_add : forall l a, prof_eq (fold_left prof_add l a) (prof_add a (prof_sum l)).
Proof.
  induction l as [|x l IH]; intros a.
  - unfold prof_sum, prof_eq, prof_add. simpl. repeat split; ring.
  - change (fold_left prof_add (x :: l) a) with (fold_left prof_add l (prof_add a x)).
    change (prof_sum (x :: l)) with (fold_left prof_add l (prof_add prof0 x)).
    eapply prof_eq_trans; [apply IH|].
    eapply prof_eq_trans; [|apply prof_add_compat; [apply prof_eq_refl|apply prof_eq_sym, IH]].
    unfold prof_eq, prof_add. simpl. repeat split; ring.
Qed.

Lemma prof_sum_cons : forall x l, prof_eq (prof_sum (x :: l)) (prof_add x (prof_sum l)).
Proof.
  intros x l. change (prof_sum (x :: l)) with (fold_left prof_add l (prof_add prof0 x)).
  eapply prof_eq_trans; [apply fold_prof_add|].
  unfold prof_eq, prof_add. simpl. repeat split; ring.
Qed.

Lemma prof_sum_perm : forall l l', Permutation l l' -> prof_eq (prof_sum l) (prof_sum l').
Proof.
  intros l l' H. induction H as [|x l l' H IH|x y l|l l' l'' H1 IH1 H2 IH2].
  - apply prof_eq_refl.
  - eapply prof_eq_trans; [apply prof_sum_cons|]. eapply prof_eq_trans; [|apply prof_eq_sym, prof_sum_cons].
    apply prof_add_compat; [apply prof_eq_refl|exact IH].
  - eapply prof_eq_trans; [apply prof_sum_cons|]. eapply prof_eq_trans; [|apply prof_eq_sym, prof_sum_cons].
    eapply prof_eq_trans; [apply prof_add_compat; [apply prof_eq_refl|apply prof_sum_cons]|].
    eapply prof_eq_trans; [|apply prof_add_compat; [apply prof_eq_refl|apply prof_eq_sym, prof_sum_cons]].
    unfold prof_eq, prof_add. simpl. repeat split; ring.
  - eapply prof_eq_trans; eassumption.
Qed.

Lemma fold_qplus : forall l a, fold_left Qplus l a == a + fold_left Qplus l 0.
Proof.
  induction l as [|x l IH]; intros a; simpl; [ring|].
  rewrite (IH (a + x)), (IH (0 + x)). ring.
Qed.

Lemma qsum_perm : forall l l', Permutation l l' -> fold_left Qplus l 0 == fold_left Qplus l' 0.
Proof.
  intros l l' H. induction H as [|x l l' H IH|x y l|l l' l'' H1 IH1 H2 IH2]; simpl.
  - reflexivity.
  - rewrite (fold_qplus l (0 + x)), (fold_qplus l' (0 + x)), IH. reflexivity.
  - rewrite (fold_qplus l (0 + y + x)), (fold_qplus l (0 + x + y)). ring.
  - rewrite IH1. exact IH2.
Qed.

Lemma rmap_all_perm {X A} (f : X -> R A) : forall l l', Permutation l l' ->
  R_rel (@Permutation A) (rmap_all f l) (rmap_all f l').
Proof.
  intros l l' H. induction H as [|x l l' H IH|x y l|l l' l'' H1 IH1 H2 IH2].
  - simpl. constructor.
  - simpl. destruct (f x), (rmap_all f l), (rmap_all f l'); simpl in *; try tauto.
    apply perm_skip. exact IH.
  - simpl. destruct (f x), (f y), (rmap_all f l); simpl; try tauto. apply perm_swap.
  - eapply R_rel_trans; [|exact IH1|exact IH2]. intros a b c. apply Permutation_trans.
Qed.

Lemma same_set_perm {A} (l m : list A) : same_set l m -> Permutation l m.
Proof. intros (H1 & H2 & H3). apply NoDup_Permutation; assumption. Qed.

Lemma same_set_filter {A} (p : A -> bool) (l m : list A) : same_set l m -> same_set (filter p l) (filter p m).
Proof.
  intros (H1 & H2 & H3). split; [apply nodup_filter, H1|]. split; [apply nodup_filter, H2|].
  intros x. rewrite !filter_In, H3. tauto.
Qed.

Lemma same_set_dedup_items (l m : list (nat * Z)) : same_set l m -> same_set (dedup_items l) (dedup_items m).
Proof.
  intros (H1 & H2 & H3). unfold dedup_items.
  split; [apply (NoDup_dedup neqb neqb_spec)|]. split; [apply (NoDup_dedup neqb neqb_spec)|].
  intros x. rewrite !(In_dedup neqb neqb_spec), !in_map_iff.
  split; intros [p [Hp Hin]]; exists p; (split; [exact Hp|]); apply H3; exact Hin.
Qed.

Lemma mk_dmg_compat : forall a b c d a' b' c' d',
  a == a' -> b == b' -> c == c' -> d == d' -> mk_dmg a b c d None = mk_dmg a' b' c' d' None.
Proof.
  intros a b c d a' b' c' d' Ha Hb Hc Hd. unfold mk_dmg, prof_red, qle. simpl.
  assert (E1 : Qle_bool 0 a = Qle_bool 0 a') by (rewrite Ha; reflexivity).
  assert (E2 : Qle_bool 0 b = Qle_bool 0 b') by (rewrite Hb; reflexivity).
  assert (E3 : Qle_bool 0 c = Qle_bool 0 c') by (rewrite Hc; reflexivity).
  assert (E4 : Qle_bool 0 d = Qle_bool 0 d') by (rewrite Hd; reflexivity).
  rewrite E1, E2, E3, E4, (Qred_complete _ _ Ha), (Qred_complete _ _ Hb), (Qred_complete _ _ Hc),
    (Qred_complete _ _ Hd). reflexivity.
Qed.

Lemma combine_perm : forall l l' tgt, Permutation l l' -> combine l tgt = combine l' tgt.
Proof.
  intros l l' tgt H. unfold combine. destruct (prof_sum_perm l l' H) as (H1 & H2 & H3 & H4).
  destruct tgt as [r|]; cbv zeta; apply mk_dmg_compat; simpl; try assumption.
  - rewrite H1. reflexivity. - rewrite H2. reflexivity. - rewrite H3. reflexivity. - rewrite H4. reflexivity.
Qed.

Lemma fit_dmg_same : forall w g s flt per, same_set (g_dd g) (g_dd s) ->
  R_rel prof_eq (fit_dmg w g flt per) (fit_dmg w s flt per).
Proof.
  intros w g s flt per H. unfold fit_dmg.
  apply (R_rel_rbind (@Permutation prof)).
  - apply rmap_all_perm, same_set_perm, same_set_filter, same_set_dedup_items, H.
  - intros x y Hp. rewrite (combine_perm x y None Hp). apply R_rel_refl, prof_eq_refl.
Qed.

Lemma sum_attr_same : forall av a u u', Permutation u u' -> R_rel Qeq (sum_attr av a u) (sum_attr av a u').
Proof.
  intros av a u u' H. unfold sum_attr. apply (R_rel_rmap (@Permutation Q)).
  - apply rmap_all_perm, H.
  - intros x y Hp. apply qsum_perm, Hp.
Qed.

Lemma fit_rps_same : forall av w d dur f ft l l' remote layer p reload, same_set l l' ->
  R_rel Qeq (fit_rps av w d dur f ft l remote layer p reload) (fit_rps av w d dur f ft l' remote layer p reload).
Proof.
  intros av w d dur f ft l l' remote layer p reload H. unfold fit_rps.
  destruct (f_ship ft) as [sh|]; [|simpl; reflexivity]. cbv zeta.
  apply (R_rel_rbind (@Permutation Q)).
  - apply rmap_all_perm, same_set_perm, same_set_filter, H.
  - intros ls ls' Hp.
    apply (R_rel_rbind (@eq (list Q))); [apply R_rel_refl; reflexivity|].
    intros rs rs' E. subst rs'.
    assert (Hq : fold_left Qplus (ls ++ rs) 0 == fold_left Qplus (ls' ++ rs) 0).
    { apply qsum_perm, Permutation_app_tail, Hp. }
    destruct p as [p|]; [|exact Hq].
    apply (R_rel_rbind (@eq res3)); [apply R_rel_refl; reflexivity|].
    intros r r' E. subst r'.
    apply (R_rel_rmap (@eq Q)); [apply R_rel_refl; reflexivity|].
    intros m m' E. subst m'. rewrite Hq. reflexivity.
Qed.

Lemma al_get_map_key {V W} (h : nat -> W) : forall (L : list (nat * V)) f v,
  al_get neqb L f = Some v -> al_get neqb (map (fun kv => (fst kv, h (fst kv))) L) f = Some (h f).
Proof.
  induction L as [|[k v'] L IH]; intros f v H; simpl in *; [discriminate|].
  destruct (neqb f k) eqn:E.
  - apply neqb_spec in E. subst k. reflexivity.
  - exact (IH f v H).
Qed.

Lemma spec_regs_get : forall w f ft, get_fit w f = Some ft -> regs_get (spec_regs w) f = spec_fregs w f.
Proof.
  intros w f ft H. unfold regs_get, spec_regs, get_fit in *.
  rewrite (al_get_map_key (spec_fregs w) (w_fits w) f ft H). reflexivity.
Qed.

Definition read_fit (r : sread) : option nat :=
  match r with
  | SResUsed f _ | SResOutput f _ | SSlotUsed f _ | SSlotTotal f _ | SContSlots f _
  | SFitHp f | SFitResists f | SFitEhp f _ | SFitWcEhp f | SFitVolley f _ _ | SFitDps f _ _ _
  | SFitArmorRps f _ _ | SFitShieldRps f _ _ => Some f
  | SItemHp _ | SItemResists _ | SItemEhp _ _ | SItemWcEhp _ | SItemVolley _ _ | SItemDps _ _ _ => None
  end.

Theorem stats_eq_aggregate : forall av w d dur rg dp r,
  (forall f, read_fit r = Some f -> regs_exact w rg f) ->
  req (stat_read av w d dur rg dp r) (spec_read av w d dur dp r).
Proof.
  intros av w d dur rg dp r H. unfold spec_read.
  destruct r; unfold stat_read; cbv beta iota zeta; try solve [apply req_refl];
    specialize (H f eq_refl); destruct (get_fit w f) as [ft|] eqn:Hf; try exact I;
    rewrite (spec_regs_get w f ft Hf); destruct H as (Hdd & Har & Hsr & Hsim & _).
  - (* SResUsed *)
    destruct (al_get regid_eqb SIMPLE_REGS (rk_id k)) as [rd|]; [|exact I].
    destruct (rd_use_attr rd) as [ua|]; [|exact I].
    apply req_R_rel, (R_rel_rmap Qeq); [apply sum_attr_same, same_set_perm, Hsim|].
    intros x y Hxy. simpl. destruct (rd_rounded rd).
    + rewrite (Qred_complete _ _ Hxy). reflexivity.
    + rewrite !Qred_correct. exact Hxy.
  - (* SSlotUsed *)
    simpl. unfold len_z. f_equal. apply Permutation_length, same_set_perm, Hsim.
  - (* SFitVolley *)
    apply req_R_rel, (R_rel_rmap prof_eq); [apply fit_dmg_same, Hdd|]. intros x y Hxy. exact Hxy.
  - (* SFitDps *)
    apply req_R_rel, (R_rel_rmap prof_eq); [apply fit_dmg_same, Hdd|]. intros x y Hxy. exact Hxy.
  - (* SFitArmorRps *)
    apply req_R_rel, (R_rel_rmap Qeq); [apply fit_rps_same, Har|].
    intros x y Hxy. simpl. rewrite !Qred_correct. exact Hxy.
  - (* SFitShieldRps *)
    apply req_R_rel, (R_rel_rmap Qeq); [apply fit_rps_same, Hsr|].
    intros x y Hxy. simpl. rewrite !Qred_correct. exact Hxy.
Qed.

(* ================================================================== *)
(* D. algebraic laws                                                    *)

Definition prof_le (a b : prof) : Prop :=
  p_em a <= p_em b /\ p_th a <= p_th b /\ p_ki a <= p_ki b /\ p_ex a <= p_ex b.
Definition hp_le (a b : hp3) : Prop :=
  h_hull a <= h_hull b /\ h_armor a <= h_armor b /\ h_shield a <= h_shield b.

Lemma prof_le_refl : forall a, prof_le a a.
Proof. intros a. unfold prof_le. repeat split; apply Qle_refl. Qed.

Lemma qle_true : forall a b, qle a b = true <-> a <= b.
Proof. intros. unfold qle. apply Qle_bool_iff. Qed.
Lemma qle_false : forall a b, qle a b = false -> b < a.
Proof.
  intros a b H. apply Qnot_le_lt. intros H'. apply qle_true in H'. rewrite H' in H. discriminate.
Qed.
Lemma qzero_true : forall a, qzero a = true <-> a == 0.
Proof. intros. unfold qzero. apply Qeq_bool_iff. Qed.
Lemma qzero_false : forall a, qzero a = false -> ~ a == 0.
Proof. intros a H H'. apply qzero_true in H'. rewrite H' in H. discriminate. Qed.
Lemma qzero_compat : forall a b, a == b -> qzero a = qzero b.
Proof. intros a b H. unfold qzero. rewrite H. reflexivity. Qed.
Lemma qlt_true : forall a b, qlt a b = true -> a < b.
Proof. intros a b H. unfold qlt in H. apply negb_true_iff in H. apply (qle_false b a H). Qed.

(* arithmetic helpers *)
Lemma scale_le : forall v k0 k1, 0 < k0 -> k1 <= k0 -> 0 <= v * k0 -> v * k1 <= v * k0.
Proof.
  intros v k0 k1 H0 H1 H2.
  assert (Hv : 0 <= v).
  { destruct (Qlt_le_dec v 0) as [Hn|Hp]; [|exact Hp]. exfalso.
    assert (0 < (-v) * k0) by (apply Qmult_lt_0_compat; lra). lra. }
  assert (0 <= v * (k0 - k1)) by (apply Qmult_le_0_compat; lra). lra.
Qed.
Lemma inv_le : forall t0 t1, 0 < t0 -> t0 <= t1 -> / t1 <= / t0.
Proof.
  intros t0 t1 H0 H1. apply Qle_shift_inv_r; [lra|].
  setoid_replace (/ t0 * t1) with (t1 / t0) by (unfold Qdiv; ring).
  apply Qle_shift_div_l; lra.
Qed.
Lemma seq_avg_ge : forall a f r k, 0 <= k -> f <= r -> a + f <= ((a + f) * k + (a + r) * 1) / (k + 1).
Proof. intros a f r k Hk Hf. apply Qle_shift_div_l; [lra|]. lra. Qed.
Lemma ratio_ge : forall hp D Rv, 0 <= hp -> 0 < Rv -> Rv <= D -> hp <= hp * (D / Rv).
Proof.
  intros hp D Rv H0 H1 H2. assert (1 <= D / Rv) by (apply Qle_shift_div_l; lra).
  set (x := D / Rv) in *. assert (0 <= hp * (x - 1)) by (apply Qmult_le_0_compat; lra). lra.
Qed.
Lemma ratio_ge_wc : forall hp D Rv M, 0 <= hp -> 0 < M -> 0 < Rv -> Rv <= D * M -> hp / M <= hp * (D / Rv).
Proof.
  intros hp D Rv M H0 H1 H2 H3.
  assert (/ M <= D / Rv).
  { apply Qle_shift_div_l; [lra|]. setoid_replace (/ M * Rv) with (Rv / M) by (unfold Qdiv; ring).
    apply Qle_shift_div_r; lra. }
  unfold Qdiv at 1. set (x := D / Rv) in *. set (y := / M) in *.
  assert (0 <= hp * (x - y)) by (apply Qmult_le_0_compat; lra). lra.
Qed.
Lemma ratio_scale : forall k D Rv, ~ k == 0 -> ~ Rv == 0 -> (D * k) / (Rv * k) == D / Rv.
Proof. intros. field. split; assumption. Qed.
Lemma mult_1m_le : forall p r m, 0 <= p -> m <= r -> p * (1 - r) <= p * (1 - m).
Proof. intros. assert (0 <= p * (r - m)) by (apply Qmult_le_0_compat; lra). lra. Qed.

(* ---- D2: reload never raises dps -------------------------------------- *)

Theorem cycle_avg_reload_ge : forall cy act forced rt c0,
  cycle_params cy act forced rt false = Some c0 ->
  exists c1, cycle_params cy act forced rt true = Some c1 /\ average_time c0 <= average_time c1.
Proof.
  intros cy act forced rt c0 H. unfold cycle_params in *. destruct cy as [|n|].
  - discriminate.
  - destruct (n <=? 0)%Z eqn:En; [discriminate|]. apply Z.leb_gt in En. destruct rt as [r|].
    + cbn [negb orb] in *. inversion H; subst c0. clear H.
      destruct (qle r forced) eqn:Er.
      * eexists. split; [reflexivity|]. apply Qle_refl.
      * apply qle_false in Er. destruct (n - 1 =? 0)%Z eqn:E1.
        -- eexists. split; [reflexivity|]. cbn [average_time]. lra.
        -- eexists. split; [reflexivity|]. cbn [average_time]. apply seq_avg_ge; [|lra].
           unfold Qle. simpl. lia.
    + exists c0. split; [exact H|apply Qle_refl].
  - exists c0. split; [exact H|apply Qle_refl].
Qed.

Lemma cycle_params_none : forall cy a f rt b b',
  cycle_params cy a f rt b = None -> cycle_params cy a f rt b' = None.
Proof.
  intros cy a f rt b b' H. unfold cycle_params in *. destruct cy as [|n|]; [reflexivity| |discriminate].
  destruct (n <=? 0)%Z; [reflexivity|]. destruct rt as [r|].
  - destruct (negb b || qle r f); [discriminate|]. destruct (n - 1 =? 0)%Z; discriminate.
  - destruct (n - 1 =? 0)%Z; [discriminate|]. destruct (qzero f); discriminate.
Qed.

Lemma ecp_reload : forall av w dur c e i it o0 o1,
  effect_cycle_params av w dur c e i it false = Ok o0 ->
  effect_cycle_params av w dur c e i it true = Ok o1 ->
  (o0 = None /\ o1 = None) \/
  exists c0 c1, o0 = Some c0 /\ o1 = Some c1 /\ average_time c0 <= average_time c1.
Proof.
  intros av w dur c e i it o0 o1 H0 H1. unfold effect_cycle_params in *.
  destruct (cycles_until_reload av w c e i it) as [cy|l]; cbn [rbind] in *; [|discriminate].
  set (act := oq0 (effect_duration av dur e i)) in *.
  set (forced := oq0 (ms (av i AttrId_module_reactivation_delay))) in *.
  set (rt := if is_module (i_cls it) then ms (av i AttrId_reload_time) else None) in *.
  assert (K : forall cy', Ok (cycle_params cy' act forced rt false) = Ok o0 ->
                          Ok (cycle_params cy' act forced rt true) = Ok o1 ->
    (o0 = None /\ o1 = None) \/
    exists c0 c1, o0 = Some c0 /\ o1 = Some c1 /\ average_time c0 <= average_time c1).
  { intros cy' G0 G1. inversion G0 as [G0']. inversion G1 as [G1']. clear G0 G1.
    destruct (cycle_params cy' act forced rt false) as [c0|] eqn:C0.
    - destruct (cycle_avg_reload_ge _ _ _ _ _ C0) as [c1 [C1 Hle]]. right. exists c0, c1.
      rewrite C1. auto.
    - left. rewrite (cycle_params_none _ _ _ _ _ true C0). auto. }
  destruct cy as [|n|].
  - inversion H0; inversion H1. left; auto.
  - destruct (n <=? 0)%Z.
    + inversion H0; inversion H1. left; auto.
    + exact (K _ H0 H1).
  - exact (K _ H0 H1).
Qed.

Lemma mk_dmg_ok : forall a b c d m p, mk_dmg a b c d m = Ok p ->
  let q := match m with Some k => prof_scale k (mkProf a b c d) | None => mkProf a b c d end in
  p = prof_red q /\ 0 <= p_em q /\ 0 <= p_th q /\ 0 <= p_ki q /\ 0 <= p_ex q.
Proof.
  intros a b c d m p H q. unfold mk_dmg in H. fold q in H.
  destruct (qle 0 (p_em q) && qle 0 (p_th q) && qle 0 (p_ki q) && qle 0 (p_ex q)) eqn:C; [|discriminate].
  inversion H. rewrite !andb_true_iff, !qle_true in C. tauto.
Qed.

Lemma mk_dmg_scale_le : forall a b c d k0 k1 d0 d1, 0 < k0 -> k1 <= k0 ->
  mk_dmg a b c d (Some k0) = Ok d0 -> mk_dmg a b c d (Some k1) = Ok d1 -> prof_le d1 d0.
Proof.
  intros a b c d k0 k1 d0 d1 Hk0 Hk H0 H1.
  apply mk_dmg_ok in H0. apply mk_dmg_ok in H1. cbv zeta in H0, H1.
  destruct H0 as (-> & A1 & A2 & A3 & A4). destruct H1 as (-> & _).
  unfold prof_scale in *. cbn [p_em p_th p_ki p_ex] in *. unfold prof_le, prof_red.
  cbn [p_em p_th p_ki p_ex]. rewrite !Qred_correct.
  repeat split; apply scale_le; assumption.
Qed.

Theorem effect_dps_reload_le : forall av w dur c e i it d0 d1,
  effect_dps av w dur c e i it false = Ok d0 ->
  effect_dps av w dur c e i it true = Ok d1 ->
  (forall cp, effect_cycle_params av w dur c e i it false = Ok (Some cp) -> 0 < average_time cp) ->
  prof_le d1 d0.
Proof.
  intros av w dur c e i it d0 d1 H0 H1 Hpos. unfold effect_dps in *.
  destruct (effect_cycle_params av w dur c e i it false) as [o0|] eqn:E0; [|discriminate].
  destruct (effect_cycle_params av w dur c e i it true) as [o1|] eqn:E1; [|discriminate].
  cbn [rbind] in *.
  destruct (ecp_reload _ _ _ _ _ _ _ _ _ E0 E1) as [[-> ->] | (c0 & c1 & -> & -> & Hle)].
  - inversion H0; inversion H1; subst. apply prof_le_refl.
  - specialize (Hpos c0 eq_refl).
    destruct (effect_volley av w c e i it) as [v|]; cbn [rbind] in *; [|discriminate].
    unfold inv_avg in *. destruct (qzero (average_time c0)); [discriminate|].
    destruct (qzero (average_time c1)); [discriminate|]. cbn [rbind] in *.
    apply (mk_dmg_scale_le _ _ _ _ _ _ _ _ (Qinv_lt_0_compat _ Hpos) (inv_le _ _ Hpos Hle) H0 H1).
Qed.

(* ---- D4: tanking --------------------------------------------------------- *)

Definition valid_res (r : prof) : Prop := mk_resists (p_em r) (p_th r) (p_ki r) (p_ex r) = Ok r.
Definition valid_res3 (r : res3) : Prop := valid_res (r_hull r) /\ valid_res (r_armor r) /\ valid_res (r_shield r).
Definition hp_nonneg (h : hp3) : Prop := 0 <= h_hull h /\ 0 <= h_armor h /\ 0 <= h_shield h.
Definition received_pos3 (p : prof) (r : res3) : Prop :=
  0 < received p (r_hull r) /\ 0 < received p (r_armor r) /\ 0 < received p (r_shield r).

Lemma valid_res_bounds : forall r, valid_res r ->
  (0 <= p_em r /\ p_em r <= 1) /\ (0 <= p_th r /\ p_th r <= 1) /\
  (0 <= p_ki r /\ p_ki r <= 1) /\ (0 <= p_ex r /\ p_ex r <= 1).
Proof.
  intros r H. unfold valid_res, mk_resists in H.
  destruct (in01 (p_em r) && in01 (p_th r) && in01 (p_ki r) && in01 (p_ex r)) eqn:C; [|discriminate].
  unfold in01 in C. rewrite !andb_true_iff, !qle_true in C. tauto.
Qed.

Lemma valid_dmg_bounds : forall p, valid_dmg_profile p = true ->
  0 <= p_em p /\ 0 <= p_th p /\ 0 <= p_ki p /\ 0 <= p_ex p /\ 0 < prof_total p.
Proof.
  intros p H. unfold valid_dmg_profile in H. rewrite !andb_true_iff, !qle_true in H.
  destruct H as [H Ht]. apply qlt_true in Ht. tauto.
Qed.

Lemma received_le_dealt : forall p r, valid_res r -> valid_dmg_profile p = true -> received p r <= dealt p.
Proof.
  intros p r Hr Hp. apply valid_res_bounds in Hr. apply valid_dmg_bounds in Hp.
  unfold received, absorbed.
  assert (0 <= p_em p * p_em r) by (apply Qmult_le_0_compat; tauto).
  assert (0 <= p_th p * p_th r) by (apply Qmult_le_0_compat; tauto).
  assert (0 <= p_ki p * p_ki r) by (apply Qmult_le_0_compat; tauto).
  assert (0 <= p_ex p * p_ex r) by (apply Qmult_le_0_compat; tauto).
  lra.
Qed.

Theorem layer_ehp_ge_hp : forall hp r p e,
  valid_res r -> valid_dmg_profile p = true -> 0 <= hp -> 0 < received p r ->
  layer_ehp hp r p = Ok e -> hp <= e.
Proof.
  intros hp r p e Hr Hp Hhp Hrec H. unfold layer_ehp in H.
  destruct (qzero hp); [inversion H; apply Qle_refl|].
  unfold tanking_efficiency in H. destruct (qzero (received p r)); [discriminate|].
  cbn [rmap] in H. inversion H. apply ratio_ge; [exact Hhp|exact Hrec|].
  apply received_le_dealt; assumption.
Qed.

Lemma Qmin'_le_l : forall a b, Qmin' a b <= a.
Proof.
  intros a b. unfold Qmin'. destruct (Qle_bool a b) eqn:E; [apply Qle_refl|].
  apply Qlt_le_weak. exact (qle_false a b E).
Qed.
Lemma Qmin'_le_r : forall a b, Qmin' a b <= b.
Proof.
  intros a b. unfold Qmin'. destruct (Qle_bool a b) eqn:E; [|apply Qle_refl].
  apply Qle_bool_iff. exact E.
Qed.
Lemma qmin4_le : forall a b c d,
  qmin4 a b c d <= a /\ qmin4 a b c d <= b /\ qmin4 a b c d <= c /\ qmin4 a b c d <= d.
Proof.
  intros a b c d. unfold qmin4.
  pose proof (Qmin'_le_l (Qmin' (Qmin' a b) c) d). pose proof (Qmin'_le_r (Qmin' (Qmin' a b) c) d).
  pose proof (Qmin'_le_l (Qmin' a b) c). pose proof (Qmin'_le_r (Qmin' a b) c).
  pose proof (Qmin'_le_l a b). pose proof (Qmin'_le_r a b).
  set (m1 := Qmin' a b) in *. set (m2 := Qmin' m1 c) in *. set (m3 := Qmin' m2 d) in *.
  repeat split; lra.
Qed.

Theorem layer_ehp_ge_wc : forall hp r p e wc,
  valid_res r -> valid_dmg_profile p = true -> 0 <= hp -> 0 < received p r ->
  layer_ehp hp r p = Ok e -> layer_wc_ehp hp r = Ok wc -> wc <= e.
Proof.
  intros hp r p e wc Hr Hp Hhp Hrec H Hw. unfold layer_ehp in H. unfold layer_wc_ehp in Hw.
  destruct (qzero hp); [inversion H; inversion Hw; subst; apply Qle_refl|].
  unfold tanking_efficiency in H. destruct (qzero (received p r)); [discriminate|].
  cbn [rmap] in H. inversion H. clear H. cbv zeta in Hw.
  destruct (qmin4_le (p_em r) (p_th r) (p_ki r) (p_ex r)) as (M1 & M2 & M3 & M4).
  set (m := qmin4 (p_em r) (p_th r) (p_ki r) (p_ex r)) in *.
  destruct (qzero (1 - m)) eqn:Z; [discriminate|]. apply qzero_false in Z. inversion Hw. clear Hw.
  pose proof (valid_res_bounds r Hr) as B. pose proof (valid_dmg_bounds p Hp) as Bp.
  assert (Hm : 0 < 1 - m).
  { destruct (Qlt_le_dec 0 (1 - m)) as [Hl|Hl]; [exact Hl|]. exfalso. apply Z. lra. }
  apply ratio_ge_wc; [exact Hhp|exact Hm|exact Hrec|].
  unfold received, absorbed, dealt.
  assert (p_em p * (1 - p_em r) <= p_em p * (1 - m)) by (apply mult_1m_le; tauto).
  assert (p_th p * (1 - p_th r) <= p_th p * (1 - m)) by (apply mult_1m_le; tauto).
  assert (p_ki p * (1 - p_ki r) <= p_ki p * (1 - m)) by (apply mult_1m_le; tauto).
  assert (p_ex p * (1 - p_ex r) <= p_ex p * (1 - m)) by (apply mult_1m_le; tauto).
  lra.
Qed.

Lemma dealt_scale : forall k p, dealt (prof_scale k p) == dealt p * k.
Proof. intros. unfold dealt, prof_scale. simpl. ring. Qed.
Lemma received_scale : forall k p r, received (prof_scale k p) r == received p r * k.
Proof. intros. unfold received, dealt, absorbed, prof_scale. simpl. ring. Qed.

Theorem layer_ehp_scale : forall hp r p k, 0 < k ->
  rq_eq (layer_ehp hp r (prof_scale k p)) (layer_ehp hp r p).
Proof.
  intros hp r p k Hk. unfold rq_eq, layer_ehp. destruct (qzero hp); [simpl; reflexivity|].
  unfold tanking_efficiency.
  assert (Hz : qzero (received (prof_scale k p) r) = qzero (received p r)).
  { rewrite (qzero_compat _ _ (received_scale k p r)).
    destruct (qzero (received p r)) eqn:E.
    - apply qzero_true in E. apply qzero_true. rewrite E. ring.
    - apply qzero_false in E. destruct (qzero (received p r * k)) eqn:E'; [|reflexivity].
      apply qzero_true in E'. apply Qmult_integral in E'. destruct E' as [E'|E']; [contradiction|lra]. }
  rewrite Hz. destruct (qzero (received p r)) eqn:E; [exact I|]. apply qzero_false in E.
  simpl. rewrite dealt_scale, received_scale, ratio_scale; [reflexivity|lra|exact E].
Qed.

Lemma mk_hp_compat : forall a b c a' b' c', a == a' -> b == b' -> c == c' -> mk_hp a b c = mk_hp a' b' c'.
Proof.
  intros a b c a' b' c' Ha Hb Hc. unfold mk_hp, qle.
  assert (E1 : Qle_bool 0 a = Qle_bool 0 a') by (rewrite Ha; reflexivity).
  assert (E2 : Qle_bool 0 b = Qle_bool 0 b') by (rewrite Hb; reflexivity).
  assert (E3 : Qle_bool 0 c = Qle_bool 0 c') by (rewrite Hc; reflexivity).
  rewrite E1, E2, E3, (Qred_complete _ _ Ha), (Qred_complete _ _ Hb), (Qred_complete _ _ Hc). reflexivity.
Qed.

Lemma mk_hp_ok : forall a b c h, mk_hp a b c = Ok h -> h_hull h == a /\ h_armor h == b /\ h_shield h == c.
Proof.
  intros a b c h H. unfold mk_hp in H. destruct (qle 0 a && qle 0 b && qle 0 c); [|discriminate].
  inversion H. simpl. rewrite !Qred_correct. repeat split; reflexivity.
Qed.

Theorem ehp_ge_hp : forall h r p e,
  valid_res3 r -> valid_dmg_profile p = true -> hp_nonneg h -> received_pos3 p r ->
  ehp_of h r p = Ok e -> hp_le h e.
Proof.
  intros h r p e (V1 & V2 & V3) Hp (N1 & N2 & N3) (P1 & P2 & P3) H. unfold ehp_of in H.
  destruct (layer_ehp (h_hull h) (r_hull r) p) as [hu|] eqn:E1; [|discriminate].
  destruct (layer_ehp (h_armor h) (r_armor r) p) as [ar|] eqn:E2; [|discriminate].
  destruct (layer_ehp (h_shield h) (r_shield r) p) as [sh|] eqn:E3; [|discriminate].
  cbn [rbind] in H. apply mk_hp_ok in H. destruct H as (G1 & G2 & G3).
  unfold hp_le. rewrite G1, G2, G3.
  split; [exact (layer_ehp_ge_hp _ _ _ _ V1 Hp N1 P1 E1)|].
  split; [exact (layer_ehp_ge_hp _ _ _ _ V2 Hp N2 P2 E2)|exact (layer_ehp_ge_hp _ _ _ _ V3 Hp N3 P3 E3)].
Qed.

Theorem ehp_ge_worst_case : forall h r p e wc,
  valid_res3 r -> valid_dmg_profile p = true -> hp_nonneg h -> received_pos3 p r ->
  ehp_of h r p = Ok e -> wc_ehp_of h r = Ok wc -> hp_le wc e.
Proof.
  intros h r p e wc (V1 & V2 & V3) Hp (N1 & N2 & N3) (P1 & P2 & P3) H Hw. unfold ehp_of in H.
  unfold wc_ehp_of in Hw.
  destruct (layer_ehp (h_hull h) (r_hull r) p) as [hu|] eqn:E1; [|discriminate].
  destruct (layer_ehp (h_armor h) (r_armor r) p) as [ar|] eqn:E2; [|discriminate].
  destruct (layer_ehp (h_shield h) (r_shield r) p) as [sh|] eqn:E3; [|discriminate].
  destruct (layer_wc_ehp (h_hull h) (r_hull r)) as [whu|] eqn:W1; [|discriminate].
  destruct (layer_wc_ehp (h_armor h) (r_armor r)) as [war|] eqn:W2; [|discriminate].
  destruct (layer_wc_ehp (h_shield h) (r_shield r)) as [wsh|] eqn:W3; [|discriminate].
  cbn [rbind] in H, Hw. apply mk_hp_ok in H. apply mk_hp_ok in Hw.
  destruct H as (G1 & G2 & G3). destruct Hw as (F1 & F2 & F3).
  unfold hp_le. rewrite G1, G2, G3, F1, F2, F3.
  split; [exact (layer_ehp_ge_wc _ _ _ _ _ V1 Hp N1 P1 E1 W1)|].
  split; [exact (layer_ehp_ge_wc _ _ _ _ _ V2 Hp N2 P2 E2 W2)|exact (layer_ehp_ge_wc _ _ _ _ _ V3 Hp N3 P3 E3 W3)].
Qed.

Theorem ehp_scale_invariant : forall h r p k, 0 < k ->
  R_rel hp_eq (ehp_of h r (prof_scale k p)) (ehp_of h r p).
Proof.
  intros h r p k Hk. unfold ehp_of.
  apply (R_rel_rbind Qeq); [apply layer_ehp_scale, Hk|]. intros hu hu' Hhu.
  apply (R_rel_rbind Qeq); [apply layer_ehp_scale, Hk|]. intros ar ar' Har.
  apply (R_rel_rbind Qeq); [apply layer_ehp_scale, Hk|]. intros sh sh' Hsh.
  rewrite (mk_hp_compat _ _ _ _ _ _ Hhu Har Hsh). apply R_rel_refl, hp_eq_refl.
Qed.

(* ---- D1: damage of a fit is additive over a partition of its items ------- *)

Lemma filter_all {A} (p : A -> bool) : forall l, (forall x, p x = true) -> filter p l = l.
Proof. induction l as [|x l IH]; intros H; simpl; [reflexivity|]. rewrite H, (IH H). reflexivity. Qed.

Lemma prof_add_assoc : forall a b c, prof_eq (prof_add a (prof_add b c)) (prof_add (prof_add a b) c).
Proof. intros. unfold prof_eq, prof_add. simpl. repeat split; ring. Qed.
Lemma prof_add_swap : forall a b c, prof_eq (prof_add a (prof_add b c)) (prof_add b (prof_add a c)).
Proof. intros. unfold prof_eq, prof_add. simpl. repeat split; ring. Qed.

Lemma combine_none_ok : forall l t, combine l None = Ok t -> prof_eq t (prof_sum l).
Proof.
  intros l t H. unfold combine in H. apply mk_dmg_ok in H. destruct H as [-> _].
  unfold prof_eq, prof_red. cbn [p_em p_th p_ki p_ex]. rewrite !Qred_correct. repeat split; reflexivity.
Qed.

Lemma rmap_all_cons_ok {X A} (f : X -> R A) : forall x l r, rmap_all f (x :: l) = Ok r ->
  exists a r', f x = Ok a /\ rmap_all f l = Ok r' /\ r = a :: r'.
Proof.
  intros x l r H. simpl in H. destruct (f x) as [a|], (rmap_all f l) as [r'|]; try discriminate.
  inversion H. exists a, r'. auto.
Qed.

Lemma rmap_all_split {X} (per : X -> R prof) (P : X -> bool) : forall L lt,
  rmap_all per L = Ok lt ->
  exists la lb, rmap_all per (filter P L) = Ok la /\
                rmap_all per (filter (fun i => negb (P i)) L) = Ok lb /\
                prof_eq (prof_sum lt) (prof_add (prof_sum la) (prof_sum lb)).
Proof.
  induction L as [|x L IH]; intros lt H.
  - inversion H. exists [], []. split; [reflexivity|]. split; [reflexivity|].
    unfold prof_eq, prof_add, prof_sum. simpl. repeat split; ring.
  - apply rmap_all_cons_ok in H. destruct H as (a & l' & Ha & Hl & ->).
    destruct (IH l' Hl) as (la & lb & Hla & Hlb & Hs). simpl filter. destruct (P x); simpl negb; cbv iota.
    + exists (a :: la), lb. split; [simpl; rewrite Ha, Hla; reflexivity|]. split; [exact Hlb|].
      eapply prof_eq_trans; [apply prof_sum_cons|].
      eapply prof_eq_trans; [|apply prof_add_compat; [apply prof_eq_sym, prof_sum_cons|apply prof_eq_refl]].
      eapply prof_eq_trans; [apply prof_add_compat; [apply prof_eq_refl|exact Hs]|]. apply prof_add_assoc.
    + exists la, (a :: lb). split; [exact Hla|]. split; [simpl; rewrite Ha, Hlb; reflexivity|].
      eapply prof_eq_trans; [apply prof_sum_cons|].
      eapply prof_eq_trans; [|apply prof_add_compat; [apply prof_eq_refl|apply prof_eq_sym, prof_sum_cons]].
      eapply prof_eq_trans; [apply prof_add_compat; [apply prof_eq_refl|exact Hs]|]. apply prof_add_swap.
Qed.

Theorem fit_dmg_additive : forall w g flt per t a b,
  fit_dmg w g FAll per = Ok t -> fit_dmg w g flt per = Ok a -> fit_dmg w g (FNot flt) per = Ok b ->
  prof_eq t (prof_add a b).
Proof.
  intros w g flt per t a b Ht Ha Hb. unfold fit_dmg in *.
  set (L := dedup_items (g_dd g)) in *.
  rewrite (filter_all (filter_holds w FAll) L (fun x => eq_refl)) in Ht.
  rewrite (filter_ext (filter_holds w (FNot flt)) (fun i => negb (filter_holds w flt i)) (fun x => eq_refl) L) in Hb.
  destruct (rmap_all per L) as [lt|] eqn:E; [|discriminate].
  destruct (rmap_all_split per (filter_holds w flt) L lt E) as (la & lb & Hla & Hlb & Hs).
  rewrite Hla in Ha. rewrite Hlb in Hb. cbn [rbind] in *.
  apply combine_none_ok in Ht. apply combine_none_ok in Ha. apply combine_none_ok in Hb.
  eapply prof_eq_trans; [exact Ht|]. eapply prof_eq_trans; [exact Hs|].
  apply prof_add_compat; apply prof_eq_sym; assumption.
Qed.

Corollary volley_additive : forall av w g flt tgt t a b,
  fit_dmg w g FAll (fun i => item_volley av w i tgt) = Ok t ->
  fit_dmg w g flt (fun i => item_volley av w i tgt) = Ok a ->
  fit_dmg w g (FNot flt) (fun i => item_volley av w i tgt) = Ok b -> prof_eq t (prof_add a b).
Proof. intros av w g flt tgt. apply fit_dmg_additive. Qed.

Corollary dps_additive : forall av w dur g flt reload tgt t a b,
  fit_dmg w g FAll (fun i => item_dps av w dur i reload tgt) = Ok t ->
  fit_dmg w g flt (fun i => item_dps av w dur i reload tgt) = Ok a ->
  fit_dmg w g (FNot flt) (fun i => item_dps av w dur i reload tgt) = Ok b -> prof_eq t (prof_add a b).
Proof. intros av w dur g flt reload tgt. apply fit_dmg_additive. Qed.

(* ---- D3: a target resist profile scales the unresisted damage ------------ *)

Theorem resist_profile_scales : forall l r a b,
  combine l (Some r) = Ok a -> combine l None = Ok b -> prof_eq a (apply_resists b r).
Proof.
  intros l r a b Ha Hb. unfold combine in *. set (s := prof_sum l) in *.
  apply mk_dmg_ok in Ha. apply mk_dmg_ok in Hb. destruct Ha as [-> _]. destruct Hb as [-> _].
  unfold prof_eq, prof_red, apply_resists. cbn [p_em p_th p_ki p_ex]. rewrite !Qred_correct.
  repeat split; reflexivity.
Qed.

Corollary item_volley_resist_scales : forall av w i r a b,
  item_volley av w i (Some r) = Ok a -> item_volley av w i None = Ok b -> prof_eq a (apply_resists b r).
Proof.
  intros av w i r a b Ha Hb. unfold item_volley in *. destruct (get_item w i) as [it|]; [|discriminate].
  destruct (rmap_all _ (dd_effects w it)) as [l|]; cbn [rbind] in *; [|discriminate].
  exact (resist_profile_scales l r a b Ha Hb).
Qed.

Corollary item_dps_resist_scales : forall av w dur i reload r a b,
  item_dps av w dur i reload (Some r) = Ok a -> item_dps av w dur i reload None = Ok b ->
  prof_eq a (apply_resists b r).
Proof.
  intros av w dur i reload r a b Ha Hb. unfold item_dps in *. destruct (get_item w i) as [it|]; [|discriminate].
  destruct (rmap_all _ (dd_effects w it)) as [l|]; cbn [rbind] in *; [|discriminate].
  exact (resist_profile_scales l r a b Ha Hb).
Qed.

(* ---- D5: fall-backs when the holder or its attribute is missing ----------- *)

Theorem output_without_attr : forall av w d dur rg dp f ft k rd,
  get_fit w f = Some ft -> al_get regid_eqb SIMPLE_REGS (rk_id k) = Some rd ->
  (forall h, fit_holder ft (rd_holder rd) = Some h -> av h (rd_out_attr rd) = None) ->
  stat_read av w d dur rg dp (SResOutput f k) = Ok (VNum 0).
Proof.
  intros av w d dur rg dp f ft k rd Hf Hrd Hh. unfold stat_read. rewrite Hf, Hrd. unfold holder_attr.
  destruct (fit_holder ft (rd_holder rd)) as [h|]; [|reflexivity]. rewrite (Hh h eq_refl). reflexivity.
Qed.

Lemma rk_holder_ship : forall k, exists rd,
  al_get regid_eqb SIMPLE_REGS (rk_id k) = Some rd /\ rd_holder rd = HShip.
Proof. intros k. destruct k; eexists; split; reflexivity. Qed.

Theorem output_without_ship : forall av w d dur rg dp f ft k,
  f_ship ft = None -> get_fit w f = Some ft ->
  stat_read av w d dur rg dp (SResOutput f k) = Ok (VNum 0).
Proof.
  intros av w d dur rg dp f ft k Hs Hf. destruct (rk_holder_ship k) as [rd [Hrd Hh]].
  apply (output_without_attr av w d dur rg dp f ft k rd Hf Hrd).
  intros h E. rewrite Hh in E. simpl in E. rewrite Hs in E. discriminate.
Qed.

Theorem output_ship_without_attr : forall av w d dur rg dp f ft k sh rd,
  f_ship ft = Some sh -> get_fit w f = Some ft ->
  al_get regid_eqb SIMPLE_REGS (rk_id k) = Some rd -> av sh (rd_out_attr rd) = None ->
  stat_read av w d dur rg dp (SResOutput f k) = Ok (VNum 0).
Proof.
  intros av w d dur rg dp f ft k sh rd Hs Hf Hrd Ha. destruct (rk_holder_ship k) as [rd' [Hrd' Hh]].
  rewrite Hrd in Hrd'. inversion Hrd'; subst rd'.
  apply (output_without_attr av w d dur rg dp f ft k rd Hf Hrd).
  intros h E. rewrite Hh in E. simpl in E. rewrite Hs in E. inversion E; subst h. exact Ha.
Qed.

Theorem slot_total_without_holder : forall av w d dur rg dp f ft k rd,
  get_fit w f = Some ft -> al_get regid_eqb SIMPLE_REGS (sk_id k) = Some rd ->
  (forall h, fit_holder ft (rd_holder rd) = Some h -> av h (rd_out_attr rd) = None) ->
  stat_read av w d dur rg dp (SSlotTotal f k) = Ok (VInt 0).
Proof.
  intros av w d dur rg dp f ft k rd Hf Hrd Hh. unfold stat_read. rewrite Hf, Hrd. unfold holder_attr.
  destruct (fit_holder ft (rd_holder rd)) as [h|]; [|reflexivity]. rewrite (Hh h eq_refl). reflexivity.
Qed.

Lemma sk_holder : forall k, exists rd,
  al_get regid_eqb SIMPLE_REGS (sk_id k) = Some rd /\
  rd_holder rd = match k with SkLaunchedDrones => HCharacter | _ => HShip end.
Proof. intros k. destruct k; eexists; split; reflexivity. Qed.

Theorem slot_total_without_ship : forall av w d dur rg dp f ft k,
  get_fit w f = Some ft ->
  match k with SkLaunchedDrones => f_character ft = None | _ => f_ship ft = None end ->
  stat_read av w d dur rg dp (SSlotTotal f k) = Ok (VInt 0).
Proof.
  intros av w d dur rg dp f ft k Hf Hs. destruct (sk_holder k) as [rd [Hrd Hh]].
  apply (slot_total_without_holder av w d dur rg dp f ft k rd Hf Hrd).
  intros h E. rewrite Hh in E. destruct k; simpl in E; rewrite Hs in E; discriminate.
Qed.

Theorem cont_slots_without_ship : forall av w d dur rg dp f ft k,
  f_ship ft = None -> get_fit w f = Some ft ->
  stat_read av w d dur rg dp (SContSlots f k) = Ok (VSlots (cont_len ft k) 0).
Proof.
  intros av w d dur rg dp f ft k Hs Hf. unfold stat_read. rewrite Hf, Hs. reflexivity.
Qed.

Theorem rps_without_ship : forall av w d dur rg dp f ft p reload,
  f_ship ft = None -> get_fit w f = Some ft ->
  stat_read av w d dur rg dp (SFitArmorRps f p reload) = Ok (VNum 0) /\
  stat_read av w d dur rg dp (SFitShieldRps f p reload) = Ok (VNum 0).
Proof.
  intros av w d dur rg dp f ft p reload Hs Hf. unfold stat_read, fit_rps. rewrite Hf, Hs.
  split; reflexivity.
Qed.

(* ---- D2 lifted to items and fits ------------------------------------------- *)

Lemma rmap_all_Forall2 {X A} (f0 f1 : X -> R A) (P : A -> A -> Prop) : forall L l0 l1,
  (forall x a b, In x L -> f0 x = Ok a -> f1 x = Ok b -> P b a) ->
  rmap_all f0 L = Ok l0 -> rmap_all f1 L = Ok l1 -> Forall2 P l1 l0.
Proof.
  induction L as [|x L IH]; intros l0 l1 H H0 H1.
  - inversion H0; inversion H1. constructor.
  - apply rmap_all_cons_ok in H0. apply rmap_all_cons_ok in H1.
    destruct H0 as (a0 & r0 & A0 & R0 & ->). destruct H1 as (a1 & r1 & A1 & R1 & ->).
    constructor.
    + apply (H x a0 a1 (or_introl eq_refl) A0 A1).
    + apply (IH r0 r1); [|exact R0|exact R1]. intros y a b Hy. apply H. right. exact Hy.
Qed.

Lemma prof_add_mono : forall a a' b b', prof_le a a' -> prof_le b b' -> prof_le (prof_add a b) (prof_add a' b').
Proof.
  intros a a' b b' (H1 & H2 & H3 & H4) (G1 & G2 & G3 & G4). unfold prof_le, prof_add. simpl.
  repeat split; lra.
Qed.

Lemma fold_prof_add_mono : forall l1 l0, Forall2 prof_le l1 l0 -> forall a1 a0, prof_le a1 a0 ->
  prof_le (fold_left prof_add l1 a1) (fold_left prof_add l0 a0).
Proof.
  intros l1 l0 H. induction H as [|x y l1 l0 Hxy Hl IH]; intros a1 a0 Ha; simpl; [exact Ha|].
  apply IH. apply prof_add_mono; assumption.
Qed.

Lemma combine_mono : forall l1 l0 tgt a b, Forall2 prof_le l1 l0 ->
  (forall r, tgt = Some r -> valid_res r) ->
  combine l0 tgt = Ok a -> combine l1 tgt = Ok b -> prof_le b a.
Proof.
  intros l1 l0 tgt a b HF Hr Ha Hb. unfold combine in *.
  pose proof (fold_prof_add_mono l1 l0 HF prof0 prof0 (prof_le_refl prof0)) as Hs.
  fold (prof_sum l1) in Hs. fold (prof_sum l0) in Hs.
  set (s1 := prof_sum l1) in *. set (s0 := prof_sum l0) in *.
  apply mk_dmg_ok in Ha. apply mk_dmg_ok in Hb. destruct Ha as [-> _]. destruct Hb as [-> _].
  destruct Hs as (S1 & S2 & S3 & S4).
  unfold prof_le, prof_red. cbn [p_em p_th p_ki p_ex]. rewrite !Qred_correct.
  destruct tgt as [r|].
  - destruct (valid_res_bounds r (Hr r eq_refl)) as (B1 & B2 & B3 & B4).
    unfold apply_resists. cbn [p_em p_th p_ki p_ex].
    repeat split; apply Qmult_le_compat_r; lra.
  - repeat split; assumption.
Qed.

Theorem item_dps_reload_le : forall av w dur i it tgt d0 d1,
  get_item w i = Some it ->
  (forall r, tgt = Some r -> valid_res r) ->
  (forall e c cp, In (e, c) (dd_effects w it) ->
     effect_cycle_params av w dur c e i it false = Ok (Some cp) -> 0 < average_time cp) ->
  item_dps av w dur i false tgt = Ok d0 -> item_dps av w dur i true tgt = Ok d1 -> prof_le d1 d0.
Proof.
  intros av w dur i it tgt d0 d1 Hi Hr Hpos H0 H1. unfold item_dps in *. rewrite Hi in *.
  destruct (rmap_all (fun ec : Z * eclass => effect_dps av w dur (snd ec) (fst ec) i it false) (dd_effects w it))
    as [l0|] eqn:E0; [|discriminate].
  destruct (rmap_all (fun ec : Z * eclass => effect_dps av w dur (snd ec) (fst ec) i it true) (dd_effects w it))
    as [l1|] eqn:E1; [|discriminate].
  cbn [rbind] in *. apply (combine_mono l1 l0 tgt d0 d1); [|exact Hr|exact H0|exact H1].
  apply (rmap_all_Forall2 _ _ prof_le _ _ _ (fun ec a b Hin A0 A1 =>
    effect_dps_reload_le av w dur (snd ec) (fst ec) i it a b A0 A1
      (fun cp => Hpos (fst ec) (snd ec) cp
         (eq_ind _ (fun p => In p (dd_effects w it)) Hin _ (surjective_pairing ec)))) E0 E1).
Qed.

Theorem fit_dps_reload_le : forall av w dur g flt tgt d0 d1,
  (forall r, tgt = Some r -> valid_res r) ->
  (forall i it, In i (filter (filter_holds w flt) (dedup_items (g_dd g))) -> get_item w i = Some it ->
     forall e c cp, In (e, c) (dd_effects w it) ->
       effect_cycle_params av w dur c e i it false = Ok (Some cp) -> 0 < average_time cp) ->
  fit_dmg w g flt (fun i => item_dps av w dur i false tgt) = Ok d0 ->
  fit_dmg w g flt (fun i => item_dps av w dur i true tgt) = Ok d1 -> prof_le d1 d0.
Proof.
  intros av w dur g flt tgt d0 d1 Hr Hpos H0 H1. unfold fit_dmg in *.
  set (L := filter (filter_holds w flt) (dedup_items (g_dd g))) in *.
  destruct (rmap_all (fun i => item_dps av w dur i false tgt) L) as [l0|] eqn:E0; [|discriminate].
  destruct (rmap_all (fun i => item_dps av w dur i true tgt) L) as [l1|] eqn:E1; [|discriminate].
  cbn [rbind] in *. apply (combine_mono l1 l0 None d0 d1); [|intros r Hn; discriminate|exact H0|exact H1].
  apply (rmap_all_Forall2 (fun i => item_dps av w dur i false tgt) (fun i => item_dps av w dur i true tgt)
           prof_le L l0 l1); [|exact E0|exact E1].
  intros i a b Hin A0 A1. destruct (get_item w i) as [it|] eqn:Hi.
  - exact (item_dps_reload_le av w dur i it tgt a b Hi Hr (Hpos i it Hin Hi) A0 A1).
  - unfold item_dps in A0. rewrite Hi in A0. discriminate.
Qed.
