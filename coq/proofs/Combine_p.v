(* C02: facts about the attribute calculation of model/Calc.v. *)
From Coq Require Import ZArith QArith List Bool Lia.
From EosV Require Import lib.AList gen.T_eos model.World model.Calc.
Import ListNotations.

(* ---------------- the tables read from the source are the documented ones ---------------- *)
Lemma tbl_penalizable : PENALIZABLE_OPERATORS = [2; 6; 9; 3; 8]%Z.
Proof. reflexivity. Qed.
Lemma tbl_immune : PENALTY_IMMUNE_CATEGORY_IDS = [6; 8; 16; 20; 32]%Z.
Proof. reflexivity. Qed.
Lemma tbl_normalization :
  NORMALIZATION_MAP = [(1, NId); (2, NMinus1); (3, NInvMinus1); (4, NId); (5, NNeg); (6, NMinus1);
                       (7, NMinus1); (8, NInvMinus1); (9, NPercent); (10, NId)]%Z.
Proof. reflexivity. Qed.
Lemma tbl_classes :
  ASSIGNMENT_OPERATORS = [1; 10]%Z /\ ADDITION_OPERATORS = [4; 5]%Z /\
  MULTIPLICATION_OPERATORS = [2; 3; 6; 7; 8; 9]%Z.
Proof. repeat split. Qed.
Lemma tbl_limited_precision : LIMITED_PRECISION_ATTR_IDS = [50; 30; 48; 11]%Z.
Proof. reflexivity. Qed.
Lemma tbl_cutoff : PENALTY_CUTOFF = 10%nat.
Proof. reflexivity. Qed.
Lemma tbl_operator_precedence : ModOperator_members = [1; 2; 3; 4; 5; 6; 7; 8; 9; 10]%Z.
Proof. reflexivity. Qed.

(* every operator of the normalisation map belongs to exactly one class, and
   only multiplications are penalisable *)
Lemma tbl_classes_partition :
  forallb (fun op => Nat.eqb (length (filter (fun l => mem zeqb l op)
                                      [ASSIGNMENT_OPERATORS; ADDITION_OPERATORS; MULTIPLICATION_OPERATORS])) 1)
          (map fst NORMALIZATION_MAP) = true
  /\ forallb (fun op => mem zeqb MULTIPLICATION_OPERATORS op) PENALIZABLE_OPERATORS = true
  /\ mem zeqb PENALIZABLE_OPERATORS ModOperator_post_mul_immune = false.
Proof. vm_compute. repeat split. Qed.

(* ---------------- calculation ---------------- *)
Lemma combine_no_mods pen hig base : combine_mods pen hig base [] = base.
Proof. reflexivity. Qed.

Lemma chain_value_cutoff pen n l : chain_value pen n l = chain_value pen n (firstn n l).
Proof.
  revert n l. induction pen as [|p pr IH]; intros n l.
  - destruct n, l; reflexivity.
  - destruct n as [|n]; [destruct l; reflexivity|].
    destruct l as [|v r]; [reflexivity|]. simpl. now rewrite <- IH.
Qed.

(* at most eleven (positions 0..10) strongest modifications of a chain count *)
Lemma penalty_ignores_tail pen l : chain_value pen (S PENALTY_CUTOFF) l = chain_value pen 11 (firstn 11 l).
Proof. apply chain_value_cutoff. Qed.

Lemma penalize_nothing pen : (penalize_values pen [] == 0)%Q.
Proof. unfold penalize_values. simpl. destruct pen; simpl; reflexivity. Qed.

Lemma Qmin'_le_r a b : (Qmin' a b <= b)%Q.
Proof.
  unfold Qmin'. destruct (Qle_bool a b) eqn:E; [now apply Qle_bool_iff|apply Qle_refl].
Qed.
Lemma Qmin'_le_l a b : (Qmin' a b <= a)%Q.
Proof.
  unfold Qmin'. destruct (Qle_bool a b) eqn:E; [apply Qle_refl|].
  destruct (Qlt_le_dec b a) as [H|H]; [now apply Qlt_le_weak|].
  apply Qle_bool_iff in H. congruence.
Qed.

(* two-digit rounding yields a multiple of 1/100 *)
Lemma round2_hundredths x : exists z : Z, (round2 x == z # 100)%Q.
Proof. unfold round2. eexists. apply Qred_correct. Qed.

(* round-half-even picks a nearest integer *)
Lemma round_half_even_near x :
  let r := round_half_even x in (inject_Z r - (1#2) <= x /\ x <= inject_Z r + (1#2))%Q.
Proof.
  destruct x as [n d]. unfold round_half_even. cbn [Qnum Qden].
  set (D := Z.pos d). assert (HD : (0 < D)%Z) by (subst D; lia).
  pose proof (Z.div_mod n D ltac:(lia)) as DM. pose proof (Z.mod_pos_bound n D HD) as MB.
  set (fl := (n / D)%Z) in *. set (m := (n mod D)%Z) in *.
  assert (E : (n - fl * D = m)%Z) by lia. rewrite E.
  unfold Qle, Qminus, Qplus, Qopp, inject_Z. cbn [Qnum Qden].
  destruct (2 * m <? D)%Z eqn:C1; [apply Z.ltb_lt in C1; split; nia|].
  apply Z.ltb_ge in C1.
  destruct (D <? 2 * m)%Z eqn:C2; [apply Z.ltb_lt in C2; split; nia|].
  apply Z.ltb_ge in C2. destruct (Z.even fl); split; nia.
Qed.
