(* Container consistency over histories (C07): in every world reached through
   container operations, an item is a member of a fit container exactly when
   its own container reference names that container, and no container lists
   an item twice -- hence an item is in at most one place, and the item's own
   view of its owner agrees with the membership view. *)
From Coq Require Import ZArith QArith List Bool Lia Permutation.
From EosV Require Import lib.AList gen.T_eos model.World model.Status model.Calc model.Engine model.Ops
     model.Wf proofs.AList_p proofs.Rack_p proofs.Frame_p proofs.Containers_p proofs.Owner_p.
Import ListNotations.

Opaque add_item remove_item load unload.

Lemma place_eq_dec (p q : place) : {p = q} + {p <> q}.
Proof. repeat decide equality. Qed.

(* members of a fit container, read from the fit's own storage *)
Definition cmem (ft : fit) (p : place) : list nat :=
  match p with
  | PSlot _ k => opt_list (fit_slot ft k)
  | PSet _ k => fit_setc ft k
  | PRack _ k => rack_items (fit_rack ft k)
  | _ => []
  end.
Definition pfit (p : place) : option nat :=
  match p with PSlot f _ | PSet f _ | PRack f _ => Some f | _ => None end.
Definition members (w : world) (p : place) : list nat :=
  match pfit p with
  | Some f => match get_fit w f with Some ft => cmem ft p | None => [] end
  | None => []
  end.

Definition CI (w : world) : Prop :=
  J w /\ (forall p i, In i (members w p) <-> fitcont w i = Some p) /\ (forall p, NoDup (members w p)).

(* an item is in at most one place *)
Lemma CI_one_place w p q i : CI w -> In i (members w p) -> In i (members w q) -> p = q.
Proof. intros (_ & M & _) Hp Hq. apply M in Hp. apply M in Hq. congruence. Qed.

Lemma members_fits w w' p : w_fits w' = w_fits w -> members w' p = members w p.
Proof. intros H. unfold members, get_fit. now rewrite H. Qed.

Definition same_items (w w' : world) : Prop := w_items w' = w_items w /\ w_next w' = w_next w.

Lemma same_items_get w w' j : same_items w w' -> get_item w' j = get_item w j.
Proof. intros (H & _). unfold get_item. now rewrite H. Qed.
Lemma same_items_fitcont w w' j : same_items w w' -> fitcont w' j = fitcont w j.
Proof. intros H. unfold fitcont. now rewrite (same_items_get _ _ j H). Qed.
Lemma same_items_J w w' : same_items w w' -> J w -> J w'.
Proof.
  intros S (I & J3 & J4 & J5). pose proof (fun j => same_items_get _ _ j S) as G. destruct S as (_ & N).
  split; [|split; [|split]].
  - intros j it H. rewrite G in H. rewrite N. eapply I; eauto.
  - intros j it H. rewrite G in H. eapply J3; eauto.
  - intros i it e a H Hin. rewrite G in H. unfold cls_of. rewrite G. eapply J4; eauto.
  - intros i it o H Ho. rewrite G in H. unfold cls_of. rewrite G. eapply J5; eauto.
Qed.

Lemma same_items_upd_fit w f g : same_items w (upd_fit w f g).
Proof.
  unfold upd_fit. destruct (get_fit w f); [split; reflexivity|].
  unfold fail. destruct (w_err w); split; reflexivity.
Qed.

Lemma members_upd_fit w f g ft p :
  get_fit w f = Some ft ->
  members (upd_fit w f g) p =
  match pfit p with
  | Some f' => if Nat.eqb f' f then cmem (g ft) p else members w p
  | None => members w p
  end.
Proof.
  intros H. unfold members, upd_fit. rewrite H. destruct (pfit p) as [f'|]; [|reflexivity].
  unfold get_fit, put_fit. simpl. destruct (Nat.eqb f' f) eqn:E.
  - apply Nat.eqb_eq in E. subst. now rewrite al_get_set_same.
  - apply Nat.eqb_neq in E. rewrite al_get_set_other by congruence. reflexivity.
Qed.

Lemma racklike_fitcont w i p : fitcont w i = Some p -> racklike_of p = Some p.
Proof.
  unfold fitcont, fitcont_of. destruct (get_item w i) as [it|]; [|discriminate].
  destruct (i_cont it) as [[]|]; intros [= <-]; reflexivity.
Qed.

Lemma has_container_fitcont w i : has_container w i = false -> fitcont w i = None.
Proof.
  unfold has_container, fitcont, fitcont_of. destruct (get_item w i) as [it|]; [|reflexivity].
  destruct (i_cont it); [discriminate|reflexivity].
Qed.

(* ------------------------------------------------------------------ *)
(* generic steps: an item enters / leaves one container                 *)

Lemma CI_add (s s1 : st) i p it :
  CI (fst s) -> same_items (fst s) (fst s1) ->
  get_item (fst s) i = Some it -> fitcont (fst s) i = None ->
  racklike_of p = Some p -> ~ childcls (i_cls it) ->
  Permutation (members (fst s1) p) (i :: members (fst s) p) ->
  (forall q, q <> p -> members (fst s1) q = members (fst s) q) ->
  CI (fst (add_item F s1 i p)).
Proof.
  intros (Jw & M & ND) S Hi Hn Hp Hc Pm Oth.
  pose proof (same_items_J _ _ S Jw) as J1.
  assert (Hi1 : get_item (fst s1) i = Some it) by (rewrite (same_items_get _ _ i S); exact Hi).
  pose proof (add_item_ownership 11 s1 i p it J1 Hi1 (fun _ => Hc)) as (Hf & _ & J2 & _).
  fold F in Hf, J2. rewrite Hp in Hf.
  assert (Mem : forall q, members (fst (add_item F s1 i p)) q = members (fst s1) q)
    by (intros q; apply members_fits, fits_add_item).
  assert (Nin : ~ In i (members (fst s) p)) by (intros H; apply M in H; congruence).
  split; [exact J2|split].
  - intros q j. rewrite Mem, Hf, (same_items_fitcont _ _ j S).
    destruct (Nat.eqb j i) eqn:E.
    + apply Nat.eqb_eq in E. subst j. split.
      * intros H. destruct (place_eq_dec q p) as [->|N]; [reflexivity|].
        rewrite Oth in H by exact N. apply M in H. congruence.
      * intros [= <-]. eapply Permutation_in; [symmetry; exact Pm|now left].
    + apply Nat.eqb_neq in E. rewrite <- M. destruct (place_eq_dec q p) as [->|N].
      * split; intros H.
        -- eapply Permutation_in in H; [|exact Pm]. destruct H as [->|H]; [congruence|exact H].
        -- eapply Permutation_in; [symmetry; exact Pm|now right].
      * now rewrite Oth.
  - intros q. rewrite Mem. destruct (place_eq_dec q p) as [->|N].
    + eapply Permutation_NoDup; [symmetry; exact Pm|]. constructor; [exact Nin|apply ND].
    + rewrite Oth by exact N. apply ND.
Qed.

(* removal: remove_item first, then the container forgets the item *)
Lemma CI_remove (s s3 : st) i p :
  CI (fst s) -> fitcont (fst s) i = Some p ->
  same_items (fst (remove_item F s i)) (fst s3) ->
  Permutation (i :: members (fst s3) p) (members (fst s) p) ->
  (forall q, q <> p -> members (fst s3) q = members (fst s) q) ->
  CI (fst s3).
Proof.
  intros (Jw & M & ND) Hi S Pm Oth.
  pose proof (remove_item_ownership 11 s i Jw) as (Hf & _ & J2 & _). fold F in Hf, J2.
  assert (NDp : NoDup (i :: members (fst s3) p)) by (eapply Permutation_NoDup; [symmetry; exact Pm|apply ND]).
  split; [eapply same_items_J; eauto|split].
  - intros q j. rewrite (same_items_fitcont _ _ j S), Hf.
    destruct (place_eq_dec q p) as [->|N].
    + destruct (Nat.eqb j i) eqn:E.
      * apply Nat.eqb_eq in E. subst j. split; [|discriminate].
        intros H. inversion NDp; contradiction.
      * apply Nat.eqb_neq in E. rewrite <- M. split; intros H.
        -- eapply Permutation_in; [exact Pm|now right].
        -- eapply Permutation_in in H; [|symmetry; exact Pm]. destruct H as [->|H]; [congruence|exact H].
    + rewrite Oth by exact N. rewrite M. destruct (Nat.eqb j i) eqn:E; [|reflexivity].
      apply Nat.eqb_eq in E. subst j. split; [|discriminate]. intros H. congruence.
  - intros q. destruct (place_eq_dec q p) as [->|N]; [now inversion NDp|].
    rewrite Oth by exact N. apply ND.
Qed.

(* a change of the fit's storage that keeps every member list *)
Lemma CI_same (w w' : world) :
  CI w -> same_items w w' -> (forall q, members w' q = members w q) -> CI w'.
Proof.
  intros (Jw & M & ND) S Mem. split; [eapply same_items_J; eauto|split].
  - intros q j. now rewrite Mem, (same_items_fitcont _ _ j S).
  - intros q. rewrite Mem. apply ND.
Qed.

(* ------------------------------------------------------------------ *)
(* racks                                                                *)

Lemma members_rack w f k : members w (PRack f k) = rack_items (get_rack w f k).
Proof. unfold members, get_rack. simpl. destruct (get_fit w f); reflexivity. Qed.

Lemma members_put_rack_same w f k l :
  has_fit w f -> members (put_rack w f k l) (PRack f k) = rack_items l.
Proof. intros H. rewrite members_rack. now rewrite get_rack_put. Qed.

Lemma members_put_rack_other w f k l q :
  q <> PRack f k -> members (put_rack w f k l) q = members w q.
Proof.
  intros N. unfold put_rack. destruct (get_fit w f) as [ft|] eqn:H.
  - rewrite (members_upd_fit w f _ ft q H).
    destruct q as [f' k'|f' k'|f' k'|x|x]; simpl pfit; cbv iota; try reflexivity;
      (destruct (Nat.eqb f' f) eqn:E; [|reflexivity]); apply Nat.eqb_eq in E; subst f';
        unfold members; simpl pfit; cbv iota; rewrite H.
    + destruct ft, k, k'; reflexivity.
    + destruct ft, k, k'; reflexivity.
    + destruct ft, k, k'; try reflexivity; congruence.
  - unfold upd_fit. rewrite H. apply members_fits. unfold fail. destruct (w_err w); reflexivity.
Qed.

Lemma same_items_set_rack s f k l : same_items (fst s) (fst (set_rack s f k l)).
Proof. unfold set_rack, lift, put_rack. cbn [fst]. apply same_items_upd_fit. Qed.

Lemma cls_of_some w i c : cls_of w i = Some c -> exists it, get_item w i = Some it /\ i_cls it = c.
Proof. unfold cls_of. destruct (get_item w i) as [it|]; [|discriminate]. intros [= <-]. eauto. Qed.

Lemma rack_accepts_not_auto k c : rack_accepts k c = true -> ~ childcls c.
Proof. destruct k, c; simpl; intros H [C|C]; congruence. Qed.

(* an item enters a rack whose list becomes l2 *)
Lemma rack_add_CI s f k i l2 c :
  CI (fst s) -> has_fit (fst s) f -> cls_of (fst s) i = Some c -> rack_accepts k c = true ->
  has_container (fst s) i = false ->
  Permutation (rack_items l2) (i :: rack_items (get_rack (fst s) f k)) ->
  CI (fst (add_item F (set_rack s f k l2) i (PRack f k))).
Proof.
  intros C Hf Hc Ha Hn Pm. destruct (cls_of_some _ _ _ Hc) as (it & Hi & Ec).
  eapply (CI_add s); eauto.
  - apply same_items_set_rack.
  - now apply has_container_fitcont.
  - subst c. now apply rack_accepts_not_auto in Ha.
  - unfold set_rack, lift. cbn [fst]. rewrite members_put_rack_same by exact Hf. now rewrite members_rack.
  - intros q N. unfold set_rack, lift. cbn [fst]. now apply members_put_rack_other.
Qed.

(* the rack's list changes without changing its items *)
Lemma rack_same_CI s f k l2 :
  CI (fst s) -> has_fit (fst s) f -> rack_items l2 = rack_items (get_rack (fst s) f k) ->
  CI (fst (set_rack s f k l2)).
Proof.
  intros C Hf E. eapply CI_same; [exact C|apply same_items_set_rack|].
  intros q. unfold set_rack, lift. cbn [fst]. destruct (place_eq_dec q (PRack f k)) as [->|N].
  - rewrite members_put_rack_same by exact Hf. now rewrite members_rack.
  - now apply members_put_rack_other.
Qed.

Lemma items_allocate l idx : rack_items (allocate l idx) = rack_items l.
Proof. unfold allocate. rewrite rack_items_app, rack_items_holes. apply app_nil_r. Qed.

Lemma items_ins_none (l : rack) n : rack_items (list_ins l n None) = rack_items l.
Proof.
  revert n; induction l as [|x r IH]; intros [|n]; simpl; try reflexivity. now rewrite IH.
Qed.
Lemma items_del_none (l : rack) n : nth_error l n = Some None -> rack_items (list_del l n) = rack_items l.
Proof.
  revert n; induction l as [|x r IH]; intros [|n]; simpl; intros H; try discriminate.
  - now injection H as ->.
  - now rewrite IH.
Qed.

Theorem rack_append_CI s f k i :
  CI (fst s) -> has_fit (fst s) f -> CI (fst (fst (rack_append s f k i))).
Proof.
  intros C Hf. unfold rack_append.
  destruct (cls_of (fst s) i) as [c|] eqn:Hc; [|exact C].
  destruct (rack_accepts k c) eqn:Ha; cbn [negb]; [|exact C].
  destruct (has_container (fst s) i) eqn:Hn; [exact C|]. cbn [fst].
  eapply rack_add_CI; eauto. rewrite rack_items_app. simpl. rewrite <- Permutation_cons_append. reflexivity.
Qed.

Theorem rack_insert_CI s f k idx v :
  CI (fst s) -> has_fit (fst s) f -> CI (fst (fst (rack_insert s f k idx v))).
Proof.
  intros C Hf. unfold rack_insert.
  destruct v as [i|].
  - destruct (cls_of (fst s) i) as [c|] eqn:Hc; cbn [negb]; [|exact C].
    destruct (rack_accepts k c) eqn:Ha; cbn [negb]; [|exact C].
    destruct (has_container (fst s) i) eqn:Hn; cbn [fst].
    + apply rack_same_CI; auto. now rewrite cleanup_items, items_allocate.
    + eapply rack_add_CI; eauto. unfold ins_list. rewrite items_ins. now rewrite items_allocate.
  - cbn [negb fst]. apply rack_same_CI; auto. unfold ins_list.
    now rewrite cleanup_items, items_ins_none, items_allocate.
Qed.

Lemma place_alloc_hole l idx n :
  norm_index (length l) idx = None -> norm_index (length (allocate l idx)) idx = Some n ->
  nth_error (allocate l idx) n = Some None.
Proof.
  intros En En'. apply nth_error_allocate_hole; [|now apply norm_index_bound in En'].
  unfold norm_index in En, En'.
  set (len := length l) in *. set (len' := length (allocate l idx)) in *.
  assert (len <= len')%nat by (subst len len'; unfold allocate; rewrite app_length; lia).
  destruct (idx <? 0)%Z eqn:Z0.
  - exfalso. assert (len' = len).
    { subst len len'. unfold allocate. rewrite app_length, repeat_length.
      apply Z.ltb_lt in Z0. lia. }
    rewrite H0 in En'. rewrite En in En'. discriminate.
  - destruct ((0 <=? idx)%Z && (idx <? Z.of_nat len)%Z) eqn:B; [discriminate|].
    destruct ((0 <=? idx)%Z && (idx <? Z.of_nat len')%Z) eqn:B'; [|discriminate].
    injection En' as <-. apply andb_true_iff in B'. apply andb_false_iff in B.
    apply Z.ltb_ge in Z0. destruct B as [B|B]; [apply Z.leb_gt in B; lia|].
    apply Z.ltb_ge in B. lia.
Qed.

Theorem rack_place_CI s f k idx i :
  CI (fst s) -> has_fit (fst s) f -> CI (fst (fst (rack_place s f k idx i))).
Proof.
  intros C Hf. unfold rack_place.
  destruct (cls_of (fst s) i) as [c|] eqn:Hc; [|exact C].
  destruct (rack_accepts k c) eqn:Ha; cbn [negb]; [|exact C].
  set (l := get_rack (fst s) f k).
  assert (P : forall l1, rack_items l1 = rack_items l ->
                         forall n, nth_error l1 n = Some None ->
    CI (fst (fst (if has_container (fst s) i
                  then (set_rack s f k (cleanup (list_set l1 n None)), RExn XValue)
                  else (add_item F (set_rack s f k (list_set l1 n (Some i))) i (PRack f k), ROk))))).
  { intros l1 E1 n Hn. destruct (has_container (fst s) i) eqn:Hh; cbn [fst].
    - apply rack_same_CI; auto. rewrite cleanup_items, list_set_id by exact Hn. exact E1.
    - eapply rack_add_CI; eauto. rewrite items_set_fill by exact Hn. fold l. now rewrite E1. }
  destruct (norm_index (length l) idx) as [n|] eqn:En.
  - destruct (nth_error l n) as [[j|]|] eqn:Ej; [exact C| |].
    + now apply P.
    + apply norm_index_bound in En. apply nth_error_None in Ej. lia.
  - destruct (norm_index (length (allocate l idx)) idx) as [n|] eqn:En'; [|exact C].
    apply P; [apply items_allocate|now apply place_alloc_hole].
Qed.

Theorem rack_equip_CI s f k i :
  CI (fst s) -> has_fit (fst s) f -> CI (fst (fst (rack_equip s f k i))).
Proof.
  intros C Hf. unfold rack_equip.
  destruct (cls_of (fst s) i) as [c|] eqn:Hc; [|exact C].
  destruct (rack_accepts k c) eqn:Ha; cbn [negb]; [|exact C].
  set (l := get_rack (fst s) f k).
  destruct (equip_list l i) as [l1 n] eqn:E.
  unfold equip_list in E. destruct (find_index is_hole l) as [m|] eqn:Fi.
  - injection E as <- <-. destruct (equip_first_hole l i m Fi) as (_ & Hm & _).
    destruct (has_container (fst s) i) eqn:Hh; cbn [fst].
    + apply rack_same_CI; auto. now rewrite cleanup_items, list_set_set, list_set_id.
    + eapply rack_add_CI; eauto. now rewrite items_set_fill.
  - injection E as <- <-.
    destruct (has_container (fst s) i) eqn:Hh; cbn [fst].
    + apply rack_same_CI; auto. rewrite cleanup_items, list_set_app_end, rack_items_app. simpl. apply app_nil_r.
    + eapply rack_add_CI; eauto. rewrite rack_items_app. simpl. rewrite <- Permutation_cons_append. reflexivity.
Qed.

Lemma rack_locate_nth l a n v : rack_locate l a = inl (n, v) -> nth_error l n = Some v.
Proof.
  unfold rack_locate. destruct a as [v0|idx].
  - destruct (find_index _ l) as [m|] eqn:Fi; [|discriminate]. intros [= <- <-].
    destruct (find_index_spec _ _ _ Fi) as ((x & Hx & Px) & _). rewrite Hx. f_equal.
    destruct x as [a|], v0 as [b|]; simpl in Px; try discriminate; [|reflexivity].
    apply Nat.eqb_eq in Px. now subst.
  - destruct (norm_index (length l) idx) as [m|]; [|discriminate].
    destruct (nth_error l m) as [y|] eqn:E; [|discriminate]. now intros [= <- <-].
Qed.

Lemma in_rack_items l n i : nth_error l n = Some (Some i) -> In i (rack_items l).
Proof.
  intros H. apply nth_error_In in H. unfold rack_items. apply in_flat_map. exists (Some i). split; [exact H|now left].
Qed.

(* an item leaves rack (f, k), whose list becomes l3 *)
Lemma rack_del_CI s f k i l3 :
  CI (fst s) -> has_fit (fst s) f -> In i (rack_items (get_rack (fst s) f k)) ->
  Permutation (i :: rack_items l3) (rack_items (get_rack (fst s) f k)) ->
  CI (fst (set_rack (remove_item F s i) f k l3)).
Proof.
  intros C Hf Hin Pm. pose proof C as (_ & M & _).
  assert (Hfc : fitcont (fst s) i = Some (PRack f k)) by (apply M; now rewrite members_rack).
  assert (Hf2 : has_fit (fst (remove_item F s i)) f) by now apply has_fit_remove_item.
  eapply (CI_remove s); eauto.
  - apply same_items_set_rack.
  - unfold set_rack, lift. cbn [fst]. rewrite members_put_rack_same by exact Hf2. now rewrite members_rack.
  - intros q N. unfold set_rack, lift. cbn [fst]. rewrite members_put_rack_other by exact N.
    apply members_fits, fits_remove_item.
Qed.

Theorem rack_remove_CI s f k a :
  CI (fst s) -> has_fit (fst s) f -> CI (fst (fst (rack_remove s f k a))).
Proof.
  intros C Hf. unfold rack_remove.
  destruct (rack_locate _ a) as [[n v]|e] eqn:L; [|exact C].
  apply rack_locate_nth in L. cbn [fst]. destruct v as [i|].
  - rewrite get_rack_remove_item. apply rack_del_CI; auto.
    + eapply in_rack_items; eauto.
    + rewrite cleanup_items. now apply items_del.
  - apply rack_same_CI; auto. rewrite cleanup_items. now apply items_del_none.
Qed.

Theorem rack_free_CI s f k a :
  CI (fst s) -> has_fit (fst s) f -> CI (fst (fst (rack_free s f k a))).
Proof.
  intros C Hf. unfold rack_free.
  destruct (rack_locate _ a) as [[n [i|]]|e] eqn:L; try exact C.
  apply rack_locate_nth in L. cbn [fst].
  rewrite get_rack_remove_item. apply rack_del_CI; auto.
  - eapply in_rack_items; eauto.
  - rewrite cleanup_items. now apply items_set_empty.
Qed.

(* ------------------------------------------------------------------ *)
(* clearing a container: items leave one by one, the list is emptied last *)

Definition CIp (w : world) (p : place) (D : list nat) : Prop :=
  J w /\ (forall q i, In i (members w q) <-> fitcont w i = Some q \/ (q = p /\ In i D)) /\
  (forall i, In i D -> fitcont w i = None) /\ (forall q, NoDup (members w q)).

Lemma CI_CIp w p : CI w -> CIp w p [].
Proof.
  intros (Jw & M & ND). split; [exact Jw|split; [|split; [intros i []|exact ND]]].
  intros q i. rewrite M. split; [now left|]. intros [H|(_ & [])]. exact H.
Qed.

Lemma CIp_remove s p D i :
  CIp (fst s) p D -> fitcont (fst s) i = Some p -> CIp (fst (remove_item F s i)) p (i :: D).
Proof.
  intros (Jw & M & HD & ND) Hi.
  pose proof (remove_item_ownership 11 s i Jw) as (Hf & _ & J2 & _). fold F in Hf, J2.
  assert (Mem : forall q, members (fst (remove_item F s i)) q = members (fst s) q)
    by (intros q; apply members_fits, fits_remove_item).
  split; [exact J2|split; [|split]].
  - intros q j. rewrite Mem, M, Hf. destruct (Nat.eqb j i) eqn:E.
    + apply Nat.eqb_eq in E. subst j. rewrite Hi. split.
      * intros [[= <-]|(-> & _)]; right; (split; [reflexivity|now left]).
      * intros [H|(-> & _)]; [discriminate|now left].
    + apply Nat.eqb_neq in E. simpl. split; intros [H|(Hq & H)]; auto.
      destruct H as [->|H]; [congruence|auto].
  - intros j Hj. rewrite Hf. destruct (Nat.eqb j i) eqn:E; [reflexivity|].
    apply Nat.eqb_neq in E. destruct Hj as [->|Hj]; [congruence|now apply HD].
  - intros q. rewrite Mem. apply ND.
Qed.

Lemma fold_remove_fits l : forall s,
  w_fits (fst (fold_left (fun s i => remove_item F s i) l s)) = w_fits (fst s).
Proof. induction l as [|i r IH]; intros s; simpl; [reflexivity|]. rewrite IH. apply fits_remove_item. Qed.

Lemma CIp_fold p l : forall s D,
  CIp (fst s) p D -> NoDup l -> (forall i, In i l -> In i (members (fst s) p) /\ ~ In i D) ->
  CIp (fst (fold_left (fun s i => remove_item F s i) l s)) p (rev l ++ D).
Proof.
  induction l as [|i r IH]; intros s D C ND H; simpl; [exact C|].
  rewrite <- app_assoc. simpl. inversion ND as [|? ? Hnin NDr]; subst.
  destruct (H i (or_introl eq_refl)) as (Hm & HnD).
  assert (Hi : fitcont (fst s) i = Some p).
  { destruct C as (_ & M & _). apply M in Hm. destruct Hm as [Hm|(_ & Hm)]; [exact Hm|contradiction]. }
  apply IH; [now apply CIp_remove|exact NDr|].
  intros j Hj. destruct (H j (or_intror Hj)) as (Hjm & HjD). split.
  - rewrite (members_fits (fst s)); [exact Hjm|apply fits_remove_item].
  - intros [->|Hd]; contradiction.
Qed.

Lemma CIp_finish w w' p D :
  CIp w p D -> (forall i, In i (members w p) -> In i D) -> same_items w w' ->
  members w' p = [] -> (forall q, q <> p -> members w' q = members w q) -> CI w'.
Proof.
  intros (Jw & M & HD & ND) All S Ep Oth. split; [eapply same_items_J; eauto|split].
  - intros q i. rewrite (same_items_fitcont _ _ i S). destruct (place_eq_dec q p) as [->|N].
    + rewrite Ep. split; [intros []|]. intros H.
      assert (Hm : In i (members w p)) by (apply M; now left).
      apply All, HD in Hm. congruence.
    + rewrite Oth by exact N. rewrite M. split; [|now left]. intros [H|(Hq & _)]; [exact H|contradiction].
  - intros q. destruct (place_eq_dec q p) as [->|N]; [rewrite Ep; constructor|].
    rewrite Oth by exact N. apply ND.
Qed.

Lemma fold_rack_items (f : st -> nat -> st) l : forall s,
  fold_left (fun s v => match v with Some i => f s i | None => s end) l s = fold_left f (rack_items l) s.
Proof. induction l as [|[i|] r IH]; intros s; simpl; auto. Qed.

Theorem rack_clear_CI s f k :
  CI (fst s) -> has_fit (fst s) f -> CI (fst (fst (rack_clear s f k))).
Proof.
  intros C Hf. unfold rack_clear. cbn [fst]. rewrite fold_rack_items.
  set (l := rack_items (get_rack (fst s) f k)).
  match goal with |- context[fold_left ?g l s] => set (s2 := fold_left g l s) end.
  assert (Hfits : w_fits (fst s2) = w_fits (fst s)) by apply fold_remove_fits.
  assert (C2 : CIp (fst s2) (PRack f k) (rev l ++ [])).
  { apply CIp_fold; [now apply CI_CIp| |].
    - destruct C as (_ & _ & ND). specialize (ND (PRack f k)). now rewrite members_rack in ND.
    - intros i Hi. split; [now rewrite members_rack|intros []]. }
  eapply CIp_finish; [exact C2| |apply same_items_set_rack| |].
  - intros i Hi. rewrite (members_fits (fst s)) in Hi by exact Hfits. rewrite members_rack in Hi.
    rewrite app_nil_r. now apply in_rev in Hi.
  - unfold set_rack, lift. cbn [fst]. apply members_put_rack_same.
    destruct Hf as [ft Hft]. exists ft. unfold get_fit in *. now rewrite Hfits.
  - intros q N. unfold set_rack, lift. cbn [fst]. now apply members_put_rack_other.
Qed.

(* ------------------------------------------------------------------ *)
(* sets                                                                 *)

Lemma members_set w f k : members w (PSet f k) = get_setc w f k.
Proof. unfold members, get_setc. simpl. destruct (get_fit w f); reflexivity. Qed.

Lemma members_put_setc_same w f k l :
  has_fit w f -> members (put_setc w f k l) (PSet f k) = l.
Proof. intros H. rewrite members_set. now rewrite get_setc_put. Qed.

Lemma members_put_setc_other w f k l q :
  q <> PSet f k -> members (put_setc w f k l) q = members w q.
Proof.
  intros N. unfold put_setc. destruct (get_fit w f) as [ft|] eqn:H.
  - rewrite (members_upd_fit w f _ ft q H).
    destruct q as [f' k'|f' k'|f' k'|x|x]; simpl pfit; cbv iota; try reflexivity;
      (destruct (Nat.eqb f' f) eqn:E; [|reflexivity]); apply Nat.eqb_eq in E; subst f';
        unfold members; simpl pfit; cbv iota; rewrite H.
    + destruct ft, k, k'; reflexivity.
    + destruct ft, k, k'; try reflexivity; congruence.
    + destruct ft, k, k'; reflexivity.
  - unfold upd_fit. rewrite H. apply members_fits. unfold fail. destruct (w_err w); reflexivity.
Qed.

Lemma members_put_skillmap w f m q : members (put_skillmap w f m) q = members w q.
Proof.
  unfold put_skillmap. destruct (get_fit w f) as [ft|] eqn:H.
  - rewrite (members_upd_fit w f _ ft q H).
    destruct q as [f' k'|f' k'|f' k'|x|x]; simpl pfit; cbv iota; try reflexivity;
      (destruct (Nat.eqb f' f) eqn:E; [|reflexivity]); apply Nat.eqb_eq in E; subst f';
        unfold members; simpl pfit; cbv iota; rewrite H; destruct ft, k'; reflexivity.
  - unfold upd_fit. rewrite H. apply members_fits. unfold fail. destruct (w_err w); reflexivity.
Qed.

Lemma CI_put_skillmap (s : st) f g :
  CI (fst s) -> CI (fst (lift s (fun w => put_skillmap w f (g w)))).
Proof.
  intros C. unfold lift. cbn [fst]. eapply CI_same; [exact C| |].
  - unfold put_skillmap. apply same_items_upd_fit.
  - intros q. apply members_put_skillmap.
Qed.

Lemma has_fit_put_skillmap w f f' m : has_fit w f -> has_fit (put_skillmap w f' m) f.
Proof.
  intros [ft H]. unfold put_skillmap, upd_fit. destruct (get_fit w f') as [ft'|] eqn:E.
  - unfold has_fit, get_fit, put_fit. simpl. destruct (Nat.eq_dec f' f) as [->|N].
    + rewrite al_get_set_same. eauto.
    + rewrite al_get_set_other by exact N. eauto.
  - unfold has_fit, get_fit, fail in *. destruct (w_err w); simpl; eauto.
Qed.

Lemma mem_In l i : mem neqb l i = true <-> In i l.
Proof.
  induction l as [|y r IH]; simpl; [split; [discriminate|tauto]|].
  rewrite orb_true_iff, IH. unfold neqb. rewrite Nat.eqb_eq. split; intros [H|H]; auto.
Qed.
Lemma set_rm_app_last l i : ~ In i l -> set_rm neqb (l ++ [i]) i = l.
Proof.
  induction l as [|y r IH]; simpl; intros H.
  - unfold neqb. now rewrite Nat.eqb_refl.
  - unfold neqb at 1. destruct (Nat.eqb i y) eqn:E; [apply Nat.eqb_eq in E; subst; tauto|].
    f_equal. apply IH. tauto.
Qed.
Lemma set_rm_perm l i : In i l -> Permutation (i :: set_rm neqb l i) l.
Proof.
  induction l as [|y r IH]; simpl; intros H; [contradiction|].
  unfold neqb at 1. destruct (Nat.eqb i y) eqn:E.
  - apply Nat.eqb_eq in E. now subst.
  - apply Nat.eqb_neq in E. destruct H as [->|H]; [congruence|].
    rewrite perm_swap. constructor. now apply IH.
Qed.

Lemma set_accepts_not_child k c : set_accepts k c = true -> ~ childcls c.
Proof. destruct k, c; simpl; intros H [C|C]; congruence. Qed.

Lemma same_items_put_setc w f k l : same_items w (put_setc w f k l).
Proof. unfold put_setc. apply same_items_upd_fit. Qed.

Theorem itemset_add_CI s f k i :
  CI (fst s) -> has_fit (fst s) f -> CI (fst (fst (itemset_add s f k i))).
Proof.
  intros C Hf. unfold itemset_add.
  destruct (cls_of (fst s) i) as [c|] eqn:Hc; [|exact C].
  destruct (set_accepts k c) eqn:Ha; cbn [negb]; [|exact C].
  set (l := get_setc (fst s) f k).
  destruct (has_container (fst s) i) eqn:Hn.
  - (* raising *)
    unfold set_add. destruct (mem neqb l i) eqn:Hm; cbn [fst].
    + unfold lift. cbn [fst]. fold l. rewrite Hm. eapply CI_same; [exact C|apply same_items_put_setc|].
      intros q. destruct (place_eq_dec q (PSet f k)) as [->|N].
      * rewrite members_put_setc_same by exact Hf. now rewrite members_set.
      * now apply members_put_setc_other.
    + unfold lift. cbn [fst]. fold l. rewrite Hm.
      assert (Hf1 : has_fit (put_setc (fst s) f k (l ++ [i])) f).
      { destruct Hf as [ft Hft]. unfold put_setc, upd_fit. rewrite Hft. unfold has_fit, get_fit, put_fit. simpl.
        rewrite al_get_set_same. eauto. }
      eapply CI_same; [exact C| |].
      * destruct (same_items_put_setc (fst s) f k (l ++ [i])) as (A1 & A2).
        destruct (same_items_put_setc (put_setc (fst s) f k (l ++ [i])) f k
                   (set_rm neqb (get_setc (put_setc (fst s) f k (l ++ [i])) f k) i)) as (B1 & B2).
        split; congruence.
      * intros q. destruct (place_eq_dec q (PSet f k)) as [->|N].
        -- rewrite members_put_setc_same by exact Hf1. rewrite get_setc_put by exact Hf.
           rewrite set_rm_app_last; [now rewrite members_set|].
           intros H. apply mem_In in H. congruence.
        -- rewrite !members_put_setc_other by exact N. reflexivity.
  - (* success *)
    cbn [fst]. destruct (cls_of_some _ _ _ Hc) as (it & Hi & Ec).
    assert (Hfc : fitcont (fst s) i = None) by now apply has_container_fitcont.
    assert (Hm : mem neqb l i = false).
    { destruct (mem neqb l i) eqn:Hm; [|reflexivity]. apply mem_In in Hm.
      destruct C as (_ & M & _). unfold l in Hm. rewrite <- members_set in Hm. apply M in Hm. congruence. }
    eapply (CI_add s); eauto.
    + unfold lift. cbn [fst]. apply same_items_put_setc.
    + subst c. now apply set_accepts_not_child in Ha.
    + unfold lift. cbn [fst]. rewrite members_put_setc_same by exact Hf. rewrite members_set.
      unfold set_add. fold l. rewrite Hm. rewrite <- Permutation_cons_append. reflexivity.
    + intros q N. unfold lift. cbn [fst]. now apply members_put_setc_other.
Qed.

Theorem set_add_op_CI s f k i :
  CI (fst s) -> has_fit (fst s) f -> CI (fst (fst (set_add_op s f k i))).
Proof.
  intros C Hf. unfold set_add_op. destruct k; try (now apply itemset_add_CI).
  destruct (get_item (fst s) i) as [it|]; [|exact C].
  destruct (set_accepts SeSkills (i_cls it)); cbn [negb]; [|exact C].
  destruct (al_mem zeqb _ (i_tid it)); [exact C|].
  set (s1 := lift s _).
  assert (C1 : CI (fst s1)) by (apply (CI_put_skillmap s f (fun w => al_set zeqb (get_skillmap w f) (i_tid it) i)); exact C).
  assert (Hf1 : has_fit (fst s1) f) by (unfold s1, lift; cbn [fst]; now apply has_fit_put_skillmap).
  pose proof (itemset_add_CI s1 f SeSkills i C1 Hf1) as C2.
  destruct (itemset_add s1 f SeSkills i) as [s2 r]. cbn [fst] in C2.
  destruct r; cbn [fst]; try exact C2.
  apply (CI_put_skillmap s2 f (fun w => al_del zeqb (get_skillmap w f) (i_tid it))). exact C2.
Qed.

(* an item leaves set (f, k) *)
Theorem set_remove_op_CI s f k i :
  CI (fst s) -> has_fit (fst s) f -> CI (fst (fst (set_remove_op s f k i))).
Proof.
  intros C Hf. unfold set_remove_op.
  destruct (mem neqb (get_setc (fst s) f k) i) eqn:Hm; cbn [negb]; [|exact C].
  apply mem_In in Hm.
  set (s2 := remove_item F s i).
  set (s3 := lift s2 (fun w => put_setc w f k (set_rm neqb (get_setc w f k) i))).
  assert (C3 : CI (fst s3)).
  { pose proof C as (_ & M & _).
    assert (Hfc : fitcont (fst s) i = Some (PSet f k)) by (apply M; now rewrite members_set).
    assert (Hf2 : has_fit (fst s2) f) by now apply has_fit_remove_item.
    assert (Eg : get_setc (fst s2) f k = get_setc (fst s) f k).
    { unfold get_setc, get_fit, s2. now rewrite fits_remove_item. }
    eapply (CI_remove s); eauto.
    - unfold s3, lift. cbn [fst]. apply same_items_put_setc.
    - unfold s3, lift. cbn [fst]. rewrite members_put_setc_same by exact Hf2. rewrite members_set, Eg.
      now apply set_rm_perm.
    - intros q N. unfold s3, lift. cbn [fst]. rewrite members_put_setc_other by exact N.
      apply members_fits, fits_remove_item. }
  destruct k; try exact C3.
  destruct (get_item (fst s3) i) as [it|]; [|exact C3]. cbn [fst].
  apply (CI_put_skillmap s3 f (fun w => al_del zeqb (get_skillmap w f) (i_tid it))). exact C3.
Qed.

Theorem skill_del_op_CI s f tid :
  CI (fst s) -> has_fit (fst s) f -> CI (fst (fst (skill_del_op s f tid))).
Proof.
  intros C Hf. unfold skill_del_op. destruct (al_get zeqb _ tid); [now apply set_remove_op_CI|exact C].
Qed.

Theorem set_clear_op_CI s f k :
  CI (fst s) -> has_fit (fst s) f -> CI (fst (fst (set_clear_op s f k))).
Proof.
  intros C Hf. unfold set_clear_op.
  set (l := get_setc (fst s) f k).
  match goal with |- context[fold_left ?g l s] => set (s2 := fold_left g l s) end.
  set (s3 := lift s2 (fun w => put_setc w f k [])).
  assert (C3 : CI (fst s3)).
  { assert (Hfits : w_fits (fst s2) = w_fits (fst s)) by apply fold_remove_fits.
    assert (C2 : CIp (fst s2) (PSet f k) (rev l ++ [])).
    { apply CIp_fold; [now apply CI_CIp| |].
      - destruct C as (_ & _ & ND). specialize (ND (PSet f k)). now rewrite members_set in ND.
      - intros i Hi. split; [now rewrite members_set|intros []]. }
    eapply CIp_finish; [exact C2| |apply same_items_put_setc| |].
    - intros i Hi. rewrite (members_fits (fst s)) in Hi by exact Hfits. rewrite members_set in Hi.
      rewrite app_nil_r. now apply in_rev in Hi.
    - apply members_put_setc_same. destruct Hf as [ft Hft]. exists ft. unfold get_fit in *. now rewrite Hfits.
    - intros q N. now apply members_put_setc_other. }
  destruct k; try exact C3. cbn [fst].
  apply (CI_put_skillmap s3 f (fun _ => [])). exact C3.
Qed.

(* ------------------------------------------------------------------ *)
(* slots (ship, stance, character, beacon)                              *)

Definition slot_of (w : world) (f : nat) (k : slotk) : option nat :=
  match get_fit w f with Some ft => fit_slot ft k | None => None end.
Definition store_slot (f : nat) (k : slotk) (w : world) (v : option nat) : world :=
  upd_fit w f (fun ft => fit_set_slot ft k v).

Lemma members_slot w f k : members w (PSlot f k) = opt_list (slot_of w f k).
Proof. unfold members, slot_of. simpl. destruct (get_fit w f); reflexivity. Qed.

Lemma fit_slot_set ft k v : fit_slot (fit_set_slot ft k v) k = v.
Proof. destruct ft, k; reflexivity. Qed.

Lemma members_store_same w f k v : has_fit w f -> members (store_slot f k w v) (PSlot f k) = opt_list v.
Proof.
  intros [ft H]. unfold store_slot. rewrite (members_upd_fit w f _ ft _ H). simpl pfit. cbv iota.
  rewrite Nat.eqb_refl. simpl. now rewrite fit_slot_set.
Qed.

Lemma members_store_other w f k v q : q <> PSlot f k -> members (store_slot f k w v) q = members w q.
Proof.
  intros N. unfold store_slot. destruct (get_fit w f) as [ft|] eqn:H.
  - rewrite (members_upd_fit w f _ ft q H).
    destruct q as [f' k'|f' k'|f' k'|x|x]; simpl pfit; cbv iota; try reflexivity;
      (destruct (Nat.eqb f' f) eqn:E; [|reflexivity]); apply Nat.eqb_eq in E; subst f';
        unfold members; simpl pfit; cbv iota; rewrite H.
    + destruct ft, k, k'; try reflexivity; congruence.
    + destruct ft, k, k'; reflexivity.
    + destruct ft, k, k'; reflexivity.
  - unfold upd_fit. rewrite H. apply members_fits. unfold fail. destruct (w_err w); reflexivity.
Qed.

Lemma same_items_store w f k v : same_items w (store_slot f k w v).
Proof. unfold store_slot. apply same_items_upd_fit. Qed.

Lemma has_fit_upd_fit w f f' g : has_fit w f -> has_fit (upd_fit w f' g) f.
Proof.
  intros [ft H]. unfold upd_fit. destruct (get_fit w f') as [ft'|] eqn:E.
  - unfold has_fit, get_fit, put_fit. simpl. destruct (Nat.eq_dec f' f) as [->|N].
    + rewrite al_get_set_same. eauto.
    + rewrite al_get_set_other by exact N. eauto.
  - unfold has_fit, get_fit, fail in *. destruct (w_err w); simpl; eauto.
Qed.

Lemma same_items_trans a b c : same_items a b -> same_items b c -> same_items a c.
Proof. intros (A1 & A2) (B1 & B2). split; congruence. Qed.
Lemma same_items_sym a b : same_items a b -> same_items b a.
Proof. intros (A1 & A2). split; congruence. Qed.

Lemma slot_accepts_not_child k c : slot_accepts k c = true -> ~ childcls c.
Proof. destruct k, c; simpl; intros H [C|C]; congruence. Qed.

Lemma fitcont_some_cls w i p :
  J w -> fitcont w i = Some p -> exists c, cls_of w i = Some c /\ ~ childcls c.
Proof.
  intros (_ & J3 & _) H. unfold fitcont in H. unfold cls_of. destruct (get_item w i) as [it|] eqn:E; [|discriminate].
  exists (i_cls it). split; [reflexivity|]. intros C. rewrite (J3 _ _ E C) in H. discriminate.
Qed.

(* the slot is vacated: the old occupant (if any) is removed and the slot emptied *)
Lemma slot_vacate s f k :
  CI (fst s) -> has_fit (fst s) f ->
  let old := slot_of (fst s) f k in
  let s1 := match old with Some o => remove_item F s o | None => s end in
  CI (store_slot f k (fst s1) None) /\ has_fit (fst s1) f /\ cls_kept (fst s) (fst s1) /\
  (forall o, old = Some o -> fitcont (fst s1) o = None /\
                             exists c, cls_of (fst s) o = Some c /\ ~ childcls c).
Proof.
  intros C Hf old s1. pose proof C as (Jw & M & _).
  destruct old as [o|] eqn:Eo; subst s1.
  - assert (Hm : In o (members (fst s) (PSlot f k))) by (rewrite members_slot; fold old; rewrite Eo; now left).
    assert (Hfc : fitcont (fst s) o = Some (PSlot f k)) by now apply M.
    pose proof (remove_item_ownership 11 s o Jw) as (Hff & _ & J2 & Ck). fold F in Hff, J2, Ck.
    assert (Hf2 : has_fit (fst (remove_item F s o)) f) by now apply has_fit_remove_item.
    split; [|split; [exact Hf2|split; [exact Ck|]]].
    + eapply (CI_remove s (store_slot f k (fst (remove_item F s o)) None, [])); eauto.
      * cbn [fst]. apply same_items_store.
      * cbn [fst]. rewrite members_store_same by exact Hf2. rewrite members_slot. fold old. rewrite Eo. reflexivity.
      * intros q N. cbn [fst]. rewrite members_store_other by exact N. apply members_fits, fits_remove_item.
    + intros o' [= <-]. split; [rewrite Hff; now rewrite Nat.eqb_refl|]. eapply fitcont_some_cls; eauto.
  - split; [|split; [exact Hf|split; [intros j c E; exact E|intros o' [=]]]].
    eapply CI_same; [exact C|apply same_items_store|].
    intros q. destruct (place_eq_dec q (PSlot f k)) as [->|N].
    + rewrite members_store_same by exact Hf. rewrite members_slot. fold old. now rewrite Eo.
    + now apply members_store_other.
Qed.

Theorem slot_set_op_CI s f k new :
  CI (fst s) -> has_fit (fst s) f -> CI (fst (fst (slot_set_op s f k new))).
Proof.
  intros C Hf. unfold slot_set_op, descriptor_set.
  change (match get_fit (fst s) f with Some ft => fit_slot ft k | None => None end) with (slot_of (fst s) f k).
  destruct (slot_vacate s f k C Hf) as (C0 & Hf1 & Ck & Hold). cbv zeta in C0, Hf1, Ck, Hold.
  set (old := slot_of (fst s) f k) in *.
  set (s1 := match old with Some o => remove_item F s o | None => s end) in *.
  destruct new as [i|]; [|cbn [negb fst]; exact C0].
  destruct (cls_of (fst s) i) as [c|] eqn:Hc; cbn [negb]; [|exact C].
  destruct (slot_accepts k c) eqn:Ha; cbn [negb]; [|exact C].
  set (s2 := lift s1 (fun w => upd_fit w f (fun ft => fit_set_slot ft k (Some i)))).
  assert (E2 : fst s2 = store_slot f k (fst s1) (Some i)) by reflexivity.
  assert (S02 : same_items (store_slot f k (fst s1) None) (fst s2)).
  { eapply same_items_trans; [apply same_items_sym, same_items_store|].
    rewrite E2. apply same_items_store. }
  destruct (has_container (fst s2) i) eqn:Hh.
  - (* the new item already has a container: the old occupant is put back *)
    cbn [fst]. set (s3 := lift s2 (fun w => upd_fit w f (fun ft => fit_set_slot ft k old))).
    assert (E3 : fst s3 = store_slot f k (fst s2) old) by reflexivity.
    assert (Hf2 : has_fit (fst s2) f) by (rewrite E2; now apply has_fit_upd_fit).
    assert (S03 : same_items (store_slot f k (fst s1) None) (fst s3)).
    { eapply same_items_trans; [exact S02|]. rewrite E3. apply same_items_store. }
    assert (M3 : members (fst s3) (PSlot f k) = opt_list old)
      by (rewrite E3; now apply members_store_same).
    assert (O3 : forall q, q <> PSlot f k -> members (fst s3) q = members (store_slot f k (fst s1) None) q).
    { intros q N. rewrite E3, members_store_other, E2 by exact N. now rewrite !members_store_other by exact N. }
    destruct old as [o|] eqn:Eo.
    + destruct (Hold o eq_refl) as (Hfo & co & Hco & Hnc).
      destruct (cls_of_some _ _ _ (Ck _ _ Hco)) as (ito & Hio & Eco).
      eapply (CI_add (store_slot f k (fst s1) None, []) s3); cbn [fst]; eauto.
      * rewrite (same_items_get _ _ o (same_items_store (fst s1) f k None)). exact Hio.
      * rewrite (same_items_fitcont _ _ o (same_items_store (fst s1) f k None)). exact Hfo.
      * now rewrite Eco.
      * rewrite M3. rewrite members_store_same by exact Hf1. reflexivity.
    + eapply CI_same; [exact C0|exact S03|].
      intros q. destruct (place_eq_dec q (PSlot f k)) as [->|N]; [|now apply O3].
      rewrite M3. now rewrite members_store_same.
  - cbn [fst]. destruct (cls_of_some _ _ _ (Ck _ _ Hc)) as (it & Hi & Ec).
    eapply (CI_add (store_slot f k (fst s1) None, []) s2); cbn [fst]; eauto.
    + rewrite (same_items_get _ _ i (same_items_store (fst s1) f k None)). exact Hi.
    + rewrite <- (same_items_fitcont _ _ i S02). now apply has_container_fitcont.
    + rewrite Ec. now apply slot_accepts_not_child in Ha.
    + rewrite E2. rewrite !members_store_same by exact Hf1. reflexivity.
    + intros q N. rewrite E2. now rewrite !members_store_other by exact N.
Qed.

(* ------------------------------------------------------------------ *)
(* steps that change no container and no container reference            *)

Definition MK (w w' : world) : Prop := KEEP w w' /\ (forall q, members w' q = members w q).

Lemma MK_refl w : J w -> MK w w.
Proof. intros H. split; [now apply KEEP_refl|reflexivity]. Qed.
Lemma MK_trans a b c : MK a b -> MK b c -> MK a c.
Proof. intros (K1 & M1) (K2 & M2). split; [eapply KEEP_trans; eauto|intros q; now rewrite M2, M1]. Qed.
Lemma MK_J w w' : MK w w' -> J w'.
Proof. intros ((_ & _ & H & _) & _). exact H. Qed.

Lemma CI_MK w w' : CI w -> MK w w' -> CI w'.
Proof.
  intros (Jw & M & ND) ((Hf & _ & J' & _) & Mem). split; [exact J'|split].
  - intros q i. now rewrite Mem, Hf.
  - intros q. rewrite Mem. apply ND.
Qed.

Lemma fits_of_structure w w' : structure w' = structure w -> w_fits w' = w_fits w.
Proof. unfold structure. congruence. Qed.

Lemma MK_of_KEEP w w' : KEEP w w' -> structure w' = structure w -> MK w w'.
Proof. intros K S. split; [exact K|]. intros q. apply members_fits. now apply fits_of_structure. Qed.
Lemma MK_of_FC w w' : J w -> FC w w' -> structure w' = structure w -> MK w w'.
Proof. intros Jw F S. apply MK_of_KEEP; [now apply KEEP_of_FC|exact S]. Qed.

Lemma same_items_KEEP w w' : J w -> same_items w w' -> KEEP w w'.
Proof.
  intros Jw S. split; [|split; [|split; [eapply same_items_J; eauto|]]].
  - intros j. now apply same_items_fitcont.
  - destruct S as (_ & ->). lia.
  - intros j c E. unfold cls_of in *. now rewrite (same_items_get _ _ j S).
Qed.
Lemma MK_same_items w w' :
  J w -> same_items w w' -> (forall q, members w' q = members w q) -> MK w w'.
Proof. intros Jw S M. split; [now apply same_items_KEEP|exact M]. Qed.

Lemma MK_fold {A} (f : st -> A -> st) l :
  (forall s x, J (fst s) -> MK (fst s) (fst (f s x))) ->
  forall s, J (fst s) -> MK (fst s) (fst (fold_left f l s)).
Proof.
  intros H. induction l as [|x r IH]; intros s Js; simpl; [now apply MK_refl|].
  pose proof (H s x Js) as K. eapply MK_trans; [exact K|]. apply IH. eapply MK_J; eauto.
Qed.

Lemma MK_lift_FC (s : st) g :
  J (fst s) -> (forall w, FC w (g w)) -> (forall w, structure (g w) = structure w) -> MK (fst s) (fst (lift s g)).
Proof. intros Js H S. unfold lift. cbn [fst]. now apply MK_of_FC. Qed.
Lemma MK_with_msgs (s : st) f g :
  J (fst s) -> (forall w, FC w (fst (g w))) -> (forall w, structure (fst (g w)) = structure w) ->
  MK (fst s) (fst (with_msgs s f g)).
Proof.
  intros Js H S. unfold with_msgs. specialize (H (fst s)). specialize (S (fst s)).
  destruct (g (fst s)) as [w m]. cbn [fst] in *. now apply MK_of_FC.
Qed.
Lemma MK_fail (s : st) e : J (fst s) -> MK (fst s) (fst (lift s (fun w => fail w e))).
Proof. intros Js. apply MK_lift_FC; [exact Js|intros; apply FC_fail|intros; apply S_fail]. Qed.

Lemma MK_load n s i : J (fst s) -> MK (fst s) (fst (load n s i)).
Proof. intros Js. apply MK_of_KEEP; [now apply load_KEEP|apply S_load]. Qed.
Lemma MK_unload n s i : J (fst s) -> MK (fst s) (fst (unload n s i)).
Proof. intros Js. apply MK_of_KEEP; [now apply unload_KEEP|apply S_unload]. Qed.

(* a change of a fit record that leaves every container of the fit alone *)
Lemma members_upd_fit_cmem w f g q :
  (forall ft, cmem (g ft) q = cmem ft q) -> members (upd_fit w f g) q = members w q.
Proof.
  intros H. destruct (get_fit w f) as [ft|] eqn:E.
  - rewrite (members_upd_fit w f g ft q E). unfold members. destruct (pfit q) as [f'|]; [|reflexivity].
    destruct (Nat.eqb f' f) eqn:B; [|reflexivity]. apply Nat.eqb_eq in B. subst. now rewrite E, H.
  - unfold upd_fit. rewrite E. apply members_fits. unfold fail. destruct (w_err w); reflexivity.
Qed.
Lemma MK_upd_fit_cmem w f g :
  J w -> (forall ft q, cmem (g ft) q = cmem ft q) -> MK w (upd_fit w f g).
Proof.
  intros Jw H. apply MK_same_items; [exact Jw|apply same_items_upd_fit|].
  intros q. apply members_upd_fit_cmem. intros ft. apply H.
Qed.
Lemma cmem_set_fleet ft v q : cmem (fit_set_fleet ft v) q = cmem ft q.
Proof. destruct ft, q as [? []|? []|? []| |]; reflexivity. Qed.
Lemma cmem_set_solsys ft v q : cmem (fit_set_solsys ft v) q = cmem ft q.
Proof. destruct ft, q as [? []|? []|? []| |]; reflexivity. Qed.

Lemma MK_fits_only w w' :
  J w -> w_items w' = w_items w -> w_next w' = w_next w -> w_fits w' = w_fits w -> MK w w'.
Proof.
  intros Jw A B C. apply MK_same_items; [exact Jw|split; assumption|]. intros q. now apply members_fits.
Qed.

(* ------------------------------------------------------------------ *)
(* charges                                                              *)

Lemma icls_eqb_charge c : icls_eqb c CCharge = true -> c = CCharge.
Proof. destruct c; simpl; congruence. Qed.

Lemma MK_remove_child s o :
  J (fst s) -> cls_of (fst s) o = Some CCharge -> MK (fst s) (fst (remove_item F s o)).
Proof.
  intros Js Hc. apply MK_of_KEEP; [|apply S_remove_item].
  eapply OW_same_KEEP; [apply (remove_item_ownership 11 s o Js)|].
  apply J_cls_fitcont; [exact Js|now right].
Qed.

Lemma MK_add_child s i m :
  J (fst s) -> cls_of (fst s) i = Some CCharge -> MK (fst s) (fst (add_item F s i (PCharge m))).
Proof.
  intros Js Hc. apply MK_of_KEEP; [|apply S_add_item].
  destruct (cls_of_some _ _ _ Hc) as (it & Hi & _).
  eapply OW_same_KEEP; [apply (add_item_ownership 11 s i (PCharge m) it Js Hi); simpl; congruence|].
  simpl. apply J_cls_fitcont; [exact Js|now right].
Qed.

Lemma MK_store_charge w m v :
  J w -> (forall o, v = Some o -> cls_of w o = Some CCharge) ->
  MK w (upd_item w m (fun it => it_set_charge it v)).
Proof.
  intros Jw Hv. apply MK_of_KEEP; [|apply S_upd_item].
  unfold upd_item. destruct (get_item w m) as [it|] eqn:Hm; [|apply KEEP_of_FC; [exact Jw|apply FC_fail]].
  eapply KEEP_put; eauto.
  intros e a Hin. simpl in Hin. destruct Jw as (_ & _ & J4 & _). eapply J4; eauto.
Qed.

Theorem charge_set_op_MK s m new : J (fst s) -> MK (fst s) (fst (fst (charge_set_op s m new))).
Proof.
  intros Js. unfold charge_set_op. destruct (get_item (fst s) m) as [it|] eqn:Hm; [|now apply MK_refl].
  unfold descriptor_set.
  assert (Hnew : forall i, new = Some i ->
            match cls_of (fst s) i with Some c => icls_eqb c CCharge | None => false end = true ->
            cls_of (fst s) i = Some CCharge).
  { intros i _ H. destruct (cls_of (fst s) i) as [c|]; [|discriminate]. now rewrite (icls_eqb_charge c H). }
  match goal with |- context[negb ?b] => destruct b eqn:Hok end; cbn [negb]; [|now apply MK_refl].
  assert (Hold : forall o, i_charge it = Some o -> cls_of (fst s) o = Some CCharge).
  { intros o Ho. destruct Js as (_ & _ & _ & J5). eapply J5; eauto. }
  set (s1 := match i_charge it with Some o => remove_item F s o | None => s end).
  assert (K1 : MK (fst s) (fst s1)).
  { subst s1. destruct (i_charge it) as [o|]; [apply MK_remove_child; auto|now apply MK_refl]. }
  pose proof K1 as ((_ & _ & J1 & Ck1) & _).
  set (s2 := lift s1 (fun w => upd_item w m (fun it0 => it_set_charge it0 new))).
  assert (K2 : MK (fst s1) (fst s2)).
  { unfold s2, lift. cbn [fst]. apply MK_store_charge; [exact J1|].
    intros i ->. apply Ck1. now apply Hnew. }
  pose proof K2 as ((_ & _ & J2 & Ck2) & _).
  destruct new as [i|]; [|cbn [fst]; eapply MK_trans; eauto].
  specialize (Hnew i eq_refl Hok).
  destruct (has_container (fst s2) i); cbn [fst].
  - set (s3 := lift s2 (fun w => upd_item w m (fun it0 => it_set_charge it0 (i_charge it)))).
    assert (K3 : MK (fst s2) (fst s3)).
    { unfold s3, lift. cbn [fst]. apply MK_store_charge; [exact J2|]. intros o Ho. apply Ck2, Ck1. now apply Hold. }
    pose proof K3 as ((_ & _ & J3 & Ck3) & _).
    eapply MK_trans; [exact K1|]. eapply MK_trans; [exact K2|]. eapply MK_trans; [exact K3|].
    destruct (i_charge it) as [o|]; [|now apply MK_refl].
    apply MK_add_child; [exact J3|]. apply Ck3, Ck2, Ck1. now apply Hold.
  - eapply MK_trans; [exact K1|]. eapply MK_trans; [exact K2|].
    apply MK_add_child; [exact J2|]. now apply Ck2, Ck1.
Qed.

(* ------------------------------------------------------------------ *)
(* item setters                                                         *)

Lemma FC_state_fold old new l : forall w ms,
  let r := fold_left (fun (acc : world * list msg) ch =>
                        let (w, ms) := acc in
                        if is_container_state w ch
                        then let (w, m2) := state_update_msgs w ch old new in (w, ms ++ m2)
                        else (w, ms)) l (w, ms) in
  FC w (fst r) /\ structure (fst r) = structure w.
Proof.
  induction l as [|ch r IH]; intros w ms; simpl; [split; [apply FC_refl|reflexivity]|].
  destruct (is_container_state w ch); [|apply IH].
  pose proof (FC_state_update_msgs w ch old new) as F1. pose proof (S_state_update_msgs w ch old new) as S1.
  destruct (state_update_msgs w ch old new) as [w1 m2]. cbn [fst] in *.
  destruct (IH w1 (ms ++ m2)) as (F2 & S2). split; [eapply FC_trans; eauto|congruence].
Qed.

Theorem state_set_op_MK s i new : J (fst s) -> MK (fst s) (fst (fst (state_set_op s i new))).
Proof.
  intros Js. unfold state_set_op. destruct (get_item (fst s) i) as [it|] eqn:Hi; [|now apply MK_fail].
  destruct (i_state it =? new)%Z; [now apply MK_refl|].
  set (s1 := lift s _).
  assert (K1 : MK (fst s) (fst s1)).
  { unfold s1, lift. cbn [fst]. apply MK_of_FC; [exact Js|eapply FC_put; eauto|reflexivity]. }
  destruct (item_fit (fst s1) i) as [f|]; cbn [fst]; [|exact K1].
  eapply MK_trans; [exact K1|]. apply MK_with_msgs; [eapply MK_J; eauto| |].
  - intros w. pose proof (FC_state_update_msgs w i (i_state it) new) as F1.
    destruct (state_update_msgs w i (i_state it) new) as [w1 m1]. cbn [fst] in F1.
    destruct (FC_state_fold (i_state it) new (state_desc (length (child_items it false) + S (length (w_items w1))) w1 (child_items it false)) w1 m1) as (F2 & _).
    eapply FC_trans; eauto.
  - intros w. pose proof (S_state_update_msgs w i (i_state it) new) as S1.
    destruct (state_update_msgs w i (i_state it) new) as [w1 m1]. cbn [fst] in S1.
    destruct (FC_state_fold (i_state it) new (state_desc (length (child_items it false) + S (length (w_items w1))) w1 (child_items it false)) w1 m1) as (_ & S2). congruence.
Qed.

Theorem target_set_op_MK s i new : J (fst s) -> MK (fst s) (fst (fst (target_set_op s i new))).
Proof.
  intros Js. unfold target_set_op. destruct (get_item (fst s) i) as [it|] eqn:Hi; [|now apply MK_fail].
  destruct (onat_eqb (i_target it) new); [now apply MK_refl|].
  destruct (item_fit (fst s) i) as [f|]; cbn [fst].
  - match goal with |- context[match ?X with Some _ => _ | None => _ end] =>
      match X with fold_right _ _ _ => destruct X as [pe|] end end; [|now apply MK_fail].
    cbn [fst].
    set (s1 := match i_target it with Some o => emit_always s f _ | None => s end).
    assert (E1 : fst s1 = fst s) by (subst s1; destruct (i_target it); reflexivity).
    set (s2 := lift s1 (fun w => upd_item w i (fun it0 => it_set_target it0 new))).
    assert (K2 : MK (fst s) (fst s2)).
    { unfold s2, lift. cbn [fst]. rewrite E1. apply MK_of_FC; [exact Js| |apply S_upd_item].
      apply FC_upd. reflexivity. }
    destruct new; exact K2.
  - apply MK_of_FC; [exact Js|eapply FC_put; eauto|reflexivity].
Qed.

Theorem mode_set_op_MK s i e m : J (fst s) -> MK (fst s) (fst (fst (mode_set_op s i e m))).
Proof.
  intros Js. unfold mode_set_op. destruct (get_item (fst s) i) as [it|] eqn:Hi; [|now apply MK_fail].
  set (s1 := lift s _).
  assert (K1 : MK (fst s) (fst s1)).
  { unfold s1, lift. cbn [fst]. apply MK_of_FC; [exact Js|eapply FC_put; eauto|reflexivity]. }
  destruct (item_fit (fst s1) i) as [f|]; cbn [fst]; [|exact K1].
  eapply MK_trans; [exact K1|]. apply MK_with_msgs; [eapply MK_J; eauto| |].
  - intros w. apply FC_effects_update.
  - intros w. apply S_effects_update.
Qed.

Theorem level_set_op_MK s i l : J (fst s) -> MK (fst s) (fst (fst (level_set_op s i l))).
Proof.
  intros Js. unfold level_set_op. destruct (get_item (fst s) i) as [it|] eqn:Hi; [|now apply MK_fail].
  destruct (i_level it =? l)%Z; [now apply MK_refl|].
  set (s1 := lift s _).
  assert (K1 : MK (fst s) (fst s1)).
  { unfold s1, lift. cbn [fst]. apply MK_of_FC; [exact Js|eapply FC_put; eauto|reflexivity]. }
  destruct (item_fit (fst s1) i); exact K1.
Qed.

(* ------------------------------------------------------------------ *)
(* fleets, solar systems, sources                                       *)

Lemma MK_fleet_link w fl l f v :
  J w -> MK w (upd_fit (set_fleets w (al_set neqb (w_fleets w) fl l)) f (fun ft => fit_set_fleet ft v)).
Proof.
  intros Jw. eapply MK_trans; [apply (MK_fits_only w (set_fleets w (al_set neqb (w_fleets w) fl l))); auto|].
  apply MK_upd_fit_cmem; [|intros; apply cmem_set_fleet].
  eapply MK_J. apply (MK_fits_only w (set_fleets w (al_set neqb (w_fleets w) fl l))); auto.
Qed.

Theorem fleet_add_op_MK s fl f : J (fst s) -> MK (fst s) (fst (fst (fleet_add_op s fl f))).
Proof.
  intros Js. unfold fleet_add_op. destruct (fit_fleet (fst s) f); [now apply MK_refl|].
  cbn [fst]. unfold emit_always, lift. cbn [fst]. now apply MK_fleet_link.
Qed.
Lemma fleet_remove_one_MK s fl f : J (fst s) -> MK (fst s) (fst (fleet_remove_one s fl f)).
Proof. intros Js. unfold fleet_remove_one, emit_always, lift. cbn [fst]. now apply MK_fleet_link. Qed.
Theorem fleet_remove_op_MK s fl f : J (fst s) -> MK (fst s) (fst (fst (fleet_remove_op s fl f))).
Proof.
  intros Js. unfold fleet_remove_op. destruct (mem neqb _ f); cbn [negb fst]; [|now apply MK_refl].
  now apply fleet_remove_one_MK.
Qed.
Theorem fleet_clear_op_MK s fl : J (fst s) -> MK (fst s) (fst (fst (fleet_clear_op s fl))).
Proof.
  intros Js. unfold fleet_clear_op. cbn [fst]. apply MK_fold; [|exact Js].
  intros s0 x J0. now apply fleet_remove_one_MK.
Qed.

Lemma load_fit_items_MK s f : J (fst s) -> MK (fst s) (fst (load_fit_items s f)).
Proof.
  intros Js. unfold load_fit_items. destruct (get_fit (fst s) f); [|now apply MK_fail].
  apply MK_fold; [|exact Js]. intros s0 x J0. now apply MK_load.
Qed.
Lemma unload_fit_items_MK s f : J (fst s) -> MK (fst s) (fst (unload_fit_items s f)).
Proof.
  intros Js. unfold unload_fit_items. destruct (get_fit (fst s) f); [|now apply MK_fail].
  apply MK_fold; [|exact Js]. intros s0 x J0. now apply MK_unload.
Qed.

Lemma MK_ss_set_fits w x l : J w -> MK w (ss_set_fits w x l).
Proof.
  intros Jw. unfold ss_set_fits. destruct (get_ss w x).
  - apply MK_fits_only; auto.
  - apply MK_of_FC; [exact Jw|apply FC_fail|apply S_fail].
Qed.
Lemma MK_solsys_link w x l f v :
  J w -> MK w (upd_fit (ss_set_fits w x l) f (fun ft => fit_set_solsys ft v)).
Proof.
  intros Jw. pose proof (MK_ss_set_fits w x l Jw) as K. eapply MK_trans; [exact K|].
  apply MK_upd_fit_cmem; [eapply MK_J; eauto|intros; apply cmem_set_solsys].
Qed.

Theorem solsys_add_op_MK s x f : J (fst s) -> MK (fst s) (fst (fst (solsys_add_op s x f))).
Proof.
  intros Js. unfold solsys_add_op. destruct (fit_solsys (fst s) f); [now apply MK_refl|].
  cbn [fst]. set (s1 := lift s _).
  assert (K1 : MK (fst s) (fst s1)) by (unfold s1, lift; cbn [fst]; now apply MK_solsys_link).
  eapply MK_trans; [exact K1|]. apply load_fit_items_MK. eapply MK_J; eauto.
Qed.
Lemma solsys_remove_one_MK s x f : J (fst s) -> MK (fst s) (fst (solsys_remove_one s x f)).
Proof.
  intros Js. unfold solsys_remove_one. pose proof (unload_fit_items_MK s f Js) as K1.
  eapply MK_trans; [exact K1|]. unfold lift. cbn [fst]. apply MK_solsys_link. eapply MK_J; eauto.
Qed.
Theorem solsys_remove_op_MK s x f : J (fst s) -> MK (fst s) (fst (fst (solsys_remove_op s x f))).
Proof.
  intros Js. unfold solsys_remove_op. destruct (mem neqb _ f); cbn [negb fst]; [|now apply MK_refl].
  now apply solsys_remove_one_MK.
Qed.
Theorem solsys_clear_op_MK s x : J (fst s) -> MK (fst s) (fst (fst (solsys_clear_op s x))).
Proof.
  intros Js. unfold solsys_clear_op. cbn [fst]. apply MK_fold; [|exact Js].
  intros s0 y J0. now apply solsys_remove_one_MK.
Qed.

Theorem source_set_op_MK s x new : J (fst s) -> MK (fst s) (fst (fst (source_set_op s x new))).
Proof.
  intros Js. unfold source_set_op. destruct (get_ss (fst s) x) as [y|]; [|now apply MK_fail].
  destruct (onat_eqb (ss_source y) new); [now apply MK_refl|].
  match goal with |- context[if ?b then (s, RExn XUnknownSource) else _] => destruct b end; [now apply MK_refl|]. cbn [fst].
  set (s1 := match ss_source y with Some _ => fold_left unload_fit_items (ss_fits y) s | None => s end).
  assert (K1 : MK (fst s) (fst s1)).
  { subst s1. destruct (ss_source y); [|now apply MK_refl].
    apply MK_fold; [|exact Js]. intros s0 f J0. now apply unload_fit_items_MK. }
  set (s2 := lift s1 _).
  assert (K2 : MK (fst s1) (fst s2)).
  { unfold s2, lift. cbn [fst]. destruct (get_ss (fst s1) x).
    - apply MK_fits_only; auto. eapply MK_J; eauto.
    - apply MK_of_FC; [eapply MK_J; eauto|apply FC_fail|apply S_fail]. }
  eapply MK_trans; [exact K1|]. eapply MK_trans; [exact K2|].
  destruct new; [|apply MK_refl; eapply MK_J; eauto].
  apply MK_fold; [|eapply MK_J; eauto]. intros s0 f J0. now apply load_fit_items_MK.
Qed.

(* ------------------------------------------------------------------ *)
(* every operation, every history                                       *)

(* what a caller must respect: new ids are fresh, container operations name an existing fit *)
Definition op_ok (w : world) (o : op) : Prop :=
  match o with
  | ONewItem i _ _ _ _ => get_item w i = None /\ (i < w_next w)%nat
  | ONewFit f chr => get_fit w f = None /\ get_item w chr = None /\ (chr < w_next w)%nat
  | OSlot f _ _ | OSetAdd f _ _ | OSetRemove f _ _ | OSetClear f _ | OSkillDel f _
  | ORackAppend f _ _ | ORackInsert f _ _ _ | ORackPlace f _ _ _ | ORackEquip f _ _
  | ORackRemove f _ _ | ORackFree f _ _ | ORackClear f _ => has_fit w f
  | _ => True
  end.

Lemma CI_new_item w i c tid st lvl :
  CI w -> get_item w i = None -> (i < w_next w)%nat -> CI (put_item w i (new_item c tid st lvl)).
Proof.
  intros ((I & J3 & J4 & J5) & M & ND) Hi Hlt.
  set (w' := put_item w i (new_item c tid st lvl)).
  assert (G : forall j, j <> i -> get_item w' j = get_item w j) by (intros j N; now apply get_put_item_other).
  assert (Gi : get_item w' i = Some (new_item c tid st lvl)) by apply get_put_item_same'.
  assert (Ck : forall j x, cls_of w j = Some x -> cls_of w' j = Some x).
  { intros j x E. unfold cls_of in *. destruct (Nat.eq_dec j i) as [->|N]; [now rewrite Hi in E|now rewrite G]. }
  assert (Fc : forall j, fitcont w' j = fitcont w j).
  { intros j. unfold fitcont. destruct (Nat.eq_dec j i) as [->|N]; [now rewrite Gi, Hi|now rewrite G]. }
  split; [split; [|split; [|split]]|split].
  - intros j it H. simpl. destruct (Nat.eq_dec j i) as [->|N]; [exact Hlt|]. rewrite G in H by exact N. eapply I; eauto.
  - intros j it H C. destruct (Nat.eq_dec j i) as [->|N].
    + rewrite Gi in H. injection H as <-. reflexivity.
    + rewrite G in H by exact N. eapply J3; eauto.
  - intros j it e a H Hin. destruct (Nat.eq_dec j i) as [->|N].
    + rewrite Gi in H. injection H as <-. destruct Hin.
    + rewrite G in H by exact N. apply Ck. eapply J4; eauto.
  - intros j it o H Ho. destruct (Nat.eq_dec j i) as [->|N].
    + rewrite Gi in H. injection H as <-. discriminate.
    + rewrite G in H by exact N. apply Ck. eapply J5; eauto.
  - intros q j. rewrite Fc. rewrite (members_fits w w') by reflexivity. apply M.
  - intros q. rewrite (members_fits w w') by reflexivity. apply ND.
Qed.

Lemma cmem_empty q : cmem empty_fit q = [].
Proof. destruct q as [? []|? []|? []| |]; reflexivity. Qed.

Lemma CI_new_fit w f : CI w -> get_fit w f = None -> CI (put_fit w f empty_fit).
Proof.
  intros C Hf. eapply CI_same; [exact C|split; reflexivity|].
  intros q. unfold members. destruct (pfit q) as [f'|]; [|reflexivity].
  unfold get_fit, put_fit. simpl. destruct (Nat.eq_dec f f') as [<-|N].
  - rewrite al_get_set_same. unfold get_fit in Hf. rewrite Hf. apply cmem_empty.
  - now rewrite al_get_set_other.
Qed.

Lemma has_fit_put_item w i it f : has_fit w f -> has_fit (put_item w i it) f.
Proof. intros H. exact H. Qed.

Theorem md_op_CI w o : CI w -> op_ok w o -> CI (fst (fst (md_op w o))).
Proof.
  intros C Hok. pose proof C as (Jw & _).
  destruct o; cbn [md_op op_ok] in *; cbn [fst].
  - (* ODefSource *) unfold lift. cbn [fst]. eapply CI_MK; [exact C|]. apply MK_fits_only; auto.
  - (* ONewItem *) unfold lift. cbn [fst]. destruct Hok. now apply CI_new_item.
  - (* ONewFit *)
    destruct Hok as (Hf & Hc & Hlt). apply slot_set_op_CI.
    + unfold lift. cbn [fst]. apply CI_new_item; [now apply CI_new_fit|exact Hc|exact Hlt].
    + unfold lift. cbn [fst]. apply has_fit_put_item. unfold has_fit, get_fit, put_fit. simpl.
      rewrite al_get_set_same. eauto.
  - (* ONewSolsys *) unfold lift. cbn [fst]. eapply CI_MK; [exact C|]. apply MK_fits_only; auto.
  - now apply slot_set_op_CI.
  - now apply set_add_op_CI.
  - now apply set_remove_op_CI.
  - now apply set_clear_op_CI.
  - now apply skill_del_op_CI.
  - now apply rack_append_CI.
  - now apply rack_insert_CI.
  - now apply rack_place_CI.
  - now apply rack_equip_CI.
  - now apply rack_remove_CI.
  - now apply rack_free_CI.
  - now apply rack_clear_CI.
  - eapply CI_MK; [exact C|]. now apply (charge_set_op_MK (w, [])).
  - eapply CI_MK; [exact C|]. now apply (state_set_op_MK (w, [])).
  - eapply CI_MK; [exact C|]. now apply (target_set_op_MK (w, [])).
  - eapply CI_MK; [exact C|]. now apply (mode_set_op_MK (w, [])).
  - eapply CI_MK; [exact C|]. now apply (level_set_op_MK (w, [])).
  - eapply CI_MK; [exact C|]. now apply (fleet_add_op_MK (w, [])).
  - eapply CI_MK; [exact C|]. now apply (fleet_remove_op_MK (w, [])).
  - eapply CI_MK; [exact C|]. now apply (fleet_clear_op_MK (w, [])).
  - eapply CI_MK; [exact C|]. now apply (solsys_add_op_MK (w, [])).
  - eapply CI_MK; [exact C|]. now apply (solsys_remove_op_MK (w, [])).
  - eapply CI_MK; [exact C|]. now apply (solsys_clear_op_MK (w, [])).
  - eapply CI_MK; [exact C|]. now apply (source_set_op_MK (w, [])).
  - exact C.
  - exact C.
  - exact C.
  - exact C.
Qed.

Lemma CI_clear_err w : CI w -> CI (clear_err w).
Proof. intros C. eapply CI_same; [exact C|split; reflexivity|]. intros q. now apply members_fits. Qed.

Theorem step_CI x o :
  CI (s_w x) -> op_ok (clear_err (s_w x)) o -> CI (s_w (fst (step x o))).
Proof.
  intros C Hok. apply CI_clear_err in C. unfold step, step_ev.
  destruct (is_read o).
  - destruct (read_op _ _ o) as [d' r]. exact C.
  - pose proof (md_op_CI _ o C Hok) as C'. destruct (md_op (clear_err (s_w x)) o) as [[w' evs] r]. exact C'.
Qed.

Fixpoint ops_ok (x : sys) (ops : list op) : Prop :=
  match ops with
  | [] => True
  | o :: r => op_ok (clear_err (s_w x)) o /\ ops_ok (fst (step x o)) r
  end.

Theorem run_CI ops : forall x, CI (s_w x) -> ops_ok x ops -> CI (s_w (run x ops)).
Proof.
  induction ops as [|o r IH]; intros x C Hok; [exact C|].
  destruct Hok as (H1 & H2). unfold run. simpl. apply IH; [now apply step_CI|exact H2].
Qed.

Lemma CI_empty : CI empty_world.
Proof.
  split; [split; [|split; [|split]]|split]; try (intros; discriminate).
  - intros q i. unfold members. destruct (pfit q); simpl; split; intros H; try contradiction; discriminate.
  - intros q. unfold members. destruct (pfit q); simpl; constructor.
Qed.

(* from the empty system, after any well-formed history: membership and the
   items' own container references agree, and nothing is listed twice *)
Theorem containers_consistent pen ops :
  ops_ok (init_sys pen) ops -> CI (s_w (run (init_sys pen) ops)).
Proof. intros H. apply run_CI; [apply CI_empty|exact H]. Qed.

(* the boolean the extracted driver evaluates implies the hypothesis *)
Lemma op_okb_ok w o : op_okb w o = true -> op_ok w o.
Proof.
  assert (S : forall A (x : option A), negb (is_some x) = true -> x = None) by (intros A [a|]; simpl; congruence).
  assert (Hf : forall f, is_some (get_fit w f) = true -> has_fit w f).
  { intros f H. unfold has_fit. destruct (get_fit w f) as [ft|]; [eauto|discriminate]. }
  destruct o; simpl; auto; intros H.
  - apply andb_true_iff in H. destruct H as (H1 & H2). apply Nat.ltb_lt in H2. auto.
  - apply andb_true_iff in H. destruct H as (H1 & H3). apply andb_true_iff in H1. destruct H1 as (H1 & H2).
    apply Nat.ltb_lt in H3. auto.
Qed.

Fixpoint ops_okb (x : sys) (ops : list op) : bool :=
  match ops with
  | [] => true
  | o :: r => op_ok_now x o && ops_okb (fst (step x o)) r
  end.
Lemma ops_okb_ok ops : forall x, ops_okb x ops = true -> ops_ok x ops.
Proof.
  induction ops as [|o r IH]; intros x H; simpl in *; [exact I|].
  apply andb_true_iff in H. destruct H as (H1 & H2). split; [now apply op_okb_ok|now apply IH].
Qed.
