(* C18 -- proofs about model/Builder.v.  Statements used by props/C18.v. *)
From Coq Require Import ZArith QArith List String Bool Arith Lia Permutation Sorted.
From EosV Require Import gen.T_builder model.Builder.
Import ListNotations.
Local Close Scope Q_scope.
Local Open Scope nat_scope.

(* the generated tables stay folded under simpl *)
Local Opaque gen_tables.
Local Opaque gen_aux_tables.
Local Opaque gen_foreign_keys.
Local Opaque gen_pk_spec.
Local Opaque gen_modinfo_rel.
Local Opaque gen_buff_sections.
Local Opaque gen_strong_groups.
Local Opaque gen_strong_categories.
Local Opaque gen_rack_effects.
Local Opaque gen_norm_attr_map.
Local Opaque gen_autocharge_attrs.
Local Opaque gen_buffattr_attrs.
Local Opaque gen_effect_ctor.
Local Opaque gen_attr_ctor.
Local Opaque gen_buff_tpl.

(* ------------------------------------------------------------------ *)
(* 0. basics                                                           *)
(* ------------------------------------------------------------------ *)

Lemma table_beq_eq t t' : table_beq t t' = true <-> t = t'.
Proof. split; [apply internal_table_dec_bl | apply internal_table_dec_lb]. Qed.

Lemma table_beq_refl t : table_beq t t = true.
Proof. apply table_beq_eq; reflexivity. Qed.

(* obligation on the generated table list: it names every table *)
Lemma all_tables t : In t gen_tables.
Proof. destruct t; vm_compute; tauto. Qed.

Lemma memt_In t l : memt t l = true <-> In t l.
Proof.
  unfold memt. rewrite existsb_exists. split.
  - intros [x [Hx He]]. apply table_beq_eq in He. subst; auto.
  - intros H. exists t. split; auto. apply table_beq_refl.
Qed.

Lemma memz_In z l : memz z l = true <-> In z l.
Proof.
  unfold memz. rewrite existsb_exists. split.
  - intros [x [Hx He]]. apply Z.eqb_eq in He. subst; auto.
  - intros H. exists z. split; auto. apply Z.eqb_refl.
Qed.

Lemma lz_eqb_eq a : forall b, lz_eqb a b = true <-> a = b.
Proof.
  induction a as [|x a IH]; destruct b as [|y b]; simpl; split; intros H;
    try reflexivity; try discriminate.
  - apply andb_true_iff in H. destruct H as [H1 H2]. apply Z.eqb_eq in H1.
    apply IH in H2. subst; reflexivity.
  - inversion H; subst. rewrite Z.eqb_refl. simpl. apply IH. reflexivity.
Qed.

Lemma memk_In k l : memk k l = true <-> In k l.
Proof.
  unfold memk. rewrite existsb_exists. split.
  - intros [x [Hx He]]. apply lz_eqb_eq in He. subst; auto.
  - intros H. exists k. split; auto. apply lz_eqb_eq. reflexivity.
Qed.

Lemma memk_false k l : memk k l = false <-> ~ In k l.
Proof.
  rewrite <- memk_In. destruct (memk k l); split; intros H; congruence.
Qed.

Lemma filter_partition_perm {A} (f : A -> bool) l :
  Permutation (filter f l ++ filter (fun x => negb (f x)) l) l.
Proof.
  induction l as [|a l IH]; simpl; auto.
  destruct (f a); simpl.
  - constructor; auto.
  - apply Permutation_sym. eapply Permutation_trans; [|apply Permutation_middle].
    constructor. apply Permutation_sym; auto.
Qed.

Lemma nodup_app_l {A} (l m : list A) : NoDup (l ++ m) -> NoDup l.
Proof.
  induction l as [|a l IH]; simpl; intros H; [constructor|].
  inversion H as [|x y H1 H2]; subst. constructor; auto.
  intros X. apply H1. apply in_app_iff. auto.
Qed.

Lemma upd_same d t l : upd d t l t = l.
Proof. unfold upd. rewrite table_beq_refl. reflexivity. Qed.

Lemma upd_other d t l t' : t' <> t -> upd d t l t' = d t'.
Proof.
  unfold upd. intros H. destruct (table_beq t' t) eqn:E; auto.
  apply table_beq_eq in E. contradiction.
Qed.

(* ------------------------------------------------------------------ *)
(* 1. the cleaner                                                      *)
(* ------------------------------------------------------------------ *)

(* everything a live row asks for: its references, and -- for a type -- the
   rows of the auxiliary tables that carry its typeID *)
Definition all_row_tgts (t : table) (r : row) : list tgt :=
  row_tgts t r ++ match t with T_evetypes => aux_row_tgts r | _ => [] end.

(* the cleaner's reference relation: live row r of table t pulls in row r'
   of table t' *)
Definition wants (t : table) (r : row) (t' : table) (r' : row) : Prop :=
  exists g, In g (all_row_tgts t r) /\ tgt_hits t' r' g = true.

(* reachability from the strong rows inside the data set d *)
Inductive reach (d : data) : table -> row -> Prop :=
| reach_strong r :
    In r (d T_evetypes) -> strongp d T_evetypes r = true -> reach d T_evetypes r
| reach_step t r t' r' :
    reach d t r -> wants t r t' r' -> In r' (d t') -> reach d t' r'.

Lemma strongp_table d t r : strongp d t r = true -> t = T_evetypes.
Proof. destruct t; simpl; intros H; try discriminate; reflexivity. Qed.

Lemma matches_spec tg t r :
  matches tg t r = true <-> exists g, In g tg /\ tgt_hits t r g = true.
Proof. unfold matches. apply existsb_exists. Qed.

Lemma tgts_spec d g :
  In g (tgts d) <-> exists t r, In r (d t) /\ In g (row_tgts t r).
Proof.
  unfold tgts. rewrite in_flat_map. split.
  - intros [t [_ H]]. apply in_flat_map in H. destruct H as [r [Hr Hg]]. eauto.
  - intros [t [r [Hr Hg]]]. exists t. split; [apply all_tables|].
    apply in_flat_map. eauto.
Qed.

Lemma aux_tgts_spec d g :
  In g (aux_tgts d) <-> exists r, In r (d T_evetypes) /\ In g (aux_row_tgts r).
Proof. unfold aux_tgts. apply in_flat_map. Qed.

Lemma aux_row_tgts_table r t c z :
  In (t, c, z) (aux_row_tgts r) -> In t gen_aux_tables.
Proof.
  unfold aux_row_tgts. destruct (colkey r "typeID"); [|simpl; tauto].
  intros H. apply in_map_iff in H. destruct H as [x [E Hx]]. inversion E; subst; auto.
Qed.

Lemma tgt_hits_table t r t' c z : tgt_hits t r (t', c, z) = true -> t' = t.
Proof.
  simpl. intros H. apply andb_true_iff in H. destruct H as [H _].
  apply table_beq_eq in H. auto.
Qed.

Lemma restore_live ts m st t r :
  In r (live (restore_in ts m st) t) <->
  In r (live st t) \/ (In t ts /\ In r (trash st t) /\ m t r = true).
Proof.
  simpl. destruct (memt t ts) eqn:E.
  - rewrite in_app_iff, filter_In. apply memt_In in E. tauto.
  - assert (~ In t ts) by (intros H; apply memt_In in H; congruence). tauto.
Qed.

Lemma restore_trash ts m st t r :
  In r (trash (restore_in ts m st) t) <->
  In r (trash st t) /\ (In t ts -> m t r = false).
Proof.
  simpl. destruct (memt t ts) eqn:E.
  - rewrite filter_In. apply memt_In in E. rewrite negb_true_iff. tauto.
  - assert (~ In t ts) by (intros H; apply memt_In in H; congruence). tauto.
Qed.

Lemma restore_perm ts m st t :
  Permutation (live (restore_in ts m st) t ++ trash (restore_in ts m st) t)
              (live st t ++ trash st t).
Proof.
  simpl. destruct (memt t ts); auto.
  rewrite <- app_assoc. apply Permutation_app_head. apply filter_partition_perm.
Qed.

Lemma restored_any_false ts m st :
  restored_any ts m st = false ->
  forall t r, In t ts -> In r (trash st t) -> m t r = false.
Proof.
  unfold restored_any. intros H t r Ht Hr.
  destruct (m t r) eqn:E; auto.
  assert (X : existsb (fun t => existsb (m t) (trash st t)) ts = true).
  { apply existsb_exists. exists t. split; auto. apply existsb_exists. eauto. }
  congruence.
Qed.

Record inv (d : data) (st : cstate) : Prop := {
  inv_perm : forall t, Permutation (live st t ++ trash st t) (d t);
  inv_reach : forall t r, In r (live st t) -> reach d t r;
  inv_strong : forall r, In r (d T_evetypes) -> strongp d T_evetypes r = true ->
                         In r (live st T_evetypes) }.

Lemma inv_in_data d st t r : inv d st -> In r (live st t) \/ In r (trash st t) -> In r (d t).
Proof.
  intros I H. eapply Permutation_in; [apply (inv_perm _ _ I)|]. apply in_app_iff; auto.
Qed.

Lemma inv_kill_weak d : inv d (kill_weak d).
Proof.
  constructor; simpl.
  - intros t. apply filter_partition_perm.
  - intros t r H. apply filter_In in H. destruct H as [H1 H2].
    pose proof (strongp_table _ _ _ H2). subst. constructor; auto.
  - intros r H1 H2. apply filter_In. auto.
Qed.

Lemma inv_restore d st ts m :
  inv d st ->
  (forall t r, In t ts -> In r (trash st t) -> m t r = true -> reach d t r) ->
  inv d (restore_in ts m st).
Proof.
  intros I H. constructor.
  - intros t. eapply Permutation_trans; [apply restore_perm|apply (inv_perm _ _ I)].
  - intros t r Hr. apply restore_live in Hr. destruct Hr as [Hr|[H1 [H2 H3]]].
    + apply (inv_reach _ _ I); auto.
    + apply H; auto.
  - intros r H1 H2. apply restore_live. left. apply (inv_strong _ _ I); auto.
Qed.

Definition st1_of (st : cstate) : cstate :=
  restore_in gen_aux_tables (matches (aux_tgts (live st))) st.

Lemma round_unfold st :
  round st =
  (restore_in gen_tables (matches (tgts (live (st1_of st)))) (st1_of st),
   restored_any gen_aux_tables (matches (aux_tgts (live st))) st ||
   restored_any gen_tables (matches (tgts (live (st1_of st)))) (st1_of st)).
Proof. reflexivity. Qed.

Arguments round : simpl never.

Lemma inv_st1 d st : inv d st -> inv d (st1_of st).
Proof.
  intros I. apply inv_restore; auto.
  intros t r Ht Hr Hm. apply matches_spec in Hm. destruct Hm as [g [Hg Hh]].
  apply aux_tgts_spec in Hg. destruct Hg as [r0 [Hr0 Hg]].
  eapply reach_step with (t := T_evetypes) (r := r0).
  - apply (inv_reach _ _ I); auto.
  - exists g. split; auto. unfold all_row_tgts. apply in_app_iff. right. auto.
  - eapply inv_in_data; eauto.
Qed.

Lemma inv_round d st : inv d st -> inv d (fst (round st)).
Proof.
  intros I. rewrite round_unfold. cbn [fst snd].
  pose proof (inv_st1 _ _ I) as I1.
  apply inv_restore; auto.
  intros t r Ht Hr Hm. apply matches_spec in Hm. destruct Hm as [g [Hg Hh]].
  apply tgts_spec in Hg. destruct Hg as [t0 [r0 [Hr0 Hg]]].
  eapply reach_step with (t := t0) (r := r0).
  - apply (inv_reach _ _ I1); auto.
  - exists g. split; auto. unfold all_row_tgts. apply in_app_iff. left. auto.
  - eapply inv_in_data; eauto.
Qed.

(* nothing in the trash is wanted by a live row *)
Definition closed (st : cstate) : Prop :=
  forall t r t' r', In r (live st t) -> wants t r t' r' -> ~ In r' (trash st t').

Lemma round_false_closed st :
  snd (round st) = false -> closed (fst (round st)).
Proof.
  rewrite round_unfold. cbn [fst snd]. intros H. apply orb_false_iff in H. destruct H as [C1 C2].
  pose proof (restored_any_false _ _ _ C1) as N1.
  pose proof (restored_any_false _ _ _ C2) as N2.
  set (st1 := st1_of st) in *.
  (* st1 and the result have the same live rows as st, and no larger trash *)
  assert (L1 : forall t r, In r (live st1 t) <-> In r (live st t)).
  { intros t r. unfold st1, st1_of. rewrite restore_live. split; [|tauto].
    intros [H|[H1 [H2 H3]]]; auto. rewrite (N1 t r H1 H2) in H3. discriminate. }
  assert (T1 : forall t r, In r (trash st1 t) -> In r (trash st t)).
  { intros t r. unfold st1, st1_of. rewrite restore_trash. tauto. }
  intros t r t' r' Hl [g [Hg Hh]] Ht.
  apply restore_live in Hl. destruct Hl as [Hl|[H1 [H2 H3]]];
    [|rewrite (N2 t r H1 H2) in H3; discriminate].
  apply restore_trash in Ht. destruct Ht as [Ht _].
  unfold all_row_tgts in Hg. apply in_app_iff in Hg. destruct Hg as [Hg|Hg].
  - assert (M : matches (tgts (live st1)) t' r' = true).
    { apply matches_spec. exists g. split; auto. apply tgts_spec. eauto. }
    rewrite (N2 t' r' (all_tables t') Ht) in M. discriminate.
  - destruct t; try (simpl in Hg; tauto).
    destruct g as [[tg cg] zg].
    pose proof (aux_row_tgts_table _ _ _ _ Hg) as Ha.
    pose proof (tgt_hits_table _ _ _ _ _ Hh) as E. subst tg.
    assert (M : matches (aux_tgts (live st)) t' r' = true).
    { apply matches_spec. exists (t', cg, zg). split; auto.
      apply aux_tgts_spec. exists r. split; auto. }
    rewrite (N1 t' r' Ha (T1 _ _ Ht)) in M. discriminate.
Qed.

Lemma autoclean_S f st :
  autoclean (S f) st = let (st', ch) := round st in if ch then autoclean f st' else Some st'.
Proof. reflexivity. Qed.

Lemma autoclean_inv d : forall fuel st st',
  inv d st -> autoclean fuel st = Some st' -> inv d st' /\ closed st'.
Proof.
  induction fuel as [|f IH]; intros st st' I H; [discriminate|].
  rewrite autoclean_S in H.
  destruct (round st) as [st2 ch] eqn:R.
  pose proof (inv_round _ _ I) as I2. rewrite R in I2. simpl in I2.
  destruct ch.
  - apply (IH st2 st' I2 H).
  - inversion H; subst. split; auto.
    pose proof (round_false_closed st) as C. rewrite R in C. simpl in C. auto.
Qed.

(* --- termination ---------------------------------------------------- *)

Definition trash_count (st : cstate) : nat :=
  list_sum (map (fun t => List.length (trash st t)) gen_tables).

Lemma filter_length_le {A} (f : A -> bool) l : List.length (filter f l) <= List.length l.
Proof. induction l; simpl; auto. destruct (f a); simpl; lia. Qed.

Lemma filter_length_lt {A} (f : A -> bool) l :
  existsb (fun x => negb (f x)) l = true -> List.length (filter f l) < List.length l.
Proof.
  induction l as [|a l IH]; simpl; [discriminate|].
  destruct (f a) eqn:E; simpl.
  - intros H. apply IH in H. lia.
  - intros _. pose proof (filter_length_le f l). lia.
Qed.

Lemma sum_le_lt {A} (f g : A -> nat) l :
  (forall x, In x l -> f x <= g x) ->
  (exists x, In x l /\ f x < g x) ->
  list_sum (map f l) < list_sum (map g l).
Proof.
  induction l as [|a l IH]; simpl; intros Hle [x [Hx Hlt]]; [tauto|].
  assert (Ha : f a <= g a) by (apply Hle; auto).
  assert (Hs : list_sum (map f l) <= list_sum (map g l)).
  { clear -Hle. induction l as [|b l IH]; simpl; auto.
    assert (f b <= g b) by (apply Hle; simpl; auto).
    assert (list_sum (map f l) <= list_sum (map g l)).
    { apply IH. intros y Hy. apply Hle. simpl in *. tauto. }
    lia. }
  destruct Hx as [Hx|Hx].
  - subst. lia.
  - assert (list_sum (map f l) < list_sum (map g l)) by (apply IH; eauto). lia.
Qed.

Lemma sum_le {A} (f g : A -> nat) l :
  (forall x, In x l -> f x <= g x) -> list_sum (map f l) <= list_sum (map g l).
Proof.
  induction l as [|a l IH]; simpl; intros Hle; auto.
  assert (f a <= g a) by (apply Hle; auto).
  assert (list_sum (map f l) <= list_sum (map g l)) by (apply IH; auto). lia.
Qed.

Lemma restore_trash_len_le ts m st t :
  List.length (trash (restore_in ts m st) t) <= List.length (trash st t).
Proof. simpl. destruct (memt t ts); auto. apply filter_length_le. Qed.

Lemma restore_count_le ts m st : trash_count (restore_in ts m st) <= trash_count st.
Proof. unfold trash_count. apply sum_le. intros. apply restore_trash_len_le. Qed.

Lemma restore_count_lt ts m st :
  restored_any ts m st = true -> trash_count (restore_in ts m st) < trash_count st.
Proof.
  unfold restored_any. intros H. apply existsb_exists in H. destruct H as [t [Ht He]].
  unfold trash_count. apply sum_le_lt.
  - intros. apply restore_trash_len_le.
  - exists t. split; [apply all_tables|]. simpl.
    apply memt_In in Ht. rewrite Ht. apply filter_length_lt.
    rewrite <- He. apply existsb_ext || idtac.
    clear. induction (trash st t) as [|a l IH]; simpl; auto.
    rewrite negb_involutive. rewrite IH. reflexivity.
Qed.

(* each pass of the loop that reports a change restores at least one row *)
Lemma round_progress st :
  snd (round st) = true -> trash_count (fst (round st)) < trash_count st.
Proof.
  rewrite round_unfold. cbn [fst snd]. intros H. apply orb_true_iff in H.
  pose proof (restore_count_le gen_aux_tables (matches (aux_tgts (live st))) st) as L1.
  fold (st1_of st) in L1.
  pose proof (restore_count_le gen_tables (matches (tgts (live (st1_of st)))) (st1_of st)) as L2.
  destruct H as [H|H].
  - apply restore_count_lt in H. fold (st1_of st) in H. lia.
  - apply restore_count_lt in H. lia.
Qed.

Lemma autoclean_fuel : forall fuel st, trash_count st < fuel -> autoclean fuel st <> None.
Proof.
  induction fuel as [|f IH]; intros st H; [lia|].
  rewrite autoclean_S.
  destruct (round st) as [st2 ch] eqn:R. destruct ch; [|discriminate].
  apply IH. pose proof (round_progress st) as P. rewrite R in P. simpl in P.
  specialize (P eq_refl). lia.
Qed.

Lemma kill_weak_count d : trash_count (kill_weak d) <= total d.
Proof. unfold trash_count, total. apply sum_le. intros. simpl. apply filter_length_le. Qed.

Lemma clean_fuel_enough d fuel : total d < fuel -> clean_fuel fuel d <> None.
Proof.
  intros H. unfold clean_fuel.
  destruct (autoclean fuel (kill_weak d)) eqn:E; simpl; [discriminate|].
  exfalso. revert E. apply autoclean_fuel. pose proof (kill_weak_count d). lia.
Qed.

Lemma clean_total d : clean d <> None.
Proof. apply clean_fuel_enough. lia. Qed.

(* more fuel never changes the result *)
Lemma autoclean_mono : forall f st st', autoclean f st = Some st' ->
  forall f', f <= f' -> autoclean f' st = Some st'.
Proof.
  induction f as [|f IH]; intros st st' H f' Hle; [discriminate|].
  destruct f' as [|f']; [lia|]. rewrite autoclean_S in *.
  destruct (round st) as [st2 ch]. destruct ch; auto. apply IH; auto. lia.
Qed.

(* --- kept = closure -------------------------------------------------- *)

Section CleanSpec.
  Variables (d : data) (fuel : nat) (k : data).
  Hypothesis Hc : clean_fuel fuel d = Some k.

  Lemma clean_state : exists st, autoclean fuel (kill_weak d) = Some st /\ k = live st.
  Proof.
    unfold clean_fuel in Hc. destruct (autoclean fuel (kill_weak d)) as [st|]; [|discriminate].
    simpl in Hc. inversion Hc. eauto.
  Qed.

  (* soundness: every kept row is reachable from a strong row *)
  Lemma clean_sound t r : In r (k t) -> reach d t r.
  Proof.
    destruct clean_state as [st [H E]]. subst k.
    destruct (autoclean_inv d _ _ _ (inv_kill_weak d) H) as [I _].
    apply (inv_reach _ _ I).
  Qed.

  Lemma clean_subset t r : In r (k t) -> In r (d t).
  Proof.
    destruct clean_state as [st [H E]]. subst k.
    destruct (autoclean_inv d _ _ _ (inv_kill_weak d) H) as [I _].
    intros. eapply inv_in_data; eauto.
  Qed.

  Lemma clean_keeps_strong r :
    In r (d T_evetypes) -> strongp d T_evetypes r = true -> In r (k T_evetypes).
  Proof.
    destruct clean_state as [st [H E]]. subst k.
    destruct (autoclean_inv d _ _ _ (inv_kill_weak d) H) as [I _].
    apply (inv_strong _ _ I).
  Qed.

  (* completeness: every row of the data set wanted by a kept row is kept *)
  Lemma clean_complete t r t' r' :
    In r (k t) -> wants t r t' r' -> In r' (d t') -> In r' (k t').
  Proof.
    destruct clean_state as [st [H E]]. subst k.
    destruct (autoclean_inv d _ _ _ (inv_kill_weak d) H) as [I C].
    intros Hr Hw Hd.
    pose proof (Permutation_in _ (Permutation_sym (inv_perm _ _ I t')) Hd) as X.
    apply in_app_iff in X. destruct X as [X|X]; auto.
    exfalso. eapply C; eauto.
  Qed.

  Lemma clean_eq_closure t r : In r (k t) <-> reach d t r.
  Proof.
    split; [apply clean_sound|].
    induction 1 as [r H1 H2 | t r t' r' H IH Hw Hd].
    - apply clean_keeps_strong; auto.
    - eapply clean_complete; eauto.
  Qed.

  (* the kept rows are a sub-multiset of the data: no row is duplicated *)
  Lemma clean_nodup t : NoDup (d t) -> NoDup (k t).
  Proof.
    destruct clean_state as [st [H E]]. subst k.
    destruct (autoclean_inv d _ _ _ (inv_kill_weak d) H) as [I _].
    intros N. pose proof (Permutation_NoDup (Permutation_sym (inv_perm _ _ I t)) N) as N'.
    apply nodup_app_l in N'. auto.
  Qed.
End CleanSpec.

(* ------------------------------------------------------------------ *)
(* 2. table_pos order and the "first one wins" scan                    *)
(* ------------------------------------------------------------------ *)

Definition ltp (a b : row) : Prop := posn a < posn b.

Lemma insert_pos_in r l x : In x (insert_pos r l) <-> x = r \/ In x l.
Proof.
  induction l as [|y l IH]; simpl.
  - intuition.
  - destruct (posn r <=? posn y); simpl; rewrite ?IH; intuition.
Qed.

Lemma insert_pos_perm r l : Permutation (insert_pos r l) (r :: l).
Proof.
  induction l as [|y l IH]; simpl; auto.
  destruct (posn r <=? posn y); auto.
  eapply Permutation_trans; [apply perm_skip; apply IH|apply perm_swap].
Qed.

Lemma sort_pos_perm l : Permutation (sort_pos l) l.
Proof.
  induction l as [|x l IH]; simpl; auto.
  eapply Permutation_trans; [apply insert_pos_perm|]. constructor; auto.
Qed.

Lemma sort_pos_in l x : In x (sort_pos l) <-> In x l.
Proof.
  split; apply Permutation_in; [apply sort_pos_perm|apply Permutation_sym, sort_pos_perm].
Qed.

Lemma sort_pos_in1 l x : In x (sort_pos l) -> In x l.
Proof. apply sort_pos_in. Qed.
Lemma sort_pos_in2 l x : In x l -> In x (sort_pos l).
Proof. apply sort_pos_in. Qed.

Lemma insert_sorted r l :
  StronglySorted ltp l -> ~ In (posn r) (map posn l) -> StronglySorted ltp (insert_pos r l).
Proof.
  induction l as [|x l IH]; simpl; intros S N.
  - constructor; constructor.
  - inversion S as [|x' l' S' F]; subst.
    destruct (posn r <=? posn x) eqn:E.
    + apply Nat.leb_le in E. constructor; auto.
      assert (posn r < posn x) by (destruct (Nat.eq_dec (posn r) (posn x)); [exfalso; apply N; left; congruence|lia]).
      constructor; auto. rewrite Forall_forall in *. intros y Hy.
      specialize (F y Hy). unfold ltp in *. lia.
    + apply Nat.leb_gt in E. constructor.
      * apply IH; auto.
      * rewrite Forall_forall in *. intros y Hy. apply insert_pos_in in Hy.
        destruct Hy as [Hy|Hy]; [subst; exact E|auto].
Qed.

Lemma sort_sorted l : NoDup (map posn l) -> StronglySorted ltp (sort_pos l).
Proof.
  induction l as [|x l IH]; simpl; intros N; [constructor|].
  inversion N as [|a b N1 N2]; subst.
  apply insert_sorted.
  - apply IH. exact N2.
  - intros H. apply N1. apply in_map_iff in H. destruct H as [y [E Hy]].
    apply sort_pos_in1 in Hy. apply in_map_iff. eauto.
Qed.

Lemma nodup_posn_inj l a b :
  NoDup (map posn l) -> In a l -> In b l -> posn a = posn b -> a = b.
Proof.
  induction l as [|x l IH]; simpl; intros N Ha Hb E; [tauto|].
  inversion N as [|y m N1 N2]; subst.
  destruct Ha as [Ha|Ha], Hb as [Hb|Hb]; subst; auto.
  - exfalso. apply N1. rewrite E. apply in_map; auto.
  - exfalso. apply N1. rewrite <- E. apply in_map; auto.
Qed.

Lemma scan_fst key : forall l seen, map fst (scan key l seen) = l.
Proof.
  induction l as [|a l IH]; simpl; intros seen; auto.
  destruct (key a); [destruct (memk l0 seen)|]; simpl; rewrite IH; reflexivity.
Qed.

Lemma scan_in key l seen a v : In (a, v) (scan key l seen) -> In a l.
Proof.
  intros H. rewrite <- (scan_fst key l seen). apply in_map_iff. exists (a, v). auto.
Qed.

Lemma scan_total key l seen a : In a l -> exists v, In (a, v) (scan key l seen).
Proof.
  intros H. rewrite <- (scan_fst key l seen) in H. apply in_map_iff in H.
  destruct H as [[a' v] [E H]]. simpl in E. subst. eauto.
Qed.

Definition verdict_ok (key : row -> option (list Z)) (l : list row) (seen : list (list Z))
           (a : row) (v : verdict) : Prop :=
  match v with
  | NoKey => key a = None
  | First => exists k, key a = Some k /\ ~ In k seen /\
                       forall b, In b l -> key b = Some k -> posn a <= posn b
  | Repeat => exists k, key a = Some k /\
                        (In k seen \/ exists b, In b l /\ key b = Some k /\ posn b < posn a)
  end.

Lemma scan_spec key : forall l seen, StronglySorted ltp l ->
  forall a v, In (a, v) (scan key l seen) -> verdict_ok key l seen a v.
Proof.
  induction l as [|x l IH]; simpl; intros seen S a v H; [tauto|].
  inversion S as [|x' l' S' F]; subst. rewrite Forall_forall in F.
  destruct (key x) as [kx|] eqn:Kx; [destruct (memk kx seen) eqn:M|]; simpl in H.
  - (* x repeats a seen key *)
    apply memk_In in M.
    destruct H as [H|H].
    + inversion H; subst. simpl. exists kx. auto.
    + specialize (IH seen S' a v H). destruct v; simpl in *; auto.
      * destruct IH as [k [K1 [K2 K3]]]. exists k. repeat split; auto.
        intros b [Hb|Hb] Kb; [subst; congruence|auto].
      * destruct IH as [k [K1 K2]]. exists k. split; auto.
        destruct K2 as [K2|[b [B1 [B2 B3]]]]; auto. right. exists b. auto.
  - (* x is the first row with its key *)
    apply memk_false in M.
    destruct H as [H|H].
    + inversion H; subst. simpl. exists kx. repeat split; auto.
      intros b [Hb|Hb] Kb; [subst; lia|]. specialize (F b Hb). unfold ltp in F. lia.
    + pose proof (scan_in _ _ _ _ _ H) as Ha.
      specialize (IH (kx :: seen) S' a v H). destruct v; simpl in *; auto.
      * destruct IH as [k [K1 [K2 K3]]]. exists k. repeat split; auto.
        intros b [Hb|Hb] Kb; [|auto]. subst. exfalso. apply K2. left. congruence.
      * destruct IH as [k [K1 K2]]. exists k. split; auto.
        destruct K2 as [[K2|K2]|[b [B1 [B2 B3]]]]; auto.
        -- subst. right. exists x. repeat split; auto. specialize (F a Ha). exact F.
        -- right. exists b. auto.
  - (* x has no key *)
    destruct H as [H|H].
    + inversion H; subst. simpl. auto.
    + specialize (IH seen S' a v H). destruct v; simpl in *; auto.
      * destruct IH as [k [K1 [K2 K3]]]. exists k. repeat split; auto.
        intros b [Hb|Hb] Kb; [subst; congruence|auto].
      * destruct IH as [k [K1 K2]]. exists k. split; auto.
        destruct K2 as [K2|[b [B1 [B2 B3]]]]; auto. right. exists b. auto.
Qed.

(* order-free reading of the verdicts of a scan over the sorted rows *)
Definition is_first (key : row -> option (list Z)) (rows : list row) (a : row) : Prop :=
  exists k, key a = Some k /\ forall b, In b rows -> key b = Some k -> posn a <= posn b.
Definition is_repeat (key : row -> option (list Z)) (rows : list row) (a : row) : Prop :=
  exists k b, key a = Some k /\ In b rows /\ key b = Some k /\ posn b < posn a.

Section ScanSorted.
  Variables (key : row -> option (list Z)) (rows : list row).
  Hypothesis N : NoDup (map posn rows).
  Let sv := scan key (sort_pos rows) [].

  Lemma sv_spec a v : In (a, v) sv -> verdict_ok key rows [] a v.
  Proof.
    intros H. pose proof (scan_spec key _ [] (sort_sorted _ N) a v H) as X.
    destruct v; simpl in *; auto.
    - destruct X as [k [K1 [K2 K3]]]. exists k. repeat split; auto.
      intros b Hb. apply K3. apply sort_pos_in2; auto.
    - destruct X as [k [K1 [K2|[b [B1 [B2 B3]]]]]]; [try tauto; exfalso; eapply in_nil; eassumption|].
      exists k. split; auto. right. exists b. repeat split; auto. apply sort_pos_in1; auto.
  Qed.

  Lemma sv_in a v : In (a, v) sv -> In a rows.
  Proof. intros H. apply sort_pos_in1. exact (scan_in _ _ _ _ _ H). Qed.

  Lemma sv_total a : In a rows -> exists v, In (a, v) sv.
  Proof. intros H. apply scan_total. apply sort_pos_in2; auto. Qed.

  Lemma sv_first a : In (a, First) sv <-> In a rows /\ is_first key rows a.
  Proof.
    split.
    - intros H. split; [eapply sv_in; eauto|].
      destruct (sv_spec _ _ H) as [k [K1 [_ K3]]]. exists k. auto.
    - intros [Ha [k [K1 K2]]]. destruct (sv_total a Ha) as [v Hv].
      pose proof (sv_spec _ _ Hv) as X. destruct v; simpl in X; auto.
      + congruence.
      + destruct X as [k' [K1' [K2'|[b [B1 [B2 B3]]]]]]; [try tauto; exfalso; eapply in_nil; eassumption|].
        assert (k' = k) by congruence. subst. specialize (K2 b B1 B2). lia.
  Qed.

  Lemma sv_repeat a : In (a, Repeat) sv <-> In a rows /\ is_repeat key rows a.
  Proof.
    split.
    - intros H. split; [eapply sv_in; eauto|].
      destruct (sv_spec _ _ H) as [k [K1 [K2|[b [B1 [B2 B3]]]]]]; [try tauto; exfalso; eapply in_nil; eassumption|].
      exists k, b. auto.
    - intros [Ha [k [b [K1 [B1 [B2 B3]]]]]]. destruct (sv_total a Ha) as [v Hv].
      pose proof (sv_spec _ _ Hv) as X. destruct v; simpl in X; auto.
      + congruence.
      + destruct X as [k' [K1' [_ K3']]]. assert (k' = k) by congruence. subst.
        specialize (K3' b B1 B2). lia.
  Qed.

  Lemma sv_nokey a : In (a, NoKey) sv <-> In a rows /\ key a = None.
  Proof.
    split.
    - intros H. split; [eapply sv_in; eauto|]. exact (sv_spec _ _ H).
    - intros [Ha K]. destruct (sv_total a Ha) as [v Hv].
      pose proof (sv_spec _ _ Hv) as X. destruct v; simpl in X; auto.
      + destruct X as [k [K1 _]]. congruence.
      + destruct X as [k [K1 _]]. congruence.
  Qed.

  (* the row that wins is unique, and every key that occurs has a winner *)
  Lemma first_unique a b k :
    In a rows -> In b rows -> is_first key rows a -> is_first key rows b ->
    key a = Some k -> key b = Some k -> a = b.
  Proof.
    intros Ha Hb [ka [A1 A2]] [kb [B1 B2]] Ka Kb.
    assert (ka = k) by congruence. assert (kb = k) by congruence. subst.
    apply (nodup_posn_inj rows); auto.
    specialize (A2 b Hb Kb). specialize (B2 a Ha Ka). lia.
  Qed.

  Lemma first_exists k : forall n b, posn b <= n -> In b rows -> key b = Some k ->
    exists a, In a rows /\ is_first key rows a /\ key a = Some k.
  Proof.
    induction n as [|n IH]; intros b Hn Hb Kb.
    - exists b. repeat split; auto. exists k. split; auto. intros; lia.
    - destruct (sv_total b Hb) as [v Hv]. pose proof (sv_spec _ _ Hv) as X.
      destruct v; simpl in X.
      + congruence.
      + destruct X as [k' [K1 [_ K3]]]. exists b. repeat split; auto. exists k'. auto.
      + destruct X as [k' [K1 [K2|[c [C1 [C2 C3]]]]]]; [try tauto; exfalso; eapply in_nil; eassumption|].
        assert (k' = k) by congruence. subst. apply (IH c); auto. lia.
  Qed.
End ScanSorted.

(* --- ValidatorPreClean ------------------------------------------------ *)

Lemma keep_first_in sv a : In a (keep_first sv) <-> In (a, First) sv.
Proof.
  unfold keep_first. rewrite in_flat_map. split.
  - intros [[x v] [H1 H2]]. destruct v; simpl in H2; try tauto.
    destruct H2 as [H2|[]]. subst. auto.
  - intros H. exists (a, First). simpl. auto.
Qed.

(* first row wins: a row survives iff all its key fields are integers and it
   has the smallest table_pos among the rows with the same key *)
Lemma preclean_table_spec pks rows a :
  NoDup (map posn rows) ->
  (In a (preclean_table pks rows) <-> In a rows /\ is_first (row_pk pks) rows a).
Proof.
  intros N. unfold preclean_table. rewrite keep_first_in. apply sv_first; auto.
Qed.

Lemma preclean_table_subset pks rows a : In a (preclean_table pks rows) -> In a rows.
Proof.
  unfold preclean_table. rewrite keep_first_in. intros H.
  apply sort_pos_in1. exact (scan_in _ _ _ _ _ H).
Qed.

Lemma incl_map_nodup {A B} (f : A -> B) (l m : list A) :
  NoDup (map f m) -> NoDup l -> incl l m -> NoDup (map f l).
Proof.
  intros Nm Nl I. induction l as [|a l IH]; simpl; [constructor|].
  inversion Nl as [|x y N1 N2]; subst. constructor.
  - intros H. apply in_map_iff in H. destruct H as [b [E Hb]].
    assert (a = b).
    { clear IH. assert (Ha : In a m) by (apply I; simpl; auto).
      assert (Hb' : In b m) by (apply I; simpl; auto).
      clear -Nm Ha Hb' E. induction m as [|c m IH]; simpl in *; [tauto|].
      inversion Nm as [|x y M1 M2]; subst.
      destruct Ha as [Ha|Ha], Hb' as [Hb|Hb]; subst; auto.
      - exfalso. apply M1. rewrite <- E. apply in_map; auto.
      - exfalso. apply M1. rewrite E. apply in_map; auto. }
    subst. auto.
  - apply IH; auto. intros x Hx. apply I. simpl; auto.
Qed.

Lemma strongly_sorted_nodup l : StronglySorted ltp l -> NoDup (map posn l).
Proof.
  induction 1 as [|a l S IH F]; simpl; constructor; auto.
  intros H. apply in_map_iff in H. destruct H as [b [E Hb]].
  rewrite Forall_forall in F. specialize (F b Hb). unfold ltp in F. lia.
Qed.

Lemma scan_snd_sorted key : forall l seen,
  StronglySorted ltp l -> StronglySorted ltp (map fst (scan key l seen)).
Proof. intros. rewrite scan_fst. auto. Qed.


Lemma flat_map_sorted (f : row * verdict -> list row) :
  (forall rv, f rv = [fst rv] \/ f rv = []) ->
  forall sv, StronglySorted ltp (map fst sv) -> StronglySorted ltp (flat_map f sv).
Proof.
  intros Hf. induction sv as [|rv sv IH]; simpl; intros S; [constructor|].
  inversion S as [|x l S' F]; subst.
  destruct (Hf rv) as [E|E]; rewrite E; simpl; auto.
  constructor; auto. rewrite Forall_forall in *. intros y Hy.
  apply F. apply in_flat_map in Hy. destruct Hy as [rv' [H1 H2]].
  apply in_map_iff. exists rv'. split; auto.
  destruct (Hf rv') as [E'|E']; rewrite E' in H2; simpl in H2; [|tauto].
  destruct H2 as [H2|[]]. auto.
Qed.

Lemma preclean_table_nodup pks rows :
  NoDup (map posn rows) -> NoDup (map posn (preclean_table pks rows)).
Proof.
  intros N. apply strongly_sorted_nodup. unfold preclean_table, keep_first.
  apply flat_map_sorted.
  - intros [r v]. destruct v; simpl; auto.
  - rewrite scan_fst. apply sort_sorted; auto.
Qed.

(* --- ValidatorPreConv: default effects ------------------------------- *)

Lemma assoc_map_isdefault (l : list (string * value)) f :
  assoc f (map (fun fv => if String.eqb (fst fv) "isDefault"
                          then (fst fv, VS (SBool false)) else fv) l) =
  if String.eqb f "isDefault"
  then match assoc f l with Some _ => Some (VS (SBool false)) | None => None end
  else assoc f l.
Proof.
  induction l as [|[k v] l IH]; simpl.
  - destruct (String.eqb f "isDefault"); reflexivity.
  - destruct (String.eqb k "isDefault") eqn:E1; simpl.
    + apply String.eqb_eq in E1. subst k.
      destruct (String.eqb f "isDefault") eqn:E2; simpl; auto.
    + destruct (String.eqb f k) eqn:E3; simpl.
      * apply String.eqb_eq in E3. subst f. rewrite E1. reflexivity.
      * rewrite IH. reflexivity.
Qed.

Lemma sdf_get r f :
  get (set_default_false r) f =
  if String.eqb f "isDefault"
  then match get r f with Some _ => Some (VS (SBool false)) | None => None end
  else get r f.
Proof. unfold get, set_default_false. simpl. apply assoc_map_isdefault. Qed.

Lemma sdf_colkey r c : String.eqb c "isDefault" = false ->
  colkey (set_default_false r) c = colkey r c.
Proof. intros H. unfold colkey. rewrite sdf_get, H. reflexivity. Qed.

Lemma sdf_posn r : posn (set_default_false r) = posn r.
Proof. reflexivity. Qed.

Lemma sdf_key_default r : key_default (set_default_false r) = None.
Proof.
  unfold key_default. rewrite sdf_get. simpl.
  destruct (get r "isDefault"); reflexivity.
Qed.

Lemma sdf_key_rack r : key_rack (set_default_false r) = key_rack r.
Proof.
  unfold key_rack, key_type. rewrite !sdf_colkey by reflexivity. reflexivity.
Qed.

Definition fix_one (rv : row * verdict) : row :=
  match snd rv with Repeat => set_default_false (fst rv) | _ => fst rv end.

Lemma fix_defaults_in rows x :
  NoDup (map posn rows) ->
  (In x (fix_defaults rows) <->
   exists a, In a rows /\
             ((is_repeat key_default rows a /\ x = set_default_false a) \/
              (~ is_repeat key_default rows a /\ x = a))).
Proof.
  intros N. unfold fix_defaults. rewrite in_map_iff. split.
  - intros [[a v] [E H]]. simpl in E. exists a. split; [eapply sv_in; eauto|].
    destruct v; subst x.
    + right. split; auto. intros R.
      pose proof (sv_spec _ _ N _ _ H) as X. simpl in X.
      destruct R as [k [b [K _]]]. congruence.
    + right. split; auto. intros R.
      pose proof (sv_spec _ _ N _ _ H) as X. simpl in X.
      destruct X as [k [K1 [_ K3]]]. destruct R as [k' [b [K' [B1 [B2 B3]]]]].
      assert (k' = k) by congruence. subst. specialize (K3 b B1 B2). lia.
    + left. split; auto. apply (sv_repeat _ _ N) in H. tauto.
  - intros [a [Ha [[R E]|[R E]]]]; subst.
    + exists (a, Repeat). split; auto. apply sv_repeat; auto.
    + destruct (sv_total key_default rows a Ha) as [v Hv]. exists (a, v). split; auto.
      destruct v; auto. exfalso. apply R. apply (sv_repeat _ _ N) in Hv. tauto.
Qed.

Lemma fix_defaults_posn rows : map posn (fix_defaults rows) = map posn (sort_pos rows).
Proof.
  unfold fix_defaults. rewrite map_map.
  rewrite <- (scan_fst key_default (sort_pos rows) []) at 2. rewrite map_map.
  apply map_ext. intros [a v]. destruct v; reflexivity.
Qed.

Lemma fix_defaults_nodup rows :
  NoDup (map posn rows) -> NoDup (map posn (fix_defaults rows)).
Proof.
  intros N. rewrite fix_defaults_posn.
  eapply Permutation_NoDup; [|exact N].
  apply Permutation_sym. apply Permutation_map. apply sort_pos_perm.
Qed.

(* at most one default effect per type, and it is the first one *)
Lemma fix_defaults_one rows x y k :
  NoDup (map posn rows) ->
  In x (fix_defaults rows) -> In y (fix_defaults rows) ->
  key_default x = Some k -> key_default y = Some k -> x = y.
Proof.
  intros N Hx Hy Kx Ky.
  apply (fix_defaults_in _ _ N) in Hx. apply (fix_defaults_in _ _ N) in Hy.
  destruct Hx as [a [Ha [[Ra Ea]|[Ra Ea]]]]; subst x; [rewrite sdf_key_default in Kx; discriminate|].
  destruct Hy as [b [Hb [[Rb Eb]|[Rb Eb]]]]; subst y; [rewrite sdf_key_default in Ky; discriminate|].
  apply (nodup_posn_inj rows); auto.
  destruct (Nat.lt_trichotomy (posn a) (posn b)) as [L|[L|L]]; auto; exfalso.
  - apply Rb. exists k, a. auto.
  - apply Ra. exists k, b. auto.
Qed.

Lemma fix_defaults_first rows x k :
  NoDup (map posn rows) -> In x (fix_defaults rows) -> key_default x = Some k ->
  In x rows /\ forall b, In b rows -> key_default b = Some k -> posn x <= posn b.
Proof.
  intros N Hx Kx. apply (fix_defaults_in _ _ N) in Hx.
  destruct Hx as [a [Ha [[Ra Ea]|[Ra Ea]]]]; subst x; [rewrite sdf_key_default in Kx; discriminate|].
  split; auto. intros b Hb Kb.
  destruct (le_lt_dec (posn a) (posn b)); auto. exfalso. apply Ra. exists k, b. auto.
Qed.

(* --- ValidatorPreConv: module racks ---------------------------------- *)

Lemma drop_racks_in rows x :
  NoDup (map posn rows) ->
  (In x (drop_racks rows) <-> In x rows /\ ~ is_repeat key_rack rows x).
Proof.
  intros N. unfold drop_racks. rewrite in_flat_map. split.
  - intros [[a v] [H E]]. destruct v; simpl in E; try tauto; destruct E as [E|[]]; subst.
    + split; [eapply sv_in; eauto|]. intros [k [b [K _]]].
      pose proof (sv_spec _ _ N _ _ H) as X. simpl in X. congruence.
    + split; [eapply sv_in; eauto|]. intros [k' [b [K' [B1 [B2 B3]]]]].
      pose proof (sv_spec _ _ N _ _ H) as X. simpl in X.
      destruct X as [k [K1 [_ K3]]]. assert (k' = k) by congruence. subst.
      specialize (K3 b B1 B2). lia.
  - intros [Hx R]. destruct (sv_total key_rack rows x Hx) as [v Hv].
    exists (x, v). split; auto. destruct v; simpl; auto.
    apply R. apply (sv_repeat _ _ N) in Hv. tauto.
Qed.

Lemma drop_racks_one rows x y k :
  NoDup (map posn rows) ->
  In x (drop_racks rows) -> In y (drop_racks rows) ->
  key_rack x = Some k -> key_rack y = Some k -> x = y.
Proof.
  intros N Hx Hy Kx Ky.
  apply (drop_racks_in _ _ N) in Hx. apply (drop_racks_in _ _ N) in Hy.
  destruct Hx as [Hx Rx], Hy as [Hy Ry].
  apply (nodup_posn_inj rows); auto.
  destruct (Nat.lt_trichotomy (posn x) (posn y)) as [L|[L|L]]; auto; exfalso.
  - apply Ry. exists k, x. auto.
  - apply Rx. exists k, y. auto.
Qed.

Lemma drop_racks_first rows x k :
  NoDup (map posn rows) -> In x (drop_racks rows) -> key_rack x = Some k ->
  forall b, In b rows -> key_rack b = Some k -> posn x <= posn b.
Proof.
  intros N Hx Kx b Hb Kb. apply (drop_racks_in _ _ N) in Hx. destruct Hx as [Hx R].
  destruct (le_lt_dec (posn x) (posn b)); auto. exfalso. apply R. exists k, b. auto.
Qed.

(* ------------------------------------------------------------------ *)
(* 3. the stages, order-free                                           *)
(* ------------------------------------------------------------------ *)

Definition wf_t (d : data) (t : table) : Prop := NoDup (map posn (d t)).
Definition wf (d : data) : Prop := forall t, wf_t d t.
(* the same row sets, whatever the iteration order *)
Definition same (d d' : data) : Prop := forall t x, In x (d t) <-> In x (d' t).

Lemma same_refl d : same d d.
Proof. intros t x. tauto. Qed.
Lemma same_sym d d' : same d d' -> same d' d.
Proof. intros S t x. symmetry. apply S. Qed.
Lemma same_trans a b c : same a b -> same b c -> same a c.
Proof. intros S1 S2 t x. rewrite (S1 t x). apply S2. Qed.

Lemma number_posn : forall l n, map posn (number n l) = seq n (List.length l).
Proof. induction l as [|f l IH]; simpl; intros n; auto. rewrite IH. reflexivity. Qed.

Lemma load_wf rw : wf (load rw).
Proof. intros t. unfold wf_t, load. rewrite number_posn. apply seq_NoDup. Qed.

Lemma number_in : forall l n fs, In fs l -> exists i, In (mkRow (Some i) fs) (number n l).
Proof.
  induction l as [|f l IH]; simpl; intros n fs H; [tauto|].
  destruct H as [H|H].
  - subst. exists n. auto.
  - destruct (IH (S n) fs H) as [i Hi]. exists i. auto.
Qed.

Lemma forallb_same {A} (f : A -> bool) l l' :
  (forall x, In x l <-> In x l') -> forallb f l = forallb f l'.
Proof.
  intros S. destruct (forallb f l) eqn:E1, (forallb f l') eqn:E2; auto.
  - rewrite forallb_forall in E1.
    assert (forallb f l' = true) by (apply forallb_forall; intros x Hx; apply E1, S; auto).
    congruence.
  - rewrite forallb_forall in E2.
    assert (forallb f l = true) by (apply forallb_forall; intros x Hx; apply E2, S; auto).
    congruence.
Qed.

Lemma memk_same l l' : (forall k, In k l <-> In k l') -> forall k, memk k l = memk k l'.
Proof.
  intros S k. destruct (memk k l) eqn:E1, (memk k l') eqn:E2; auto.
  - apply memk_In in E1. apply S in E1. apply memk_In in E1. congruence.
  - apply memk_In in E2. apply S in E2. apply memk_In in E2. congruence.
Qed.

Lemma memz_same l l' : (forall k, In k l <-> In k l') -> forall k, memz k l = memz k l'.
Proof.
  intros S k. destruct (memz k l) eqn:E1, (memz k l') eqn:E2; auto.
  - apply memz_In in E1. apply S in E1. apply memz_In in E1. congruence.
  - apply memz_In in E2. apply S in E2. apply memz_In in E2. congruence.
Qed.

(* --- pre-clean -------------------------------------------------------- *)

Lemma preclean_wf d : wf d -> wf (preclean d).
Proof.
  intros W t. unfold wf_t, preclean.
  destruct (pk_of t gen_pk_spec); [apply preclean_table_nodup|]; apply W.
Qed.

Lemma is_first_same key l l' a :
  (forall x, In x l <-> In x l') -> is_first key l a -> is_first key l' a.
Proof.
  intros S [k [K1 K2]]. exists k. split; auto. intros b Hb. apply K2. apply S. auto.
Qed.

Lemma is_repeat_same key l l' a :
  (forall x, In x l <-> In x l') -> is_repeat key l a -> is_repeat key l' a.
Proof.
  intros S [k [b [K [B1 B2]]]]. exists k, b. split; auto. split; auto. apply S. auto.
Qed.

Lemma preclean_same d d' : wf d -> wf d' -> same d d' -> same (preclean d) (preclean d').
Proof.
  intros W W' S t x. unfold preclean.
  destruct (pk_of t gen_pk_spec) as [pks|]; [|apply S].
  rewrite (preclean_table_spec pks (d t) x (W t)).
  rewrite (preclean_table_spec pks (d' t) x (W' t)).
  split; intros [H1 H2]; (split; [apply S; auto|]).
  - eapply is_first_same; [|exact H2]. apply S.
  - eapply is_first_same; [|exact H2]. intros y. symmetry. apply S.
Qed.

Lemma preclean_subset d t x : In x (preclean d t) -> In x (d t).
Proof.
  unfold preclean. destruct (pk_of t gen_pk_spec); auto. apply preclean_table_subset.
Qed.

(* --- normaliser ------------------------------------------------------- *)

Lemma normalize_other d t : t <> T_dgmtypeattribs -> normalize d t = d t.
Proof. intros H. unfold normalize. apply upd_other. auto. Qed.

Lemma normalize_dta d x :
  In x (normalize d T_dgmtypeattribs) <->
  In x (d T_dgmtypeattribs) \/
  exists r, In r (d T_evetypes) /\ In x (moved_rows (defined_pairs d) r).
Proof.
  unfold normalize. rewrite upd_same, in_app_iff, in_flat_map. tauto.
Qed.

Lemma defined_pairs_same d d' :
  same d d' -> forall k, In k (defined_pairs d) <-> In k (defined_pairs d').
Proof.
  intros S k. unfold defined_pairs. rewrite !in_flat_map.
  split; intros [r [H1 H2]]; exists r; (split; [apply S; auto|auto]).
Qed.

Lemma moved_rows_ext def def' r :
  (forall k, memk k def = memk k def') -> moved_rows def r = moved_rows def' r.
Proof.
  intros E. unfold moved_rows. destruct (get r "typeID"); auto.
  destruct (refkey v); auto. apply flat_map_ext. intros fa.
  destruct (get r (fst fa)); auto. rewrite E. reflexivity.
Qed.

Lemma normalize_same d d' : same d d' -> same (normalize d) (normalize d').
Proof.
  intros S t x. destruct (table_eq_dec t T_dgmtypeattribs) as [E|E].
  - subst. rewrite !normalize_dta.
    rewrite (S T_dgmtypeattribs x).
    assert (M : forall r, moved_rows (defined_pairs d) r = moved_rows (defined_pairs d') r).
    { intros r. apply moved_rows_ext. apply memk_same. apply defined_pairs_same. auto. }
    split; (intros [H|[r [H1 H2]]]; [left; auto|right; exists r]).
    + split; [apply S; auto|rewrite <- M; auto].
    + split; [apply S; auto|rewrite M; auto].
  - rewrite !normalize_other by auto. apply S.
Qed.

(* --- cleaner ---------------------------------------------------------- *)

Lemma strong_groups_same d d' :
  same d d' -> forall g, In g (strong_groups d) <-> In g (strong_groups d').
Proof.
  intros S g. unfold strong_groups. rewrite !in_app_iff, !in_flat_map.
  split; (intros [H|[r [H1 H2]]]; [left; auto|right; exists r; split; [apply S; auto|auto]]).
Qed.

Lemma strongp_same d d' t r : same d d' -> strongp d t r = strongp d' t r.
Proof.
  intros S. destruct t; simpl; auto.
  destruct (colkey r "groupID"); auto. apply memz_same. apply strong_groups_same. auto.
Qed.

Lemma reach_same d d' : same d d' -> forall t r, reach d t r -> reach d' t r.
Proof.
  intros S t r H. induction H as [r H1 H2|t r t' r' H IH Hw Hd].
  - apply reach_strong; [apply S; auto|]. rewrite <- (strongp_same d d'); auto.
  - eapply reach_step; eauto. apply S; auto.
Qed.

Lemma clean_same d d' k k' :
  same d d' -> clean d = Some k -> clean d' = Some k' -> same k k'.
Proof.
  intros S H H' t x. unfold clean in *.
  rewrite (clean_eq_closure _ _ _ H), (clean_eq_closure _ _ _ H').
  split; apply reach_same; auto. apply same_sym; auto.
Qed.

Lemma clean_wf_t d fuel k t : clean_fuel fuel d = Some k -> wf_t d t -> wf_t k t.
Proof.
  intros H W. destruct (clean_state _ _ _ H) as [st [Hs E]]. subst k.
  destruct (autoclean_inv d _ _ _ (inv_kill_weak d) Hs) as [I _].
  unfold wf_t in *.
  pose proof (Permutation_map posn (inv_perm _ _ I t)) as P.
  pose proof (Permutation_NoDup (Permutation_sym P) W) as N.
  rewrite map_app in N. apply nodup_app_l in N. auto.
Qed.

(* --- pre-conversion validation --------------------------------------- *)

Definition preconv_data (d : data) : data :=
  upd (upd d T_dgmtypeattribs (filter attr_value_ok (d T_dgmtypeattribs)))
      T_dgmtypeeffects (drop_racks (fix_defaults (d T_dgmtypeeffects))).

Lemma preconv_unfold d :
  preconv d = if forallb has_pos (d T_dgmtypeeffects) then Built (preconv_data d)
              else Crash KeyError.
Proof. reflexivity. Qed.

Lemma preconv_dte d : preconv_data d T_dgmtypeeffects = drop_racks (fix_defaults (d T_dgmtypeeffects)).
Proof. unfold preconv_data. apply upd_same. Qed.

Lemma preconv_dta d : preconv_data d T_dgmtypeattribs = filter attr_value_ok (d T_dgmtypeattribs).
Proof. unfold preconv_data. rewrite upd_other by discriminate. apply upd_same. Qed.

Lemma preconv_other d t :
  t <> T_dgmtypeeffects -> t <> T_dgmtypeattribs -> preconv_data d t = d t.
Proof. intros H1 H2. unfold preconv_data. rewrite !upd_other by auto. reflexivity. Qed.

Lemma fix_defaults_same l l' :
  NoDup (map posn l) -> NoDup (map posn l') -> (forall x, In x l <-> In x l') ->
  forall x, In x (fix_defaults l) <-> In x (fix_defaults l').
Proof.
  intros N N' S x. rewrite (fix_defaults_in l x N), (fix_defaults_in l' x N').
  split; intros [a [Ha [[R E]|[R E]]]]; exists a.
  - split; [apply S; auto|left; split; auto]. eapply is_repeat_same; eauto.
  - split; [apply S; auto|right; split; auto]. intros R'. apply R.
    eapply is_repeat_same; [|exact R']. intros y. symmetry. apply S.
  - split; [apply S; auto|left; split; auto]. eapply is_repeat_same; [|exact R].
    intros y. symmetry. apply S.
  - split; [apply S; auto|right; split; auto]. intros R'. apply R.
    eapply is_repeat_same; eauto.
Qed.

Lemma drop_racks_same l l' :
  NoDup (map posn l) -> NoDup (map posn l') -> (forall x, In x l <-> In x l') ->
  forall x, In x (drop_racks l) <-> In x (drop_racks l').
Proof.
  intros N N' S x. rewrite (drop_racks_in l x N), (drop_racks_in l' x N').
  split; intros [H R]; (split; [apply S; auto|]); intros R'; apply R.
  - eapply is_repeat_same; [|exact R']. intros y. symmetry. apply S.
  - eapply is_repeat_same; eauto.
Qed.

Lemma preconv_data_same k k' :
  same k k' -> wf_t k T_dgmtypeeffects -> wf_t k' T_dgmtypeeffects ->
  same (preconv_data k) (preconv_data k').
Proof.
  intros S W W' t x.
  destruct (table_eq_dec t T_dgmtypeeffects) as [E|E]; [subst|].
  - rewrite !preconv_dte. apply drop_racks_same.
    + apply fix_defaults_nodup; auto.
    + apply fix_defaults_nodup; auto.
    + apply fix_defaults_same; auto.
  - destruct (table_eq_dec t T_dgmtypeattribs) as [E2|E2]; [subst|].
    + rewrite !preconv_dta, !filter_In. rewrite (S T_dgmtypeattribs x). tauto.
    + rewrite !preconv_other by auto. apply S.
Qed.

(* --- the whole pipeline under arbitrary iteration orders -------------- *)

Definition outcome_same (a b : outcome data) : Prop :=
  match a, b with
  | Built x, Built y => same x y
  | Crash e, Crash e' => e = e'
  | _, _ => False
  end.

Lemma in_domain_same d d' : same d d' -> in_domain d = in_domain d'.
Proof.
  intros S. unfold in_domain.
  rewrite (forallb_same modinfo_shape_ok _ _ (S T_dgmeffects)).
  rewrite (forallb_same sections_shape_ok _ _ (S T_dbuffcollections)). reflexivity.
Qed.

Section Shuffle.
  Variable sh : nat -> data -> data.
  Hypothesis sh_perm : forall n d t, Permutation (sh n d t) (d t).

  Lemma sh_same n d : same (sh n d) d.
  Proof.
    intros t x. split; apply Permutation_in; [apply sh_perm|apply Permutation_sym, sh_perm].
  Qed.

  Lemma sh_wf_t n d t : wf_t d t -> wf_t (sh n d) t.
  Proof.
    unfold wf_t. intros W. eapply Permutation_NoDup; [|exact W].
    apply Permutation_sym. apply Permutation_map. apply sh_perm.
  Qed.

  Lemma pipeline_sh_same d0 : wf d0 -> outcome_same (pipeline d0) (pipeline_sh sh d0).
  Proof.
    intros W. unfold pipeline, pipeline_sh.
    rewrite (in_domain_same (sh 0 d0) d0 (sh_same 0 d0)).
    destruct (in_domain d0); [|reflexivity].
    set (p := preclean d0). set (p' := preclean (sh 0 d0)).
    assert (Sp : same p p').
    { apply preclean_same; auto.
      - intros t. apply sh_wf_t. apply W.
      - apply same_sym. apply sh_same. }
    assert (Wp : wf p) by (apply preclean_wf; auto).
    assert (Wp' : wf p') by (apply preclean_wf; intros t; apply sh_wf_t; apply W).
    set (n := normalize p). set (n' := sh 2 (normalize (sh 1 p'))).
    assert (Sn : same n n').
    { eapply same_trans; [|apply same_sym; apply sh_same].
      apply normalize_same. eapply same_trans; [exact Sp|]. apply same_sym. apply sh_same. }
    destruct (clean n) as [k|] eqn:C; [|exfalso; exact (clean_total n C)].
    destruct (clean n') as [k'|] eqn:C'; [|exfalso; exact (clean_total n' C')].
    pose proof (clean_same _ _ _ _ Sn C C') as Sk.
    assert (Wk : wf_t k T_dgmtypeeffects).
    { eapply clean_wf_t; [exact C|]. unfold wf_t, n. rewrite normalize_other by discriminate.
      apply Wp. }
    assert (Wk' : wf_t (sh 3 k') T_dgmtypeeffects).
    { apply sh_wf_t. eapply clean_wf_t; [exact C'|]. unfold n'. apply sh_wf_t.
      unfold wf_t. rewrite normalize_other by discriminate. apply sh_wf_t. apply Wp'. }
    assert (Sk3 : same k (sh 3 k')).
    { eapply same_trans; [exact Sk|]. apply same_sym. apply sh_same. }
    rewrite !preconv_unfold.
    rewrite (forallb_same has_pos _ _ (Sk3 T_dgmtypeeffects)).
    destruct (forallb has_pos (sh 3 k' T_dgmtypeeffects)); simpl; auto.
    apply preconv_data_same; auto.
  Qed.
End Shuffle.

(* ------------------------------------------------------------------ *)
(* 4. obligations on the generated tables                              *)
(* ------------------------------------------------------------------ *)

Definition fk_eqb (a b : table * string * table * string) : bool :=
  match a, b with
  | (t1, c1, t2, c2), (u1, d1, u2, d2) =>
    table_beq t1 u1 && String.eqb c1 d1 && table_beq t2 u2 && String.eqb c2 d2
  end.

Lemma fk_eqb_eq a b : fk_eqb a b = true -> a = b.
Proof.
  destruct a as [[[t1 c1] t2] c2], b as [[[u1 d1] u2] d2]. simpl. intros H.
  repeat (apply andb_true_iff in H; destruct H as [H ?]).
  apply table_beq_eq in H. apply String.eqb_eq in H2. apply table_beq_eq in H1.
  apply String.eqb_eq in H0. subst. reflexivity.
Qed.

Definition fk_mem (x : table * string * table * string) : bool := existsb (fk_eqb x) gen_foreign_keys.

Lemma fk_mem_In x : fk_mem x = true -> In x gen_foreign_keys.
Proof.
  unfold fk_mem. intros H. apply existsb_exists in H. destruct H as [y [H1 H2]].
  apply fk_eqb_eq in H2. subst. auto.
Qed.

(* every attribute-id argument of Effect() / Attribute() is read from a field
   the cleaner follows *)
Lemma ob_effect_ref_fields_fk :
  forallb (fun f => fk_mem (T_dgmeffects, f, T_dgmattribs, "attributeID"%string))
          effect_ref_fields = true.
Proof. vm_compute. reflexivity. Qed.

Lemma ob_attr_ref_fields_fk :
  forallb (fun f => fk_mem (T_dgmattribs, f, T_dgmattribs, "attributeID"%string))
          attr_ref_fields = true.
Proof. vm_compute. reflexivity. Qed.

(* ... and every such argument is there (none was renamed away) *)
Lemma ob_ref_fields_complete :
  List.length effect_ref_fields = List.length effect_ref_args /\
  List.length attr_ref_fields = List.length attr_ref_args.
Proof. vm_compute. split; reflexivity. Qed.

(* the constructor argument lists are the ones the model's views were written for *)
Lemma ob_ctor_args :
  map (fun e => fst (fst e)) gen_effect_ctor =
    ["effect_id"; "category_id"; "is_offensive"; "is_assistance"; "duration_attr_id";
     "discharge_attr_id"; "range_attr_id"; "falloff_attr_id"; "tracking_speed_attr_id";
     "fitting_usage_chance_attr_id"; "resist_attr_id"; "build_status"; "modifiers"]%string /\
  map (fun e => fst (fst e)) gen_attr_ctor =
    ["attr_id"; "max_attr_id"; "default_value"; "high_is_good"; "stackable"]%string /\
  map (fun e => fst (fst e)) gen_type_ctor =
    ["type_id"; "group_id"; "category_id"; "attrs"; "effects"; "default_effect";
     "abilities_data"; "required_skills"]%string.
Proof. vm_compute. repeat split; reflexivity. Qed.

(* every field the converter reads from an effect / attribute row is either a
   plain value or followed by the cleaner; and every foreign key the cleaner
   follows is a field the converter reads *)
Definition conv_reads (t : table) : list string :=
  flat_map (fun e => if table_beq (fst e) t then snd e else []) gen_conv_reads.

Lemma ob_conv_reads_followed :
  forallb (fun f => mems f ["effectID"; "effectCategory"; "isOffensive"; "isAssistance"]%string
                    || fk_mem (T_dgmeffects, f, T_dgmattribs, "attributeID"%string))
          (conv_reads T_dgmeffects) = true /\
  forallb (fun f => mems f ["attributeID"; "defaultValue"; "highIsGood"; "stackable"]%string
                    || fk_mem (T_dgmattribs, f, T_dgmattribs, "attributeID"%string))
          (conv_reads T_dgmattribs) = true.
Proof. vm_compute. split; reflexivity. Qed.

Lemma ob_fk_read_by_converter :
  forallb (fun fk => match fk with (st, sc, _, _) => mems sc (conv_reads st) end)
          gen_foreign_keys = true.
Proof. vm_compute. reflexivity. Qed.

Lemma ob_fk_entries :
  fk_mem (T_dgmtypeattribs, "attributeID", T_dgmattribs, "attributeID")%string = true /\
  fk_mem (T_skillreqs, "skillTypeID", T_evetypes, "typeID")%string = true /\
  fk_mem (T_evetypes, "groupID", T_evegroups, "groupID")%string = true /\
  fk_mem (T_dgmtypeeffects, "effectID", T_dgmeffects, "effectID")%string = true.
Proof. vm_compute. repeat split; reflexivity. Qed.

Lemma ob_pk_single :
  pk_of T_dgmattribs gen_pk_spec = Some ["attributeID"%string] /\
  pk_of T_evetypes gen_pk_spec = Some ["typeID"%string] /\
  pk_of T_dgmeffects gen_pk_spec = Some ["effectID"%string] /\
  pk_of T_evegroups gen_pk_spec = Some ["groupID"%string] /\
  pk_of T_dbuffcollections gen_pk_spec = Some ["buffID"%string].
Proof. vm_compute. repeat split; reflexivity. Qed.

Lemma ob_pk_all : forallb (fun t => match pk_of t gen_pk_spec with Some _ => true | None => false end)
                          gen_tables = true.
Proof. vm_compute. reflexivity. Qed.

Lemma ob_attrvalue_tgts :
  gen_autocharge_tgt = (T_evetypes, "typeID"%string) /\
  gen_buffattr_tgt = (T_dbuffcollections, "buffID"%string).
Proof. vm_compute. split; reflexivity. Qed.

(* the supported categories and groups: charge, drone, fighter, implant,
   module, ship, skill, subsystem; character, effect beacon *)
Lemma ob_strong :
  (forall c, In c gen_strong_categories <-> In c [8; 18; 87; 20; 7; 6; 16; 32]%Z) /\
  (forall g, In g gen_strong_groups <-> In g [1; 920]%Z).
Proof.
  split; intros z; rewrite <- !memz_In.
  - assert (E : forallb (fun c => memz c [8; 18; 87; 20; 7; 6; 16; 32]%Z) gen_strong_categories = true /\
               forallb (fun c => memz c gen_strong_categories) [8; 18; 87; 20; 7; 6; 16; 32]%Z = true)
      by (vm_compute; split; reflexivity).
    destruct E as [E1 E2]. rewrite forallb_forall in E1, E2.
    split; intros H; apply memz_In in H; [apply E1|apply E2]; exact H.
  - assert (E : forallb (fun c => memz c [1; 920]%Z) gen_strong_groups = true /\
               forallb (fun c => memz c gen_strong_groups) [1; 920]%Z = true)
      by (vm_compute; split; reflexivity).
    destruct E as [E1 E2]. rewrite forallb_forall in E1, E2.
    split; intros H; apply memz_In in H; [apply E1|apply E2]; exact H.
Qed.

(* int() failures the cleaner must survive (model: s_pyint = None) *)
Lemma ob_int_catches :
  forallb (fun l => forallb (fun e => mems e l) ["TypeError"; "ValueError"; "OverflowError"]%string)
          [gen_autocharge_catches; gen_buffattr_catches; gen_modinfo_int_catches] = true.
Proof. vm_compute. reflexivity. Qed.

(* stage order, validation order and clean-up loop shape the model was written for *)
Lemma ob_stage_order :
  gen_stage_order = ["ValidatorPreClean.run(data)"; "Normalizer.run(data)"; "Cleaner().clean(data)";
                     "ValidatorPreConv.run(data)"; "Converter.run(data)"]%string /\
  firstn 3 gen_preconv_order =
    ["cls._attr_value_type(data['dgmtypeattribs'])";
     "cls._multiple_default_effects(data['dgmtypeeffects'])";
     "cls._colliding_module_racks(data['dgmtypeeffects'])"]%string /\
  gen_cleanup_shape = ["self._get_tgts_relational"; "self._get_tgts_modinfo";
                       "self._get_tgts_attr_autocharge"; "self._get_tgts_attr_buff";
                       "self._get_tgts_buff"]%string.
Proof. vm_compute. repeat split; reflexivity. Qed.

(* the buff template builder reads, per section, exactly the fields whose
   ids the cleaner follows *)
Lemma ob_buff_fields :
  map (fun e => match e with (sec, _, extra, af) =>
                  (sec, af :: match extra with Some x => [x] | None => [] end) end) gen_buff_tpl =
  map (fun s => (fst s, map (fun r => fst (fst r)) (snd s))) gen_buff_sections.
Proof. vm_compute. reflexivity. Qed.

Lemma ob_modinfo_rel :
  gen_modinfo_rel = [("skillTypeID", T_evetypes, "typeID"); ("groupID", T_evegroups, "groupID");
                     ("modifyingAttributeID", T_dgmattribs, "attributeID");
                     ("modifiedAttributeID", T_dgmattribs, "attributeID")]%string.
Proof. vm_compute. reflexivity. Qed.

(* auxiliary tables are keyed by typeID *)
Lemma ob_aux_keyed :
  forallb (fun t => match pk_of t gen_pk_spec with
                    | Some (c :: _) => String.eqb c "typeID" | _ => false end)
          gen_aux_tables = true.
Proof. vm_compute. reflexivity. Qed.

(* ------------------------------------------------------------------ *)
(* 5. the pipeline: first row wins, at most one, nothing dangling      *)
(* ------------------------------------------------------------------ *)

Lemma pipeline_built d0 d4 :
  pipeline d0 = Built d4 ->
  exists d3, clean (normalize (preclean d0)) = Some d3 /\ d4 = preconv_data d3.
Proof.
  unfold pipeline. destruct (in_domain d0); [|discriminate].
  destruct (clean (normalize (preclean d0))) as [d3|]; [|discriminate].
  rewrite preconv_unfold. destruct (forallb has_pos (d3 T_dgmtypeeffects)); [|discriminate].
  intros H. inversion H. eauto.
Qed.

Lemma cleaned_wf_dte d0 d3 :
  wf d0 -> clean (normalize (preclean d0)) = Some d3 -> wf_t d3 T_dgmtypeeffects.
Proof.
  intros W C. eapply clean_wf_t; [exact C|].
  unfold wf_t. rewrite normalize_other by discriminate. apply preclean_wf; auto.
Qed.

(* at most one default effect per type among the rows the converter sees *)
Lemma final_one_default d0 d4 x y k :
  wf d0 -> pipeline d0 = Built d4 ->
  In x (d4 T_dgmtypeeffects) -> In y (d4 T_dgmtypeeffects) ->
  key_default x = Some k -> key_default y = Some k -> x = y.
Proof.
  intros W P Hx Hy Kx Ky. destruct (pipeline_built _ _ P) as [d3 [C E]]. subst d4.
  pose proof (cleaned_wf_dte _ _ W C) as N. rewrite preconv_dte in *.
  pose proof (fix_defaults_nodup _ N) as N2.
  apply (drop_racks_in _ _ N2) in Hx. apply (drop_racks_in _ _ N2) in Hy.
  destruct Hx as [Hx _], Hy as [Hy _].
  exact (fix_defaults_one _ _ _ _ N Hx Hy Kx Ky).
Qed.

Lemma final_one_rack d0 d4 x y k :
  wf d0 -> pipeline d0 = Built d4 ->
  In x (d4 T_dgmtypeeffects) -> In y (d4 T_dgmtypeeffects) ->
  key_rack x = Some k -> key_rack y = Some k -> x = y.
Proof.
  intros W P Hx Hy Kx Ky. destruct (pipeline_built _ _ P) as [d3 [C E]]. subst d4.
  pose proof (cleaned_wf_dte _ _ W C) as N. rewrite preconv_dte in *.
  exact (drop_racks_one _ _ _ _ (fix_defaults_nodup _ N) Hx Hy Kx Ky).
Qed.

(* first row wins: the default row that stays default is the first default
   row of its type among the cleaned rows *)
Lemma final_default_first d0 d4 x k :
  wf d0 -> pipeline d0 = Built d4 -> In x (d4 T_dgmtypeeffects) -> key_default x = Some k ->
  exists d3, clean (normalize (preclean d0)) = Some d3 /\ In x (d3 T_dgmtypeeffects) /\
             forall b, In b (d3 T_dgmtypeeffects) -> key_default b = Some k -> posn x <= posn b.
Proof.
  intros W P Hx Kx. destruct (pipeline_built _ _ P) as [d3 [C E]]. subst d4.
  exists d3. split; auto.
  pose proof (cleaned_wf_dte _ _ W C) as N. rewrite preconv_dte in *.
  apply (drop_racks_in _ _ (fix_defaults_nodup _ N)) in Hx. destruct Hx as [Hx _].
  apply (fix_defaults_first _ _ _ N Hx Kx).
Qed.

Lemma fix_defaults_image rows b :
  In b rows -> exists b2, In b2 (fix_defaults rows) /\ posn b2 = posn b /\ key_rack b2 = key_rack b.
Proof.
  intros H. destruct (scan_total key_default (sort_pos rows) [] b (sort_pos_in2 _ _ H)) as [v Hv].
  exists (match v with Repeat => set_default_false b | _ => b end). split.
  - unfold fix_defaults. apply in_map_iff. exists (b, v). split; auto.
  - destruct v; auto. split; [apply sdf_posn|apply sdf_key_rack].
Qed.

(* ... and the rack row that survives is the first rack row of its type *)
Lemma final_rack_first d0 d4 x k :
  wf d0 -> pipeline d0 = Built d4 -> In x (d4 T_dgmtypeeffects) -> key_rack x = Some k ->
  exists d3, clean (normalize (preclean d0)) = Some d3 /\
             forall b, In b (d3 T_dgmtypeeffects) -> key_rack b = Some k -> posn x <= posn b.
Proof.
  intros W P Hx Kx. destruct (pipeline_built _ _ P) as [d3 [C E]]. subst d4.
  exists d3. split; auto. intros b Hb Kb.
  pose proof (cleaned_wf_dte _ _ W C) as N. rewrite preconv_dte in *.
  destruct (fix_defaults_image _ _ Hb) as [b2 [B1 [B2 B3]]].
  rewrite <- B2.
  apply (drop_racks_first _ _ _ (fix_defaults_nodup _ N) Hx Kx b2 B1). congruence.
Qed.

(* duplicate primary keys: exactly the first row with integer key fields stays *)
Lemma preclean_first_row_wins rw t pks a :
  pk_of t gen_pk_spec = Some pks ->
  (In a (preclean (load rw) t) <->
   In a (load rw t) /\ is_first (row_pk pks) (load rw t) a).
Proof.
  intros P. unfold preclean. rewrite P. apply preclean_table_spec. apply load_wf.
Qed.

Lemma preclean_pk_unique rw t pks a b k :
  pk_of t gen_pk_spec = Some pks ->
  In a (preclean (load rw) t) -> In b (preclean (load rw) t) ->
  row_pk pks a = Some k -> row_pk pks b = Some k -> a = b.
Proof.
  intros P Ha Hb Ka Kb.
  apply (preclean_first_row_wins rw t pks a P) in Ha.
  apply (preclean_first_row_wins rw t pks b P) in Hb.
  destruct Ha as [Ha Fa], Hb as [Hb Fb].
  eapply (first_unique (row_pk pks) (load rw t) (load_wf rw t)); eauto.
Qed.

(* --- nothing dangling -------------------------------------------------- *)

(* the raw table t has a row whose column c is the integer z *)
Definition raw_has (rw : raw) (t : table) (c : string) (z : Z) : Prop :=
  exists fs v, In fs (rw t) /\ assoc c fs = Some v /\ integral v = Some z.

Lemma integral_refkey v z : integral v = Some z -> refkey v = Some z.
Proof.
  destruct v as [s|l]; simpl; [|discriminate]. destruct s; simpl; congruence.
Qed.

Lemma preclean_has rw t c z :
  pk_of t gen_pk_spec = Some [c] -> raw_has rw t c z ->
  exists r, In r (preclean (load rw) t) /\ colkey r c = Some z.
Proof.
  intros P [fs [v [H1 [H2 H3]]]]. destruct (number_in _ 0 _ H1) as [i Hi].
  assert (K : row_pk [c] (mkRow (Some i) fs) = Some [z]).
  { unfold row_pk, get. simpl. rewrite H2, H3. reflexivity. }
  destruct (first_exists (row_pk [c]) (load rw t) (load_wf rw t) [z] _ _ (le_n _) Hi K)
    as [a [A1 [A2 A3]]].
  exists a. split.
  - apply (preclean_first_row_wins rw t [c] a P). auto.
  - unfold row_pk in A3. destruct (get a c) as [v0|] eqn:G; [|discriminate].
    destruct (integral v0) as [z0|] eqn:I; [|discriminate]. inversion A3; subst.
    unfold colkey. rewrite G. apply integral_refkey. auto.
Qed.

Lemma hits_self t r c z : colkey r c = Some z -> tgt_hits t r (t, c, z) = true.
Proof. intros H. simpl. rewrite table_beq_refl, H, Z.eqb_refl. reflexivity. Qed.

(* a kept row asks for (t', c, z); the raw data has such a row; then one is kept *)
Lemma kept_target rw d3 t r t' c z :
  cleaned rw = Some d3 -> In r (d3 t) -> In (t', c, z) (row_tgts t r) ->
  pk_of t' gen_pk_spec = Some [c] -> t' <> T_dgmtypeattribs -> raw_has rw t' c z ->
  exists r', In r' (d3 t') /\ colkey r' c = Some z.
Proof.
  intros C Hr Hg P NE RH. destruct (preclean_has _ _ _ _ P RH) as [r' [H1 H2]].
  exists r'. split; auto. unfold cleaned, clean in C.
  eapply (clean_complete _ _ _ C t r t' r'); auto.
  - exists (t', c, z). split; [|apply hits_self; auto].
    unfold all_row_tgts. apply in_app_iff. left. auto.
  - rewrite normalize_other by auto. auto.
Qed.

Lemma relational_in t r sc tt tc z :
  In (t, sc, tt, tc) gen_foreign_keys -> colkey r sc = Some z -> In (tt, tc, z) (row_tgts t r).
Proof.
  intros H K. unfold row_tgts. apply in_app_iff. left. unfold tgts_relational.
  apply in_flat_map. exists (t, sc, tt, tc). split; auto.
  rewrite table_beq_refl, K. simpl. auto.
Qed.

Lemma final_cleaned rw d4 :
  final_data rw = Built d4 -> exists d3, cleaned rw = Some d3 /\ d4 = preconv_data d3.
Proof. intros H. apply pipeline_built in H. exact H. Qed.

Lemma run_final rw b :
  run rw = Built b -> exists d4, final_data rw = Built d4 /\ convert d4 = Built b.
Proof.
  unfold run. destruct (final_data rw) as [d4| |]; try discriminate. eauto.
Qed.

Lemma convert_built d b :
  convert d = Built b ->
  b_effects b = flat_map conv_effect (d T_dgmeffects) /\
  b_attrs b = flat_map conv_attr (d T_dgmattribs) /\
  b_types b = flat_map (conv_type d (map be_id (flat_map conv_effect (d T_dgmeffects))))
                       (d T_evetypes).
Proof.
  unfold convert. destruct (forallb _ (d T_skillreqs)); [|discriminate].
  destruct (fold_right _ _ (d T_dbuffcollections)); [|discriminate].
  intros H. inversion H. simpl. auto.
Qed.

Lemma conv_attr_built r z : colkey r "attributeID" = Some z ->
  exists a, In a (conv_attr r) /\ ba_id a = z.
Proof. intros H. unfold conv_attr. rewrite H. eexists. split; [left; reflexivity|reflexivity]. Qed.

Lemma conv_type_built d eids r z : colkey r "typeID" = Some z ->
  exists bt, In bt (conv_type d eids r) /\ bt_id bt = z.
Proof. intros H. unfold conv_type. rewrite H. eexists. split; [left; reflexivity|reflexivity]. Qed.

Lemma ref_fields_in ctor args a f :
  In a args -> ctor_field ctor a = Some f -> In f (ref_fields ctor args).
Proof.
  intros H1 H2. unfold ref_fields. apply in_flat_map. exists a. split; auto.
  rewrite H2. simpl. auto.
Qed.

Section NoDangling.
  Variables (rw : raw) (b : built).
  Hypothesis R : run rw = Built b.

  Lemma nd_setup :
    exists d3 d4, cleaned rw = Some d3 /\ d4 = preconv_data d3 /\ convert d4 = Built b.
  Proof.
    destruct (run_final _ _ R) as [d4 [F C]]. destruct (final_cleaned _ _ F) as [d3 [C3 E]].
    eauto.
  Qed.

  Lemma attr_built_of_kept d3 r' z :
    convert (preconv_data d3) = Built b -> In r' (d3 T_dgmattribs) ->
    colkey r' "attributeID" = Some z -> exists a, In a (b_attrs b) /\ ba_id a = z.
  Proof.
    intros C H K. destruct (convert_built _ _ C) as [_ [E _]].
    destruct (conv_attr_built _ _ K) as [a [A1 A2]]. exists a. split; auto.
    rewrite E. apply in_flat_map. exists r'. split; [|exact A1].
    rewrite preconv_other by discriminate. exact H.
  Qed.

  Lemma type_built_of_kept d3 r' z :
    convert (preconv_data d3) = Built b -> In r' (d3 T_evetypes) ->
    colkey r' "typeID" = Some z -> exists bt, In bt (b_types b) /\ bt_id bt = z.
  Proof.
    intros C H K. destruct (convert_built _ _ C) as [_ [_ E]].
    destruct (conv_type_built (preconv_data d3)
               (map be_id (flat_map conv_effect (preconv_data d3 T_dgmeffects))) _ _ K)
      as [bt [A1 A2]].
    exists bt. split; auto. rewrite E. apply in_flat_map. exists r'. split; [|exact A1].
    rewrite preconv_other by discriminate. exact H.
  Qed.

  (* an effect's attribute-id argument *)
  Lemma nd_effect_attr e arg v z :
    In e (b_effects b) -> In (arg, Some v) (be_args e) -> refkey v = Some z ->
    raw_has rw T_dgmattribs "attributeID" z ->
    exists a, In a (b_attrs b) /\ ba_id a = z.
  Proof.
    intros He Ha Kv RH. destruct nd_setup as [d3 [d4 [C3 [E C]]]]. subst d4.
    destruct (convert_built _ _ C) as [Ee _]. rewrite Ee in He.
    apply in_flat_map in He. destruct He as [r [Hr He]].
    rewrite preconv_other in Hr by discriminate.
    unfold conv_effect in He. destruct (colkey r "effectID") as [eid|]; [|destruct He].
    destruct He as [He|[]]. subst e. cbn [be_args] in Ha.
    apply in_flat_map in Ha. destruct Ha as [a0 [A0 Ha]].
    destruct (ctor_field gen_effect_ctor a0) as [f|] eqn:CF; [|destruct Ha].
    destruct Ha as [Ha|[]]. injection Ha as Ea Eg. subst a0.
    assert (Hf : In f effect_ref_fields) by (eapply ref_fields_in; eauto).
    pose proof ob_effect_ref_fields_fk as OB. rewrite forallb_forall in OB.
    pose proof (fk_mem_In _ (OB f Hf)) as FK.
    assert (K : colkey r f = Some z) by (unfold colkey; rewrite Eg; exact Kv).
    destruct ob_pk_single as [P _].
    destruct (kept_target rw d3 _ r _ _ z C3 Hr (relational_in _ _ _ _ _ _ FK K) P
                          ltac:(discriminate) RH) as [r' [H1' H2']].
    eapply attr_built_of_kept; eauto.
  Qed.

  (* an attribute's max_attr_id *)
  Lemma nd_attr_max a arg v z :
    In a (b_attrs b) -> In (arg, Some v) (ba_args a) -> refkey v = Some z ->
    raw_has rw T_dgmattribs "attributeID" z ->
    exists a', In a' (b_attrs b) /\ ba_id a' = z.
  Proof.
    intros He Ha Kv RH. destruct nd_setup as [d3 [d4 [C3 [E C]]]]. subst d4.
    destruct (convert_built _ _ C) as [_ [Ee _]]. rewrite Ee in He.
    apply in_flat_map in He. destruct He as [r [Hr He]].
    rewrite preconv_other in Hr by discriminate.
    unfold conv_attr in He. destruct (colkey r "attributeID") as [aid|]; [|destruct He].
    destruct He as [He|[]]. subst a. cbn [ba_args] in Ha.
    apply in_flat_map in Ha. destruct Ha as [a0 [A0 Ha]].
    destruct (ctor_field gen_attr_ctor a0) as [f|] eqn:CF; [|destruct Ha].
    destruct Ha as [Ha|[]]. injection Ha as Ea Eg. subst a0.
    assert (Hf : In f attr_ref_fields) by (eapply ref_fields_in; eauto).
    pose proof ob_attr_ref_fields_fk as OB. rewrite forallb_forall in OB.
    pose proof (fk_mem_In _ (OB f Hf)) as FK.
    assert (K : colkey r f = Some z) by (unfold colkey; rewrite Eg; exact Kv).
    destruct ob_pk_single as [P _].
    destruct (kept_target rw d3 _ r _ _ z C3 Hr (relational_in _ _ _ _ _ _ FK K) P
                          ltac:(discriminate) RH) as [r' [H1' H2']].
    eapply attr_built_of_kept; eauto.
  Qed.

  (* ids named by an effect's modifier infos *)
  Lemma nd_effect_modref e t' c z :
    In e (b_effects b) -> In (t', c, z) (be_modrefs e) ->
    pk_of t' gen_pk_spec = Some [c] -> t' <> T_dgmtypeattribs -> t' <> T_dgmtypeeffects ->
    raw_has rw t' c z ->
    exists d4 r', final_data rw = Built d4 /\ In r' (d4 t') /\ colkey r' c = Some z.
  Proof.
    intros He Hm P N1 N2 RH. destruct nd_setup as [d3 [d4 [C3 [E C]]]]. subst d4.
    destruct (convert_built _ _ C) as [Ee _]. rewrite Ee in He.
    apply in_flat_map in He. destruct He as [r [Hr He]].
    rewrite preconv_other in Hr by discriminate.
    unfold conv_effect in He. destruct (colkey r "effectID") as [eid|]; [|destruct He].
    destruct He as [He|[]]. subst e. cbn [be_modrefs] in Hm.
    assert (G : In (t', c, z) (row_tgts T_dgmeffects r)).
    { unfold row_tgts. apply in_app_iff. right. auto. }
    destruct (kept_target rw d3 _ r _ _ z C3 Hr G P N1 RH) as [r' [H1' H2']].
    destruct (run_final _ _ R) as [d4 [F C4]].
    destruct (final_cleaned _ _ F) as [d3' [C3' E']]. rewrite C3 in C3'. inversion C3'; subst d3'.
    exists d4, r'. subst d4. split; auto. split; auto.
    rewrite preconv_other by auto. auto.
  Qed.
End NoDangling.

(* --- built types ------------------------------------------------------- *)

Lemma rows_of_type_in tid rows x :
  In x (rows_of_type tid rows) <-> In x rows /\ colkey x "typeID" = Some tid.
Proof.
  unfold rows_of_type. rewrite filter_In. split; intros [H1 H2]; split; auto.
  - destruct (colkey x "typeID") as [z|]; [|discriminate]. apply Z.eqb_eq in H2. subst. auto.
  - rewrite H2. apply Z.eqb_refl.
Qed.

Definition type_attr_pairs (tid : Z) (d : data) : list (Z * value) :=
  flat_map (fun x => match colkey x "attributeID"%string, get x "value"%string with
                     | Some a, Some v => [(a, v)] | _, _ => [] end)
           (rows_of_type tid (d T_dgmtypeattribs)).
Definition type_skill_pairs (tid : Z) (d : data) : list (Z * value) :=
  flat_map (fun x => match colkey x "skillTypeID"%string, get x "level"%string with
                     | Some s, Some v => [(s, v)] | _, _ => [] end)
           (rows_of_type tid (d T_skillreqs)).
Definition type_effect_ids (tid : Z) (d : data) : list Z :=
  flat_map (fun x => match colkey x "effectID"%string with Some e => [e] | None => [] end)
           (rows_of_type tid (d T_dgmtypeeffects)).

Lemma conv_type_inv d eids r bt :
  In bt (conv_type d eids r) ->
  exists tid, colkey r "typeID" = Some tid /\ bt_id bt = tid /\
              bt_group bt = get r "groupID" /\
              bt_attrs bt = type_attr_pairs tid d /\
              bt_skills bt = type_skill_pairs tid d /\
              bt_effects bt = filter (fun e => memz e eids) (type_effect_ids tid d).
Proof.
  unfold conv_type. destruct (colkey r "typeID") as [tid|]; [|intros []].
  intros [H|[]]. subst bt. exists tid. cbn [bt_id bt_group bt_attrs bt_skills bt_effects].
  repeat split; reflexivity.
Qed.

Lemma type_attr_pairs_in tid d a v :
  In (a, v) (type_attr_pairs tid d) ->
  exists x, In x (d T_dgmtypeattribs) /\ colkey x "typeID" = Some tid /\
            colkey x "attributeID" = Some a /\ get x "value" = Some v.
Proof.
  unfold type_attr_pairs. intros H. apply in_flat_map in H. destruct H as [x [H1 H2]].
  apply rows_of_type_in in H1. destruct H1 as [H1 H1'].
  destruct (colkey x "attributeID") as [a'|] eqn:Q1; [|destruct H2].
  destruct (get x "value") as [v'|] eqn:Q2; [|destruct H2].
  destruct H2 as [H2|[]]. inversion H2; subst. exists x. auto.
Qed.

Lemma type_skill_pairs_in tid d s v :
  In (s, v) (type_skill_pairs tid d) ->
  exists x, In x (d T_skillreqs) /\ colkey x "typeID" = Some tid /\
            colkey x "skillTypeID" = Some s.
Proof.
  unfold type_skill_pairs. intros H. apply in_flat_map in H. destruct H as [x [H1 H2]].
  apply rows_of_type_in in H1. destruct H1 as [H1 H1'].
  destruct (colkey x "skillTypeID") as [s'|] eqn:Q1; [|destruct H2].
  destruct (get x "level") as [v'|] eqn:Q2; [|destruct H2].
  destruct H2 as [H2|[]]. inversion H2; subst. exists x. auto.
Qed.

Lemma type_effect_ids_in tid d e :
  In e (type_effect_ids tid d) ->
  exists x, In x (d T_dgmtypeeffects) /\ colkey x "typeID" = Some tid /\
            colkey x "effectID" = Some e.
Proof.
  unfold type_effect_ids. intros H. apply in_flat_map in H. destruct H as [x [H1 H2]].
  apply rows_of_type_in in H1. destruct H1 as [H1 H1'].
  destruct (colkey x "effectID") as [e'|] eqn:Q1; [|destruct H2].
  destruct H2 as [H2|[]]. subst. exists x. auto.
Qed.

Lemma attrvalue_in ids tg x a v z :
  colkey x "attributeID" = Some a -> memz a ids = true -> get x "value" = Some v ->
  pyint v = Some z -> In (fst tg, snd tg, z) (tgts_attrvalue ids tg x).
Proof.
  intros H1 H2 H3 H4. unfold tgts_attrvalue. rewrite H1, H2, H3, H4. simpl. auto.
Qed.

Section NoDanglingTypes.
  Variables (rw : raw) (b : built).
  Hypothesis R : run rw = Built b.

  Lemma type_row bt :
    In bt (b_types b) ->
    exists d3, cleaned rw = Some d3 /\ convert (preconv_data d3) = Built b /\
    exists r eids, In r (d3 T_evetypes) /\ In bt (conv_type (preconv_data d3) eids r).
  Proof.
    intros Hb. destruct (nd_setup rw b R) as [d3 [d4 [C3 [E C]]]]. subst d4.
    exists d3. split; auto. split; auto.
    destruct (convert_built _ _ C) as [_ [_ Et]]. rewrite Et in Hb.
    apply in_flat_map in Hb. destruct Hb as [r [Hr Hb]].
    rewrite preconv_other in Hr by discriminate. eauto.
  Qed.

  (* the attribute ids a built type carries values for *)
  Lemma nd_type_attr bt a v :
    In bt (b_types b) -> In (a, v) (bt_attrs bt) ->
    raw_has rw T_dgmattribs "attributeID" a ->
    exists a', In a' (b_attrs b) /\ ba_id a' = a.
  Proof.
    intros Hb Ha RH. destruct (type_row bt Hb) as [d3 [C3 [C [r [eids [Hr Hc]]]]]].
    destruct (conv_type_inv _ _ _ _ Hc) as [tid [K [_ [_ [Ea _]]]]]. rewrite Ea in Ha.
    destruct (type_attr_pairs_in _ _ _ _ Ha) as [x [X1 [X2 [X3 X4]]]].
    rewrite preconv_dta in X1. apply filter_In in X1. destruct X1 as [X1 _].
    destruct ob_fk_entries as [F _]. apply fk_mem_In in F.
    destruct ob_pk_single as [P _].
    destruct (kept_target rw d3 _ x _ _ a C3 X1 (relational_in _ _ _ _ _ _ F X3) P
                          ltac:(discriminate) RH) as [r' [H1' H2']].
    eapply attr_built_of_kept; eauto.
  Qed.

  (* the type an autocharge attribute names *)
  Lemma nd_type_autocharge bt a v z :
    In bt (b_types b) -> In (a, v) (bt_attrs bt) -> memz a gen_autocharge_attrs = true ->
    pyint v = Some z -> raw_has rw T_evetypes "typeID" z ->
    exists bt', In bt' (b_types b) /\ bt_id bt' = z.
  Proof.
    intros Hb Ha M PI RH. destruct (type_row bt Hb) as [d3 [C3 [C [r [eids [Hr Hc]]]]]].
    destruct (conv_type_inv _ _ _ _ Hc) as [tid [K [_ [_ [Ea _]]]]]. rewrite Ea in Ha.
    destruct (type_attr_pairs_in _ _ _ _ Ha) as [x [X1 [X2 [X3 X4]]]].
    rewrite preconv_dta in X1. apply filter_In in X1. destruct X1 as [X1 _].
    destruct ob_pk_single as [_ [P _]]. destruct ob_attrvalue_tgts as [T1 _].
    assert (G : In (T_evetypes, "typeID"%string, z) (row_tgts T_dgmtypeattribs x)).
    { unfold row_tgts. apply in_app_iff. right. apply in_app_iff. left.
      pose proof (attrvalue_in gen_autocharge_attrs gen_autocharge_tgt x a v z X3 M X4 PI) as Q.
      rewrite T1 in Q at 1 2. exact Q. }
    destruct (kept_target rw d3 _ x _ _ z C3 X1 G P ltac:(discriminate) RH) as [r' [H1' H2']].
    eapply type_built_of_kept; eauto.
  Qed.

  (* the buff a warfare-buff-id attribute names: its row reaches the converter *)
  Lemma nd_type_buff bt a v z :
    In bt (b_types b) -> In (a, v) (bt_attrs bt) -> memz a gen_buffattr_attrs = true ->
    pyint v = Some z -> raw_has rw T_dbuffcollections "buffID" z ->
    exists d4 r', final_data rw = Built d4 /\ In r' (d4 T_dbuffcollections) /\
                  colkey r' "buffID" = Some z.
  Proof.
    intros Hb Ha M PI RH. destruct (type_row bt Hb) as [d3 [C3 [C [r [eids [Hr Hc]]]]]].
    destruct (conv_type_inv _ _ _ _ Hc) as [tid [K [_ [_ [Ea _]]]]]. rewrite Ea in Ha.
    destruct (type_attr_pairs_in _ _ _ _ Ha) as [x [X1 [X2 [X3 X4]]]].
    rewrite preconv_dta in X1. apply filter_In in X1. destruct X1 as [X1 _].
    destruct ob_pk_single as [_ [_ [_ [_ P]]]]. destruct ob_attrvalue_tgts as [_ T2].
    assert (G : In (T_dbuffcollections, "buffID"%string, z) (row_tgts T_dgmtypeattribs x)).
    { unfold row_tgts. apply in_app_iff. right. apply in_app_iff. right.
      pose proof (attrvalue_in gen_buffattr_attrs gen_buffattr_tgt x a v z X3 M X4 PI) as Q.
      rewrite T2 in Q at 1 2. exact Q. }
    destruct (kept_target rw d3 _ x _ _ z C3 X1 G P ltac:(discriminate) RH) as [r' [H1' H2']].
    destruct (run_final _ _ R) as [d4 [F C4]].
    destruct (final_cleaned _ _ F) as [d3' [C3' E']]. rewrite C3 in C3'. inversion C3'; subst d3'.
    exists d4, r'. subst d4. split; [exact F|]. split; [|exact H2'].
    rewrite preconv_other by discriminate. exact H1'.
  Qed.

  (* required skills *)
  Lemma nd_type_skill bt s v :
    In bt (b_types b) -> In (s, v) (bt_skills bt) -> raw_has rw T_evetypes "typeID" s ->
    exists bt', In bt' (b_types b) /\ bt_id bt' = s.
  Proof.
    intros Hb Hs RH. destruct (type_row bt Hb) as [d3 [C3 [C [r [eids [Hr Hc]]]]]].
    destruct (conv_type_inv _ _ _ _ Hc) as [tid [K [_ [_ [_ [Es _]]]]]]. rewrite Es in Hs.
    destruct (type_skill_pairs_in _ _ _ _ Hs) as [x [X1 [X2 X3]]].
    rewrite preconv_other in X1 by discriminate.
    destruct ob_fk_entries as [_ [F _]]. apply fk_mem_In in F.
    destruct ob_pk_single as [_ [P _]].
    destruct (kept_target rw d3 _ x _ _ s C3 X1 (relational_in _ _ _ _ _ _ F X3) P
                          ltac:(discriminate) RH) as [r' [H1' H2']].
    eapply type_built_of_kept; eauto.
  Qed.

  (* the group of a built type: its row reaches the converter (category lookup) *)
  Lemma nd_type_group bt gv g :
    In bt (b_types b) -> bt_group bt = Some gv -> refkey gv = Some g ->
    raw_has rw T_evegroups "groupID" g ->
    exists d4 r', final_data rw = Built d4 /\ In r' (d4 T_evegroups) /\ colkey r' "groupID" = Some g.
  Proof.
    intros Hb Hg Kg RH. destruct (type_row bt Hb) as [d3 [C3 [C [r [eids [Hr Hc]]]]]].
    destruct (conv_type_inv _ _ _ _ Hc) as [tid [K [_ [Eg _]]]]. rewrite Eg in Hg.
    assert (Kc : colkey r "groupID" = Some g) by (unfold colkey; rewrite Hg; exact Kg).
    destruct ob_fk_entries as [_ [_ [FK _]]]. apply fk_mem_In in FK.
    destruct ob_pk_single as [_ [_ [_ [P _]]]].
    destruct (kept_target rw d3 _ r _ _ g C3 Hr (relational_in _ _ _ _ _ _ FK Kc) P
                          ltac:(discriminate) RH) as [r' [H1' H2']].
    destruct (run_final _ _ R) as [d4 [F C4]].
    destruct (final_cleaned _ _ F) as [d3' [C3' E']]. rewrite C3 in C3'. inversion C3'; subst d3'.
    exists d4, r'. subst d4. split; [exact F|]. split; [|exact H2'].
    rewrite preconv_other by discriminate. exact H1'.
  Qed.

  (* at most one rack effect on a built type *)
  Lemma built_one_rack bt e1 e2 :
    In bt (b_types b) -> In e1 (bt_effects bt) -> In e2 (bt_effects bt) ->
    memz e1 gen_rack_effects = true -> memz e2 gen_rack_effects = true -> e1 = e2.
  Proof.
    intros Hb H1 H2 M1 M2. destruct (type_row bt Hb) as [d3 [C3 [C [r [eids [Hr Hc]]]]]].
    destruct (conv_type_inv _ _ _ _ Hc) as [tid [K [_ [_ [_ [_ Ee]]]]]]. rewrite Ee in H1, H2.
    apply filter_In in H1. apply filter_In in H2. destruct H1 as [H1 _], H2 as [H2 _].
    destruct (type_effect_ids_in _ _ _ H1) as [x [X1 [X2 X3]]].
    destruct (type_effect_ids_in _ _ _ H2) as [y [Y1 [Y2 Y3]]].
    assert (Kx : key_rack x = Some [tid]) by (unfold key_rack, key_type; rewrite X3, M1, X2; auto).
    assert (Ky : key_rack y = Some [tid]) by (unfold key_rack, key_type; rewrite Y3, M2, Y2; auto).
    assert (P : pipeline (load rw) = Built (preconv_data d3)).
    { destruct (run_final _ _ R) as [d4 [F C4]].
      destruct (final_cleaned _ _ F) as [d3' [C3' E']]. rewrite C3 in C3'. inversion C3'; subst.
      exact F. }
    pose proof (final_one_rack _ _ x y _ (load_wf rw) P X1 Y1 Kx Ky) as E. subst y. congruence.
  Qed.
End NoDanglingTypes.

(* hash-order independence for the real entry point: a shuffled pipeline on
   the loaded rows gives the same row sets to the converter *)
Lemma final_data_sh_same sh rw :
  (forall n d t, Permutation (sh n d t) (d t)) ->
  outcome_same (final_data rw) (pipeline_sh sh (load rw)).
Proof. intros H. apply pipeline_sh_same; auto. apply load_wf. Qed.

(* the built ids depend only on the row sets the converter sees *)
Lemma convert_ids_same d d' b b' :
  same d d' -> convert d = Built b -> convert d' = Built b' ->
  (forall z, (exists a, In a (b_attrs b) /\ ba_id a = z) <-> (exists a, In a (b_attrs b') /\ ba_id a = z)) /\
  (forall z, (exists e, In e (b_effects b) /\ be_id e = z) <-> (exists e, In e (b_effects b') /\ be_id e = z)) /\
  (forall z, (exists t, In t (b_types b) /\ bt_id t = z) <-> (exists t, In t (b_types b') /\ bt_id t = z)).
Proof.
  intros S C C'. destruct (convert_built _ _ C) as [E1 [E2 E3]].
  destruct (convert_built _ _ C') as [E1' [E2' E3']].
  assert (A : forall d b, b_attrs b = flat_map conv_attr (d T_dgmattribs) ->
              forall z, (exists a, In a (b_attrs b) /\ ba_id a = z) <->
                        (exists r, In r (d T_dgmattribs) /\ colkey r "attributeID" = Some z)).
  { intros d1 b1 E z. rewrite E. split.
    - intros [a [H1 H2]]. apply in_flat_map in H1. destruct H1 as [r [Hr Ha]]. exists r. split; auto.
      unfold conv_attr in Ha. destruct (colkey r "attributeID"); [|destruct Ha].
      destruct Ha as [Ha|[]]. subst. reflexivity.
    - intros [r [Hr K]]. destruct (conv_attr_built _ _ K) as [a [A1 A2]]. exists a. split; auto.
      apply in_flat_map. eauto. }
  assert (Bf : forall d b, b_effects b = flat_map conv_effect (d T_dgmeffects) ->
              forall z, (exists e, In e (b_effects b) /\ be_id e = z) <->
                        (exists r, In r (d T_dgmeffects) /\ colkey r "effectID" = Some z)).
  { intros d1 b1 E z. rewrite E. split.
    - intros [a [H1 H2]]. apply in_flat_map in H1. destruct H1 as [r [Hr Ha]]. exists r. split; auto.
      unfold conv_effect in Ha. destruct (colkey r "effectID"); [|destruct Ha].
      destruct Ha as [Ha|[]]. subst. reflexivity.
    - intros [r [Hr K]]. eexists. split.
      + apply in_flat_map. exists r. split; auto. unfold conv_effect. rewrite K. left. reflexivity.
      + reflexivity. }
  assert (T : forall d b eids, b_types b = flat_map (conv_type d eids) (d T_evetypes) ->
              forall z, (exists t, In t (b_types b) /\ bt_id t = z) <->
                        (exists r, In r (d T_evetypes) /\ colkey r "typeID" = Some z)).
  { intros d1 b1 eids E z. rewrite E. split.
    - intros [a [H1 H2]]. apply in_flat_map in H1. destruct H1 as [r [Hr Ha]]. exists r. split; auto.
      destruct (conv_type_inv _ _ _ _ Ha) as [tid [K [I _]]]. congruence.
    - intros [r [Hr K]]. destruct (conv_type_built d1 eids _ _ K) as [a [A1 A2]]. exists a.
      split; auto. apply in_flat_map. eauto. }
  split; [|split]; intros z.
  - rewrite (A d b E2 z), (A d' b' E2' z).
    split; intros [r [Hr K]]; exists r; (split; [apply S; auto|auto]).
  - rewrite (Bf d b E1 z), (Bf d' b' E1' z).
    split; intros [r [Hr K]]; exists r; (split; [apply S; auto|auto]).
  - rewrite (T d b _ E3 z), (T d' b' _ E3' z).
    split; intros [r [Hr K]]; exists r; (split; [apply S; auto|auto]).
Qed.

(* --- buff templates ---------------------------------------------------- *)

Definition ref_eqb (a b : string * table * string) : bool :=
  match a, b with
  | (f1, t1, c1), (f2, t2, c2) => String.eqb f1 f2 && table_beq t1 t2 && String.eqb c1 c2
  end.

Lemma ref_eqb_eq a b : ref_eqb a b = true -> a = b.
Proof.
  destruct a as [[f1 t1] c1], b as [[f2 t2] c2]. simpl. intros H.
  repeat (apply andb_true_iff in H; destruct H as [H ?]).
  apply String.eqb_eq in H. apply table_beq_eq in H1. apply String.eqb_eq in H0.
  subst. reflexivity.
Qed.

(* the cleaner follows field f of section sec to (ttb, tc) *)
Definition section_follows (sec f : string) (ttb : table) (tc : string) : bool :=
  existsb (fun s => String.eqb (fst s) sec && existsb (ref_eqb (f, ttb, tc)) (snd s))
          gen_buff_sections.

(* per section, the attribute field the template builder reads is followed to
   dgmattribs, the group field to evegroups, the skill field to evetypes *)
Lemma ob_buff_tpl_followed :
  forallb (fun e => match e with
                    | (sec, filt, extra, af) =>
                      section_follows sec af T_dgmattribs "attributeID" &&
                      match extra with
                      | Some ef =>
                        if String.eqb filt "domain_group"
                        then section_follows sec ef T_evegroups "groupID"
                        else section_follows sec ef T_evetypes "typeID"
                      | None => true
                      end
                    end) gen_buff_tpl = true.
Proof. vm_compute. reflexivity. Qed.

Lemma section_follows_tgts r sec f ttb tc m s z :
  section_follows sec f ttb tc = true -> In m (section r sec) -> assoc f m = Some s ->
  s_refkey s = Some z -> In (ttb, tc, z) (row_tgts T_dbuffcollections r).
Proof.
  unfold section_follows. intros H Hm Ha Hk. apply existsb_exists in H.
  destruct H as [sc [H1 H2]]. apply andb_true_iff in H2. destruct H2 as [H2 H3].
  apply String.eqb_eq in H2. apply existsb_exists in H3. destruct H3 as [rf [H3 H4]].
  apply ref_eqb_eq in H4. subst rf.
  unfold row_tgts. apply in_app_iff. right. unfold tgts_buff.
  apply in_flat_map. exists sc. split; auto. rewrite H2.
  apply in_flat_map. exists m. split; auto.
  unfold dict_tgts. apply in_flat_map. exists (f, ttb, tc). split; auto.
  rewrite Ha, Hk. simpl. auto.
Qed.

Lemma fold_some_in {A B} (f : A -> option (list B)) (rows : list A) : forall l x,
  fold_right (fun r acc => match acc, f r with
                           | Some l, Some l' => Some (l' ++ l)
                           | _, _ => None
                           end) (Some []) rows = Some l ->
  In x l -> exists r l', In r rows /\ f r = Some l' /\ In x l'.
Proof.
  induction rows as [|r rows IH]; simpl; intros l x H Hx.
  - inversion H; subst. destruct Hx.
  - destruct (fold_right _ (Some []) rows) as [l0|] eqn:E; [|discriminate].
    destruct (f r) as [l'|] eqn:F; [|discriminate]. inversion H; subst.
    apply in_app_iff in Hx. destruct Hx as [Hx|Hx].
    + exists r, l'. auto.
    + destruct (IH l0 x eq_refl Hx) as [r0 [l1 [H1 [H2 H3]]]]. exists r0, l1. auto.
Qed.

Lemma conv_buff_section_in r bid sec filt extra af : forall l tp,
  conv_buff_section r bid (sec, filt, extra, af) = Some l -> In tp l ->
  exists m, In m (section r sec) /\ assoc af m = Some (bb_attr tp) /\ bb_filter tp = filt /\
            match extra with
            | Some ef => exists x, assoc ef m = Some x /\ bb_extra tp = Some x
            | None => bb_extra tp = None
            end.
Proof.
  unfold conv_buff_section. induction (section r sec) as [|m ms IH]; simpl; intros l tp H Hx.
  - inversion H; subst. destruct Hx.
  - match type of H with context [fold_right ?f ?a ms] =>
      destruct (fold_right f a ms) as [l0|] eqn:E; [|discriminate] end.
    destruct (assoc af m) as [a|] eqn:A; [|discriminate].
    destruct extra as [ef|].
    + destruct (assoc ef m) as [x|] eqn:X; [|discriminate].
      destruct (named_ok r gen_buff_operator_field gen_buff_operator_names &&
                named_ok r gen_buff_aggregate_field gen_buff_aggregate_names); [|discriminate].
      inversion H; subst. destruct Hx as [Hx|Hx].
      * subst tp. exists m. simpl. repeat split; auto. exists x. auto.
      * destruct (IH l0 tp eq_refl Hx) as [m0 [M1 M2]]. exists m0. auto.
    + destruct (named_ok r gen_buff_operator_field gen_buff_operator_names &&
                named_ok r gen_buff_aggregate_field gen_buff_aggregate_names); [|discriminate].
      inversion H; subst. destruct Hx as [Hx|Hx].
      * subst tp. exists m. simpl. repeat split; auto.
      * destruct (IH l0 tp eq_refl Hx) as [m0 [M1 M2]]. exists m0. auto.
Qed.

Lemma convert_buffs d b :
  convert d = Built b ->
  fold_right (fun r acc => match acc, conv_buff r with
                           | Some l, Some l' => Some (l' ++ l)
                           | _, _ => None
                           end) (Some []) (d T_dbuffcollections) = Some (b_buffs b).
Proof.
  unfold convert. destruct (forallb _ (d T_skillreqs)); [|discriminate].
  destruct (fold_right _ _ (d T_dbuffcollections)); [|discriminate].
  intros H. inversion H. reflexivity.
Qed.

Section NoDanglingBuffs.
  Variables (rw : raw) (b : built).
  Hypothesis R : run rw = Built b.

  (* where a template comes from *)
  Lemma buff_tpl_src tp :
    In tp (b_buffs b) ->
    exists d3 r sec filt extra af m,
      cleaned rw = Some d3 /\ convert (preconv_data d3) = Built b /\
      In r (d3 T_dbuffcollections) /\ In (sec, filt, extra, af) gen_buff_tpl /\
      In m (section r sec) /\ assoc af m = Some (bb_attr tp) /\ bb_filter tp = filt /\
      match extra with
      | Some ef => exists x, assoc ef m = Some x /\ bb_extra tp = Some x
      | None => bb_extra tp = None
      end.
  Proof.
    intros Hb. destruct (nd_setup rw b R) as [d3 [d4 [C3 [E C]]]]. subst d4.
    pose proof (convert_buffs _ _ C) as F.
    destruct (fold_some_in conv_buff _ _ tp F Hb) as [r [l' [Hr [Hc Hx]]]].
    rewrite preconv_other in Hr by discriminate.
    unfold conv_buff in Hc. destruct (colkey r "buffID") as [bid|].
    - destruct (fold_some_in (conv_buff_section r bid) _ _ tp Hc Hx) as [e [ls [He [Hs Hl]]]].
      destruct e as [[[sec filt] extra] af].
      destruct (conv_buff_section_in _ _ _ _ _ _ _ _ Hs Hl) as [m [M1 [M2 [M3 M4]]]].
      exists d3, r, sec, filt, extra, af, m. repeat split; auto.
    - inversion Hc; subst. destruct Hx.
  Qed.

  Lemma tpl_follows sec filt extra af :
    In (sec, filt, extra, af) gen_buff_tpl ->
    section_follows sec af T_dgmattribs "attributeID" = true /\
    match extra with
    | Some ef => if String.eqb filt "domain_group"
                 then section_follows sec ef T_evegroups "groupID" = true
                 else section_follows sec ef T_evetypes "typeID" = true
    | None => True
    end.
  Proof.
    intros H. pose proof ob_buff_tpl_followed as O. rewrite forallb_forall in O.
    specialize (O _ H). simpl in O. apply andb_true_iff in O. destruct O as [O1 O2].
    split; auto. destruct extra as [ef|]; auto.
    destruct (String.eqb filt "domain_group"); auto.
  Qed.

  (* the attribute a buff template modifies *)
  Lemma nd_buff_attr tp z :
    In tp (b_buffs b) -> s_refkey (bb_attr tp) = Some z ->
    raw_has rw T_dgmattribs "attributeID" z ->
    exists a, In a (b_attrs b) /\ ba_id a = z.
  Proof.
    intros Hb K RH.
    destruct (buff_tpl_src tp Hb) as [d3 [r [sec [filt [extra [af [m [C3 [C [Hr [He [Hm [Ha _]]]]]]]]]]]]].
    destruct (tpl_follows _ _ _ _ He) as [F _].
    pose proof (section_follows_tgts r _ _ _ _ m _ z F Hm Ha K) as G.
    destruct ob_pk_single as [P _].
    destruct (kept_target rw d3 _ r _ _ z C3 Hr G P ltac:(discriminate) RH) as [r' [H1 H2]].
    eapply attr_built_of_kept; eauto.
  Qed.

  (* the skill type a domain_skillrq template filters by *)
  Lemma nd_buff_skill tp x z :
    In tp (b_buffs b) -> bb_filter tp = "domain_skillrq"%string -> bb_extra tp = Some x ->
    s_refkey x = Some z -> raw_has rw T_evetypes "typeID" z ->
    exists bt, In bt (b_types b) /\ bt_id bt = z.
  Proof.
    intros Hb Hf Hx K RH.
    destruct (buff_tpl_src tp Hb) as [d3 [r [sec [filt [extra [af [m [C3 [C [Hr [He [Hm [Ha [Ef Hext]]]]]]]]]]]]]].
    destruct (tpl_follows _ _ _ _ He) as [_ F].
    destruct extra as [ef|]; [|rewrite Hext in Hx; discriminate].
    destruct Hext as [x' [X1 X2]]. rewrite Hx in X2. inversion X2; subst x'.
    rewrite <- Ef, Hf in F. simpl in F.
    pose proof (section_follows_tgts r _ _ _ _ m _ z F Hm X1 K) as G.
    destruct ob_pk_single as [_ [P _]].
    destruct (kept_target rw d3 _ r _ _ z C3 Hr G P ltac:(discriminate) RH) as [r' [H1 H2]].
    eapply type_built_of_kept; eauto.
  Qed.
End NoDanglingBuffs.
