(* C06, beyond racks and sets: a rejected single-slot assignment re-adds the
   old occupant, so the world is not literally the old one (messages were
   published, autocharges get fresh ids) - but every container of every fit and
   every item's container reference are exactly as before; unknown source
   aliases, fleet and solar-system membership errors change nothing at all. *)
From Coq Require Import ZArith QArith List Bool Lia.
From EosV Require Import lib.AList gen.T_eos model.World model.Status model.Calc model.Engine model.Ops
     proofs.AList_p proofs.Rack_p proofs.Frame_p proofs.Containers_p proofs.Owner_p proofs.Cinv_p.
Import ListNotations.

Opaque add_item remove_item load unload.

Theorem slot_set_raise_ownership s f k new x s' :
  CI (fst s) -> slot_set_op s f k new = (s', RExn x) ->
  forall j, fitcont (fst s') j = fitcont (fst s) j.
Proof.
  intros C. pose proof C as (Jw & M & _). unfold slot_set_op, descriptor_set. cbv beta.
  set (old := match get_fit (fst s) f with Some ft => fit_slot ft k | None => None end).
  match goal with |- context[negb ?b] => destruct b eqn:Hok end; cbn [negb]; [|intros [= <- _] j; reflexivity].
  destruct new as [i|]; [|intros H; discriminate H].
  set (s1 := match old with Some o => remove_item F s o | None => s end).
  set (s2 := lift s1 (fun w => upd_fit w f (fun ft => fit_set_slot ft k (Some i)))).
  destruct (has_container (fst s2) i); [|intros H; discriminate H].
  set (s3 := lift s2 (fun w => upd_fit w f (fun ft => fit_set_slot ft k old))).
  assert (S13 : same_items (fst s1) (fst s3)).
  { unfold s3, s2, lift. cbn [fst].
    destruct (same_items_upd_fit (fst s1) f (fun ft => fit_set_slot ft k (Some i))) as (A1 & A2).
    destruct (same_items_upd_fit (upd_fit (fst s1) f (fun ft => fit_set_slot ft k (Some i))) f
                                 (fun ft => fit_set_slot ft k old)) as (B1 & B2).
    split; congruence. }
  destruct old as [o|] eqn:Eo.
  - intros [= <- _] j.
    assert (Hm : In o (members (fst s) (PSlot f k))).
    { rewrite members_slot. unfold slot_of. fold old. rewrite Eo. now left. }
    assert (Hfc : fitcont (fst s) o = Some (PSlot f k)) by now apply M.
    pose proof (remove_item_ownership 11 s o Jw) as (H1 & _ & J1 & Ck). fold F in H1, J1, Ck.
    destruct (fitcont_some_cls (fst s) o _ Jw Hfc) as (c & Hc & Nc).
    destruct (cls_of_some _ _ _ (Ck _ _ Hc)) as (x1 & Hx1 & Ec).
    assert (Hx3 : get_item (fst s3) o = Some x1) by (rewrite (same_items_get _ _ o S13); exact Hx1).
    assert (J3 : J (fst s3)) by (eapply same_items_J; eauto).
    pose proof (add_item_ownership 11 s3 o (PSlot f k) x1 J3 Hx3) as (H3 & _).
    { intros _. now rewrite Ec. }
    fold F in H3. rewrite H3. rewrite (same_items_fitcont _ _ j S13). unfold s1. rewrite H1.
    destruct (Nat.eqb j o) eqn:E; [|reflexivity]. apply Nat.eqb_eq in E. subst j. now rewrite Hfc.
  - intros [= <- _] j. now rewrite (same_items_fitcont _ _ j S13).
Qed.

Theorem source_unknown_alias_noop s x y sid :
  get_ss (fst s) x = Some y -> onat_eqb (ss_source y) (Some sid) = false -> get_src (fst s) sid = None ->
  source_set_op s x (Some sid) = (s, RExn XUnknownSource).
Proof. intros H E G. unfold source_set_op. rewrite H, E, G. reflexivity. Qed.

Theorem membership_errors_change_nothing s a b x s' :
  (fleet_add_op s a b = (s', RExn x) \/ fleet_remove_op s a b = (s', RExn x) \/
   solsys_add_op s a b = (s', RExn x) \/ solsys_remove_op s a b = (s', RExn x)) -> s' = s.
Proof.
  intros [H|[H|[H|H]]]; revert H.
  - unfold fleet_add_op. destruct (fit_fleet (fst s) b); congruence.
  - unfold fleet_remove_op. destruct (mem neqb _ b); cbn [negb]; congruence.
  - unfold solsys_add_op. destruct (fit_solsys (fst s) b); congruence.
  - unfold solsys_remove_op. destruct (mem neqb _ b); cbn [negb]; congruence.
Qed.
