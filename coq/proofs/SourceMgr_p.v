(* Proofs about model/SourceMgr.v instantiated with the tables generated from
   eos/source/manager.py (gen/T_srcmgr.v). *)
From Coq Require Import List String Bool Arith Lia.
From EosV Require Import model.CacheCodec model.SourceMgr gen.T_srcmgr.
Import ListNotations.
Local Open Scope string_scope.
Local Open Scope list_scope.

Lemma append_nil_r : forall s, append s "" = s.
Proof. induction s; cbn; congruence. Qed.

Lemma lookup_app_none : forall {V} k (d : list (string * V)) v,
  lookup k d = None -> forall b, lookup b (d ++ [(k, v)]) = if String.eqb k b then Some v else lookup b d.
Proof.
  induction d as [|[k' v'] d IH]; cbn; intros v H b.
  - reflexivity.
  - destruct (String.eqb k' k) eqn:E; [discriminate|].
    destruct (String.eqb k' b) eqn:Eb.
    + apply String.eqb_eq in Eb; subst k'. rewrite String.eqb_sym, E. reflexivity.
    + apply IH; exact H.
Qed.

Lemma lookup_filter : forall {V} k (d : list (string * V)) b,
  lookup b (filter (fun kv => negb (String.eqb (fst kv) k)) d) =
  if String.eqb k b then None else lookup b d.
Proof.
  induction d as [|[k' v'] d IH]; cbn; intros b.
  - destruct (String.eqb k b); reflexivity.
  - destruct (String.eqb k' k) eqn:E; cbn.
    + apply String.eqb_eq in E; subst k'. rewrite IH. destruct (String.eqb k b); reflexivity.
    + rewrite IH. destruct (String.eqb k' b) eqn:Eb; [|reflexivity].
      apply String.eqb_eq in Eb; subst k'. rewrite String.eqb_sym, E. reflexivity.
Qed.

Lemma lookup_in : forall {V} k (d : list (string * V)),
  lookup k d <> None <-> In k (map fst d).
Proof.
  induction d as [|[k' v'] d IH]; cbn; [tauto|].
  destruct (String.eqb k' k) eqn:E.
  - apply String.eqb_eq in E. split; [auto|congruence].
  - apply String.eqb_neq in E. rewrite IH. split; [auto|intros [H|H]; [congruence|exact H]].
Qed.

Lemma NoDup_app_snoc : forall {A} (l : list A) x, NoDup l -> ~ In x l -> NoDup (l ++ [x]).
Proof.
  induction l as [|y l IH]; cbn; intros x N I.
  - constructor; [intros []|constructor].
  - inversion N; subst. constructor.
    + intros J. apply in_app_or in J as [J|[J|[]]]; [contradiction|]. subst. apply I; left; reflexivity.
    + apply IH; [assumption|]. intros J; apply I; right; exact J.
Qed.

Section MgrProofs.
  Variable data objs : Type.
  Variable build : data -> objs.
  Variable engine : string.

  Notation mstate := (mstate objs).
  Notation add' := (add data objs build engine gen_mgr).
  Notation add_blocked' := (add_blocked data objs build engine gen_mgr).
  Notation step' := (step data objs build engine gen_mgr).
  Notation run' := (run data objs build engine gen_mgr).
  Notation get_h' := (get_h objs).
  Notation set_h' := (set_h objs).

  (* the fingerprint add() computes: "<data version>_<engine version>" *)
  Definition fmt (v : option string) : string :=
    match format engine gen_mgr v (mt_pieces gen_mgr) with Some s => s | None => "" end.

  Lemma fmt_shape : forall v, fmt v = (show_version v ++ "_" ++ engine)%string.
  Proof. intros v. unfold fmt. cbn. rewrite append_nil_r. reflexivity. Qed.

  Definition fp_is (c : J) (s : string) : bool :=
    match c with JStr t => String.eqb t s | _ => false end.

  Lemma fp_is_spec : forall c s, fp_is c s = true <-> c = JStr s.
  Proof.
    intros c s; destruct c; cbn; try (split; [discriminate|congruence]).
    rewrite String.eqb_eq. split; congruence.
  Qed.

  Definition rebuild_needed (v : option string) (cfp : J) : bool :=
    match v with None => true | Some _ => negb (fp_is cfp (fmt v)) end.

  Definition add_result (st : mstate) (a : string) (dh : dhandler data) (h : nat) (md : bool) :=
    let rb := rebuild_needed (dh_version _ dh) (ch_fp _ (get_h' (ms_handlers _ st) h)) in
    (mkM objs (ms_sources _ st ++ [(a, (a, h))])
         (if md then Some (a, h) else ms_default _ st)
         (if rb then set_h' (ms_handlers _ st) h
                          (ch_update objs (build (dh_data _ dh)) (JStr (fmt (dh_version _ dh))))
          else ms_handlers _ st)
         (if rb then S (ms_builds _ st) else ms_builds _ st),
     Added rb).

  Lemma add_spec : forall st a dh h md,
    add' st a dh h md =
    match lookup a (ms_sources _ st) with
    | Some _ => (st, ExistingSource)
    | None => add_result st a dh h md
    end.
  Proof.
    intros [srcs dflt hs nb] a [ver d] h md. unfold add, add_result. cbn.
    destruct (lookup a srcs) eqn:L; [reflexivity|].
    unfold rebuild_needed, fmt. cbn. rewrite !append_nil_r.
    destruct ver as [v|]; cbn.
    - destruct (ch_fp objs (get_h' hs h)) eqn:F; cbn; rewrite ?L; cbn;
        try (destruct md; reflexivity).
      match goal with |- context [String.eqb ?x ?y] => destruct (String.eqb x y) end;
        cbn; rewrite ?L; cbn; destruct md; reflexivity.
    - destruct (ch_fp objs (get_h' hs h)); cbn; rewrite ?L; cbn; destruct md; reflexivity.
  Qed.

  Lemma get_set_h : forall hs h c, get_h' (set_h' hs h c) h = c.
  Proof. intros. unfold set_h. cbn. rewrite Nat.eqb_refl. reflexivity. Qed.

  Lemma get_set_h_other : forall hs h h' c, h <> h' -> get_h' (set_h' hs h c) h' = get_h' hs h'.
  Proof.
    intros hs h h' c N. unfold set_h. cbn.
    destruct (Nat.eqb h h') eqn:E; [apply Nat.eqb_eq in E; contradiction|].
    induction hs as [|[k v] hs IH]; cbn; [reflexivity|].
    destruct (Nat.eqb k h) eqn:Ek; cbn.
    - apply Nat.eqb_eq in Ek; subst k. rewrite E. exact IH.
    - destruct (Nat.eqb k h'); [reflexivity|exact IH].
  Qed.

  Arguments get_h : simpl never.
  Arguments set_h : simpl never.
  Arguments fmt : simpl never.

  (* add() against a store that refuses writes *)
  Lemma add_blocked_spec : forall st a dh h md,
    add_blocked' st a dh h md =
    match lookup a (ms_sources _ st) with
    | Some _ => (st, ExistingSource)
    | None =>
      if rebuild_needed (dh_version _ dh) (ch_fp _ (get_h' (ms_handlers _ st) h))
      then (mkM objs (ms_sources _ st) (ms_default _ st) (ms_handlers _ st) (S (ms_builds _ st)), WriteFailed)
      else add_result st a dh h md
    end.
  Proof.
    intros st a dh h md. unfold add_blocked. rewrite add_spec.
    destruct (lookup a (ms_sources objs st)); [reflexivity|].
    unfold add_result. destruct (rebuild_needed _ _); reflexivity.
  Qed.

  (* ---- C17 ---- *)

  Theorem rebuild_iff_p : forall st a dh h md,
    lookup a (ms_sources _ st) = None ->
    (snd (add' st a dh h md) = Added true <->
     dh_version _ dh = None \/
     ch_fp _ (get_h' (ms_handlers _ st) h) <> JStr (fmt (dh_version _ dh))).
  Proof.
    intros st a dh h md L. rewrite add_spec, L. unfold add_result. cbn [snd fst]. unfold rebuild_needed.
    destruct (dh_version data dh) as [v|].
    - destruct (fp_is _ _) eqn:F; cbn.
      + apply fp_is_spec in F. split; [discriminate|]. intros [H|H]; [discriminate|contradiction].
      + split; [|reflexivity]. intros _. right. intros E. apply fp_is_spec in E. unfold fmt in *. cbn in *. congruence.
    - split; auto.
  Qed.

  Theorem rebuild_counts_p : forall st a dh h md,
    lookup a (ms_sources _ st) = None ->
    ms_builds _ (fst (add' st a dh h md)) =
    (if rebuild_needed (dh_version _ dh) (ch_fp _ (get_h' (ms_handlers _ st) h))
     then S (ms_builds _ st) else ms_builds _ st) /\
    snd (add' st a dh h md) =
    Added (rebuild_needed (dh_version _ dh) (ch_fp _ (get_h' (ms_handlers _ st) h))).
  Proof. intros st a dh h md L. rewrite add_spec, L. split; reflexivity. Qed.

  Theorem after_add_current_p : forall st a dh h md st' rb,
    lookup a (ms_sources _ st) = None ->
    add' st a dh h md = (st', Added rb) ->
    let c := get_h' (ms_handlers _ st') h in
    ch_fp _ c = JStr (fmt (dh_version _ dh)) /\
    (rb = true -> ch_cont _ c = Some (build (dh_data _ dh)) /\
                  ch_file _ c = Some (JStr (fmt (dh_version _ dh)), build (dh_data _ dh))) /\
    (rb = false -> c = get_h' (ms_handlers _ st) h /\ dh_version _ dh <> None) /\
    get objs st' a = Some (a, h).
  Proof.
    intros st a dh h md st' rb L H. rewrite add_spec, L in H. unfold add_result in H.
    inversion H; subst; clear H. cbn.
    split; [|split; [|split]].
    - unfold rebuild_needed. destruct (dh_version data dh) as [v|].
      + destruct (fp_is _ _) eqn:F; cbn.
        * apply fp_is_spec in F. exact F.
        * rewrite get_set_h. reflexivity.
      + cbn. rewrite get_set_h. reflexivity.
    - intros E. rewrite E. rewrite get_set_h. split; reflexivity.
    - intros E. rewrite E. split; [reflexivity|].
      unfold rebuild_needed in E. destruct (dh_version data dh); [discriminate|discriminate].
    - unfold get. cbn [ms_sources]. etransitivity; [apply lookup_app_none; exact L|]. rewrite String.eqb_refl. reflexivity.
  Qed.

  (* memory fingerprint and persisted fingerprint agree (what C15/C16 give for
     a real handler: written = served; loaded = complete or empty) *)
  Definition coherent (c : chandler objs) : Prop :=
    match ch_file _ c with Some (fp, _) => ch_fp _ c = fp | None => ch_fp _ c = JNull end.

  Lemma reopen_fp : forall c, coherent c -> ch_fp _ (ch_reopen objs c) = ch_fp _ c.
  Proof. intros [fp ct [[f o]|]]; unfold coherent, ch_reopen; cbn; congruence. Qed.

  Theorem second_add_no_rebuild_p : forall st a dh h md st1 rb v,
    dh_version _ dh = Some v ->
    lookup a (ms_sources _ st) = None ->
    add' st a dh h md = (st1, Added rb) ->
    forall a2 dh2 md2,
      dh_version _ dh2 = Some v ->
      let st2 := fst (remove objs st1 a) in
      lookup a2 (ms_sources _ st2) = None ->
      (* the same handler object *)
      snd (add' st2 a2 dh2 h md2) = Added false /\
      ms_builds _ (fst (add' st2 a2 dh2 h md2)) = ms_builds _ st1 /\
      (* a new handler object h2 opened on the same file *)
      (forall h2 st2',
          (rb = true \/ coherent (get_h' (ms_handlers _ st) h)) ->
          ms_sources _ st2' = ms_sources _ st2 ->
          get_h' (ms_handlers _ st2') h2 = ch_reopen objs (get_h' (ms_handlers _ st1) h) ->
          snd (add' st2' a2 dh2 h2 md2) = Added false).
  Proof.
    intros st a dh h md st1 rb v V L H a2 dh2 md2 V2 st2 L2.
    destruct (after_add_current_p st a dh h md st1 rb L H) as (Hfp & Hrb & Hnrb & Hget).
    assert (Hh : ms_handlers _ st2 = ms_handlers _ st1 /\ ms_builds _ st2 = ms_builds _ st1).
    { unfold st2, remove. destruct (lookup a (ms_sources objs st1)); split; reflexivity. }
    destruct Hh as [Hh Hb].
    assert (R : rebuild_needed (Some v) (JStr (fmt (Some v))) = false).
    { unfold rebuild_needed, fp_is. rewrite String.eqb_refl. reflexivity. }
    split; [|split].
    - rewrite add_spec, L2. cbn. rewrite Hh, Hfp, V, V2. rewrite R. reflexivity.
    - rewrite add_spec, L2. cbn. rewrite Hh, Hfp, V, V2. rewrite R. exact Hb.
    - intros h2 st2' Hc Hs Hre. rewrite add_spec, Hs, L2. cbn. rewrite Hre, V2.
      assert (C1 : coherent (get_h' (ms_handlers _ st1) h)).
      { destruct Hc as [E|C].
        - destruct (Hrb E) as [_ Hf]. unfold coherent. rewrite Hf. exact Hfp.
        - destruct rb.
          + destruct (Hrb eq_refl) as [_ Hf]. unfold coherent. rewrite Hf. exact Hfp.
          + destruct (Hnrb eq_refl) as [E _]. rewrite E. exact C. }
      rewrite (reopen_fp _ C1), Hfp, V. rewrite R. reflexivity.
  Qed.

  Theorem alias_unique_p : forall st a dh h md,
    lookup a (ms_sources _ st) <> None ->
    add' st a dh h md = (st, ExistingSource).
  Proof.
    intros st a dh h md L. rewrite add_spec.
    destruct (lookup a (ms_sources objs st)); [reflexivity|contradiction].
  Qed.

  Theorem default_only_on_request_p : forall st o,
    ms_default _ (fst (step' st o)) =
    match o with
    | OAdd _ a _ h true =>
      match lookup a (ms_sources _ st) with None => Some (a, h) | Some _ => ms_default _ st end
    | OAddBlocked _ a dh h true =>
      match lookup a (ms_sources _ st) with
      | None => if rebuild_needed (dh_version _ dh) (ch_fp _ (get_h' (ms_handlers _ st) h))
                then ms_default _ st else Some (a, h)
      | Some _ => ms_default _ st
      end
    | _ => ms_default _ st
    end.
  Proof.
    intros st [a dh h md|a dh h md|a|a|]; unfold step; try reflexivity.
    - rewrite add_spec. unfold add_result.
      destruct (lookup a (ms_sources objs st)); cbn [fst ms_default]; destruct md; reflexivity.
    - rewrite add_blocked_spec. unfold add_result.
      destruct (lookup a (ms_sources objs st)); cbn [fst ms_default]; [destruct md; reflexivity|].
      destruct (rebuild_needed _ _); cbn [fst ms_default]; destruct md; reflexivity.
    - unfold remove. destruct (lookup a (ms_sources objs st)); reflexivity.
  Qed.

  (* ---- refinement to a finite map alias -> source ---- *)

  Definition abs (st : mstate) : string -> option source := fun a => lookup a (ms_sources _ st).

  Definition Inv (st : mstate) : Prop :=
    NoDup (map fst (ms_sources _ st)) /\
    forall a s, In (a, s) (ms_sources _ st) -> fst s = a.

  Theorem get_refines : forall st a, get objs st a = abs st a.
  Proof. reflexivity. Qed.

  Theorem add_refines : forall st a dh h md,
    abs st a = None ->
    snd (add' st a dh h md) <> ExistingSource /\
    forall b, abs (fst (add' st a dh h md)) b = if String.eqb a b then Some (a, h) else abs st b.
  Proof.
    intros st a dh h md L. unfold abs in *. rewrite add_spec, L. cbn. split; [discriminate|].
    intros b. apply lookup_app_none. exact L.
  Qed.

  Theorem add_existing_refines : forall st a dh h md,
    abs st a <> None ->
    snd (add' st a dh h md) = ExistingSource /\ fst (add' st a dh h md) = st.
  Proof. intros. rewrite alias_unique_p by assumption. split; reflexivity. Qed.

  Theorem remove_refines : forall st a,
    snd (remove objs st a) = (match abs st a with Some _ => true | None => false end) /\
    forall b, abs (fst (remove objs st a)) b = if String.eqb a b then None else abs st b.
  Proof.
    intros st a. unfold abs, remove. destruct (lookup a (ms_sources objs st)) eqn:L; cbn.
    - split; [reflexivity|]. intros b. apply lookup_filter.
    - split; [reflexivity|]. intros b. destruct (String.eqb a b) eqn:E; [|reflexivity].
      apply String.eqb_eq in E; subst b. exact L.
  Qed.

  Theorem list_refines : forall st, Inv st ->
    NoDup (list_aliases objs st) /\
    forall a, In a (list_aliases objs st) <-> abs st a <> None.
  Proof.
    intros st [N _]. split; [exact N|]. intros a. unfold abs, list_aliases.
    symmetry. apply lookup_in.
  Qed.

  Lemma NoDup_filter_fst : forall {V} (f : string * V -> bool) (d : list (string * V)),
    NoDup (map fst d) -> NoDup (map fst (filter f d)).
  Proof.
    induction d as [|[k v] d IH]; cbn; intros N; [constructor|].
    inversion N; subst. destruct (f (k, v)); cbn; [|auto].
    constructor; [|auto]. intros I. apply H1. apply in_map_iff in I as [[k' v'] [E I]].
    cbn in E; subst k'. apply filter_In in I as [I _]. apply in_map_iff. exists (k, v'). auto.
  Qed.

  Lemma step_inv : forall st o, Inv st -> Inv (fst (step' st o)).
  Proof.
    intros st [a dh h md|a dh h md|a|a|] [N F]; unfold step; try (split; assumption).
    - rewrite add_spec. unfold add_result.
      destruct (lookup a (ms_sources objs st)) eqn:L; cbn [fst]; [split; assumption|].
      split; cbn [ms_sources].
      + rewrite map_app. cbn [map fst]. apply NoDup_app_snoc; [exact N|].
        intros I. apply lookup_in in I. contradiction.
      + intros b s0 I. apply in_app_or in I as [I|[I|[]]]; [eauto|]. inversion I; reflexivity.
    - rewrite add_blocked_spec. unfold add_result.
      destruct (lookup a (ms_sources objs st)) eqn:L; cbn [fst]; [split; assumption|].
      destruct (rebuild_needed _ _); cbn [fst]; [split; assumption|].
      split; cbn [ms_sources].
      + rewrite map_app. cbn [map fst]. apply NoDup_app_snoc; [exact N|].
        intros I. apply lookup_in in I. contradiction.
      + intros b s0 I. apply in_app_or in I as [I|[I|[]]]; [eauto|]. inversion I; reflexivity.
    - unfold remove. destruct (lookup a (ms_sources objs st)); cbn [fst]; [|split; assumption].
      split; cbn [ms_sources]; [apply NoDup_filter_fst; exact N|].
      intros b s0 I. apply filter_In in I as [I _]. eauto.
  Qed.

  Lemma init_inv : Inv (init objs).
  Proof. split; [constructor|intros a s []]. Qed.

  (* for ALL sequences of operations *)
  Theorem run_inv : forall ops st, Inv st -> Inv (fst (run' st ops)).
  Proof.
    induction ops as [|o ops IH]; intros st I; cbn; [exact I|].
    pose proof (step_inv st o I) as I1.
    destruct (step' st o) as [st1 b]. cbn in I1.
    pose proof (IH st1 I1) as I2. destruct (run' st1 ops) as [st2 bs]. exact I2.
  Qed.

  (* C16 x C17: an empty handler (no fingerprint) always triggers a rebuild *)
  Theorem rebuilds_on_empty_p : forall st a dh h md,
    lookup a (ms_sources _ st) = None ->
    ch_fp _ (get_h' (ms_handlers _ st) h) = JNull ->
    snd (add' st a dh h md) = Added true.
  Proof.
    intros st a dh h md L E. apply rebuild_iff_p; [exact L|].
    right. rewrite E. discriminate.
  Qed.
  (* a refused write fails the whole call: no source, no default, no handler changed - only the builder ran;
     and the retried call does exactly what the first one would have done on a writable store *)
  Theorem blocked_add_fails_whole_p : forall st a dh h md,
    snd (add_blocked' st a dh h md) = WriteFailed ->
    let st' := fst (add_blocked' st a dh h md) in
    ms_sources _ st' = ms_sources _ st /\ ms_default _ st' = ms_default _ st /\
    ms_handlers _ st' = ms_handlers _ st /\ ms_builds _ st' = S (ms_builds _ st) /\
    snd (add' st a dh h md) = Added true.
  Proof.
    intros st a dh h md. rewrite add_blocked_spec, add_spec.
    destruct (lookup a (ms_sources objs st)); cbn [snd]; [discriminate|].
    unfold add_result. destruct (rebuild_needed _ _); cbn [fst snd]; [|discriminate].
    intros _. repeat split; reflexivity.
  Qed.

  Theorem retry_after_blocked_add_p : forall st a dh h md,
    snd (add_blocked' st a dh h md) = WriteFailed ->
    let st1 := fst (add_blocked' st a dh h md) in
    snd (add' st1 a dh h md) = Added true /\
    ms_sources _ (fst (add' st1 a dh h md)) = ms_sources _ (fst (add' st a dh h md)) /\
    ms_default _ (fst (add' st1 a dh h md)) = ms_default _ (fst (add' st a dh h md)) /\
    ms_handlers _ (fst (add' st1 a dh h md)) = ms_handlers _ (fst (add' st a dh h md)).
  Proof.
    intros st a dh h md. rewrite add_blocked_spec.
    destruct (lookup a (ms_sources objs st)) eqn:L; cbn [snd]; [discriminate|].
    destruct (rebuild_needed _ _) eqn:R; cbn [fst snd]; [|unfold add_result; rewrite R; discriminate].
    intros _. rewrite !add_spec. cbn [ms_sources]. rewrite L. unfold add_result. cbn [ms_handlers ms_sources ms_default ms_builds].
    rewrite R. cbn [fst snd]. repeat split; reflexivity.
  Qed.

  (* a store that refuses writes matters only when add() has to write *)
  Theorem blocked_add_without_rebuild_p : forall st a dh h md,
    snd (add_blocked' st a dh h md) <> WriteFailed -> add_blocked' st a dh h md = add' st a dh h md.
  Proof.
    intros st a dh h md. unfold add_blocked. destruct (add' st a dh h md) as [st' [[|]| | |]]; cbn [snd]; congruence.
  Qed.
End MgrProofs.
