(* Container operations on the base world: a raising rack / set operation did
   nothing at all (no state change, no publication); successful rack
   operations realise the documented list-with-holes behaviour. *)
From Coq Require Import ZArith List Bool Lia Permutation.
From EosV Require Import lib.AList model.World model.Ops proofs.AList_p proofs.Rack_p proofs.Frame_p.
Import ListNotations.

(* fuelled functions with closed fuel must never be unfolded by hnf/simpl *)
Opaque add_item remove_item load unload.

Definition has_fit (w : world) (f : nat) : Prop := exists ft, get_fit w f = Some ft.

Lemma set_fits_id w : set_fits w (w_fits w) = w.
Proof. destruct w; reflexivity. Qed.

Lemma fit_set_rack_id ft k : fit_set_rack ft k (fit_rack ft k) = ft.
Proof. destruct ft, k; reflexivity. Qed.
Lemma fit_rack_set ft k l : fit_rack (fit_set_rack ft k l) k = l.
Proof. destruct ft, k; reflexivity. Qed.
Lemma fit_set_setc_id ft k : fit_set_setc ft k (fit_setc ft k) = ft.
Proof. destruct ft, k; reflexivity. Qed.
Lemma fit_set_skillmap_id ft : fit_set_skillmap ft (f_skillmap ft) = ft.
Proof. destruct ft; reflexivity. Qed.
Lemma fit_set_rack_twice ft k l l' : fit_set_rack (fit_set_rack ft k l) k l' = fit_set_rack ft k l'.
Proof. destruct ft, k; reflexivity. Qed.

Lemma put_rack_same w f k : has_fit w f -> put_rack w f k (get_rack w f k) = w.
Proof.
  intros [ft H]. unfold put_rack, get_rack, upd_fit. rewrite H.
  rewrite fit_set_rack_id. unfold put_fit, get_fit in *. rewrite al_set_get_id by exact H.
  apply set_fits_id.
Qed.

Lemma get_rack_put w f k l : has_fit w f -> get_rack (put_rack w f k l) f k = l.
Proof.
  intros [ft H]. unfold put_rack, get_rack, upd_fit. rewrite H.
  unfold put_fit, get_fit. simpl. rewrite al_get_set_same. apply fit_rack_set.
Qed.

Lemma st_eta (s : st) : (fst s, snd s) = s.
Proof. destruct s; reflexivity. Qed.

Lemma set_rack_same s f k l : has_fit (fst s) f -> l = get_rack (fst s) f k -> set_rack s f k l = s.
Proof.
  intros H ->. unfold set_rack, lift. rewrite put_rack_same by exact H. apply st_eta.
Qed.

(* ------------------------------------------------------------------ *)
(* raising rack operations: nothing happened                           *)

Theorem rack_append_raise s f k i x s' : rack_append s f k i = (s', RExn x) -> s' = s.
Proof.
  unfold rack_append. destruct (cls_of (fst s) i) as [c|]; [|congruence].
  destruct (rack_accepts k c); cbn [negb]; [|congruence].
  destruct (has_container (fst s) i); congruence.
Qed.

Theorem rack_insert_raise s f k idx v x s' :
  has_fit (fst s) f -> no_trailing_hole (get_rack (fst s) f k) ->
  rack_insert s f k idx v = (s', RExn x) -> s' = s.
Proof.
  intros Hf Hn. unfold rack_insert.
  match goal with |- context[negb ?b] => destruct b end; cbn [negb]; [|congruence].
  destruct v as [i|]; [|congruence].
  destruct (has_container (fst s) i); [|congruence].
  intros [= <- _]. apply set_rack_same; [exact Hf|]. now apply allocate_cleanup.
Qed.

Lemma nth_error_allocate_hole l idx n :
  (length l <= n)%nat -> (n < length (allocate l idx))%nat -> nth_error (allocate l idx) n = Some None.
Proof.
  unfold allocate. intros H1 H2. rewrite nth_error_app2 by exact H1.
  rewrite app_length, repeat_length in H2.
  set (k := Z.to_nat _) in *. assert (L : (n - length l < k)%nat) by lia.
  revert L. generalize (n - length l)%nat. clear. intros m.
  revert m. induction k as [|k IH]; intros [|m] L; simpl; try lia; auto. apply IH. lia.
Qed.

Theorem rack_place_raise s f k idx i x s' :
  has_fit (fst s) f -> no_trailing_hole (get_rack (fst s) f k) ->
  rack_place s f k idx i = (s', RExn x) -> s' = s.
Proof.
  intros Hf Hn. unfold rack_place.
  destruct (cls_of (fst s) i) as [c|]; [|congruence].
  destruct (rack_accepts k c); cbn [negb]; [|congruence].
  set (l := get_rack (fst s) f k) in *.
  destruct (norm_index (length l) idx) as [n|] eqn:En.
  - destruct (nth_error l n) as [[j|]|] eqn:Ej; [congruence| |].
    + destruct (has_container (fst s) i); [|congruence].
      intros [= <- _]. apply set_rack_same; [exact Hf|].
      rewrite list_set_id by exact Ej. now apply cleanup_fixed.
    + apply norm_index_bound in En. apply nth_error_None in Ej. lia.
  - destruct (norm_index (length (allocate l idx)) idx) as [n|] eqn:En'; [|congruence].
    destruct (has_container (fst s) i); [|congruence].
    intros [= <- _]. apply set_rack_same; [exact Hf|].
    assert (Hlen : (length l <= n)%nat).
    { (* idx was out of range for l and is in range after padding *)
      unfold norm_index in En, En'.
      set (len := length l) in *. set (len' := length (allocate l idx)) in *.
      assert (len <= len')%nat by (subst len len'; unfold allocate; rewrite app_length; lia).
      destruct (idx <? 0)%Z eqn:Z0.
      - (* negative index: no padding, so it stays out of range *)
        exfalso. assert (len' = len).
        { subst len len'. unfold allocate. rewrite app_length, repeat_length.
          apply Z.ltb_lt in Z0. lia. }
        rewrite H0 in En'. rewrite En in En'. discriminate.
      - destruct ((0 <=? idx)%Z && (idx <? Z.of_nat len)%Z) eqn:B; [discriminate|].
        destruct ((0 <=? idx)%Z && (idx <? Z.of_nat len')%Z) eqn:B'; [|discriminate].
        injection En' as <-. apply andb_true_iff in B'. apply andb_false_iff in B.
        apply Z.ltb_ge in Z0. destruct B as [B|B]; [apply Z.leb_gt in B; lia|].
        apply Z.ltb_ge in B. lia. }
    rewrite list_set_id by (apply nth_error_allocate_hole; [exact Hlen|now apply norm_index_bound in En']).
    now apply allocate_cleanup.
Qed.

Theorem rack_equip_raise s f k i x s' :
  has_fit (fst s) f -> no_trailing_hole (get_rack (fst s) f k) ->
  rack_equip s f k i = (s', RExn x) -> s' = s.
Proof.
  intros Hf Hn. unfold rack_equip.
  destruct (cls_of (fst s) i) as [c|]; [|congruence].
  destruct (rack_accepts k c); cbn [negb]; [|congruence].
  set (l := get_rack (fst s) f k) in *.
  destruct (equip_list l i) as [l1 n] eqn:E.
  destruct (has_container (fst s) i); [|congruence].
  intros [= <- _]. apply set_rack_same; [exact Hf|].
  unfold equip_list in E. destruct (find_index is_hole l) as [m|] eqn:Fi.
  - injection E as <- <-. rewrite list_set_set.
    destruct (equip_first_hole l i m Fi) as (_ & Hm & _).
    rewrite list_set_id by exact Hm. now apply cleanup_fixed.
  - injection E as <- <-. rewrite list_set_app_end.
    change (l ++ [None]) with (l ++ repeat None 1).
    pose proof (allocate_cleanup l (Z.of_nat (length l)) Hn) as A.
    unfold allocate in A. replace (Z.to_nat _) with 1%nat in A by lia. exact A.
Qed.

Theorem rack_remove_raise s f k a x s' : rack_remove s f k a = (s', RExn x) -> s' = s.
Proof.
  unfold rack_remove. destruct (rack_locate _ a) as [[n v]|e]; [|congruence].
  destruct v; congruence.
Qed.

Theorem rack_free_raise s f k a x s' : rack_free s f k a = (s', RExn x) -> s' = s.
Proof.
  unfold rack_free. destruct (rack_locate _ a) as [[n [i|]]|e]; congruence.
Qed.

(* ------------------------------------------------------------------ *)
(* raising set operations                                              *)

Lemma put_setc_same w f k : has_fit w f -> put_setc w f k (get_setc w f k) = w.
Proof.
  intros [ft H]. unfold put_setc, get_setc, upd_fit. rewrite H.
  rewrite fit_set_setc_id. unfold put_fit, get_fit in *. rewrite al_set_get_id by exact H.
  apply set_fits_id.
Qed.

Lemma fit_setc_set ft k l : fit_setc (fit_set_setc ft k l) k = l.
Proof. destruct ft, k; reflexivity. Qed.
Lemma fit_set_setc_twice ft k l l' : fit_set_setc (fit_set_setc ft k l) k l' = fit_set_setc ft k l'.
Proof. destruct ft, k; reflexivity. Qed.

Lemma put_setc_twice w f k l l' : has_fit w f -> put_setc (put_setc w f k l) f k l' = put_setc w f k l'.
Proof.
  intros [ft H]. unfold put_setc, upd_fit. rewrite H.
  unfold get_fit, put_fit. simpl. rewrite al_get_set_same. rewrite fit_set_setc_twice.
  unfold set_fits. simpl. now rewrite al_set_set.
Qed.

Lemma get_setc_put w f k l : has_fit w f -> get_setc (put_setc w f k l) f k = l.
Proof.
  intros [ft H]. unfold put_setc, get_setc, upd_fit. rewrite H.
  unfold put_fit, get_fit. simpl. rewrite al_get_set_same. apply fit_setc_set.
Qed.

Theorem itemset_add_raise s f k i x s' :
  has_fit (fst s) f -> itemset_add s f k i = (s', RExn x) -> s' = s.
Proof.
  intros Hf. unfold itemset_add.
  destruct (cls_of (fst s) i) as [c|]; [|congruence].
  destruct (set_accepts k c); cbn [negb]; [|congruence].
  destruct (has_container (fst s) i); [|congruence].
  destruct (mem neqb (get_setc (fst s) f k) i) eqn:M; intros [= <- _].
  - unfold lift. simpl. rewrite set_add_present by exact M.
    rewrite put_setc_same by exact Hf. apply st_eta.
  - unfold lift. simpl. rewrite get_setc_put by exact Hf.
    rewrite put_setc_twice by exact Hf. rewrite set_rm_add_absent by exact M.
    rewrite put_setc_same by exact Hf. apply st_eta.
Qed.

Theorem set_remove_raise s f k i x s' : set_remove_op s f k i = (s', RExn x) -> s' = s.
Proof.
  unfold set_remove_op. destruct (mem neqb _ i); cbn [negb]; [|congruence].
  destruct k; try congruence.
  match goal with |- context[get_item ?w i] => destruct (get_item w i) end; congruence.
Qed.

Theorem skill_del_raise s f tid x s' : skill_del_op s f tid = (s', RExn x) -> s' = s.
Proof.
  unfold skill_del_op. destruct (al_get zeqb _ tid); [apply set_remove_raise|congruence].
Qed.

(* ------------------------------------------------------------------ *)
(* successful rack operations: what the rack looks like afterwards      *)

Lemma get_rack_add_item n s i p f k : get_rack (fst (add_item n s i p)) f k = get_rack (fst s) f k.
Proof. unfold get_rack, get_fit. now rewrite fits_add_item. Qed.
Lemma get_rack_remove_item n s i f k : get_rack (fst (remove_item n s i)) f k = get_rack (fst s) f k.
Proof. unfold get_rack, get_fit. now rewrite fits_remove_item. Qed.
Lemma has_fit_remove_item n s i f : has_fit (fst s) f -> has_fit (fst (remove_item n s i)) f.
Proof. unfold has_fit, get_fit. now rewrite fits_remove_item. Qed.

Lemma get_rack_set_rack s f k l : has_fit (fst s) f -> get_rack (fst (set_rack s f k l)) f k = l.
Proof. intros H. unfold set_rack, lift. simpl. now apply get_rack_put. Qed.

Theorem rack_append_ok s f k i s' :
  has_fit (fst s) f -> rack_append s f k i = (s', ROk) ->
  get_rack (fst s') f k = get_rack (fst s) f k ++ [Some i].
Proof.
  intros Hf. unfold rack_append.
  destruct (cls_of (fst s) i) as [c|]; [|congruence].
  destruct (rack_accepts k c); cbn [negb]; [|congruence].
  destruct (has_container (fst s) i); [congruence|].
  intros [= <-]. rewrite get_rack_add_item. now apply get_rack_set_rack.
Qed.

Theorem rack_insert_ok s f k idx v s' :
  has_fit (fst s) f -> rack_insert s f k idx v = (s', ROk) ->
  get_rack (fst s') f k =
  match v with
  | Some i => ins_list (get_rack (fst s) f k) idx (Some i)
  | None => cleanup (ins_list (get_rack (fst s) f k) idx None)
  end.
Proof.
  intros Hf. unfold rack_insert.
  match goal with |- context[negb ?b] => destruct b end; cbn [negb]; [|congruence].
  destruct v as [i|].
  - destruct (has_container (fst s) i); [congruence|].
    intros [= <-]. rewrite get_rack_add_item. now apply get_rack_set_rack.
  - intros [= <-]. now apply get_rack_set_rack.
Qed.

Theorem rack_equip_ok s f k i s' :
  has_fit (fst s) f -> rack_equip s f k i = (s', ROk) ->
  get_rack (fst s') f k = fst (equip_list (get_rack (fst s) f k) i).
Proof.
  intros Hf. unfold rack_equip.
  destruct (cls_of (fst s) i) as [c|]; [|congruence].
  destruct (rack_accepts k c); cbn [negb]; [|congruence].
  destruct (equip_list _ i) as [l1 n].
  destruct (has_container (fst s) i); [congruence|].
  intros [= <-]. rewrite get_rack_add_item. now apply get_rack_set_rack.
Qed.

Theorem rack_remove_ok s f k a s' :
  has_fit (fst s) f -> rack_remove s f k a = (s', ROk) ->
  exists n v, rack_locate (get_rack (fst s) f k) a = inl (n, v) /\
              get_rack (fst s') f k = cleanup (list_del (get_rack (fst s) f k) n).
Proof.
  intros Hf. unfold rack_remove.
  destruct (rack_locate _ a) as [[n v]|e] eqn:L; [|congruence].
  intros [= <-]. exists n, v. split; [reflexivity|].
  destruct v as [i|].
  - rewrite get_rack_set_rack by (now apply has_fit_remove_item).
    now rewrite get_rack_remove_item.
  - now rewrite get_rack_set_rack.
Qed.

(* every rack operation leaves a rack without trailing holes *)
Theorem rack_remove_no_trailing s f k a s' :
  has_fit (fst s) f -> rack_remove s f k a = (s', ROk) -> no_trailing_hole (get_rack (fst s') f k).
Proof.
  intros Hf H. destruct (rack_remove_ok _ _ _ _ _ Hf H) as (n & v & _ & E).
  rewrite E. apply cleanup_no_trailing_hole.
Qed.

Lemma no_trailing_app_item l i : no_trailing_hole (l ++ [Some i]).
Proof. unfold no_trailing_hole. now rewrite rev_app_distr. Qed.

Theorem rack_append_no_trailing s f k i s' :
  has_fit (fst s) f -> rack_append s f k i = (s', ROk) -> no_trailing_hole (get_rack (fst s') f k).
Proof.
  intros Hf H. rewrite (rack_append_ok _ _ _ _ _ Hf H). apply no_trailing_app_item.
Qed.

(* ------------------------------------------------------------------ *)
(* single slots (ItemDescriptor): a rejected assignment restores the slot *)

Lemma fit_set_slot_id ft k : fit_set_slot ft k (fit_slot ft k) = ft.
Proof. destruct ft, k; reflexivity. Qed.
Lemma fit_set_slot_twice ft k a b : fit_set_slot (fit_set_slot ft k a) k b = fit_set_slot ft k b.
Proof. destruct ft, k; reflexivity. Qed.

Lemma fits_lift_upd_fit (s : st) f g :
  w_fits (fst (lift s (fun w => upd_fit w f g))) =
  match al_get neqb (w_fits (fst s)) f with
  | Some ft => al_set neqb (w_fits (fst s)) f (g ft)
  | None => w_fits (fst s)
  end.
Proof.
  unfold lift, upd_fit, get_fit. simpl.
  destruct (al_get neqb (w_fits (fst s)) f); [reflexivity|].
  unfold fail. destruct (w_err (fst s)); reflexivity.
Qed.

Theorem slot_set_raise_fits s f k new x s' :
  slot_set_op s f k new = (s', RExn x) -> w_fits (fst s') = w_fits (fst s).
Proof.
  unfold slot_set_op, descriptor_set.
  destruct (get_fit (fst s) f) as [ft|] eqn:Hft.
  - match goal with |- context[negb ?b] => destruct b end; cbn [negb]; [|congruence].
    destruct (fit_slot ft k) as [o|] eqn:Eo.
    + destruct new as [i|]; [|congruence].
      match goal with |- context[has_container ?w i] => destruct (has_container w i) end; [|congruence].
      intros [= <- _]. rewrite fits_add_item, !fits_lift_upd_fit, fits_remove_item.
      unfold get_fit in Hft. rewrite Hft. rewrite al_get_set_same, al_set_set.
      rewrite fit_set_slot_twice, <- Eo, fit_set_slot_id. now apply al_set_get_id.
    + destruct new as [i|]; [|congruence].
      match goal with |- context[has_container ?w i] => destruct (has_container w i) end; [|congruence].
      intros [= <- _]. rewrite !fits_lift_upd_fit.
      unfold get_fit in Hft. rewrite Hft. rewrite al_get_set_same, al_set_set.
      rewrite fit_set_slot_twice, <- Eo, fit_set_slot_id. now apply al_set_get_id.
  - match goal with |- context[negb ?b] => destruct b end; cbn [negb]; [|congruence].
    destruct new as [i|]; [|congruence].
    match goal with |- context[has_container ?w i] => destruct (has_container w i) end; [|congruence].
    intros [= <- _]. rewrite !fits_lift_upd_fit. unfold get_fit in Hft.
    repeat (rewrite Hft; cbv iota). reflexivity.
Qed.
